(* Generic driver, appended after an extracted model file.
   Expects in scope (from extraction with ExtrOcamlBasic only):
     type positive = XI of positive | XO of positive | XH
     type n = N0 | Npos of positive
     type vl = VN of n | VS of n list | VL of vl list
     val run : vl -> vl
   Reads one value per line on stdin, prints run(value) per line on stdout.
   Line syntax:  v ::= DECIMAL | xHEX | ( v* )                                  *)

module L = Stdlib.List
module S = Stdlib.String
module A = Stdlib.Array
module B = Stdlib.Buffer

let n_of_dec (s : string) : n =
  let d = A.init (S.length s) (fun i -> Stdlib.Char.code s.[i] - 48) in
  let is_zero () = A.for_all (fun x -> x = 0) d in
  let divmod2 () =
    let r = ref 0 in
    A.iteri (fun i x -> let c = !r * 10 + x in d.(i) <- c / 2; r := c mod 2) d;
    !r in
  let bits = ref [] in
  while not (is_zero ()) do bits := divmod2 () :: !bits done;
  match !bits with
  | [] -> N0
  | _ :: rest -> Npos (L.fold_left (fun p b -> if b = 1 then XI p else XO p) XH rest)

let n_of_int (i : int) : n =
  if i = 0 then N0 else
  let rec bits i acc = if i = 0 then acc else bits (i lsr 1) ((i land 1) :: acc) in
  match bits i [] with
  | [] -> N0
  | _ :: rest -> Npos (L.fold_left (fun p b -> if b = 1 then XI p else XO p) XH rest)

(* bits of a positive, most significant first *)
let bits_of_pos (p : positive) : int list =
  let rec go p acc = match p with
    | XH -> 1 :: acc
    | XO q -> go q (0 :: acc)
    | XI q -> go q (1 :: acc) in
  go p []

let int_of_n (x : n) : int =
  match x with
  | N0 -> 0
  | Npos p -> L.fold_left (fun a b -> a * 2 + b) 0 (bits_of_pos p)

let dec_of_n (x : n) : string =
  match x with
  | N0 -> "0"
  | Npos p ->
    let bs = bits_of_pos p in
    if L.length bs <= 60 then Stdlib.string_of_int (int_of_n x) else begin
      (* decimal digits little-endian in a growable array *)
      let d = ref (A.make 1 0) in
      let len = ref 1 in
      let double_add b =
        let carry = ref b in
        for i = 0 to !len - 1 do
          let c = !d.(i) * 2 + !carry in
          !d.(i) <- c mod 10; carry := c / 10
        done;
        if !carry > 0 then begin
          if !len = A.length !d then begin
            let nd = A.make (2 * !len) 0 in
            A.blit !d 0 nd 0 !len; d := nd
          end;
          !d.(!len) <- !carry; incr len
        end in
      L.iter double_add bs;
      let b = B.create !len in
      for i = !len - 1 downto 0 do B.add_char b (Stdlib.Char.chr (48 + !d.(i))) done;
      B.contents b
    end

let hexval c =
  match c with
  | '0'..'9' -> Stdlib.Char.code c - 48
  | 'a'..'f' -> Stdlib.Char.code c - 87
  | 'A'..'F' -> Stdlib.Char.code c - 55
  | _ -> failwith "bad hex"

(* small-N cache for bytes *)
let byte_tab = A.init 256 n_of_int

let parse_line (s : string) : vl =
  let len = S.length s in
  let pos = ref 0 in
  let skip () = while !pos < len && (s.[!pos] = ' ' || s.[!pos] = '\t' || s.[!pos] = '\r') do incr pos done in
  let rec value () : vl =
    skip ();
    if !pos >= len then failwith "eof" else
    match s.[!pos] with
    | '(' ->
      incr pos;
      let items = ref [] in
      let fin = ref false in
      while not !fin do
        skip ();
        if !pos >= len then failwith "unclosed";
        if s.[!pos] = ')' then (incr pos; fin := true)
        else items := value () :: !items
      done;
      VL (L.rev !items)
    | 'x' ->
      incr pos;
      let st = !pos in
      while !pos < len && (match s.[!pos] with '0'..'9' | 'a'..'f' | 'A'..'F' -> true | _ -> false) do incr pos done;
      let h = S.sub s st (!pos - st) in
      let nb = S.length h / 2 in
      VS (L.init nb (fun i -> byte_tab.(hexval h.[2*i] * 16 + hexval h.[2*i+1])))
    | '0'..'9' ->
      let st = !pos in
      while !pos < len && (match s.[!pos] with '0'..'9' -> true | _ -> false) do incr pos done;
      let t = S.sub s st (!pos - st) in
      if S.length t <= 17 then VN (n_of_int (Stdlib.int_of_string t)) else VN (n_of_dec t)
    | c -> failwith (Stdlib.Printf.sprintf "bad char %c at %d" c !pos)
  in
  value ()

let rec print_val (b : B.t) (v : vl) : unit =
  match v with
  | VN x -> B.add_string b (dec_of_n x)
  | VS bs ->
    B.add_char b 'x';
    L.iter (fun x -> B.add_string b (Stdlib.Printf.sprintf "%02x" ((int_of_n x) land 255))) bs
  | VL l ->
    B.add_char b '(';
    L.iteri (fun i x -> if i > 0 then B.add_char b ' '; print_val b x) l;
    B.add_char b ')'

let () =
  let b = B.create 65536 in
  (try
     while true do
       let line = Stdlib.input_line Stdlib.stdin in
       if S.length line > 0 then begin
         B.clear b;
         (try print_val b (run (parse_line line))
          with Stdlib.Failure m -> (B.clear b; B.add_string b ("!driver-error " ^ m))
             | Stdlib.Stack_overflow -> (B.clear b; B.add_string b "!driver-error stack-overflow"));
         Stdlib.print_string (B.contents b);
         Stdlib.print_char '\n';
         Stdlib.flush Stdlib.stdout
       end
     done
   with Stdlib.End_of_file -> ());
  Stdlib.flush Stdlib.stdout
