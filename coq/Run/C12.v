(* C12 — decode a case, run the model, encode the observable (the output bytes). *)
From L4 Require Import Common.Val Model.Json.
Local Open Scope N_scope.

(* case: ( level pieces module file line target thread mdc time thread_id )
   level 1..5; pieces: ( str ... ) concatenated = the message text;
   module/file/thread: () absent | ( str ); line: () | ( n );
   mdc: ( (key value) ... ) in log_mdc's iteration order; time: str; thread_id: n *)
Definition dec_level (n : N) : option level :=
  match n with
  | 1 => Some Error | 2 => Some Warn | 3 => Some Info | 4 => Some Debug | 5 => Some Trace
  | _ => None
  end.

Definition dec_opt {A} (f : vl -> option A) (v : vl) : option (option A) :=
  match v with
  | VL [] => Some None
  | VL [x] => match f x with Some y => Some (Some y) | None => None end
  | _ => None
  end.

Definition dec_kv (v : vl) : option (list N * list N) :=
  match v with
  | VL [VS k; VS x] => Some (k, x)
  | _ => None
  end.

Definition c12_run (v : vl) : vl :=
  match v with
  | VL [VN lv; pieces; mo; fi; li; VS tgt; th; mdc; VS time; VN tid] =>
    match dec_level lv, val_list val_S pieces, dec_opt val_S mo, dec_opt val_S fi,
          dec_opt val_N li, dec_opt val_S th, val_list dec_kv mdc with
    | Some lv', Some ps, Some mo', Some fi', Some li', Some th', Some mdc' =>
      VS (encode_record {| r_time := time; r_level := lv'; r_message := concat ps;
                           r_module := mo'; r_file := fi'; r_line := li'; r_target := tgt;
                           r_thread := th'; r_thread_id := tid; r_mdc := mdc' |})
    | _, _, _, _, _, _, _ => VBad
    end
  | _ => VBad
  end.
