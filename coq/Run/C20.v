(* C20 — decode a case, run the model, encode the observable. *)
From L4 Require Import Common.Val Model.Literals Model.LiteralVisitors.
Local Open Scope N_scope.

(* case: ( kind form payload fmt )   kind 0 size | 1 interval | 2 refresh_rate (humantime: not
   modelled, the result is the constant (2) and the check compares the crate with humantime itself)
   form 0: payload = Z value (integer scalar); form 1: float scalar (payload ignored);
   form 2/3: payload = list of code points (string scalar; 3 = written as a plain YAML scalar);
   form 4: payload = ( Z text ) an integer scalar in an alternative YAML spelling (+5, 0x10, 0o17):
   the front-end hands the visitor the integer Z *)
Definition dec_scalar (form : N) (p : vl) : option scalar :=
  match form with
  | 0 => match val_Z p with Some z => Some (SInt z) | None => None end
  | 1 => Some SFloat
  | 4 => match p with
         | VL [z; VS _] => match val_Z z with Some z => Some (SInt z) | None => None end
         | _ => None
         end
  | _ => match val_list val_N p with Some s => Some (SStr s) | None => None end
  end.

Definition unit_idx (u : iunit) : N :=
  match u with Second => 0 | Minute => 1 | Hour => 2 | Day => 3 | Week => 4 | Month => 5 | Year => 6 end.

Definition c20_run (v : vl) : vl :=
  match v with
  | VL [VN kind; VN form; p; VN fmt] =>
    match dec_scalar form p with
    | None => VBad
    | Some sc =>
      (* an integer scalar goes through the front-end's choice of visitor method (fmt 0 serde_yaml, 1 serde_json,
         2 toml: Model/LiteralVisitors.v); strings and floats as before *)
      let fe := if fmt =? 2 then Toml else if fmt =? 1 then Json else Yaml in
      if kind =? 2 then VL [VN 2] else
      if kind =? 0 then
        match (match sc with SInt z => size_of_int fe z | _ => parse_size sc end) with
        | Some n => VL [VN 1; VN n] | None => VL [VN 0] end
      else
        match (match sc with SInt z => interval_of_int fe z | _ => parse_interval sc end) with
        | Some (u, n) => VL [VN 1; VN (unit_idx u); VN n]
        | None => VL [VN 0]
        end
    end
  | _ => VBad
  end.
