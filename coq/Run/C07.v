(* C07 — decode a case, run the model, encode the observable.
   case: ( kind b c gz pattern ( (envname envvalue) ... ) file ( (path bytes) ... ) ( op ... ) )
     kind: 0 FixedWindowRoller, 1 DeleteRoller;  gz: 1 when the pattern's extension is "gz"
     op:   (0) call roll on the file as it is | (1 bytes) write the file, then roll
   result: "panic" | ( (status ( (path bytes) ... )) ... )   one entry per op,
     status 0 = Ok, 1 = Err; listing = all regular files after the op.
   A gzip archive is reported by the harness as 0x1f 0x8b ++ decompressed bytes; the
   model uses exactly that tagging as its compression function. *)
From L4 Require Import Common.Val Common.FSModel Model.Window Model.Subst.
Local Open Scope N_scope.

Definition dec_pair (v : vl) : option (list N * list N) :=
  match v with
  | VL [VS a; VS b] => Some (a, b)
  | _ => None
  end.

Definition dec_op (v : vl) : option (option bytes) :=
  match v with
  | VL [VN 0] => Some None
  | VL [VN _; VS x] => Some (Some x)
  | _ => None
  end.

Definition gz_tag (x : bytes) : bytes := 31 :: 139 :: x.

Definition enc_fs (f : fs) : vl := VL (map (fun pc => VL [VS (fst pc); VS (snd pc)]) f).

Definition vpanic : vl := VS [112; 97; 110; 105; 99].

Fixpoint run_ops (roller : path -> fs -> outcome) (file : path) (ops : list (option bytes)) (f : fs)
  : option (list vl) :=
  match ops with
  | [] => Some []
  | o :: rest =>
    let f1 := match o with Some x => write file x f | None => f end in
    match roller file f1 with
    | Done g => option_map (cons (VL [VN 0; enc_fs g])) (run_ops roller file rest g)
    | Failed g => option_map (cons (VL [VN 1; enc_fs g])) (run_ops roller file rest g)
    | Panicked => None
    end
  end.

Definition c07_run (v : vl) : vl :=
  match v with
  | VL [VN kind; VN b; VN c; VN gz; VS pat; env; VS file; init; ops] =>
    match val_list dec_pair env, val_list dec_pair init, val_list dec_op ops with
    | Some env, Some init, Some ops =>
      let name := archive_name env pat in
      let cm : cmode := if gz =? 0 then None else Some gz_tag in
      let roller := if kind =? 0 then (fun file f => roll name cm None b c file f)
                    else (fun file f => delete_roll file f) in
      match run_ops roller file ops (mkfs init) with
      | Some l => VL l
      | None => vpanic
      end
    | _, _, _ => VBad
    end
  | _ => VBad
  end.
