(* C07 — decode a case, run the model, encode the observable.
   case: ( kind b c gz pattern ( (envname envvalue) ... ) file ( (path bytes) ... ) ( op ... ) )
     kind: 0 FixedWindowRoller, 1 DeleteRoller;  gz: the generator's idea of "compressed" (not read: Model/PathExt.v decides)
     op:   (0) call roll on the file as it is | (1 bytes) write the file, then roll
   result: "panic" | ( (status ( (path bytes) ... )) ... )   one entry per op,
     status 0 = Ok, 1 = Err; listing = all regular files after the op.
   A gzip archive is reported by the harness as 0x1f 0x8b ++ decompressed bytes; the
   model uses exactly that tagging as its compression function. *)
From L4 Require Import Common.Val Common.FSModel Model.Window Model.Subst.
From L4 Require Model.PathExt.
Local Open Scope N_scope.

Definition dec_pair (v : vl) : option (list N * list N) :=
  match v with
  | VL [VS a; VS b] => Some (a, b)
  | _ => None
  end.

(* op: roll as is | write then roll | (2 name value): the process sets an environment variable
   (the archive names are expanded at every roll, fixed_window.rs:217-227, so later rolls use it) *)
Inductive cop := ORoll (w : option bytes) | OSetEnv (k v : list N)
                | ORmDir (d : path)    (* somebody else removes a directory (with everything below it) *)
                | OChdir (d : path).   (* the process changes its working directory to <root>/d ([] = the root): the
                                          roller's relative pattern and the relative log path mean files below it *)

Fixpoint has_prefix (p s : list N) : bool :=
  match p, s with
  | [], _ => true
  | x :: p', y :: s' => (x =? y) && has_prefix p' s'
  | _ :: _, [] => false
  end.
Definition rm_dir (d : path) (f : fs) : fs :=
  filter (fun pc => negb (has_prefix (d ++ [47]) (fst pc))) f.

Definition dec_op (v : vl) : option cop :=
  match v with
  | VL [VN 0] => Some (ORoll None)
  | VL [VN 2; VS k; VS x] => Some (OSetEnv k x)
  | VL [VN 3; VS d] => Some (ORmDir d)
  | VL [VN 4; VS d] => Some (OChdir d)
  | VL [VN _; VS x] => Some (ORoll (Some x))
  | _ => None
  end.

Definition gz_tag (x : bytes) : bytes := 31 :: 139 :: x.

Definition enc_fs (f : fs) : vl := VL (map (fun pc => VL [VS (fst pc); VS (snd pc)]) f).

Definition vpanic : vl := VS [112; 97; 110; 105; 99].

Definition envt := list (list N * list N).

Definition under (cwd p : path) : path := match cwd with [] => p | _ => cwd ++ 47 :: p end.

Fixpoint run_ops (roller : path -> envt -> path -> fs -> outcome) (cwd : path) (env : envt) (file : path)
         (ops : list cop) (f : fs) : option (list vl) :=
  match ops with
  | [] => Some []
  | OSetEnv k v :: rest => run_ops roller cwd ((k, v) :: env) file rest f    (* the first binding of a name wins *)
  | ORmDir d :: rest => run_ops roller cwd env file rest (rm_dir d f)
  | OChdir d :: rest => run_ops roller d env file rest f
  | ORoll o :: rest =>
    let here := under cwd file in
    let f1 := match o with Some x => write here x f | None => f end in
    match roller cwd env here f1 with
    | Done g => option_map (cons (VL [VN 0; enc_fs g])) (run_ops roller cwd env file rest g)
    | Failed g => option_map (cons (VL [VN 1; enc_fs g])) (run_ops roller cwd env file rest g)
    | Panicked => None
    end
  end.

Definition c07_run (v : vl) : vl :=
  match v with
  | VL [VN kind; VN b; VN c; VN gz; VS pat; env; VS file; init; ops] =>
    match val_list dec_pair env, val_list dec_pair init, val_list dec_op ops with
    | Some env, Some init, Some ops =>
      (* the builder's decision, from the pattern text (Path::extension): the case's gz field is the generator's
         own computation of it and is not read *)
      let cm : cmode := if PathExt.compressed pat then Some gz_tag else None in
      let roller := if kind =? 0
                    then (fun (cwd : path) (e : envt) file f =>
                            roll (fun i => under cwd (archive_name e pat i)) cm None b c file f)
                    else (fun (_ : path) (_ : envt) file f => delete_roll file f) in
      match run_ops roller [] env file ops (mkfs init) with
      | Some l => VL l
      | None => vpanic
      end
    | _, _, _ => VBad
    end
  | _ => VBad
  end.
