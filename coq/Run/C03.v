(* C03 — decode a case, run the model, encode the observable. *)
From L4 Require Import Common.Val Model.Filters.
Local Open Scope N_scope.

(* case: ( node_level L ( (fails (filter ...)) ... ) ( attached ... ) )
   filter: (0 r) scripted with r in 0=Accept 1=Neutral 2=Reject | (1 lvl) threshold *)
Definition dec_filt (v : vl) : option filt :=
  match v with
  | VL [VN 0; VN 0] => Some (Scripted Accept)
  | VL [VN 0; VN 1] => Some (Scripted Neutral)
  | VL [VN 0; VN 2] => Some (Scripted Reject)
  | VL [VN 1; VN t] => Some (Threshold t)
  | _ => None
  end.

Definition dec_app (v : vl) : option appender :=
  match v with
  | VL [f; fs] =>
    match val_bool f, val_list dec_filt fs with
    | Some b, Some l => Some {| filters := l; fails := b |}
    | _, _ => None
    end
  | _ => None
  end.

Definition enc_event (e : event) : vl :=
  match e with
  | Consult a k => VL [VN 0; VN (N.of_nat a); VN (N.of_nat k)]
  | Deliver a => VL [VN 1; VN (N.of_nat a)]
  | Handler a => VL [VN 2; VN (N.of_nat a)]
  end.

(* re-entrant case: ( 1 apps nodes calls mode )
   nodes: ( (level (attached ...)) ... )   node 0 = root, node k>0 = non-additive logger "n<k>"
   call:  ( id by_handler by_app node L (panicking-appender ...) (kid-call ...) )
   mode:  0 = one thread issues all top-level calls (each under catch_unwind)
          1 = thread 1 issues the first call, thread 2 the others (rendezvous `sched`)
   result events: (0 id app k) consult, (1 id app) deliver, (2 id app) handler, (3 id) panic *)
Definition dec_node (v : vl) : option (N * list nat) :=
  match v with
  | VL [VN lvl; att] =>
    match val_list val_N att with
    | Some l => Some (lvl, map N.to_nat l)
    | None => None
    end
  | _ => None
  end.

Section OMap.
  Context {A B : Type} (f : A -> option B).
  Fixpoint omap_c03 (l : list A) : option (list B) :=
    match l with
    | [] => Some []
    | x :: xs => match f x, omap_c03 xs with
                 | Some y, Some ys => Some (y :: ys)
                 | _, _ => None
                 end
    end.
End OMap.

Fixpoint dec_call (v : vl) : option call :=
  match v with
  | VL l =>
    match l with
    | [VN id; bh; VN ba; VN nd; VN L; pan; VL kids] =>
      match val_bool bh, val_list val_N pan, omap_c03 dec_call kids with
      | Some h, Some p, Some ks =>
        Some (Call (N.to_nat id) h (N.to_nat ba) (N.to_nat nd) L (map N.to_nat p) ks)
      | _, _, _ => None
      end
    | _ => None
    end
  | _ => None
  end.

Definition enc_rev (r : rev) : vl :=
  match r with
  | Ev id (Consult a k) => VL [VN 0; VN (N.of_nat id); VN (N.of_nat a); VN (N.of_nat k)]
  | Ev id (Deliver a) => VL [VN 1; VN (N.of_nat id); VN (N.of_nat a)]
  | Ev id (Handler a) => VL [VN 2; VN (N.of_nat id); VN (N.of_nat a)]
  | Unwind id => VL [VN 3; VN (N.of_nat id)]
  end.

Definition c03_run (v : vl) : vl :=
  match v with
  | VL [VN 1; apps; nds; cs; VN mode] =>
    match val_list dec_app apps, val_list dec_node nds, val_list dec_call cs with
    | Some aps, Some ns, Some calls =>
      VL (map enc_rev
            (match mode, calls with
             | 1, c1 :: rest => sched (run_seq aps ns [c1]) (run_seq aps ns rest)
             | _, _ => run_seq aps ns calls
             end))
    | _, _, _ => VBad
    end
  | VL [VN lvl; VN L; apps; att] =>
    match val_list dec_app apps, val_list val_N att with
    | Some aps, Some at_ =>
      VL (map enc_event (log_record lvl aps (map N.to_nat at_) L))
    | _, _ => VBad
    end
  | _ => VBad
  end.
