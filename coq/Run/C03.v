(* C03 — decode a case, run the model, encode the observable. *)
From L4 Require Import Common.Val Model.Filters.
Local Open Scope N_scope.

(* case: ( node_level L ( (fails (filter ...)) ... ) ( attached ... ) )
   filter: (0 r) scripted with r in 0=Accept 1=Neutral 2=Reject | (1 lvl) threshold *)
Definition dec_filt (v : vl) : option filt :=
  match v with
  | VL [VN 0; VN 0] => Some (Scripted Accept)
  | VL [VN 0; VN 1] => Some (Scripted Neutral)
  | VL [VN 0; VN 2] => Some (Scripted Reject)
  | VL [VN 1; VN t] => Some (Threshold t)
  | _ => None
  end.

Definition dec_app (v : vl) : option appender :=
  match v with
  | VL [f; fs] =>
    match val_bool f, val_list dec_filt fs with
    | Some b, Some l => Some {| filters := l; fails := b |}
    | _, _ => None
    end
  | _ => None
  end.

Definition enc_event (e : event) : vl :=
  match e with
  | Consult a k => VL [VN 0; VN (N.of_nat a); VN (N.of_nat k)]
  | Deliver a => VL [VN 1; VN (N.of_nat a)]
  | Handler a => VL [VN 2; VN (N.of_nat a)]
  end.

Definition c03_run (v : vl) : vl :=
  match v with
  | VL [VN lvl; VN L; apps; att] =>
    match val_list dec_app apps, val_list val_N att with
    | Some aps, Some at_ =>
      VL (map enc_event (log_record lvl aps (map N.to_nat at_) L))
    | _, _ => VBad
    end
  | _ => VBad
  end.
