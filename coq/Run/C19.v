(* C19 — decode a case, run the model and the one-pass spec, encode both. *)
From L4 Require Import Common.Val Model.EnvExpand Proofs.EnvExpandSpec.
Local Open Scope N_scope.

(* case: ( site path env pattern more rolls alnum )
     path    list of code points (what expand_env_vars receives, minus the temp-root prefix)
     env     ( (name value) ... )  code point lists; the variables that are set
     alnum   the non-ASCII code points of the case that char::is_alphanumeric accepts
             (reported by the harness)
     more    further paths to expand with the same environment (the roller's archive names for
             the indices 1 .. count-1)
   site, pattern and rolls are for the harness only.
   result: ( model spec ((model spec) ...) )  model = (1 codepoints) | "panic"; spec = codepoints
   (one-pass meaning); the trailing list is for the paths of `more` *)
Definition dec_str (v : vl) : option (list N) := val_list val_N v.

Definition dec_pair (v : vl) : option (list N * list N) :=
  match v with
  | VL [a; b] => match dec_str a, dec_str b with Some x, Some y => Some (x, y) | _, _ => None end
  | _ => None
  end.

Definition enc_str (s : list N) : vl := VL (map VN s).

Definition c19_run (v : vl) : vl :=
  match v with
  | VL [VN _; p; e; _; m; _; a] =>
    match dec_str p, val_list dec_pair e, val_list dec_str m, dec_str a with
    | Some path, Some tbl, Some more, Some al =>
      let ua := in_table al in
      let env := lookup tbl in
      let enc_model q := match expand ua env q with
                         | Ok s => VL [VN 1; enc_str s]
                         | Panic => VS [112;97;110;105;99]
                         end in
      VL [ enc_model path; enc_str (expand_spec ua env path);
           VL (map (fun q => VL [enc_model q; enc_str (expand_spec ua env q)]) more) ]
    | _, _, _, _ => VBad
    end
  | _ => VBad
  end.
