(* C13 — decode a case, run the model, encode the observable. *)
From L4 Require Import Common.Val Common.Str Model.ConfigBuild.
Local Open Scope N_scope.

(* case: ( (appender-name ...) root_level (root-ref ...) ( (name level (ref ...) additive) ... ) ) *)
Definition dec_logger (v : vl) : option logger :=
  match v with
  | VL [VS n; VN lvl; refs; VN ad] =>
    match val_list val_S refs with
    | Some r => Some {| lname := n; llevel := lvl; lapps := r; ladditive := negb (ad =? 0) |}
    | None => None
    end
  | _ => None
  end.

Definition enc_logger (l : logger) : vl :=
  VL [VS (lname l); VN (llevel l); VL (map VS (lapps l)); VB (ladditive l)].

Definition enc_config (c : config) : vl :=
  VL [VL (map VS (c_appenders c)); VN (c_root_level c); VL (map VS (c_root_apps c));
      VL (map enc_logger (c_loggers c))].

Definition enc_err (e : cerr) : vl :=
  match e with
  | DuplicateAppenderName n => VL [VN 0; VS n]
  | NonexistentAppender n => VL [VN 1; VS n]
  | DuplicateLoggerName n => VL [VN 2; VS n]
  | InvalidLoggerName n => VL [VN 3; VS n]
  end.

Definition c13_run (v : vl) : vl :=
  match v with
  | VL [apps; VN lvl; refs; ls] =>
    match val_list val_S apps, val_list val_S refs, val_list dec_logger ls with
    | Some a, Some r, Some l =>
      let (c, e) := build_lossy a lvl r l in
      VL [enc_config c; VL (map enc_err e);
          match build a lvl r l with Some c' => VL [enc_config c'] | None => VL [] end]
    | _, _, _ => VBad
    end
  | _ => VBad
  end.
