(* C05 — the case decoder / model runner / observable encoder is shared by the
   three rolling-appender properties: Run/RollingRun.v.
   For cases meant for the `background_rotation` build (roller carries bg = 1) each
   entry of a plain Append / Restart additionally lists the directories the
   background-rotation machine (Model/RollingBg.v) can be in once the call has
   returned: the store after the call's file-system operations with j = 0 .. all
   of the rotation thread's steps done (by Proofs/RollingBg.v the interleaving
   with the call's own later operations does not matter).  The harness's
   "pending" snapshot must be one of them. *)
From Coq Require Import List NArith Arith.
Import ListNotations.
From L4 Require Import Common.Val Common.FSRoll Model.Rolling Model.RollingFail Model.RollingBg Run.RollingRun.

Definition probe_names (r : roller) : list bname :=
  let '(b, k) := bk_of r in
  BActive :: map BArch (seq 0 (b + k + 3)) ++ [BTemp 0].

Definition enc_bname (n : bname) (v : bytes) : vl :=
  match n with
  | BActive => VL [VN 0; VN 0; VS v]
  | BArch i => VL [VN 1; VN (N.of_nat i); VS v]
  | BTemp _ => VL [VN 3; VN 0; VS v]
  end.

Definition enc_store (r : roller) (f : store) : vl :=
  VL (flat_map (fun n => match f n with Some v => [enc_bname n v] | None => [] end) (probe_names r)).

Definition bg_candidates (c : config) (o : op) (s : state) : list vl :=
  let '(b, k) := bk_of (roll_by c) in
  let prog := step_prog c o s 0 in
  let '(rest, s1) := run_bg b k (repeat true (length prog)) prog (bg_init (to_store (files s))) in
  match rest with
  | [] => map (fun j => enc_store (roll_by c) (bfiles (Nat.iter j bg_step s1))) (seq 0 (S (length (infl s1))))
  | _ :: _ => []
  end.

Fixpoint trace_bg (c : config) (ops : list xop) (s : state) : list vl :=
  match ops with
  | [] => []
  | o :: ops' =>
    let '(s1, ev, err) := xstep c o s in
    let cands := match o with XOp o' => bg_candidates c o' s | _ => [] end in
    VL [VL (flat_map enc_event ev); VL (map enc_file (files s1)); VB err; VL cands] :: trace_bg c ops' s1
  end.

Definition is_bg (r : vl) : bool :=
  match r with
  | VL [VN 1; _; _; _; _; VN 1] => true
  | _ => false
  end.

Definition c05_run (v : vl) : vl :=
  match v with
  | VL [t; r; p; a; ops] =>
    if is_bg r then
      match dec_trigger t, dec_roller r, dec_pre p, val_bool a, val_list dec_op ops with
      | Some tg, Some rl, Some pre, Some a0, Some os =>
        VL (trace_bg {| trig := tg; roll_by := rl |} (XOp (Restart a0) :: os) (raw pre))
      | _, _, _, _, _ => VBad
      end
    else rolling_run v
  | _ => VBad
  end.
