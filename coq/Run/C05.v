(* C05 — the case decoder / model runner / observable encoder is shared by the
   three rolling-appender properties: Run/RollingRun.v. *)
From L4 Require Import Common.Val Run.RollingRun.
Definition c05_run : vl -> vl := rolling_run.
