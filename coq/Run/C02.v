(* C02 — decode a case, run the model, encode the observable.
   case: ( (step ...) ((target level) ...) )
         step = ( (appname ...) (rootlevel (appname ...)) ((name level additive (appname ...)) ...)
                  tweak dropprobe )          (the last two may be absent = none)
         tweak     = () | (level)         after build(): config.root_mut().set_level(level)
         dropprobe = () | (target level)  appender 0 of this step's config logs this record through
                                          log! from its Drop, i.e. inside the NEXT step's set_config
         the first step goes to init_config, every further one to handle.set_config;
         after EVERY step the whole probe grid is observed.
   result: per step ( global_max reported_max ( (logger_enabled macro_enabled (idx ...)) per probe ) drop )
           global_max = log::max_level(), reported_max = Logger::max_log_level() of that config,
           idx = appender indices reached by log!(target: T, L, ..);
           drop = () | ((idx ...)): what the previous step's drop probe reached (indices of THIS config);
           ("err" 1) for a step (and all later ones) where SharedLogger::new would panic *)
From L4 Require Import Common.Val Model.Routing Model.Facade Run.C01.
Local Open Scope N_scope.

Record stepc := { s_cfg : config; s_drop : option (str * N) }.

Definition dec_tweak (cfg : config) (v : vl) : option config :=
  match v with
  | VL [] => Some cfg
  | VL [VN l] => Some (root_set_level cfg l)
  | _ => None
  end.

Definition dec_drop (cfg : config) (v : vl) : option (option (str * N)) :=
  match v with
  | VL [] => Some None
  | VL [VS t; VN l] =>
    (* the probe is carried by appender 0: a config without appenders has none *)
    Some (match c_appenders cfg with [] => None | _ => Some (t, l) end)
  | _ => None
  end.

Definition dec_step (v : vl) : option stepc :=
  match v with
  | VL [apps; root; loggers] =>
    option_map (fun c => {| s_cfg := c; s_drop := None |}) (dec_config apps root loggers)
  | VL [apps; root; loggers; tw; dp] =>
    match dec_config apps root loggers with
    | Some c0 =>
      match dec_tweak c0 tw, dec_drop c0 dp with
      | Some c, Some d => Some {| s_cfg := c; s_drop := d |}
      | _, _ => None
      end
    | None => None
    end
  | _ => None
  end.

Definition enc_ids (l : list nat) : vl := VL (map (fun i => VN (N.of_nat i)) l).

Definition observe (st : fstate) (prs : list (str * N)) (drop : vl) : vl :=
  VL [VN (facade_max st); VN (max_level (cur st));
      VL (map (fun p => VL [VB (logger_enabled st (fst p) (snd p));
                            VB (macro_enabled st (fst p) (snd p));
                            enc_ids (macro_log st (fst p) (snd p))]) prs);
      drop].

(* the states after each set_config, with what the previous step's drop probe reached *)
Fixpoint steps (ost : option fstate) (prev_drop : option (str * N)) (ss : list stepc)
         (prs : list (str * N)) : list vl :=
  match ss with
  | [] => []
  | s :: ss' =>
    match ost with
    | None => VErr 1 :: steps None None ss' prs
    | Some st =>
      let dv := match prev_drop with
                | None => Some (VL [])
                | Some (t, l) => option_map (fun ids => VL [enc_ids ids]) (drop_probe st (s_cfg s) t l)
                end in
      match set_config st (s_cfg s), dv with
      | Some st', Some d => observe st' prs d :: steps (Some st') (s_drop s) ss' prs
      | _, _ => VErr 1 :: steps None None ss' prs
      end
    end
  end.

Definition c02_run (v : vl) : vl :=
  match v with
  | VL [ss; probes] =>
    match val_list dec_step ss, val_list dec_probe probes with
    | Some (s0 :: ss'), Some prs =>
      match init (s_cfg s0) with
      | Some st0 => VL (observe st0 prs (VL []) :: steps (Some st0) (s_drop s0) ss' prs)
      | None => VL (VErr 1 :: steps None None ss' prs)
      end
    | _, _ => VBad
    end
  | _ => VBad
  end.
