(* C02 — decode a case, run the model, encode the observable.
   case: ( (cfg ...) ((target level) ...) )   cfg = ( (appname ...) (rootlevel (appname ...))
                                                      ((name level additive (appname ...)) ...) )
         the first cfg goes to init_config, every further one to handle.set_config;
         after EVERY step the whole probe grid is observed.
   result: per step ( global_max reported_max ( (logger_enabled macro_enabled (idx ...)) per probe ) )
           global_max = log::max_level(), reported_max = Logger::max_log_level() of that config,
           idx = appender indices reached by log!(target: T, L, ..);
           ("err" 1) for a step (and all later ones) where SharedLogger::new would panic *)
From L4 Require Import Common.Val Model.Routing Model.Facade Run.C01.
Local Open Scope N_scope.

Definition dec_cfg (v : vl) : option config :=
  match v with
  | VL [apps; root; loggers] => dec_config apps root loggers
  | _ => None
  end.

Definition observe (st : fstate) (prs : list (str * N)) : vl :=
  VL [VN (facade_max st); VN (max_level (cur st));
      VL (map (fun p => VL [VB (logger_enabled st (fst p) (snd p));
                            VB (macro_enabled st (fst p) (snd p));
                            VL (map (fun i => VN (N.of_nat i)) (macro_log st (fst p) (snd p)))]) prs)].

Definition obs_opt (ost : option fstate) (prs : list (str * N)) : vl :=
  match ost with Some st => observe st prs | None => VErr 1 end.

(* the states after init and after each set_config, in order *)
Fixpoint states (ost : option fstate) (cs : list config) : list (option fstate) :=
  match cs with
  | [] => []
  | c :: cs' => let ost' := step ost c in ost' :: states ost' cs'
  end.

Definition c02_run (v : vl) : vl :=
  match v with
  | VL [cfgs; probes] =>
    match val_list dec_cfg cfgs, val_list dec_probe probes with
    | Some (c0 :: cs), Some prs =>
      VL (map (fun ost => obs_opt ost prs) (init c0 :: states (init c0) cs))
    | _, _ => VBad
    end
  | _ => VBad
  end.
