(* C18 — decode a case, run the model, encode the observable. *)
From L4 Require Import Common.Val Model.Ansi Model.Console.
Local Open Scope N_scope.

(* case (0 text background intense): one AnsiWriter::set_style call;
     text/background: 0 = None, 1..8 = Black..White; intense: 0 = None, 1 = false, 2 = true
     result: the bytes written | "panic"
   case (1 (no_color clicolor_force clicolor) target tty_only out_tty err_tty chunks level msg):
     one ConsoleAppender::append in a process with that environment;
     each variable () unset | ( str ); target 0 stdout / 1 stderr;
     chunks: ( chunk ... ), chunk = (0 text) | (1) {l} | (2) {m} | (3) {n} | (4 ( chunk ... )) {h(..)}
             | (5 (min max right fill) ( chunk ... )) {h(..):SPEC}, min/max 0 = absent, k+1 = width k
     result: ( stdout_bytes stderr_bytes ) | "panic"
   case (2 chunks level msg): PatternEncoder::encode into AnsiWriter over a Vec (colour on)
     result: the bytes | "panic" *)
Definition VPanic : vl := VS [112; 97; 110; 105; 99].

Definition dec_color (n : N) : option (option color) :=
  match n with
  | 0 => Some None
  | 1 => Some (Some Black) | 2 => Some (Some Red) | 3 => Some (Some Green) | 4 => Some (Some Yellow)
  | 5 => Some (Some Blue) | 6 => Some (Some Magenta) | 7 => Some (Some Cyan) | 8 => Some (Some White)
  | _ => None
  end.

Definition dec_intense (n : N) : option (option bool) :=
  match n with
  | 0 => Some None | 1 => Some (Some false) | 2 => Some (Some true) | _ => None
  end.

Definition dec_level (n : N) : option level :=
  match n with
  | 1 => Some Error | 2 => Some Warn | 3 => Some Info | 4 => Some Debug | 5 => Some Trace
  | _ => None
  end.

Definition dec_envv (v : vl) : option (option (list N)) :=
  match v with
  | VL [] => Some None
  | VL [VS s] => Some (Some s)
  | _ => None
  end.

Fixpoint dec_chunk (v : vl) : option chunk :=
  match v with
  | VL [VN 0; VS s] => Some (CText s)
  | VL [VN 1] => Some CLevel
  | VL [VN 2] => Some CMessage
  | VL [VN 3] => Some CNewline
  | VL [VN 4; VL cs] =>
    match (fix go (l : list vl) : option (list chunk) :=
             match l with
             | [] => Some []
             | x :: r => match dec_chunk x, go r with
                         | Some c, Some cs' => Some (c :: cs')
                         | _, _ => None
                         end
             end) cs with
    | Some l => Some (CHighlight no_params l)
    | None => None
    end
  | VL [VN 5; VL [VN mn; VN mx; VN rt; VS fl]; VL cs] =>
    match (fix go (l : list vl) : option (list chunk) :=
             match l with
             | [] => Some []
             | x :: r => match dec_chunk x, go r with
                         | Some c, Some cs' => Some (c :: cs')
                         | _, _ => None
                         end
             end) cs with
    | Some l =>
      Some (CHighlight {| p_min := if mn =? 0 then None else Some (mn - 1);
                          p_max := if mx =? 0 then None else Some (mx - 1);
                          p_right := negb (rt =? 0); p_fill := fl |} l)
    | None => None
    end
  | _ => None
  end.

Definition c18_run (v : vl) : vl :=
  match v with
  | VL [VN 0; VN t; VN b; VN i] =>
    match dec_color t, dec_color b, dec_intense i with
    | Some t', Some b', Some i' =>
      match set_style (mkStyle t' b' i') with
      | Ok bs => VS bs
      | Panic => VPanic
      end
    | _, _, _ => VBad
    end
  | VL [VN 1; VL [nc; cf; cc]; VN tg; ttyonly; outtty; errtty; VL chunks; VN lv; VS msg] =>
    match dec_envv nc, dec_envv cf, dec_envv cc, val_bool ttyonly, val_bool outtty, val_bool errtty,
          opt_map dec_chunk chunks, dec_level lv with
    | Some nc', Some cf', Some cc', Some to, Some ot, Some et, Some cs, Some lv' =>
      let w := {| w_env := {| e_no_color := nc'; e_clicolor_force := cf'; e_clicolor := cc' |};
                  w_out_tty := ot; w_err_tty := et |} in
      let a := {| a_target := if tg =? 0 then Stdout else Stderr; a_tty_only := to; a_pattern := cs |} in
      match append w a lv' msg with
      | Ok (o, e) => VL [VS o; VS e]
      | Panic => VPanic
      end
    | _, _, _, _, _, _, _, _ => VBad
    end
  | VL [VN 2; VL chunks; VN lv; VS msg] =>
    match opt_map dec_chunk chunks, dec_level lv with
    | Some cs, Some lv' =>
      match write_events Tty (enc_chunks cs lv' msg) with
      | Ok bs => VS bs
      | Panic => VPanic
      end
    | _, _ => VBad
    end
  | _ => VBad
  end.
