(* C14 — decode a case, run the model, encode the observable.
   case: ( tree durations ... )      (further components are for the harness only)
     tree      = (0) | (1 b) | (2 (sign mag)) | (3 (cp ...)) | (4 (cp ...)) | (5 (tree ...)) | (6 (((cp ...) tree) ...))
     durations = ( ((cp ...) secs nanos) ... )   the humantime oracle: listed strings parse, all others are rejected
   Oracles used for the run: a log path is unopenable iff it ends with "/." (names a directory);
   TimeTrigger::new panics iff interval = 0 with modulate (the remainder-by-zero member of the
   recorded class F-C16-degenerate-interval; the check treats the whole class as known).
   result: (0) rejected | (2) panic |
           (1 refresh appenders derrs config berrs strict)
     refresh = () | (secs nanos);  strings are code-point lists
     appenders = ((name (level ...) comp) ...)   comp as in harness/src/bin/c14.rs
     derrs = ((0 name) appender | (1 name) filter ...)   config = ((name ...) root_level (ref ...) ((name level (ref ...) additive) ...))
     berrs = ((kind name) ...) as in C13   strict = 0 Err | 1 Ok | 2 panic *)
From L4 Require Import Common.Val Common.Str Model.DocTree Model.Literals Model.ConfigBuild Model.Schema.
Local Open Scope N_scope.

Definition dec_cps (v : vl) : option str := val_list val_N v.

Fixpoint dec_tree (fuel : nat) (v : vl) : option value :=
  match fuel with
  | O => None
  | S f =>
    match v with
    | VL [VN 0] => Some DNull
    | VL [VN 1; VN b] => Some (DBool (negb (b =? 0)))
    | VL [VN 2; z] => match val_Z z with Some z => Some (DInt z) | None => None end
    | VL [VN 3; s] => match dec_cps s with Some s => Some (DFloat s) | None => None end
    | VL [VN 4; s] => match dec_cps s with Some s => Some (DStr s) | None => None end
    | VL [VN 5; VL l] => match opt_map (dec_tree f) l with Some l => Some (DSeq l) | None => None end
    | VL [VN 6; VL l] =>
      match opt_map (fun kv => match kv with
                               | VL [k; x] => match dec_cps k, dec_tree f x with
                                              | Some k, Some x => Some (k, x)
                                              | _, _ => None
                                              end
                               | _ => None
                               end) l with
      | Some m => Some (DMap m)
      | None => None
      end
    | _ => None
    end
  end.

Definition dec_dur (v : vl) : option (str * (N * N)) :=
  match v with
  | VL [s; VN a; VN b] => match dec_cps s with Some s => Some (s, (a, b)) | None => None end
  | _ => None
  end.

Fixpoint lookup_dur (t : list (str * (N * N))) (s : str) : option (N * N) :=
  match t with
  | [] => None
  | (k, d) :: r => if str_eqb s k then Some d else lookup_dur r s
  end.

Definition run_env (t : list (str * (N * N))) : env :=
  {| e_time := fun _ n md _ => if (n =? 0) && md then Panic else Ok tt;
     e_fs := fun p => negb (ends_with [47; 46] p);
     e_dur := lookup_dur t |}.

Definition enc_s (s : str) : vl := VL (map VN s).
Definition enc_enc (e : encoder) : vl :=
  match e with EPattern p => VL [VN 0; enc_s p] | EJson => VL [VN 1] end.
Definition unit_n (u : iunit) : N :=
  match u with Second => 0 | Minute => 1 | Hour => 2 | Day => 3 | Week => 4 | Month => 5 | Year => 6 end.
Definition enc_trigger (t : trigger) : vl :=
  match t with
  | TSize n => VL [VN 0; VN n]
  | TTime u n md dl => VL [VN 1; VN (unit_n u); VN n; VB md; VN dl]
  | TOnStartup n => VL [VN 2; VN n]
  end.
Definition enc_roller (r : roller) : vl :=
  match r with RDelete => VL [VN 0] | RFixedWindow p b c => VL [VN 1; enc_s p; VN b; VN c] end.
Definition enc_policy (p : policy) : vl :=
  match p with PCompound t r => VL [VN 0; enc_trigger t; enc_roller r] end.
Definition enc_comp (c : acomp) : vl :=
  match c with
  | AConsole t tty e => VL [VN 0; VN (match t with Stdout => 0 | Stderr => 1 end); VB tty; enc_enc e]
  | AFile p ap e => VL [VN 1; enc_s p; VB ap; enc_enc e]
  | ARolling p ap e po => VL [VN 2; enc_s p; VB ap; enc_enc e; enc_policy po]
  end.
Definition enc_app (a : lappender) : vl :=
  VL [enc_s (a_name a); VL (map VN (a_filters a)); enc_comp (a_comp a)].
Definition enc_derr (e : derr) : vl :=
  match e with EAppender n => VL [VN 0; enc_s n] | EFilter n => VL [VN 1; enc_s n] end.
Definition enc_logger (l : logger) : vl :=
  VL [enc_s (lname l); VN (llevel l); VL (map enc_s (lapps l)); VB (ladditive l)].
Definition enc_config (c : config) : vl :=
  VL [VL (map enc_s (c_appenders c)); VN (c_root_level c); VL (map enc_s (c_root_apps c));
      VL (map enc_logger (c_loggers c))].
Definition enc_cerr (e : cerr) : vl :=
  match e with
  | DuplicateAppenderName n => VL [VN 0; enc_s n]
  | NonexistentAppender n => VL [VN 1; enc_s n]
  | DuplicateLoggerName n => VL [VN 2; enc_s n]
  | InvalidLoggerName n => VL [VN 3; enc_s n]
  end.

Definition c14_run (v : vl) : vl :=
  match v with
  | VL (t :: VL durs :: _) =>
    match dec_tree 64 t, opt_map dec_dur durs with
    | Some tree, Some dt =>
      let E := run_env dt in
      match load_lossy E tree with
      | Err => VL [VN 0]
      | Panic => VL [VN 2]
      | Ok ld =>
        VL [VN 1;
            match ld_refresh ld with None => VL [] | Some (a, b) => VL [VN a; VN b] end;
            VL (map enc_app (ld_appenders ld));
            VL (map enc_derr (ld_derrs ld));
            enc_config (ld_config ld);
            VL (map enc_cerr (ld_berrs ld));
            VN (match load_strict E tree with Ok _ => 1 | Err => 0 | Panic => 2 end)]
      end
    | _, _ => VBad
    end
  | _ => VBad
  end.
