(* C08 — decode a case, run the model, encode the observable.
   case: ( b c limit pre gz pattern file mode0 nohook ( (path bytes) ... ) ( op ... ) )
     pre: 1 = pre-processing trigger (fires iff len > limit before the write),
          0 = SizeTrigger(limit) (post-processing);  mode0: the builder's append flag;
     nohook: 1 = the rotate_step hook is not installed at all (no images, no injected faults)
     op:  (0 record (0))          append, hook never fails
          (0 record (1 k))        append, the rotate_step hook returns Err at its k-th call
          (0 record (2 k mode))   append during which the process dies at the k-th hook call;
                                  a fresh appender (append flag = mode) is built on the crash
                                  image.  When the k-th call is never reached the append
                                  completes and the appender is restarted all the same.
                                  Model: fault at k, then HRestart mode — a fault at step k leaves
                                  exactly the crash image (Props/C08.v, C08_crash_image_is_fault_state)
          (1 mode)                drop the appender, build a new one (append flag = mode)
          (0 record (3 L))        append under RLIMIT_FSIZE = L (exploration family: an OS write
                                  error half-way through the gzip output is OUTSIDE this model; the
                                  check does not compare the model's answer for such histories, the
                                  op is decoded as a plain append only so that the case evaluates)
          (4 kind j) / (5)        the directory of slot base+j cannot be created (kind 0: a dangling
                                  symlink, kind 1: a regular file sits at the directory's name) / undone.
                                  rotate() calls create_dir_all(parent(dst)) right after the hook call
                                  of the step whose destination is slot base+j, before touching anything:
                                  that step fails = fault `Some (count-1-j)` (kind 1: already the step
                                  before, whose source lies in that directory: ENOTDIR); for j = 0 the directory of
                                  dst_0 is created before the first hook call: Err with no hook call
          (2)                     an operator error: a non-empty directory appears at the top
                                  archive name (name (b+c-1), holding a file "keep")
          (3)                     the directory is removed again
   While the directory sits at the top archive name, the step that renames/compresses onto it
   fails for real (EISDIR): the first step of a rotation, provided its source exists.  In the
   model this is the fault `Some 0` of that rotation.
   result: "panic" | ( (ack ( listing ... ) listing) ... )  entry 0 = the initial build, then one
     entry per op: ack 0 = Ok, 1 = Err (or died); the directory at each hook call of the op;
     the directory after the op.
   gzip archives are reported as 0x1f 0x8b ++ decompressed bytes (see Run/C07.v). *)
From L4 Require Import Common.Val Common.FSModel Model.Window Model.Subst Model.RollFault.
From L4 Require Import Run.C07.
Local Open Scope N_scope.

Inductive cop :=
| CAppend (r : bytes) (fault : option nat) (restart : option bool)
| CRestart (m : bool)
| CObst (on : bool)
| CDirObst (kind : N) (j : nat)
| CDirObstOff.

Definition dec_cop (v : vl) : option cop :=
  match v with
  | VL [VN 0; VS r; VL [VN 0]] => Some (CAppend r None None)
  | VL [VN 0; VS r; VL [VN 1; VN k]] => Some (CAppend r (Some (N.to_nat k)) None)
  | VL [VN 0; VS r; VL [VN 2; VN k; VN m]] => Some (CAppend r (Some (N.to_nat k)) (Some (negb (m =? 0))))
  | VL [VN 0; VS r; VL [VN 3; VN _]] => Some (CAppend r None None)
  | VL [VN 1; VN m] => Some (CRestart (negb (m =? 0)))
  | VL [VN 4; VN kind; VN j] => Some (CDirObst kind (N.to_nat j))
  | VL [VN 5] => Some CDirObstOff
  | VL [VN 2] => Some (CObst true)
  | VL [VN 3] => Some (CObst false)
  | _ => None
  end.

Definition keep_path (top : path) : path := top ++ [47; 107; 101; 101; 112].   (* "/keep" *)

(* Path::parent for a relative path with at least one '/' *)
Fixpoint drop_to_slash (l : list N) : list N :=
  match l with
  | [] => []
  | x :: t => if x =? 47 then t else drop_to_slash t
  end.
Definition parent_path (p : path) : path := rev (drop_to_slash (rev p)).

Section Run.
  Variable name : N -> path.
  Variable cm : cmode.
  Variable file : path.
  Variable cf : cfg.
  Variable limit : N.
  Variable nohook : bool.

  Definition top_name : path := name (c_base cf + (c_count cf - 1)).

  Definition entry (a : ack) (imgs : list fs) (f : fs) : vl :=
    VL [VN (match a with AOk => 0 | _ => 1 end);
        VL (if nohook then [] else map enc_fs imgs); enc_fs f].

  (* the step that moves onto the top name is step 0; it fails iff it has something to move *)
  Definition obstructed (f : fs) : bool :=
    if c_count cf =? 1 then true
    else match lookup (name (c_base cf + (c_count cf - 2))) f with Some _ => true | None => false end.

  Definition slot_dir (j : nat) : path := parent_path (name (c_base cf + N.of_nat j)).

  (* dobst = Some (kind, j): the directory of slot base+j cannot be created *)
  Fixpoint run_c08 (ops : list cop) (obst : bool) (dobst : option (N * nat)) (s : ast)
    : option (list vl) :=
    match ops with
    | [] => Some []
    | CAppend r fault restart :: rest =>
      let fault0 := if nohook then None else fault in
      let eff1 := if obst && obstructed (afs s) then Some O else fault0 in
      let eff := match dobst with
                 | Some (kind, j) =>
                   (* a regular file at the directory name also breaks the step whose SOURCE lies
                      in it (rename: ENOTDIR, not NotFound), one step earlier *)
                   let kd := if negb (kind =? 0) && (j + 2 <=? N.to_nat (c_count cf))%nat
                             then (N.to_nat (c_count cf) - 2 - j)%nat
                             else (N.to_nat (c_count cf) - 1 - j)%nat in
                   match j, eff1 with
                   | O, _ => Some O
                   | _, Some k => Some (Nat.min k kd)
                   | _, None => Some kd
                   end
                 | None => eff1
                 end in
      let hide := match dobst with Some (_, O) => true | _ => false end in
      match step_hist name cm file cf (HAppend r (fun len => limit <? len) eff) s with
      | (s1, a, _, imgs) =>
        match a with
        | APanic => None
        | _ =>
          let s2 := match restart with
                    | Some m => build file m (afs s1)
                    | None => s1
                    end in
          option_map (cons (entry a (if hide then [] else imgs) (afs s2))) (run_c08 rest obst dobst s2)
        end
      end
    | CRestart m :: rest =>
      let s1 := build file m (afs s) in
      option_map (cons (entry AOk [] (afs s1))) (run_c08 rest obst dobst s1)
    | CObst on :: rest =>
      let f1 := if on then write (keep_path top_name) [111; 98; 115; 116] (afs s)
                else remove (keep_path top_name) (afs s) in
      let s1 := {| afs := f1; wopen := wopen s |} in
      option_map (cons (entry AOk [] f1)) (run_c08 rest on dobst s1)
    | CDirObst kind j :: rest =>
      let f1 := if kind =? 0 then afs s else write (slot_dir j) [111; 98; 115; 116] (afs s) in
      let s1 := {| afs := f1; wopen := wopen s |} in
      option_map (cons (entry AOk [] f1)) (run_c08 rest obst (Some (kind, j)) s1)
    | CDirObstOff :: rest =>
      let f1 := match dobst with
                | Some (kind, j) => if kind =? 0 then afs s else remove (slot_dir j) (afs s)
                | None => afs s
                end in
      let s1 := {| afs := f1; wopen := wopen s |} in
      option_map (cons (entry AOk [] f1)) (run_c08 rest obst None s1)
    end.
End Run.

Definition c08_run (v : vl) : vl :=
  match v with
  | VL [VN b; VN c; VN limit; VN pre; VN gz; VS pat; VS file; VN mode0; VN nohook; init; ops] =>
    match val_list dec_pair init, val_list dec_cop ops with
    | Some init, Some ops =>
      let name := archive_name [] pat in
      let cm : cmode := if gz =? 0 then None else Some gz_tag in
      let cf := {| c_base := b; c_count := c; c_pre := negb (pre =? 0) |} in
      let nh := negb (nohook =? 0) in
      let s0 := build file (negb (mode0 =? 0)) (mkfs init) in
      match run_c08 name cm file cf limit nh ops false None s0 with
      | Some l => VL (entry nh AOk [] (afs s0) :: l)
      | None => vpanic
      end
    | _, _ => VBad
    end
  | _ => VBad
  end.
