(* C08 — decode a case, run the model, encode the observable.
   case: ( b c limit pre gz pattern file mode0 ( (path bytes) ... ) ( op ... ) )
     pre: 1 = pre-processing trigger, 0 = SizeTrigger (post);  mode0: builder's append flag
     op:  (0 record (0))      append, hook never fails
          (0 record (1 k))    append, the rotate_step hook returns Err at its k-th call
          (1 mode)            drop the appender, build a new one (append flag = mode)
   result: "panic" | ( (ack ( listing ... ) listing) ... )  one entry per op:
     ack 0 = Ok, 1 = Err; the directory at each hook call of the op; the directory after the op.
   gzip archives are reported as 0x1f 0x8b ++ decompressed bytes (see Run/C07.v). *)
From L4 Require Import Common.Val Common.FSModel Model.Window Model.Subst Model.RollFault.
From L4 Require Import Run.C07.
Local Open Scope N_scope.

Definition dec_hop (v : vl) : option hop :=
  match v with
  | VL [VN 0; VS r; VL [VN 0]] => Some (HAppend r None)
  | VL [VN 0; VS r; VL [VN _; VN k]] => Some (HAppend r (Some (N.to_nat k)))
  | VL [VN _; VN m] => Some (HRestart (negb (m =? 0)))
  | _ => None
  end.

Fixpoint run_c08 (name : N -> path) (cm : cmode) (file : path) (cf : cfg) (ops : list hop) (s : ast)
  : option (list vl) :=
  match ops with
  | [] => Some []
  | o :: rest =>
    match step_hist name cm file cf o s with
    | (s1, a, _, imgs) =>
      match a with
      | APanic => None
      | _ => option_map
               (cons (VL [VN (match a with AOk => 0 | _ => 1 end); VL (map enc_fs imgs); enc_fs (afs s1)]))
               (run_c08 name cm file cf rest s1)
      end
    end
  end.

Definition c08_run (v : vl) : vl :=
  match v with
  | VL [VN b; VN c; VN limit; VN pre; VN gz; VS pat; VS file; VN mode0; init; ops] =>
    match val_list dec_pair init, val_list dec_hop ops with
    | Some init, Some ops =>
      let name := archive_name [] pat in
      let cm : cmode := if gz =? 0 then None else Some gz_tag in
      let cf := {| c_base := b; c_count := c; c_limit := limit; c_pre := negb (pre =? 0) |} in
      let s0 := build file (negb (mode0 =? 0)) (mkfs init) in
      match run_c08 name cm file cf ops s0 with
      | Some l => VL (VL [VN 0; VL []; enc_fs (afs s0)] :: l)
      | None => vpanic
      end
    | _, _ => VBad
    end
  | _ => VBad
  end.
