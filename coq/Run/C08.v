(* C08 — decode a case, run the model, encode the observable.
   case: ( b c limit pre gz pattern file mode0 nohook ( (path bytes) ... ) ( op ... ) )
     pre: 1 = pre-processing trigger (fires iff len > limit before the write),
          0 = SizeTrigger(limit) (post-processing);  mode0: the builder's append flag;
     nohook: 1 = the rotate_step hook is not installed at all (no images, no injected faults)
     op:  (0 record (0))          append, hook never fails
          (0 record (1 k))        append, the rotate_step hook returns Err at its k-th call
          (0 record (2 k mode))   append during which the process dies at the k-th hook call;
                                  a fresh appender (append flag = mode) is built on the crash
                                  image.  When the k-th call is never reached the append
                                  completes and the appender is restarted all the same.
                                  Model: fault at k, then HRestart mode — a fault at step k leaves
                                  exactly the crash image (Props/C08.v, C08_crash_image_is_fault_state)
          (1 mode)                drop the appender, build a new one (append flag = mode)
          (2)                     an operator error: a non-empty directory appears at the top
                                  archive name (name (b+c-1), holding a file "keep")
          (3)                     the directory is removed again
   While the directory sits at the top archive name, the step that renames/compresses onto it
   fails for real (EISDIR): the first step of a rotation, provided its source exists.  In the
   model this is the fault `Some 0` of that rotation.
   result: "panic" | ( (ack ( listing ... ) listing) ... )  entry 0 = the initial build, then one
     entry per op: ack 0 = Ok, 1 = Err (or died); the directory at each hook call of the op;
     the directory after the op.
   gzip archives are reported as 0x1f 0x8b ++ decompressed bytes (see Run/C07.v). *)
From L4 Require Import Common.Val Common.FSModel Model.Window Model.Subst Model.RollFault.
From L4 Require Import Run.C07.
Local Open Scope N_scope.

Inductive cop :=
| CAppend (r : bytes) (fault : option nat) (restart : option bool)
| CRestart (m : bool)
| CObst (on : bool).

Definition dec_cop (v : vl) : option cop :=
  match v with
  | VL [VN 0; VS r; VL [VN 0]] => Some (CAppend r None None)
  | VL [VN 0; VS r; VL [VN 1; VN k]] => Some (CAppend r (Some (N.to_nat k)) None)
  | VL [VN 0; VS r; VL [VN 2; VN k; VN m]] => Some (CAppend r (Some (N.to_nat k)) (Some (negb (m =? 0))))
  | VL [VN 1; VN m] => Some (CRestart (negb (m =? 0)))
  | VL [VN 2] => Some (CObst true)
  | VL [VN 3] => Some (CObst false)
  | _ => None
  end.

Definition keep_path (top : path) : path := top ++ [47; 107; 101; 101; 112].   (* "/keep" *)

Section Run.
  Variable name : N -> path.
  Variable cm : cmode.
  Variable file : path.
  Variable cf : cfg.
  Variable limit : N.
  Variable nohook : bool.

  Definition top_name : path := name (c_base cf + (c_count cf - 1)).

  Definition entry (a : ack) (imgs : list fs) (f : fs) : vl :=
    VL [VN (match a with AOk => 0 | _ => 1 end);
        VL (if nohook then [] else map enc_fs imgs); enc_fs f].

  (* the step that moves onto the top name is step 0; it fails iff it has something to move *)
  Definition obstructed (f : fs) : bool :=
    if c_count cf =? 1 then true
    else match lookup (name (c_base cf + (c_count cf - 2))) f with Some _ => true | None => false end.

  Fixpoint run_c08 (ops : list cop) (obst : bool) (s : ast) : option (list vl) :=
    match ops with
    | [] => Some []
    | CAppend r fault restart :: rest =>
      let fault0 := if nohook then None else fault in
      let eff := if obst && obstructed (afs s) then Some O else fault0 in
      match step_hist name cm file cf (HAppend r (fun len => limit <? len) eff) s with
      | (s1, a, _, imgs) =>
        match a with
        | APanic => None
        | _ =>
          let s2 := match restart with
                    | Some m => build file m (afs s1)
                    | None => s1
                    end in
          option_map (cons (entry a imgs (afs s2))) (run_c08 rest obst s2)
        end
      end
    | CRestart m :: rest =>
      let s1 := build file m (afs s) in
      option_map (cons (entry AOk [] (afs s1))) (run_c08 rest obst s1)
    | CObst on :: rest =>
      let f1 := if on then write (keep_path top_name) [111; 98; 115; 116] (afs s)
                else remove (keep_path top_name) (afs s) in
      let s1 := {| afs := f1; wopen := wopen s |} in
      option_map (cons (entry AOk [] f1)) (run_c08 rest on s1)
    end.
End Run.

Definition c08_run (v : vl) : vl :=
  match v with
  | VL [VN b; VN c; VN limit; VN pre; VN gz; VS pat; VS file; VN mode0; VN nohook; init; ops] =>
    match val_list dec_pair init, val_list dec_cop ops with
    | Some init, Some ops =>
      let name := archive_name [] pat in
      let cm : cmode := if gz =? 0 then None else Some gz_tag in
      let cf := {| c_base := b; c_count := c; c_pre := negb (pre =? 0) |} in
      let nh := negb (nohook =? 0) in
      let s0 := build file (negb (mode0 =? 0)) (mkfs init) in
      match run_c08 name cm file cf limit nh ops false s0 with
      | Some l => VL (entry nh AOk [] (afs s0) :: l)
      | None => vpanic
      end
    | _, _ => VBad
    end
  | _ => VBad
  end.
