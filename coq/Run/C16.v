(* C16 — decode a case, run the model, encode the observable.
   case: ( tz init_off ( (T off flag) ... ) kind payload [observed] )
   kind 0: payload = ( now_s now_ns unit n modulate )         -> (0 t) | (1 why)
   kind 1: payload = ( unit n modulate max_delay (s0 ns0) ( (s ns) ... ) )
           observed = ( sched0 ( sched_after_i ... ) )  scheduled instants read from the
           real trigger; they determine the random delay r = observed - base that the
           model is run with, and `delays_ok` says whether every r was inside
           [0, max(max_delay,1)).
           -> (2 why) when TimeTrigger::new panics, else
              ( sched0 ( (status fired sched (archived ...)) ... ) (active-file ...) delays_ok ) *)
From L4 Require Import Common.Val Model.Civil Model.TZ Model.TimeTrig.
Local Open Scope Z_scope.

Definition dec_unit (n : N) : option tunit :=
  match n with
  | 0%N => Some USecond | 1%N => Some UMinute | 2%N => Some UHour | 3%N => Some UDay
  | 4%N => Some UWeek | 5%N => Some UMonth | 6%N => Some UYear | _ => None
  end.

Definition dec_tr (v : vl) : option transition :=
  match v with
  | VL [t; o; f] =>
    match val_Z t, val_Z o, val_bool f with
    | Some t, Some o, Some f => Some {| tr_at := t; tr_off := o; tr_gap_excl := f |}
    | _, _, _ => None
    end
  | _ => None
  end.

Definition dec_zone (i trs : vl) : option zone :=
  match val_Z i, val_list dec_tr trs with
  | Some i, Some l => Some {| z_init := i; z_trans := l |}
  | _, _ => None
  end.

Definition dec_inst (v : vl) : option (Z * Z) :=
  match v with
  | VL [s; VN ns] => match val_Z s with Some s => Some (s, Z.of_N ns) | None => None end
  | _ => None
  end.

Definition enc_res (r : res Z) : vl :=
  match r with Ok t => VL [VN 0; VZ t] | Panic w => VL [VN 1; VN w] end.

Definition enc_outcome (o : outcome) : vl :=
  match o with
  | Appended f s arch => VL [VN 0; VB f; VZ s; VL (map VN arch)]
  | Panicked w => VL [VN 1; VN w; VZ 0; VL []]
  end.

(* delay implied by an observed scheduled instant *)
Definition implied_delay (z : zone) (c : tconfig) (now obs : Z) : Z * bool :=
  match get_next_time z now (c_unit c) (c_n c) (c_mod c) with
  | Ok base =>
    let r := obs - base in
    if (0 <=? r) && (r <? Z.max (c_maxd c) 1) then (r, true) else (0, false)
  | Panic _ => (0, true)
  end.

Fixpoint run_obs (z : zone) (c : tconfig) (st : astate) (idx : N)
         (arr : list (Z * Z)) (obs : list Z) : list outcome * astate * bool :=
  match arr with
  | [] => ([], st, true)
  | (s, ns) :: rest =>
    let '(r, ok) := implied_delay z c s (hd 0 obs) in
    let '(o, st1) := append_step z c st {| ar_s := s; ar_ns := ns; ar_r := r; ar_idx := idx |} in
    let ok := match o with Appended true _ _ => ok | _ => true end in
    let '(os, st2, oks) := run_obs z c st1 (idx + 1)%N rest (tl obs) in
    (o :: os, st2, ok && oks)
  end.

Definition c16_run (v : vl) : vl :=
  match v with
  | VL (_ :: zi :: ztr :: VN kind :: VL payload :: more) =>
    match dec_zone zi ztr with
    | None => VBad
    | Some z =>
      match kind, payload with
      | 0%N, [now; VN _; VN u; VN n; m] =>
        match val_Z now, dec_unit u, val_bool m with
        | Some now, Some u, Some m => enc_res (get_next_time z now u (Z.of_N n) m)
        | _, _, _ => VBad
        end
      | 1%N, [VN u; VN n; m; VN maxd; start; arr] =>
        match dec_unit u, val_bool m, dec_inst start, val_list dec_inst arr, more with
        | Some u, Some m, Some (s0, _), Some arr, [VL [o0; obs]] =>
          match val_Z o0, val_list val_Z obs with
          | Some o0, Some obs =>
            let c := {| c_unit := u; c_n := Z.of_N n; c_mod := m; c_maxd := Z.of_N maxd |} in
            let '(r0, ok0) := implied_delay z c s0 o0 in
            match trigger_new z c s0 r0 with
            | Panic w => VL [VN 2; VN w]
            | Ok next0 =>
              let '(os, st, ok) :=
                  run_obs z c {| a_next := Some next0; a_file := [] |} 0%N arr obs in
              VL [VZ next0; VL (map enc_outcome os); VL (map VN (a_file st)); VB (ok0 && ok)]
            end
          | _, _ => VBad
          end
        | _, _, _, _, _ => VBad
        end
      | _, _ => VBad
      end
    end
  | _ => VBad
  end.
