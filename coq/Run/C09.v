(* C09 -- decode a case, run the model (parse, compile, encode) and the spec
   (meaning of the generator's AST), encode the observables.  Shared with C11.
   ("x.." below means zero or more x.)

   model case: ( mode pattern rec mdc thread cls rt times ast )
     strings are lists of code points; options are () or (v)
     mode  0 = list the date formats the compiled pattern will render
               (short case: ( 0 pattern cls ))
           1 = construct + encode     2 = construct only
     rec   ( level msg target module? file? line? )
     mdc   ( (key value).. )          thread () | (name)
     cls   ( (cp is_alphabetic is_alphanumeric).. )  oracle for non-ASCII chars
     rt    ( pid thread_id debug_assertions )
     times ( (fmt validity utc local).. )            oracle for chrono (validity 0/1/2)
     ast   () | ( (node..) )   node = (0 text) | (1 c st) | (2 name ((node..)..) spec)
           spec = (colon fa min max), fa = () | (() a) | ((fill) a), a: 0 '<' 1 '>',
           min/max = () | (digits)
   result (mode 1/2): ( res flags meaning )
     res     "panic" | "ok" | ( event.. ), event = ( cp.. ) | style code
     flags   ( has_ast wf_strict wf_lax sem_ok sem_ok_mod_class mdc_class )
     meaning ( event.. ) of the AST (empty without AST) -- *)
From Coq Require Import String Ascii.
From Coq Require Import List NArith Bool.
Import ListNotations.
From L4 Require Import Common.Val Model.Pattern Proofs.PatternSpec.
Local Open Scope N_scope.

Definition dec_str (v : vl) : option str := val_list val_N v.

Definition dec_opt {A} (f : vl -> option A) (v : vl) : option (option A) :=
  match v with
  | VL [] => Some None
  | VL [x] => match f x with Some a => Some (Some a) | None => None end
  | _ => None
  end.

(* ---------- oracles from tables ---------- *)

Definition ascii_alpha (c : N) : bool :=
  ((65 <=? c) && (c <=? 90)) || ((97 <=? c) && (c <=? 122)).
Definition ascii_alnum (c : N) : bool := ascii_alpha c || is_digit c.

Definition cls_tbl := list (N * (bool * bool)).

Fixpoint cls_get (t : cls_tbl) (c : N) : bool * bool :=
  match t with
  | [] => (false, false)
  | (c', r) :: t' => if c' =? c then r else cls_get t' c
  end.

Definition alpha_of (t : cls_tbl) (c : N) : bool :=
  if c <? 128 then ascii_alpha c else fst (cls_get t c).
Definition alnum_of (t : cls_tbl) (c : N) : bool :=
  if c <? 128 then ascii_alnum c else snd (cls_get t c).

Definition dec_cls (v : vl) : option (N * (bool * bool)) :=
  match v with
  | VL [VN c; a; b] =>
    match val_bool a, val_bool b with
    | Some a', Some b' => Some (c, (a', b'))
    | _, _ => None
    end
  | _ => None
  end.

(* validity: 0 = StrftimeItems yields an Item::Error, 1 = valid and renders,
   2 = parses but Display fails (fmt::Error); the pattern compiler accepts 1 only *)
Definition time_tbl := list (str * (N * (str * str))).

Fixpoint time_get (t : time_tbl) (f : str) : option (N * (str * str)) :=
  match t with
  | [] => None
  | (f', r) :: t' => if str_eqb f' f then Some r else time_get t' f
  end.

Definition strftime_ok_of (t : time_tbl) (f : str) : bool :=
  match time_get t f with Some (ok, _) => ok =? 1 | None => false end.
Definition time_str_of (t : time_tbl) (f : str) (z : tz) : str :=
  match time_get t f with
  | Some (_, (u, l)) => match z with Utc => u | Local => l end
  | None => []
  end.

Definition dec_time (v : vl) : option (str * (N * (str * str))) :=
  match v with
  | VL [f; ok; u; l] =>
    match dec_str f, val_N ok, dec_str u, dec_str l with
    | Some f', Some ok', Some u', Some l' => Some (f', (ok', (u', l')))
    | _, _, _, _ => None
    end
  | _ => None
  end.

(* ---------- record / env ---------- *)

Definition dec_kv (v : vl) : option (str * str) :=
  match v with
  | VL [k; x] => match dec_str k, dec_str x with
                 | Some k', Some x' => Some (k', x')
                 | _, _ => None
                 end
  | _ => None
  end.

Definition dec_env (rec mdc thread rt : vl) : option env :=
  match rec, rt with
  | VL [VN lvl; m; t; md; fl; ln], VL [VN pid; VN tid; dbg] =>
    match dec_str m, dec_str t, dec_opt dec_str md, dec_opt dec_str fl, dec_opt val_N ln,
          val_list dec_kv mdc, dec_opt dec_str thread, val_bool dbg with
    | Some m', Some t', Some md', Some fl', Some ln', Some mdc', Some th', Some dbg' =>
      Some (mkEnv lvl m' t' md' fl' ln' th' tid tid pid mdc' dbg')
    | _, _, _, _, _, _, _, _ => None
    end
  | _, _ => None
  end.

(* ---------- AST ---------- *)

Section OptMap.
  Context {A B : Type} (f : A -> option B).
  Fixpoint omap (l : list A) : option (list B) :=
    match l with
    | [] => Some []
    | x :: xs => match f x, omap xs with
                 | Some y, Some ys => Some (y :: ys)
                 | _, _ => None
                 end
    end.
End OptMap.

Definition dec_align (v : vl) : option align :=
  match v with VN 0 => Some ALeft | VN 1 => Some ARight | _ => None end.

Definition dec_spec (v : vl) : option spec :=
  match v with
  | VL [colon; fa; mn; mx] =>
    let fa' := match fa with
               | VL [] => Some None
               | VL [VL []; a] => match dec_align a with Some a' => Some (Some (None, a')) | None => None end
               | VL [VL [VN f]; a] => match dec_align a with Some a' => Some (Some (Some f, a')) | None => None end
               | _ => None
               end in
    match val_bool colon, fa', dec_opt dec_str mn, dec_opt dec_str mx with
    | Some c, Some fa'', Some mn', Some mx' => Some (mkSpec c fa'' mn' mx')
    | _, _, _, _ => None
    end
  | _ => None
  end.

Fixpoint dec_ast (v : vl) : option ast :=
  match v with
  | VL l =>
    match l with
    | [VN 0; t] => match dec_str t with Some t' => Some (ALit t') | None => None end
    | [VN 1; VN c; VN st] => Some (AEsc c (if st =? 0 then Doubled else Backslash))
    | [VN 2; nm; VL args; sp] =>
      match dec_str nm,
            omap (fun a => match a with VL seq => omap dec_ast seq | _ => None end) args,
            dec_spec sp with
      | Some nm', Some args', Some sp' => Some (AFmt nm' args' sp')
      | _, _, _ => None
      end
    | _ => None
    end
  | _ => None
  end.

Definition dec_ast_seq (v : vl) : option (list ast) :=
  match v with VL seq => omap dec_ast seq | _ => None end.

(* ---------- observable ---------- *)

Definition flush (cur : list N) : list vl :=
  match cur with [] => [] | _ => [VL (map VN (rev cur))] end.

Fixpoint enc_items (l : list item) (cur : list N) : list vl :=
  match l with
  | [] => flush cur
  | Ch c :: r => enc_items r (c :: cur)
  | St s :: r => flush cur ++ VN s :: enc_items r []
  | Boom :: r => flush cur ++ enc_items r []
  end.

Definition is_boom (i : item) : bool := match i with Boom => true | _ => false end.

Definition VPanic : vl := VS [112;97;110;105;99].      (* "panic" *)
Definition VOk : vl := VS [111;107].                   (* "ok" *)

Definition enc_result (l : list item) : vl :=
  if existsb is_boom l then VPanic else VL (enc_items l []).

Fixpoint has_cpanic (c : chunk) : bool :=
  match c with
  | CPanic => true
  | CGroup _ cs _ => existsb has_cpanic cs
  | _ => false
  end.

Definition small (o : option N) : bool := match o with Some w => w <=? 4096 | None => true end.
Fixpoint widths_small (c : chunk) : bool :=
  match c with
  | CLeaf _ p => small (p_min p) && small (p_max p)
  | CGroup _ cs p => small (p_min p) && small (p_max p) && forallb widths_small cs
  | _ => true
  end.

(* date formats compile will ask the chrono oracle about (validity) and
   encode will render; mirrors compile's traversal *)
Fixpoint date_requests (p : piece) : list str :=
  match p with
  | PArg nm args _ =>
    if one_of nm (LIT "d") (LIT "date") then
      (if Nat.ltb 2 (length args) then []
       else [match args with a :: _ => date_format_of a | [] => LIT "%+" end])
    else if group_name nm then
      match args with
      | [arg] => flat_map date_requests arg
      | _ => []
      end
    else []
  | _ => []
  end.

Record decoded := mkDecoded {
  d_mode : N; d_pattern : str; d_env : env; d_cls : cls_tbl; d_times : time_tbl;
  d_ast : option (list ast) }.

Definition decode (v : vl) : option decoded :=
  match v with
  | VL [VN mode; pat; rec; mdc; thread; cls; rt; times; a] =>
    match dec_str pat, dec_env rec mdc thread rt, val_list dec_cls cls,
          val_list dec_time times, dec_opt dec_ast_seq a with
    | Some pat', Some e, Some cls', Some times', Some a' =>
      Some (mkDecoded mode pat' e cls' times' a')
    | _, _, _, _, _ => None
    end
  | _ => None
  end.

Definition run_requests (pat : str) (cls : cls_tbl) : vl :=
  match parse (alpha_of cls) (alnum_of cls) pat with
  | Ok ps => VL (map (fun f => VL (map VN f)) (flat_map date_requests ps))
  | OutOfFuel => VBad
  end.

(* res of modes 1/2 plus the parsed pieces *)
Definition run_model (d : decoded) : option (vl * list piece) :=
  let al := alpha_of (d_cls d) in
  let an := alnum_of (d_cls d) in
  let ok := strftime_ok_of (d_times d) in
  match parse al an (d_pattern d) with
  | OutOfFuel => None
  | Ok ps =>
    if negb (forallb (fun f => match time_get (d_times d) f with Some _ => true | None => false end)
                     (flat_map date_requests ps)) then None else
    let cs := map (compile ok) ps in
    if existsb has_cpanic cs then Some (VPanic, ps)
    else if d_mode d =? 2 then Some (VOk, ps)
    else if negb (forallb widths_small cs) then None
    else Some (enc_result (encode ok (time_str_of (d_times d)) (d_env d) cs), ps)
  end.

Definition c09_run (v : vl) : vl :=
  match v with
  | VL [VN 0; pat; cls] =>
    match dec_str pat, val_list dec_cls cls with
    | Some pat', Some cls' => run_requests pat' cls'
    | _, _ => VBad
    end
  | _ =>
    match decode v with
    | None => VBad
    | Some d =>
      match run_model d with
      | None => VBad
      | Some (res, _) =>
        let al := alpha_of (d_cls d) in
        let an := alnum_of (d_cls d) in
        let ok := strftime_ok_of (d_times d) in
        match d_ast d with
        | None => VL [res; VL [VN 0; VN 0; VN 0; VN 0; VN 0; VN 0]; VL []]
        | Some seq =>
          if negb (str_eqb (print_seq seq) (d_pattern d)) then VBad else
          VL [res;
              VL [VN 1;
                  VB (wf_seq al an true false seq);
                  VB (wf_seq al an false false seq);
                  VB (forallb (sem_ok ok) seq);
                  VB (forallb (sem_ok ok) seq);   (* formerly sem_ok modulo the MDC finding class (fixed c13258d) *)
                  VN 0];                           (* formerly: in the MDC finding class *)
              enc_result (meaning_seq (time_str_of (d_times d)) (d_env d) seq)]
        end
      end
    end
  end.
