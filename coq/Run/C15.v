(* C15 — decode a case, run the model, encode the observable.
   config : (tag (appname ...) (rootlevel (appname ...)) ((name level additive (appname ...)) ...))
   case kinds:
   (0 configs init reent progs sched)      scheduled scenario on Model/Swap.v
        init  : index of the initial config
        reent : ((tag idx tid k cfgidx) ...)  appender (tag,idx) handling record (tid,k) calls set_config
        progs : (((0 target level) | (1 cfgidx)) ...) per thread
        sched : (tid ...) then round-robin to completion
        -> trace ((0 tid k tag) load | (1 tid k tag idx) deliver | (2 tid k) ret | (3 tag) store | (4 tid) panic)
   (1 configs probes params)               stress: -> per config (tag (route per probe))
   (2 configs old new (target level))      drop probe: one record logged from the drop of each appender of
                                           `old` while set_config(new) runs  -> routes ((tag idx) ...) per probe
   (3 fmt texts (m0 ti0) steps)            reloader on Model/Reloader.v
        texts : ((bytes ok tag hasrate rate) ...)   the parse table
        steps : ((0) | (1 m) | (2 m ti)) ...        Missing | Unreadable m | File m texts[ti]
        -> (table-echo ((err stopped rate active nset) ...))
   (4 fmt texts (m0 ti0) steps)            same model; the harness runs the real reloader thread
   (5 configs seq probes)                  GLOBAL logger (child process): init_config(configs[seq[0]]), then
        handle.set_config(configs[seq[i]]); after each, every probe is logged through the `log!` macro
        (Model/Facade.v: the macro consults log::max_level, which set_config must have updated)
        -> per step, per probe ((tag idx) ...) *)
From L4 Require Import Common.Val Model.Routing Model.Swap Model.Reloader.
From L4 Require Model.Facade Model.FlushPass.
Local Open Scope N_scope.

Definition dec_logger (v : vl) : option logger :=
  match v with
  | VL [VS n; VN l; VN a; aps] =>
    match val_list val_S aps with
    | Some aps' => Some {| l_name := n; l_level := l; l_additive := negb (N.eqb a 0); l_apps := aps' |}
    | None => None
    end
  | _ => None
  end.

Definition dec_tcfg (v : vl) : option tcfg :=
  match v with
  | VL [VN tag; apps; VL [VN rl; ras]; loggers] =>
    match val_list val_S apps, val_list val_S ras, val_list dec_logger loggers with
    | Some aps, Some ras', Some lgs =>
      Some (tag, {| c_appenders := aps; c_root_level := rl; c_root_apps := ras'; c_loggers := lgs |})
    | _, _, _ => None
    end
  | _ => None
  end.

Definition dec_op (cfgs : list tcfg) (v : vl) : option op :=
  match v with
  | VL [VN 0; VS t; VN l] => Some (OLog t l)
  | VL [VN 1; VN ci] => match nth_error cfgs (N.to_nat ci) with Some c => Some (OSet c) | None => None end
  | _ => None
  end.

Definition dec_reent (cfgs : list tcfg) (v : vl) : option (N * N * N * N * tcfg) :=
  match v with
  | VL [VN tag; VN i; VN tid; VN k; VN ci] =>
    match nth_error cfgs (N.to_nat ci) with Some c => Some (tag, i, tid, k, c) | None => None end
  | _ => None
  end.

Fixpoint lookup_reent (tb : list (N * N * N * N * tcfg)) (tag : N) (i : nat) (r : rid) : option tcfg :=
  match tb with
  | [] => None
  | (tag', i', tid', k', c) :: rest =>
    if N.eqb tag tag' && N.eqb (N.of_nat i) i' && N.eqb (N.of_nat (fst r)) tid' && N.eqb (N.of_nat (snd r)) k'
    then Some c else lookup_reent rest tag i r
  end.

Definition enc_rid (r : rid) : list vl := [VN (N.of_nat (fst r)); VN (N.of_nat (snd r))].
Definition enc_event (e : event) : vl :=
  match e with
  | ELoad r s => VL (VN 0 :: enc_rid r ++ [VN (fst s)])
  | EDeliver r tag i => VL (VN 1 :: enc_rid r ++ [VN tag; VN (N.of_nat i)])
  | ERet r => VL (VN 2 :: enc_rid r)
  | EStore s => VL [VN 3; VN (fst s)]
  | EPanic t => VL [VN 4; VN (N.of_nat t)]
  end.

Definition run_sched (cfgs init reent progs sched : vl) : vl :=
  match val_list dec_tcfg cfgs with
  | Some cs =>
    match init, val_list (dec_reent cs) reent,
          val_list (val_list (dec_op cs)) progs, val_list val_N sched with
    | VN i0, Some tb, Some ps, Some sch =>
      match nth_error cs (N.to_nat i0) with
      | Some c0 =>
        match set_config c0 with
        | Some s0 =>
          let re := lookup_reent tb in
          let st := Swap.run re (map N.to_nat sch) (init_state s0 ps) in
          let fuel := (S (fold_left (fun a p => a + length p)%nat ps 0%nat) * 64)%nat in
          VL (map enc_event (trace (finish re fuel st)))
        | None => VErr 1
        end
      | None => VBad
      end
    | _, _, _, _ => VBad
    end
  | None => VBad
  end.

Definition dec_probe (v : vl) : option (str * N) :=
  match v with VL [VS t; VN l] => Some (t, l) | _ => None end.

Definition route_idx (c : tcfg) (p : str * N) : vl :=
  match set_config c with
  | Some s => VL (map (fun i => VN (N.of_nat i)) (deliver (snd s) (fst p) (snd p)))
  | None => VErr 1
  end.

Definition run_stress (cfgs probes : vl) : vl :=
  match val_list dec_tcfg cfgs, val_list dec_probe probes with
  | Some cs, Some prs => VL (map (fun c => VL [VN (fst c); VL (map (route_idx c) prs)]) cs)
  | _, _ => VBad
  end.

(* set_config(new) drops the old SharedLogger after the store; each of its appenders
   logs the probe from its Drop: thread program [OSet new; OLog; ...; OLog] *)
Definition run_drop (cfgs old new probe : vl) : vl :=
  match val_list dec_tcfg cfgs, old, new, dec_probe probe with
  | Some cs, VN io, VN inw, Some (t, l) =>
    match nth_error cs (N.to_nat io), nth_error cs (N.to_nat inw) with
    | Some co, Some cn =>
      match set_config co with
      | Some s0 =>
        let n := length (c_appenders (snd co)) in
        let prog := OSet cn :: repeat (OLog t l) n in
        let st := finish (fun _ _ _ => None) (S n * 64)%nat (init_state s0 [prog]) in
        VL (map (fun k => VL (map (fun d => VL [VN (fst d); VN (N.of_nat (snd d))])
                                  (flat_map (fun e => match e with
                                                      | EDeliver (_, k') tag i =>
                                                        if Nat.eqb k k' then [(tag, i)] else []
                                                      | _ => []
                                                      end) (trace st))))
                    (seq 1 n))
      | None => VErr 1
      end
    | _, _ => VBad
    end
  | _, _, _, _ => VBad
  end.

(* ---- reloader ---- *)
Definition ptab := list (list N * option (N * option N)).

Definition dec_text (v : vl) : option (list N * option (N * option N)) :=
  match v with
  | VL [VS b; VN ok; VN tag; VN hr; VN r] =>
    Some (b, if N.eqb ok 0 then None else Some (tag, if N.eqb hr 0 then None else Some r))
  | _ => None
  end.

Fixpoint parse_tab (tb : ptab) (t : list N) : option (N * option N) :=
  match tb with
  | [] => None
  | (b, r) :: rest => if Str.str_eqb b t then r else parse_tab rest t
  end.

Definition dec_file (tb : ptab) (v : vl) : option file :=
  match v with
  | VL [VN 0] => Some Missing
  | VL [VN 1; VN m] => Some (Unreadable m)
  | VL [VN 2; VN m; VN ti] =>
    match nth_error tb (N.to_nat ti) with Some (b, _) => Some (File m b) | None => None end
  | _ => None
  end.

Definition enc_opt_rate (r : option N) : vl := match r with Some x => VL [VN x] | None => VL [] end.
Definition enc_tab (tb : ptab) : vl :=
  VL (map (fun e => match snd e with
                    | None => VL []
                    | Some (tag, r) => VL [VN tag; enc_opt_rate r]
                    end) tb).

(* observation after each poll: (err stopped rate active nset) *)
Fixpoint polls (parse : list N -> option (N * option N)) (l : loop N) (h : list file) : list vl :=
  match h with
  | [] => []
  | f :: r =>
    let err := if l_running l then
                 match run_once N parse (l_st l) (l_rate l) f with (_, RErr) => 1 | _ => 0 end
               else 0 in
    let l' := poll N parse l f in
    VL [VN err; VB (negb (l_running l')); VN (l_rate l'); VN (r_active (l_st l'));
        VN (N.of_nat (r_nset (l_st l')))] :: polls parse l' r
  end.

Definition run_reload (texts init steps : vl) : vl :=
  match val_list dec_text texts with
  | Some tb =>
    match init, val_list (dec_file tb) steps with
    | VL [VN m0; VN ti0], Some h =>
      match nth_error tb (N.to_nat ti0) with
      | Some (b0, Some (tag0, Some r0)) =>
        let l0 := {| l_st := {| r_mtime := Some m0; r_text := b0; r_active := tag0; r_nset := 0 |};
                     l_rate := r0; l_running := true |} in
        VL [enc_tab tb; VL (polls (parse_tab tb) l0 h)]
      | _ => VBad
      end
    | _, _ => VBad
    end
  | None => VBad
  end.

(* ---- kind 6: the real init_file + refresh thread in lock step (reloader_sleep hook) ----
   first entry: (0 interval) the thread's first sleep | (1 0) no thread; then per edit
   (stopped interval-asked-after-the-poll active nset), interval 0 when stopped *)
Fixpoint thread_polls (parse : list N -> option (N * option N)) (l : loop N) (h : list file) : list vl :=
  match h with
  | [] => []
  | f :: r =>
    let l' := poll N parse l f in
    VL [VB (negb (l_running l')); VN (if l_running l' then l_rate l' else 0); VN (r_active (l_st l'));
        VN (N.of_nat (r_nset (l_st l')))] :: thread_polls parse l' r
  end.

Definition run_thread (texts init steps : vl) : vl :=
  match val_list dec_text texts with
  | Some tb =>
    match init, val_list (dec_file tb) steps with
    | VL [VN m0; VN ti0], Some h =>
      match nth_error tb (N.to_nat ti0) with
      | Some (b0, _) =>
        match init_file N (parse_tab tb) (File m0 b0) with
        | None => VL [VL [VN 2; VN 0]]
        | Some (c, None) =>
          VL (VL [VN 1; VN 0] :: map (fun _ => VL [VB true; VN 0; VN c; VN 0]) h)
        | Some (c, Some l) =>
          (* the first interval is also the head of `sleeps` *)
          VL (VL [VN 0; VN (hd 0 (sleeps N (parse_tab tb) l h))] :: thread_polls (parse_tab tb) l h)
        end
      | None => VBad
      end
    | _, _ => VBad
    end
  | None => VBad
  end.

(* ---- the global facade after each swap (Model/Facade.v = C02's model of the macro) ---- *)
Fixpoint facade_steps (ost : option Facade.fstate) (cs : list tcfg) (prs : list (str * N)) : list vl :=
  match cs with
  | [] => []
  | c :: r =>
    let ost' := match ost with
                | None => Facade.init (snd c)
                | Some st => Facade.set_config st (snd c)
                end in
    match ost' with
    | Some st =>
      VL (map (fun p => VL (map (fun i => VL [VN (fst c); VN (N.of_nat i)])
                                (Facade.macro_log st (fst p) (snd p)))) prs)
      :: facade_steps ost' r prs
    | None => [VErr 1]
    end
  end.

Definition run_facade (cfgs sq probes : vl) : vl :=
  match val_list dec_tcfg cfgs, val_list val_N sq, val_list dec_probe probes with
  | Some cs, Some ids, Some prs =>
    match opt_map (fun i => nth_error cs (N.to_nat i)) ids with
    | Some seqc => VL (facade_steps None seqc prs)
    | None => VBad
    end
  | _, _, _ => VBad
  end.

(* kind 7: ( 7 tag0 n ( (pos kind tag m) ... ) ): a flush pass over a configuration (table tag0, n appenders);
   while appender `pos` is flushed a configuration (tag, m) is installed - kind 0: by that appender's own flush()
   (re-entrant), kind 1: by another thread, before the appender's flush() returns.  Then a second pass (its
   appenders install nothing).  Result ( ((tag i) ...) of pass 1, ((tag i) ...) of pass 2 ). *)

Definition dec_inst (v : vl) : option (nat * N * FlushPass.cell) :=
  match v with
  | VL [VN pos; VN kind; VN tag; VN m] => Some (N.to_nat pos, kind, (tag, N.to_nat m))
  | _ => None
  end.

Fixpoint find_inst (insts : list (nat * N * FlushPass.cell)) (i : nat) : option (N * FlushPass.cell) :=
  match insts with
  | [] => None
  | (p, k, c) :: rest => if Nat.eqb p i then Some (k, c) else find_inst rest i
  end.

(* the flusher moves; after the flush call of an appender with a kind-1 entry the other thread's store follows *)
Fixpoint flush_schedule (insts : list (nat * N * FlushPass.cell)) (n i : nat) : list FlushPass.move :=
  match n with
  | O => [FlushPass.MFlusher]                                          (* the return *)
  | S n' =>
      FlushPass.MFlusher ::
      match find_inst insts i with
      | Some (k, c) => if k =? 1 then FlushPass.MStore c :: flush_schedule insts n' (S i) else flush_schedule insts n' (S i)
      | None => flush_schedule insts n' (S i)
      end
  end.

Definition enc_flushes (t : list FlushPass.fevent) : vl :=
  VL (flat_map (fun e => match e with FlushPass.FFlush tag i => [VL [VN tag; VN (N.of_nat i)]] | _ => [] end) t).

Definition run_flush (tag0 : N) (n : nat) (insts : list (nat * N * FlushPass.cell)) : vl :=
  let reent := fun (tag : N) (i : nat) =>
                 if tag =? tag0 then match find_inst insts i with
                                     | Some (k, c) => if k =? 0 then Some c else None
                                     | None => None
                                     end
                 else None in
  let s1 := FlushPass.run reent (FlushPass.MFlusher :: flush_schedule insts n 0) (FlushPass.init (tag0, n)) in
  let c1 := FlushPass.cur s1 in
  let s2 := FlushPass.run (fun _ _ => None) (FlushPass.MFlusher :: flush_schedule [] (snd c1) 0) (FlushPass.init c1) in
  VL [enc_flushes (FlushPass.trace s1); enc_flushes (FlushPass.trace s2)].

Definition c15_run (v : vl) : vl :=
  match v with
  | VL [VN 0; cfgs; init; reent; progs; sched] => run_sched cfgs init reent progs sched
  | VL [VN 1; cfgs; probes; _] => run_stress cfgs probes
  | VL [VN 2; cfgs; old; new; probe] => run_drop cfgs old new probe
  | VL [VN 3; _; texts; init; steps; _] => run_reload texts init steps
  | VL [VN 4; _; texts; init; steps; _] => run_reload texts init steps
  | VL [VN 5; cfgs; sq; probes] => run_facade cfgs sq probes
  | VL [VN 6; _; texts; init; steps; _; _] => run_thread texts init steps
  | VL [VN 7; VN tag0; VN n; insts] =>
      match val_list dec_inst insts with
      | Some l => run_flush tag0 (N.to_nat n) l
      | None => VBad
      end
  | _ => VBad
  end.
