(* C06 — the case decoder / model runner / observable encoder is shared by the
   three rolling-appender properties: Run/RollingRun.v.
   Histories that contain a record whose ENCODER fails (op (11 chunks)) run on the machine of
   Model/RollingEnc.v (ops 0 append / 1 restart / 11 failed-encoder append only, post-processing
   triggers); entry per op as in RollingRun: ( consultations files err ). *)
From Coq Require Import List NArith Bool.
Import ListNotations.
From L4 Require Import Common.Val Common.FSRoll Model.Rolling Model.RollingEnc Run.RollingRun.
Local Open Scope N_scope.

Definition dec_eop (v : vl) : option eop :=
  match v with
  | VL [VN 0; chunks] => match val_list val_S chunks with Some cs => Some (EAppend cs) | None => None end
  | VL [VN 1; a] => match val_bool a with Some b => Some (ERestart b) | None => None end
  | VL [VN 11; chunks] => match val_list val_S chunks with Some cs => Some (EFail cs) | None => None end
  | _ => None
  end.

Definition is_fail (o : eop) : bool := match o with EFail _ => true | _ => false end.

Fixpoint etrace (c : config) (ops : list eop) (e : est) : list vl :=
  match ops with
  | [] => []
  | o :: r =>
    let '(e1, ev) := estep c o e in
    VL [VL (flat_map enc_event ev); VL (map enc_file (files (est_s e1))); VB (is_fail o)] :: etrace c r e1
  end.

Definition has_fail (ops : vl) : bool :=
  match ops with
  | VL l => existsb (fun o => match o with VL (VN 11 :: _) => true | _ => false end) l
  | _ => false
  end.

Definition c06_run (v : vl) : vl :=
  match v with
  | VL [t; r; p; a; ops] =>
    if has_fail ops then
      match dec_trigger t, dec_roller r, dec_pre p, val_bool a, val_list dec_eop ops with
      | Some tg, Some rl, Some pre, Some a0, Some os =>
        let c := {| trig := tg; roll_by := rl |} in
        if is_pre tg then VBad else
        let e0 := einit a0 pre in
        VL (VL [VL []; VL (map enc_file (files (est_s e0))); VB false] :: etrace c os e0)
      | _, _, _, _, _ => VBad
      end
    else rolling_run v
  | _ => VBad
  end.
