(* Shared by C05 / C06 / C17: decode a history case, run the model
   (Model/Rolling.v, via its `step`), encode the per-op observable.
   case: ( trigger roller pre a0 ops )  — see harness/src/rolling_c05.rs
   result: one entry per op, entry 0 = the initial build:
     ( ((shown disk requested) ...) ((kind idx bytes) ...) err )
   err = 1 iff the call returned Err (only an append hitting a failing roller). *)
From L4 Require Import Common.Val Common.FSRoll Model.Rolling Model.RollingFail.
Local Open Scope N_scope.

Definition dec_trigger (v : vl) : option trigger :=
  match v with
  | VL [VN 0; VN limit] => Some (TSize limit)
  | VL [VN 1; VN m] => Some (TStartup m)
  | VL [VN 2; p; sc] =>
    match val_bool p, val_list val_N sc with
    | Some pre, Some script =>
      Some (TUser pre (fun i len => match nth_error script i with
                                    | Some t => t <=? len
                                    | None => false
                                    end))
    | _, _ => None
    end
  | _ => None
  end.

Definition dec_roller (v : vl) : option roller :=
  match v with
  | VL [VN 0] => Some Delete
  | VL (VN 1 :: VN b :: VN c :: _) => Some (Window (N.to_nat b) (N.to_nat c))   (* gz / pattern shape / background: not in the model *)
  | _ => None
  end.

Definition dec_pre (v : vl) : option (option bytes) :=
  match v with
  | VL [VN 0] => Some None
  | VL [VN 1; VS b] => Some (Some b)
  | _ => None
  end.

Definition dec_op (v : vl) : option xop :=
  match v with
  | VL [VN 0; chunks] =>
    match val_list val_S chunks with Some cs => Some (XOp (Append cs)) | None => None end
  | VL [VN 1; a] =>
    match val_bool a with Some b => Some (XOp (Restart b)) | None => None end
  | VL [VN 7; chunks] =>                      (* append while the roller is set to fail *)
    match val_list val_S chunks with Some cs => Some (XAppendFail cs) | None => None end
  | VL [VN 12; chunks] =>                     (* append; the roller (if called) rotates, then reports failure *)
    match val_list val_S chunks with Some cs => Some (XAppendFailAfter cs) | None => None end
  | _ => None
  end.

Definition enc_event (e : event) : list vl :=
  match e with
  | EConsult shown disk fire => [VL [VN shown; VN disk; VB fire]]
  | _ => []
  end.

Definition enc_file (p : fname * bytes) : vl :=
  match fst p with
  | Active => VL [VN 0; VN 0; VS (snd p)]
  | Arch i => VL [VN 1; VN (N.of_nat i); VS (snd p)]
  end.

Fixpoint trace (c : config) (ops : list xop) (s : state) : list vl :=
  match ops with
  | [] => []
  | o :: ops' =>
    let '(s1, ev, err) := xstep c o s in
    VL [VL (flat_map enc_event ev); VL (map enc_file (files s1)); VB err] :: trace c ops' s1
  end.

Definition rolling_run (v : vl) : vl :=
  match v with
  | VL [t; r; p; a; ops] =>
    match dec_trigger t, dec_roller r, dec_pre p, val_bool a, val_list dec_op ops with
    | Some tg, Some rl, Some pre, Some a0, Some os =>
      VL (trace {| trig := tg; roll_by := rl |} (XOp (Restart a0) :: os) (raw pre))
    | _, _, _, _, _ => VBad
    end
  | _ => VBad
  end.
