(* C04 — decode a case, run the model, encode the observable.
   kind 0  sequential history on one log file:
             (0 enc a pre (op ...))     enc: 0 scripted chunks, 1 PatternEncoder "{m}{n}"
             a: 1 append / 0 truncate   pre: (0) no file | (1 bytes)
             op: (0 (chunk ...)) append one record | (1 a) drop the appender and build a new one |
                 (2 (chunk ...)) append a record whose (scripted) encoder writes the chunks, then fails |
                 (3 a) the log file is renamed away, a new appender is built on the path, the old one dropped
           result: ((ok disk) ...) — first entry after the initial build, then one per op
   kind 1  trace validation of a concurrent run of the real appender:
             (1 a pre yield ((record ...) per thread) observed-file)   record = (chunk ...)
           result: (1 (thread ...)) admissible, order of the records | (0) not admissible
   kind 2  BufWriter model against a scripted short-writing inner writer:
             (2 cap (resp ...) (op ...))  resp: (0 k) accept k | (1) error
             op: (0 d) write_all | (1 d) write | (2) flush
           result: ((res inner buffered) ...) res: (1) ok | (0) err | (1 n) for write
   kind 3  several O_APPEND writers on one path:
             (3 pre (op ...))  op: (0 h (chunk ...)) append through appender h | (1 d) external
             append of d | (2 h) build appender h in append mode (dropping a previous one in slot h)
           result: (disk ...) one snapshot per op *)
From L4 Require Import Common.Val Common.Sched Model.BufW Model.FileApp.
Local Open Scope N_scope.

Definition dec_pre (v : vl) : option (option bytes) :=
  match v with
  | VL [VN 0] => Some None
  | VL [VN _; VS b] => Some (Some b)
  | _ => None
  end.

Definition dec_chunks (v : vl) : option record := val_list val_S v.

Inductive sop := SAppend (cs : record) | SReopen (a : bool) | SAppendFail (cs : record)
                | SRotatedAway (a : bool).   (* the file was renamed away; a new appender is built on the path *)

Definition dec_sop (v : vl) : option sop :=
  match v with
  | VL [VN 0; cs] => match dec_chunks cs with Some l => Some (SAppend l) | None => None end
  | VL [VN 2; cs] => match dec_chunks cs with Some l => Some (SAppendFail l) | None => None end
  | VL [VN 3; VN a] => Some (SRotatedAway (negb (a =? 0)))
  | VL [VN _; VN a] => Some (SReopen (negb (a =? 0)))
  | _ => None
  end.

Definition res_ok (r : res) : bool := match r with Ok _ => true | Err _ => false end.

Fixpoint seq_run (enc : bool) (st : fstate) (ops : list sop) : list vl :=
  match ops with
  | [] => []
  | SAppend cs :: r =>
    let rs := append cap st (if enc then cs ++ [[10]] else cs) in
    VL [VB (res_ok rs); VS (disk (res_state rs))] :: seq_run enc (res_state rs) r
  | SAppendFail cs :: r =>               (* the scripted encoder writes cs, then returns Err *)
    let rs := append_enc_fails cap st cs in
    VL [VB (res_ok rs); VS (disk (res_state rs))] :: seq_run enc (res_state rs) r
  | SRotatedAway a :: r =>             (* nothing is at the path: fa_open creates the file *)
    match fa_open a None [] with
    | Some st' => VL [VB true; VS (disk st')] :: seq_run enc st' r
    | None => [VBad]
    end
  | SReopen a :: r =>
    let st1 := snd (bw_flush st) in     (* BufWriter::drop flushes, ignoring errors *)
    match fa_open a (Some (disk st1)) [] with
    | Some st' => VL [VB true; VS (disk st')] :: seq_run enc st' r
    | None => [VBad]
    end
  end.

Definition dec_resp (v : vl) : option resp :=
  match v with
  | VL [VN 0; VN k] => Some (Acc (N.to_nat k))
  | VL [VN _] => Some IoErr
  | _ => None
  end.

Inductive bop := BWriteAll (d : bytes) | BWrite (d : bytes) | BFlush.

Definition dec_bop (v : vl) : option bop :=
  match v with
  | VL [VN 0; VS d] => Some (BWriteAll d)
  | VL [VN 1; VS d] => Some (BWrite d)
  | VL [VN _] => Some BFlush
  | _ => None
  end.

Fixpoint bw_run (c : nat) (st : fstate) (ops : list bop) : list vl :=
  match ops with
  | [] => []
  | op :: r =>
    let '(code, st') :=
        match op with
        | BWriteAll d => let '(ok, s) := bw_write_all c d st in (VL [VB ok], s)
        | BFlush => let '(ok, s) := bw_flush st in (VL [VB ok], s)
        | BWrite d => match bw_write c d st with
                      | (Some n, s) => (VL [VN 1; VN (N.of_nat n)], s)
                      | (None, s) => (VL [VN 0], s)
                      end
        end in
    VL [code; VS (disk st'); VS (buf st')] :: bw_run c st' r
  end.

Definition dec_hop (v : vl) : option hop :=
  match v with
  | VL [VN 0; VN h; cs] => match dec_chunks cs with Some l => Some (HAppend (N.to_nat h) l) | None => None end
  | VL [VN 1; VS d] => Some (HExternal d)
  | VL [VN _; VN h] => Some (HBuild (N.to_nat h))
  | _ => None
  end.

Fixpoint hop_run (m : mstate) (ops : list hop) : list vl :=
  match ops with
  | [] => []
  | op :: r => let m' := hop_step cap m op in VS (mdisk m') :: hop_run m' r
  end.

(* kind 5 with room = 0: the file cannot grow by a single byte while the first n_full records are appended (every
   write(2) fails: the script is IoErr as often as needed), then the disk works again (empty script = accepts all);
   dropping the appender flushes what is still buffered.  Result ((ok ...) final-file). *)
Fixpoint full_run (st : fstate) (n_full : nat) (rs : list record) : list bool * fstate :=
  match rs with
  | [] => ([], st)
  | r :: rest =>
    let st0 := match n_full with O => mkF (disk st) (buf st) [] | S _ => st end in
    let rs1 := append cap st0 r in
    let '(oks, stf) := full_run (res_state rs1) (Nat.pred n_full) rest in
    (res_ok rs1 :: oks, stf)
  end.

Definition c04_run (v : vl) : vl :=
  match v with
  | VL [VN 5; VN a; pre; VN 0; VN n_full; recs] =>
    match dec_pre pre, val_list dec_chunks recs with
    | Some p, Some rs =>
      match fa_open (negb (a =? 0)) p (repeat IoErr 4000) with
      | Some st =>
        let '(oks, stf) := full_run st (N.to_nat n_full) rs in
        let stl := mkF (disk stf) (buf stf) [] in
        VL [VL (map VB oks); VS (disk (snd (bw_flush stl)))]
      | None => VBad
      end
    | _, _ => VBad
    end
  | VL (VN 5 :: _) => VL []          (* room > 0: judged by the direct oracle only (no byte-budget script) *)
  | VL [VN 0; VN enc; VN a; pre; ops] =>
    match dec_pre pre, val_list dec_sop ops with
    | Some p, Some l =>
      match fa_open (negb (a =? 0)) p [] with
      | Some st => VL (VL [VB true; VS (disk st)] :: seq_run (negb (enc =? 0)) st l)
      | None => VBad
      end
    | _, _ => VBad
    end
  | VL [VN 1; VN a; pre; VN _; ths; VS obs] =>
    match dec_pre pre, val_list (val_list dec_chunks) ths with
    | Some p, Some l =>
      match fa_open (negb (a =? 0)) p [] with
      | Some st =>
        match check_trace (disk st) (map (map (@concat N)) l) obs with
        | Some order => VL [VN 1; VL (map (fun i => VN (N.of_nat i)) order)]
        | None => VL [VN 0]
        end
      | None => VBad
      end
    | _, _ => VBad
    end
  | VL [VN 3; pre; ops] =>
    match dec_pre pre, val_list dec_hop ops with
    | Some p, Some l =>
      VL (hop_run (mkM (match p with Some b => b | None => [] end) (fun _ => []) []) l)
    | _, _ => VBad
    end
  | VL [VN 2; VN c; o; ops] =>
    match val_list dec_resp o, val_list dec_bop ops with
    | Some orc0, Some l => VL (bw_run (N.to_nat c) (mkF [] [] orc0) l)
    | _, _ => VBad
    end
  | _ => VBad
  end.
