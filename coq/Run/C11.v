(* C11 — same case format and decoding as C09 (Run/C09.v).
   result (mode 1/2): ( res flags ), flags = ( tz_class has_error_piece )
   mode 0: the date formats to ask the chrono oracle about.                  *)
From Coq Require Import List NArith Bool.
Import ListNotations.
From L4 Require Import Common.Val Model.Pattern Proofs.PatternSpec Run.C09.
Local Open Scope N_scope.

Fixpoint has_error (p : piece) : bool :=
  match p with
  | PError _ => true
  | PArg _ args _ => existsb (existsb has_error) args
  | PText _ => false
  end.

Definition c11_run (v : vl) : vl :=
  match v with
  | VL [VN 0; _; _] => c09_run v
  | _ =>
    match decode v with
    | None => VBad
    | Some d =>
      match run_model d with
      | None => VBad
      | Some (res, ps) =>
        VL [res; VL [VB (existsb (tz_class (strftime_ok_of (d_times d))) ps);
                     VB (existsb has_error ps)]]
      end
    end
  end.
