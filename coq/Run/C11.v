(* C11 -- same case format and decoding as C09 (Run/C09.v), except the last
   field:  ast = () | ( (node..) junk ) : the pattern is the printed AST
   followed by the arbitrary string junk.
   result (mode 1/2): ( res flags errs meaning )
     res     "panic" | "ok" | ( event.. )           (as in C09)
     flags   ( tz_class has_error_piece has_ast prefix_ok )
     errs    ( msg.. ) messages of the top-level Error chunks (each must be
             visible as "{ERROR: msg}" in the output)
     meaning ( event.. ) of the AST: when prefix_ok, the output starts with it
   mode 0: the date formats to ask the chrono oracle about. -- *)
From Coq Require Import List NArith Bool.
Import ListNotations.
From L4 Require Import Common.Val Model.Pattern Proofs.PatternSpec Run.C09.
Local Open Scope N_scope.

Fixpoint has_error (p : piece) : bool :=
  match p with
  | PError _ => true
  | PArg _ args _ => existsb (existsb has_error) args
  | PText _ => false
  end.

Definition top_errors (cs : list chunk) : list str :=
  flat_map (fun c => match c with CError m => [m] | _ => [] end) cs.

(* the junk must not be pulled into the last format's fill look-ahead
   (finding F-C09-empty-spec-lookahead) *)
Definition junk_ok (seq : list ast) (junk : str) : bool :=
  negb (match rev seq with a :: _ => colon_only a | [] => false end
        && match junk with c :: _ => (c =? 60) || (c =? 62) | [] => false end).

Definition c11_run (v : vl) : vl :=
  match v with
  | VL [VN 0; _; _] => c09_run v
  | VL [mode; pat; rec; mdc; thread; cls; rt; times; a] =>
    match decode (VL [mode; pat; rec; mdc; thread; cls; rt; times; VL []]) with
    | None => VBad
    | Some d =>
      match run_model d with
      | None => VBad
      | Some (res, ps) =>
        let al := alpha_of (d_cls d) in
        let an := alnum_of (d_cls d) in
        let ok := strftime_ok_of (d_times d) in
        let flags2 := [VN 0 (* formerly: in the zone finding class (fixed d5a5dce) *); VB (existsb has_error ps)] in
        let errs := VL (map (fun m => VL (map VN m)) (top_errors (map (compile ok) ps))) in
        match a with
        | VL [] => VL [res; VL (flags2 ++ [VN 0; VN 0]); errs; VL []]
        | VL [sq; jk] =>
          match dec_ast_seq sq, dec_str jk with
          | Some seq, Some junk =>
            if negb (str_eqb (print_seq seq ++ junk) (d_pattern d)) then VBad else
            VL [res;
                VL (flags2 ++ [VN 1;
                      VB (wf_seq al an true false seq && forallb (sem_ok ok) seq && junk_ok seq junk)]);
                errs;
                enc_result (meaning_seq (time_str_of (d_times d)) (d_env d) seq)]
          | _, _ => VBad
          end
        | _ => VBad
        end
      end
    end
  | _ => VBad
  end.
