(* C01 — decode a case, run the model, encode the observable.
   case: ( (appname ...) (rootlevel (appname ...)) ((name level additive (appname ...)) ...)
           ((target level) ...) [ (failing-appender-index ...) ] )
   The optional 5th component names appenders whose `append` returns Err after
   recording the call.  The model ignores it: an appender's failure has no
   influence on routing (`ConfiguredLogger::log` collects the error and goes on).
   result: ( (idx ...) ... )  per probe the appender indices whose append is called, in order;
           ("err" 1) when SharedLogger::new would panic (unresolved appender reference) *)
From L4 Require Import Common.Val Model.Routing.
Local Open Scope N_scope.

Definition dec_logger (v : vl) : option logger :=
  match v with
  | VL [VS n; VN l; VN a; aps] =>
    match val_list val_S aps with
    | Some aps' => Some {| l_name := n; l_level := l; l_additive := negb (N.eqb a 0); l_apps := aps' |}
    | None => None
    end
  | _ => None
  end.

Definition dec_config (apps root loggers : vl) : option config :=
  match val_list val_S apps, root, val_list dec_logger loggers with
  | Some aps, VL [VN rl; ras], Some lgs =>
    match val_list val_S ras with
    | Some ras' => Some {| c_appenders := aps; c_root_level := rl; c_root_apps := ras'; c_loggers := lgs |}
    | None => None
    end
  | _, _, _ => None
  end.

Definition dec_probe (v : vl) : option (str * N) :=
  match v with VL [VS t; VN l] => Some (t, l) | _ => None end.

Definition c01_route (apps root loggers probes : vl) : vl :=
    match dec_config apps root loggers, val_list dec_probe probes with
    | Some cfg, Some prs =>
      match build cfg with
      | Some t => VL (map (fun p => VL (map (fun i => VN (N.of_nat i)) (deliver t (fst p) (snd p)))) prs)
      | None => VErr 1
      end
    | _, _ => VBad
    end.

Definition c01_run (v : vl) : vl :=
  match v with
  | VL [apps; root; loggers; probes] => c01_route apps root loggers probes
  | VL [apps; root; loggers; probes; VL _] => c01_route apps root loggers probes
  | _ => VBad
  end.
