(* C10 — decode a case, run the model, encode the observable.
   case: ( script pieces target items )
     script : ( n ... )   bytes the sink accepts at its i-th write call, cycled; 0 = all; () = all
     pieces : ( xHEX ... ) the `&str` pieces the message's Display impl writes
     target : xHEX         the record's target
     items  : ( item ... ) the pattern
     item   : (0 params)        {m params}
            | (1 xHEX)          literal text
            | (2 params)        {t params}
            | (3 params)        {l params}   (level is INFO)
            | (4 params items)  {( items ) params}
     params : ( mn mx align fill )  mn, mx: 0 = absent, k+1 = width k;
              align: 0 absent (left), 1 '<', 2 '>'; fill: xHEX of one char, empty = absent (' ')
   result: the bytes that reached the sink, or (err 1) when the model's write_all fails *)
From L4 Require Import Common.Val Model.Width.
From Coq Require Import Arith.
Local Open Scope N_scope.

Definition dec_width (n : N) : option nat :=
  if n =? 0 then None else Some (N.to_nat (n - 1)).

Definition dec_params (v : vl) : option params :=
  match v with
  | VL [VN mn; VN mx; VN al; VS fill] =>
    Some {| p_min := dec_width mn; p_max := dec_width mx;
            p_right := (al =? 2);
            p_fill := match fill with [] => [32] | _ => fill end |}
  | _ => None
  end.

Fixpoint chunks_pat (cs : list bytes) (rest : pat) : pat :=
  match cs with
  | [] => rest
  | c :: t => PChunk c (chunks_pat t rest)
  end.

Definition level_text : bytes := [73; 78; 70; 79].   (* "INFO" *)

Fixpoint dec_item (pieces : list bytes) (target : bytes) (v : vl) {struct v} : option (pat -> pat) :=
  match v with
  | VL [VN 0; pv] =>
    match dec_params pv with
    | Some p => Some (PGroup p (chunks_pat pieces PNil))
    | None => None
    end
  | VL [VN 1; VS text] => Some (PChunk text)
  | VL [VN 2; pv] =>
    match dec_params pv with
    | Some p => Some (PGroup p (PChunk target PNil))
    | None => None
    end
  | VL [VN 3; pv] =>
    match dec_params pv with
    | Some p => Some (PGroup p (PChunk level_text PNil))
    | None => None
    end
  | VL [VN 4; pv; VL items] =>
    match dec_params pv,
          (fix go (l : list vl) : option pat :=
             match l with
             | [] => Some PNil
             | x :: t =>
               match dec_item pieces target x, go t with
               | Some f, Some r => Some (f r)
               | _, _ => None
               end
             end) items with
    | Some p, Some body => Some (PGroup p body)
    | _, _ => None
    end
  | _ => None
  end.

Fixpoint dec_items (pieces : list bytes) (target : bytes) (l : list vl) : option pat :=
  match l with
  | [] => Some PNil
  | x :: t =>
    match dec_item pieces target x, dec_items pieces target t with
    | Some f, Some r => Some (f r)
    | _, _ => None
    end
  end.

Definition script_oracle (script : list N) : oracle :=
  fun i n =>
    match script with
    | [] => n
    | _ => let k := nth (Nat.modulo i (length script)) script 0 in
           if k =? 0 then n else N.to_nat k
    end.

Definition c10_run (v : vl) : vl :=
  match v with
  | VL [script; pieces; VS target; VL items] =>
    match val_list val_N script, val_list val_S pieces with
    | Some sc, Some ps =>
      match dec_items ps target items with
      | Some q =>
        match run_pattern (script_oracle sc) q with
        | Some o => VS o
        | None => VErr 1
        end
      | None => VBad
      end
    | _, _ => VBad
    end
  | _ => VBad
  end.
