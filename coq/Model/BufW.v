(* Model of std::io::BufWriter<File> as used by the file appender
   (executable definitions only; proofs in Proofs/FileApp.v).

   What is modelled, from std's source (library/std/src/io/buffered/bufwriter.rs):
     write(buf)      if buf.len() <  spare_capacity           -> copy into the buffer
                     else (cold) if buf.len() > spare_capacity -> flush_buf()?
                                 if buf.len() >= capacity      -> ONE inner.write(buf) (bypass)
                                 else                          -> copy into the buffer
     write_all(buf)  same, the bypass being inner.write_all(buf)
     flush_buf()     loop { inner.write(&buf[written..]) }: Ok(0) -> Err(WriteZero);
                     the written prefix is removed from the buffer even on error
     flush()         flush_buf()? ; inner.flush()          (File::flush is a no-op)
   spare_capacity = capacity - buffer length.  The capacity is a PARAMETER `c`
   of every function (the appender passes 1024); all theorems hold for every c.

   The underlying file is an explicit oracle: `orc : list resp` scripts the
   answers of successive write(2) calls on non-empty data:
     Acc k   accepts min k len bytes (a SHORT WRITE when k < len; Acc 0 = Ok(0))
     IoErr   fails (any error other than Interrupted, which std retries)
   an exhausted script accepts everything (what a regular file normally does).
   Bytes accepted by a write(2) are appended to `disk` (O_APPEND, or the cursor
   of the only writer of a freshly truncated file).  `disk` is what any other
   reader of the file sees; `buf` is private to the process. *)
From Coq Require Import List Arith NArith Bool.
Import ListNotations.

Definition byte := N.
Definition bytes := list N.

Inductive resp := Acc (k : nat) | IoErr.

Record fstate := mkF {
  disk : bytes;        (* content of the file as seen by any reader *)
  buf : bytes;         (* BufWriter's private buffer *)
  orc : list resp      (* remaining acceptance script of the OS *)
}.

(* One inner.write(d) on non-empty d: (Some accepted | None = error, disk, oracle). *)
Definition raw_write (o : list resp) (dk d : bytes) : option nat * bytes * list resp :=
  match d with
  | [] => (Some 0, dk, o)
  | _ :: _ =>
    match o with
    | [] => (Some (length d), dk ++ d, [])
    | IoErr :: o' => (None, dk, o')
    | Acc k :: o' => (Some (Nat.min k (length d)), dk ++ firstn k d, o')
    end
  end.

(* The write loop shared by flush_buf and the default Write::write_all:
   keep writing the rest of d until it is empty; Ok(0) and errors stop it.
   Result: (ok, disk, unwritten remainder, oracle). *)
Fixpoint drain (o : list resp) (dk d : bytes) {struct o} : bool * bytes * bytes * list resp :=
  match d with
  | [] => (true, dk, [], o)
  | _ :: _ =>
    match o with
    | [] => (true, dk ++ d, [], [])
    | IoErr :: o' => (false, dk, d, o')
    | Acc 0 :: o' => (false, dk, d, o')
    | Acc (S k) :: o' => drain o' (dk ++ firstn (S k) d) (skipn (S k) d)
    end
  end.

(* BufWriter::flush_buf *)
Definition flush_buf (st : fstate) : bool * fstate :=
  let '(ok, dk, r, o) := drain (orc st) (disk st) (buf st) in
  (ok, mkF dk r o).

Definition spare (c : nat) (st : fstate) : nat := c - length (buf st).

Definition push (d : bytes) (st : fstate) : fstate := mkF (disk st) (buf st ++ d) (orc st).

(* BufWriter::write_all (write_all_cold inlined) *)
Definition bw_write_all (c : nat) (d : bytes) (st : fstate) : bool * fstate :=
  if length d <? spare c st then (true, push d st)
  else
    let '(ok1, st1) := if spare c st <? length d then flush_buf st else (true, st) in
    if negb ok1 then (false, st1)
    else if c <=? length d then
      let '(ok, dk, _, o) := drain (orc st1) (disk st1) d in
      (ok, mkF dk (buf st1) o)
    else (true, push d st1).

(* BufWriter::write (write_cold inlined): None = Err, Some n = Ok(n) *)
Definition bw_write (c : nat) (d : bytes) (st : fstate) : option nat * fstate :=
  if length d <? spare c st then (Some (length d), push d st)
  else
    let '(ok1, st1) := if spare c st <? length d then flush_buf st else (true, st) in
    if negb ok1 then (None, st1)
    else if c <=? length d then
      let '(r, dk, o) := raw_write (orc st1) (disk st1) d in
      (r, mkF dk (buf st1) o)
    else (Some (length d), push d st1).

(* BufWriter::flush *)
Definition bw_flush (st : fstate) : bool * fstate := flush_buf st.
