(* Executable model of FixedWindowRoller::roll under the `background_rotation`
   feature (src/append/rolling_file/policy/compound/roll/fixed_window.rs:134-171)
   together with the file operations the RollingFileAppender performs around it.

   What the code does:  roll(file) =
       temp := make_temp_file_name(file)      -- a name that does NOT exist (`while temp.exists()`)
       move_file(file, temp)                  -- synchronous, NotFound tolerated
       wait until `ready`; ready := false     -- at most one rotation thread at a time
       spawn { rotate(pattern, .., temp); ready := true; notify }
   and rotate(.., src) = for i in (base..base+count-1).rev() { move(i, i+1) }; move(src, base).

   The model is an interleaving machine over a *store* (file name -> content):
     - the foreground (the thread inside RollingFileAppender::append, which holds
       the appender's mutex, hence is sequential) is a list of micro-operations
       `fgm`, one per file-system call it makes;
     - the background thread is the list of rename steps it still has to do
       (`infl`, "in flight");
     - a schedule (list bool) picks, step by step, who moves; `MSpawn` is blocked
       while a rotation is in flight (the wait on `ready`).
   `prog_of` derives the foreground program from the synchronous appender model
   (Model/Rolling.v): it is exactly the list of file-system calls that model makes.

   Assumed (documented OS / library behaviour): rename replaces atomically and a
   missing source is tolerated; a compressed archive is represented by its
   decompressed bytes; thread spawn/condvar as described above (parking_lot's
   Condvar has no spurious wake-ups).  `bad` records a violated precondition of
   the temp name: make_temp_file_name's loop exits only on a name that does not
   exist, and the appender only rolls a file it has opened — a run with `bad =
   true` is outside what the code can do. *)
From Coq Require Import List NArith Bool Arith.
Import ListNotations.
From L4 Require Import Common.FSRoll Model.Rolling.

Inductive bname : Type := BActive | BArch (i : nat) | BTemp (k : nat).

Definition bname_eqb (a b : bname) : bool :=
  match a, b with
  | BActive, BActive => true
  | BArch i, BArch j => Nat.eqb i j
  | BTemp i, BTemp j => Nat.eqb i j
  | _, _ => false
  end.

Definition store := bname -> option bytes.

Definition upd (n : bname) (v : option bytes) (f : store) : store :=
  fun m => if bname_eqb n m then v else f m.

(* fs::rename as used by move_file: a missing source = nothing happens *)
Definition ren (s d : bname) (f : store) : store :=
  match f s with
  | None => f
  | Some v => upd d (Some v) (upd s None f)
  end.

Inductive bstep : Type := SRen (s d : bname).

Definition exec1 (st : bstep) (f : store) : store :=
  match st with SRen s d => ren s d f end.

Definition exec (l : list bstep) (f : store) : store :=
  fold_left (fun g st => exec1 st g) l f.

(* the shift loop, highest index first (k = count - 1 steps) *)
Fixpoint shift_steps (b k : nat) : list bstep :=
  match k with
  | O => []
  | S k' => SRen (BArch (b + k')) (BArch (b + k' + 1)) :: shift_steps b k'
  end.

(* rotate(.., src): the shift, then src -> base *)
Definition rotate_steps (b k : nat) (src : bname) : list bstep :=
  shift_steps b k ++ [SRen src (BArch b)].

(* ---- file operations of the appender on the active file ---- *)
Definition open_f (trunc : bool) (f : store) : store :=
  if trunc then upd BActive (Some []) f
  else match f BActive with Some _ => f | None => upd BActive (Some []) f end.

Definition write_f (ch : bytes) (f : store) : store :=
  upd BActive (Some ((match f BActive with Some v => v | None => [] end) ++ ch)) f.

Definition remove_f (f : store) : store := upd BActive None f.

(* foreground micro-operations: one per file-system call *)
Inductive fgm : Type :=
| MOpen (trunc : bool)       (* get_writer: OpenOptions append/truncate + create *)
| MWrite (ch : bytes)        (* one chunk reaching the file *)
| MRemove                    (* DeleteRoller / count = 0: remove_file *)
| MRename (t : nat)          (* background roll, part 1: move_file(file, temp_t) *)
| MSpawn (t : nat)           (* background roll, part 2: wait for `ready`, spawn rotate(temp_t) *).

Record bst := { bfiles : store; infl : list bstep; bad : bool }.

Definition is_some {A} (o : option A) : bool := match o with Some _ => true | None => false end.

(* None = the foreground is blocked *)
Definition fg_step (b k : nat) (m : fgm) (s : bst) : option bst :=
  match m with
  | MOpen t => Some {| bfiles := open_f t (bfiles s); infl := infl s; bad := bad s |}
  | MWrite ch => Some {| bfiles := write_f ch (bfiles s); infl := infl s; bad := bad s |}
  | MRemove => Some {| bfiles := remove_f (bfiles s); infl := infl s; bad := bad s |}
  | MRename t =>
    Some {| bfiles := ren BActive (BTemp t) (bfiles s); infl := infl s;
            bad := bad s || is_some (bfiles s (BTemp t)) || negb (is_some (bfiles s BActive)) |}
  | MSpawn t =>
    match infl s with
    | [] => Some {| bfiles := bfiles s; infl := rotate_steps b k (BTemp t); bad := bad s |}
    | _ :: _ => None
    end
  end.

Definition bg_step (s : bst) : bst :=
  match infl s with
  | [] => s
  | st :: r => {| bfiles := exec1 st (bfiles s); infl := r; bad := bad s |}
  end.

(* one scheduling decision: true = the foreground thread, false = the rotation thread;
   a blocked or finished thread stutters *)
Definition sched_step (b k : nat) (who : bool) (ps : list fgm * bst) : list fgm * bst :=
  let '(prog, s) := ps in
  if who then
    match prog with
    | [] => (prog, s)
    | m :: r => match fg_step b k m s with Some s' => (r, s') | None => (prog, s) end
    end
  else (prog, bg_step s).

Definition run_bg (b k : nat) (sch : list bool) (prog : list fgm) (s : bst) : list fgm * bst :=
  fold_left (fun ps who => sched_step b k who ps) sch (prog, s).

(* start: nothing in flight *)
Definition bg_init (f : store) : bst := {| bfiles := f; infl := []; bad := false |}.

(* ---- the synchronous roller on the same store (what the default build does) ---- *)
Definition sync_roll (b k : nat) (f : store) : store :=
  ren BActive (BArch b) (exec (shift_steps b k) f).

Definition sync1 (b k : nat) (m : fgm) (f : store) : store :=
  match m with
  | MOpen t => open_f t f
  | MWrite ch => write_f ch f
  | MRemove => remove_f f
  | MRename _ => sync_roll b k f
  | MSpawn _ => f
  end.

Definition sync_exec (b k : nat) (prog : list fgm) (f : store) : store :=
  fold_left (fun g m => sync1 b k m g) prog f.

(* ---- the foreground program of the appender model (Model/Rolling.v) ---- *)
Definition gw_ops (s : state) : list fgm :=
  match writer s with Some _ => [] | None => [MOpen (negb (app s))] end.

Definition roll_ops (r : roller) (t : nat) : list fgm :=
  match r with
  | Delete => [MRemove]
  | Window _ O => [MRemove]
  | Window _ (S _) => [MRename t; MSpawn t]
  end.

Definition rolled (s1 : state) : bool := negb (is_some (writer s1)).

(* the file-system calls of RollingFileAppender::append, in order (cf. append_op) *)
Definition append_prog (c : config) (chunks : list bytes) (s : state) (t : nat) : list fgm :=
  let s0 := get_writer s in
  if is_pre (trig c) then
    let s1 := fst (process c s0) in
    gw_ops s ++ (if rolled s1 then roll_ops (roll_by c) t else []) ++ gw_ops s1 ++ map MWrite chunks
  else
    let s1 := encode_flush chunks s0 in
    let s2 := fst (process c s1) in
    gw_ops s ++ map MWrite chunks ++ (if rolled s2 then roll_ops (roll_by c) t else []).

Definition step_prog (c : config) (o : op) (s : state) (t : nat) : list fgm :=
  match o with
  | Append chunks => append_prog c chunks s t
  | Restart a => [MOpen (negb a)]
  end.

(* `ts i` = the temp name chosen by the i-th operation's roll (if it rolls) *)
Fixpoint prog_of (c : config) (ops : list op) (s : state) (ts : nat -> nat) (i : nat) : list fgm :=
  match ops with
  | [] => []
  | o :: r => step_prog c o s (ts i) ++ prog_of c r (fst (step c o s)) ts (S i)
  end.

Definition to_store (f : fs) : store :=
  fun n => match n with
           | BActive => lookup f Active
           | BArch i => lookup f (Arch i)
           | BTemp _ => None
           end.

Definition bk_of (r : roller) : nat * nat :=
  match r with Window b (S k) => (b, k) | Window b O => (b, 0) | Delete => (0, 0) end.
