(* Model of log4rs::append::file::FileAppender (src/append/file.rs) over the
   BufWriter model Model/BufW.v (executable definitions only).

   FileAppenderBuilder::build:
       OpenOptions::new().write(true).append(a).truncate(!a).create(true).open(path)
       BufWriter::with_capacity(1024, file)
   FileAppender::append:
       let mut file = self.file.lock();       -- Acquire
       self.encoder.encode(&mut *file, record)?;   -- the encoder issues write_all(chunk) calls
       file.flush()?;                          -- Flush
       Ok(())                                  -- guard dropped: Release

   External things and how they appear here:
     * OpenOptions/open(2): `os_open` (documented semantics of append/truncate/
       create on a path that holds `pre : option bytes`, None = no such file);
     * the encoder: an arbitrary list of chunks (`record := list bytes`), one
       write_all per chunk (SimpleWriter forwards write_all/write_fmt to
       BufWriter::write_all);
     * BufWriter and the file: Model/BufW.v (short writes / errors by oracle);
     * parking_lot::Mutex: the lock of Common/Sched.v; a thread that calls
       append r1, r2, ... is the micro-step program
           Acquire; Write c1; ...; Write ck; Flush; Release      per record.
   create_dir_all and $ENV expansion of the path are not modelled (C19). *)
From Coq Require Import List Arith NArith Bool.
Import ListNotations.
From L4 Require Import Common.Sched Model.BufW.

Definition cap : nat := 1024.

(* open(2) with O_APPEND / O_TRUNC / O_CREAT on a path holding `pre` *)
Definition os_open (o_append o_trunc o_create : bool) (pre : option bytes) : option bytes :=
  match pre with
  | None => if o_create then Some [] else None
  | Some content => if o_trunc then Some [] else Some content
  end.

(* FileAppenderBuilder::build with `.append(a)` *)
Definition fa_open (a : bool) (pre : option bytes) (o : list resp) : option fstate :=
  match os_open a (negb a) true pre with
  | Some content => Some (mkF content [] o)
  | None => None
  end.

Definition record := list bytes.      (* the chunks the encoder writes for one log record *)

Inductive res := Ok (s : fstate) | Err (s : fstate).

(* encoder.encode(&mut *file, record)?  -- stops at the first failing write_all *)
Fixpoint write_chunks (c : nat) (cs : record) (st : fstate) : res :=
  match cs with
  | [] => Ok st
  | x :: r => match bw_write_all c x st with
              | (true, st1) => write_chunks c r st1
              | (false, st1) => Err st1
              end
  end.

(* FileAppender::append under the lock *)
Definition append (c : nat) (st : fstate) (cs : record) : res :=
  match write_chunks c cs st with
  | Ok st1 => match bw_flush st1 with
              | (true, st2) => Ok st2
              | (false, st2) => Err st2
              end
  | Err st1 => Err st1
  end.

(* an Encode impl that gives up after having written the chunks cs (encode returns Err):
   `encoder.encode(..)?` leaves append before the flush; what was written stays where it
   is - on disk as far as the BufWriter spilled it, in the buffer otherwise *)
Definition append_enc_fails (c : nat) (st : fstate) (cs : record) : res :=
  Err (match write_chunks c cs st with Ok s => s | Err s => s end).

(* a history of appends on one appender; an Err is reported to the caller and
   the appender stays usable (state as left by the failing call) *)
Definition res_state (r : res) : fstate := match r with Ok s => s | Err s => s end.

Fixpoint appends (c : nat) (st : fstate) (rs : list record) : fstate :=
  match rs with
  | [] => st
  | r :: rest => appends c (res_state (append c st r)) rest
  end.

(* ---- micro-steps, for the interleaving semantics of Common/Sched.v ---- *)
Inductive act := Write (d : bytes) | Flush.

Definition act_res (c : nat) (a : act) (st : fstate) : bool * fstate :=
  match a with
  | Write d => bw_write_all c d st
  | Flush => bw_flush st
  end.

(* total step (the state a failing call leaves behind) *)
Definition fstep (c : nat) (a : act) (st : fstate) : fstate := snd (act_res c a st).

(* the critical section of one append call *)
Definition block_of (r : record) : list act := map Write r ++ [Flush].

(* thread i appends the records `recs i` in order *)
Definition thread_progs (recs : nat -> list record) : nat -> list (list act) :=
  fun i => map block_of (recs i).

(* run the micro-steps of a list, stopping at the first failing one *)
Fixpoint run_acts (c : nat) (l : list act) (st : fstate) : bool * fstate :=
  match l with
  | [] => (true, st)
  | a :: r => match act_res c a st with
              | (true, st1) => run_acts c r st1
              | (false, st1) => (false, st1)
              end
  end.

(* ---- trace validation (correspondence part b) ----
   `strip p l` removes the prefix p from l. *)
Fixpoint strip (p l : bytes) : option bytes :=
  match p with
  | [] => Some l
  | x :: p' => match l with
               | [] => None
               | y :: l' => if N.eqb x y then strip p' l' else None
               end
  end.

(* first thread (index >= i) whose next record is non-empty and heads `obs` *)
Fixpoint find_next (i : nat) (rems : list (list bytes)) (obs : bytes)
  : option (nat * bytes) :=
  match rems with
  | [] => None
  | [] :: more => find_next (S i) more obs
  | (r :: _) :: more =>
    match r with
    | [] => find_next (S i) more obs
    | _ :: _ => match strip r obs with
                | Some obs' => Some (i, obs')
                | None => find_next (S i) more obs
                end
    end
  end.

Fixpoint pop (i : nat) (rems : list (list bytes)) : list (list bytes) :=
  match rems with
  | [] => []
  | l :: more => match i with
                 | O => tl l :: more
                 | S j => l :: pop j more
                 end
  end.

(* Parse `obs` as a concatenation of whole records, each the next unconsumed
   record of some thread.  Some (order, leftover records per thread) or None. *)
Fixpoint parse_trace (fuel : nat) (rems : list (list bytes)) (obs : bytes) (acc : list nat)
  : option (list nat * list (list bytes)) :=
  match obs with
  | [] => Some (rev acc, rems)
  | _ :: _ =>
    match fuel with
    | O => None
    | S f => match find_next 0 rems obs with
             | Some (i, obs') => parse_trace f (pop i rems) obs' (i :: acc)
             | None => None
             end
    end
  end.

(* The observed final file is admissible: open content, then whole records in
   an order that respects each thread's order, every record exactly once. *)
Definition check_trace (content0 : bytes) (recs : list (list bytes)) (obs : bytes) : option (list nat) :=
  match strip content0 obs with
  | None => None
  | Some obs1 =>
    match parse_trace (length (concat recs)) recs obs1 [] with
    | Some (order, rems) => if forallb (fun l => match l with [] => true | _ => false end) rems
                            then Some order else None
    | None => None
    end
  end.

(* ---- several writers on ONE file (all opened with O_APPEND) ----
   Append-mode appenders on the same path (e.g. the old and the new appender
   around a reconfiguration) and external `>>` writers share the file; each
   appender handle h has its own BufWriter buffer.  O_APPEND semantics: every
   write(2) of every handle goes to the CURRENT end of the file - which is what
   Model/BufW.v's raw writes do on the shared `disk`. *)
Inductive hop :=
| HAppend (h : nat) (cs : record)     (* appender h: append one record *)
| HExternal (d : bytes)               (* another O_APPEND writer adds d in one write *)
| HBuild (h : nat).                   (* (re)build appender h in append mode on the path *)

Record mstate := mkM { mdisk : bytes; mbufs : nat -> bytes; morc : list resp }.

Definition set_buf (f : nat -> bytes) (h : nat) (b : bytes) : nat -> bytes :=
  fun j => if Nat.eqb j h then b else f j.

Definition hop_step (c : nat) (m : mstate) (op : hop) : mstate :=
  match op with
  | HAppend h cs =>
    let s := res_state (append c (mkF (mdisk m) (mbufs m h) (morc m)) cs) in
    mkM (disk s) (set_buf (mbufs m) h (buf s)) (orc s)
  | HExternal d => mkM (mdisk m ++ d) (mbufs m) (morc m)
  | HBuild h =>
    (* a previous appender in slot h is dropped first: BufWriter::drop flushes *)
    let s := snd (bw_flush (mkF (mdisk m) (mbufs m h) (morc m))) in
    match fa_open true (Some (disk s)) (orc s) with
    | Some s' => mkM (disk s') (set_buf (mbufs m) h (buf s')) (orc s')
    | None => m
    end
  end.

Definition hops (c : nat) (m : mstate) (ops : list hop) : mstate := fold_left (hop_step c) ops m.
