(* C20 — model of the size-limit visitor (trigger/size.rs deserialize_limit) and the
   interval visitor (trigger/time.rs TimeTriggerInterval::deserialize).
   Strings are lists of Unicode scalar values.  `str::trim` strips White_Space
   characters (the table below is Rust's `char::is_whitespace`); `eq_ignore_ascii_case`
   folds A-Z only; `parse::<u64>/<i64>` on a digit-only slice fails exactly on the
   empty slice and on overflow.  The serde front-end is modelled by the scalar form
   it hands to the visitor: a non-negative integer < 2^64 goes to visit_u64, a
   negative one >= -2^63 to visit_i64, anything else numeric (floats, integers
   outside those ranges) has no visitor method and is rejected, strings go to
   visit_str. *)
From Coq Require Import List NArith ZArith Bool.
Import ListNotations.
Local Open Scope N_scope.

Definition chr := N.
Definition ustr := list chr.

Definition is_digit (c : chr) : bool := (48 <=? c) && (c <=? 57).

Definition is_ws (c : chr) : bool :=
  ((9 <=? c) && (c <=? 13)) || (c =? 32) || (c =? 133) || (c =? 160) || (c =? 5760)
  || ((8192 <=? c) && (c <=? 8202)) || (c =? 8232) || (c =? 8233) || (c =? 8239)
  || (c =? 8287) || (c =? 12288).

Definition lower (c : chr) : chr := if (65 <=? c) && (c <=? 90) then c + 32 else c.

Fixpoint span_digits (s : ustr) : ustr * ustr :=
  match s with
  | c :: r => if is_digit c then let (d, t) := span_digits r in (c :: d, t) else ([], s)
  | [] => ([], [])
  end.

Fixpoint drop_ws (s : ustr) : ustr :=
  match s with
  | c :: r => if is_ws c then drop_ws r else s
  | [] => []
  end.

Definition trim (s : ustr) : ustr := rev (drop_ws (rev (drop_ws s))).

(* positional value of a digit string *)
Definition digits_value (ds : ustr) : N := fold_left (fun acc c => acc * 10 + (c - 48)) ds 0.

(* "<digits>".parse::<uN>() with bound 2^bits: Err on empty or overflow *)
Definition parse_bounded (bound : N) (ds : ustr) : option N :=
  match ds with
  | [] => None
  | _ => let v := digits_value ds in if v <? bound then Some v else None
  end.

Fixpoint ustr_eqb (a b : ustr) : bool :=
  match a, b with
  | [], [] => true
  | x :: a', y :: b' => (x =? y) && ustr_eqb a' b'
  | _, _ => false
  end.

(* unit.eq_ignore_ascii_case(lit) for a lower-case ASCII literal *)
Definition eq_ic (u lit : ustr) : bool := ustr_eqb (map lower u) lit.

Definition two64 : N := 18446744073709551616.
Definition two63 : N := 9223372036854775808.

Definition s_b := [98].
Definition s_kb := [107; 98].   Definition s_kib := [107; 105; 98].
Definition s_mb := [109; 98].   Definition s_mib := [109; 105; 98].
Definition s_gb := [103; 98].   Definition s_gib := [103; 105; 98].
Definition s_tb := [116; 98].   Definition s_tib := [116; 105; 98].

(* power of 1024 selected by the unit, in the order of the Rust if-chain *)
Definition size_unit (u : ustr) : option N :=
  if eq_ic u s_b then Some 1
  else if eq_ic u s_kb || eq_ic u s_kib then Some 1024
  else if eq_ic u s_mb || eq_ic u s_mib then Some 1048576
  else if eq_ic u s_gb || eq_ic u s_gib then Some 1073741824
  else if eq_ic u s_tb || eq_ic u s_tib then Some 1099511627776
  else None.

Definition checked_mul64 (a b : N) : option N :=
  let p := a * b in if p <? two64 then Some p else None.

(* visit_str of deserialize_limit *)
Definition parse_size_str (v : ustr) : option N :=
  let (ds, rest) := span_digits v in
  match parse_bounded two64 ds with
  | None => None
  | Some n =>
    match rest with
    | [] => Some n
    | _ => match size_unit (trim rest) with
           | Some m => checked_mul64 n m
           | None => None
           end
    end
  end.

Inductive iunit := Second | Minute | Hour | Day | Week | Month | Year.

Definition w_second := [115;101;99;111;110;100].
Definition w_minute := [109;105;110;117;116;101].
Definition w_hour := [104;111;117;114].
Definition w_day := [100;97;121].
Definition w_week := [119;101;101;107].
Definition w_month := [109;111;110;116;104].
Definition w_year := [121;101;97;114].
Definition plural (w : ustr) : ustr := w ++ [115].

Definition interval_unit (u : ustr) : option iunit :=
  if eq_ic u w_second || eq_ic u (plural w_second) then Some Second
  else if eq_ic u w_minute || eq_ic u (plural w_minute) then Some Minute
  else if eq_ic u w_hour || eq_ic u (plural w_hour) then Some Hour
  else if eq_ic u w_day || eq_ic u (plural w_day) then Some Day
  else if eq_ic u w_week || eq_ic u (plural w_week) then Some Week
  else if eq_ic u w_month || eq_ic u (plural w_month) then Some Month
  else if eq_ic u w_year || eq_ic u (plural w_year) then Some Year
  else None.

(* visit_str of TimeTriggerInterval *)
Definition parse_interval_str (v : ustr) : option (iunit * N) :=
  let (ds, rest) := span_digits v in
  match parse_bounded two63 ds with
  | None => None
  | Some n =>
    match rest with
    | [] => Some (Second, n)
    | _ => match interval_unit (trim rest) with
           | Some u => Some (u, n)
           | None => None
           end
    end
  end.

(* scalar forms handed over by the serde front-end *)
Inductive scalar :=
| SInt (z : Z)        (* an integer literal *)
| SFloat              (* a float literal (no visitor method: rejected) *)
| SStr (s : ustr).

Definition parse_size (sc : scalar) : option N :=
  match sc with
  | SInt z => if (0 <=? z)%Z && (z <? Z.of_N two64)%Z then Some (Z.to_N z) (* visit_u64 *)
              else None   (* visit_i64 rejects negatives; wider integers have no visitor *)
  | SFloat => None
  | SStr s => parse_size_str s
  end.

Definition parse_interval (sc : scalar) : option (iunit * N) :=
  match sc with
  | SInt z => if (0 <=? z)%Z && (z <? Z.of_N two63)%Z then Some (Second, Z.to_N z)
              else None   (* visit_u64 rejects >= 2^63 (fix d92d8f1), visit_i64 rejects negatives *)
  | SFloat => None
  | SStr s => parse_interval_str s
  end.
