(* C20 — an INTEGER scalar on its way from the document to the trigger: which visitor method of
   the serde visitor the front-end calls, and what that method does
   (trigger/size.rs deserialize_limit, trigger/time.rs TimeTriggerInterval::deserialize).

   front-ends (how each hands over an integer literal of value z):
     serde_yaml / serde_json   0 <= z < 2^64 -> visit_u64(z);  -2^63 <= z < 0 -> visit_i64(z);
                               anything wider has no integer visitor call (a float, or an error)
     toml                      integers are i64: -2^63 <= z < 2^63 -> visit_i64(z) - non-negative
                               ones too; anything wider is a parse error of the document
   visitors:
     size      visit_u64 v = Ok v                  visit_i64 v = v < 0 ? Err : Ok (v as u64)
     interval  visit_u64 v = v > i64::MAX ? Err : Ok Second(v)
               visit_i64 v = v < 0 ? Err : Ok Second(v)                                        *)
From Coq Require Import NArith ZArith Bool.
From L4 Require Import Model.Literals.
Local Open Scope Z_scope.

Inductive frontend := Yaml | Json | Toml.

Inductive vcall :=
| CallU64 (v : N)       (* visit_u64(v), v < 2^64 *)
| CallI64 (v : Z)       (* visit_i64(v), -2^63 <= v < 2^63 *)
| NoCall.               (* no integer visitor method is called: the literal is rejected *)

Definition z63 : Z := Z.of_N two63.
Definition z64 : Z := Z.of_N two64.

Definition route (fe : frontend) (z : Z) : vcall :=
  match fe with
  | Toml => if (- z63 <=? z) && (z <? z63) then CallI64 z else NoCall
  | _ => if (0 <=? z) && (z <? z64) then CallU64 (Z.to_N z)
         else if (- z63 <=? z) && (z <? 0) then CallI64 z
         else NoCall
  end.

Definition size_visit (c : vcall) : option N :=
  match c with
  | CallU64 v => Some v
  | CallI64 v => if v <? 0 then None else Some (Z.to_N v)      (* v as u64 *)
  | NoCall => None
  end.

Definition interval_visit (c : vcall) : option (iunit * N) :=
  match c with
  | CallU64 v => if (Z.of_N v >? z63 - 1) then None else Some (Second, v)
  | CallI64 v => if v <? 0 then None else Some (Second, Z.to_N v)
  | NoCall => None
  end.

(* an integer literal through a front-end *)
Definition size_of_int (fe : frontend) (z : Z) : option N := size_visit (route fe z).
Definition interval_of_int (fe : frontend) (z : Z) : option (iunit * N) := interval_visit (route fe z).

(* the integers a front-end can hand over at all *)
Definition in_range (fe : frontend) (z : Z) : bool :=
  match fe with
  | Toml => (- z63 <=? z) && (z <? z63)
  | _ => (- z63 <=? z) && (z <? z64)
  end.
