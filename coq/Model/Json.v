(* C12 — executable model of log4rs' JSON encoder (src/encode/json.rs) down to
   the bytes serde_json 1.0.151 writes (CompactFormatter).

   What is modelled, following the Rust code:
   * `format_escaped_str_contents` (serde_json/src/ser.rs): a byte-wise table
     lookup ESCAPE[byte]: quote (0x22) -> backslash quote, backslash (0x5C) ->
     two backslashes, 0x08 \b, 0x09 \t, 0x0A \n,
     0x0C \f, 0x0D \r, every other byte < 0x20 -> \u00XX with LOWERCASE hex
     digits (HEX_DIGITS = 0123456789abcdef), everything else (incl. 0x7F and
     all bytes >= 0x80, i.e. every non-ASCII UTF-8 sequence) is copied raw.
     The run/fragment batching of the real loop only groups writes; the byte
     stream is the concatenation, which is what `escape` produces.
   * `collect_str` (time, message): the Display output is pushed through the
     same escaper fragment by fragment, so the result is `escape` of the
     concatenated text.
   * `#[derive(Serialize)] struct Message`: fields in declaration order
     time, level, message, [module_path], [file], [line], target, thread,
     thread_id, mdc; `skip_serializing_if = Option::is_none` on the three
     optionals; `thread: Option<&str>` without skip -> `null` when absent;
     `Level` serialises as its upper-case name (unit variant); u32/usize as
     decimal digits (itoa); compact separators `,` and `:`; `Mdc` serialises a
     map in log_mdc's iteration order; then `NEWLINE` (one byte 0x0A on unix).

   External things that are parameters of the model (supplied by the harness
   per case): the RFC 3339 time text chrono rendered for Local::now(), the
   numeric `thread_id::get()`, the current thread's name, and the iteration
   order of log_mdc's thread-local HashMap (the model's MDC is the association
   list in that order).  Strings are byte lists; the theorems hold for
   arbitrary bytes, the real crate only ever passes valid UTF-8. *)
From Coq Require Import List NArith Bool.
Import ListNotations.
Local Open Scope N_scope.

Definition bytes := list N.

(* ---- serde_json string escaping ---------------------------------------- *)

(* HEX_DIGITS[n] for n < 16 *)
Definition hex_digit (n : N) : N := if n <? 10 then 48 + n else 87 + n.

Definition escape_byte (b : N) : bytes :=
  if b =? 34 then [92; 34]                 (* QU  backslash quote *)
  else if b =? 92 then [92; 92]            (* BS  \\  *)
  else if b =? 8 then [92; 98]             (* BB  \b  *)
  else if b =? 9 then [92; 116]            (* TT  \t  *)
  else if b =? 10 then [92; 110]           (* NN  \n  *)
  else if b =? 12 then [92; 102]           (* FF  \f  *)
  else if b =? 13 then [92; 114]           (* RR  \r  *)
  else if b <? 32 then [92; 117; 48; 48; hex_digit (b / 16); hex_digit (b mod 16)]  (* UU *)
  else [b].                                (* __  raw *)

Definition escape (s : bytes) : bytes := flat_map escape_byte s.

(* serialize_str: begin_string, escaped contents, end_string *)
Definition jstring (s : bytes) : bytes := 34 :: escape s ++ [34].

(* ---- decimal rendering of unsigned integers (itoa) ---------------------- *)

(* least significant digit first; fuel = number of binary digits + 1 suffices *)
Fixpoint rdigits (fuel : nat) (n : N) : list N :=
  match fuel with
  | O => []
  | S f => (n mod 10) :: (if n / 10 =? 0 then [] else rdigits f (n / 10))
  end.

Definition dec (n : N) : bytes :=
  map (fun d => 48 + d) (rev (rdigits (S (N.to_nat (N.size n))) n)).

(* ---- the record ---------------------------------------------------------- *)

Inductive level := Error | Warn | Info | Debug | Trace.

(* ERROR WARN INFO DEBUG TRACE *)
Definition level_name (l : level) : bytes :=
  match l with
  | Error => [69; 82; 82; 79; 82]
  | Warn => [87; 65; 82; 78]
  | Info => [73; 78; 70; 79]
  | Debug => [68; 69; 66; 85; 71]
  | Trace => [84; 82; 65; 67; 69]
  end.

Record record := {
  r_time : bytes;                    (* oracle: chrono's RFC 3339 rendering of Local::now() *)
  r_level : level;
  r_message : bytes;                 (* Display output of record.args() *)
  r_module : option bytes;
  r_file : option bytes;
  r_line : option N;
  r_target : bytes;
  r_thread : option bytes;           (* thread::current().name() *)
  r_thread_id : N;                   (* oracle: thread_id::get() *)
  r_mdc : list (bytes * bytes);      (* log_mdc entries in iteration order *)
}.

(* key names *)
Definition k_time : bytes := [116; 105; 109; 101].
Definition k_level : bytes := [108; 101; 118; 101; 108].
Definition k_message : bytes := [109; 101; 115; 115; 97; 103; 101].
Definition k_module_path : bytes := [109; 111; 100; 117; 108; 101; 95; 112; 97; 116; 104].
Definition k_file : bytes := [102; 105; 108; 101].
Definition k_line : bytes := [108; 105; 110; 101].
Definition k_target : bytes := [116; 97; 114; 103; 101; 116].
Definition k_thread : bytes := [116; 104; 114; 101; 97; 100].
Definition k_thread_id : bytes := [116; 104; 114; 101; 97; 100; 95; 105; 100].
Definition k_mdc : bytes := [109; 100; 99].

Definition j_null : bytes := [110; 117; 108; 108].

(* SerializeStruct / SerializeMap with the compact formatter: the first member
   is written bare, every later one is preceded by ','; key ':' value. *)
Definition member (key : bytes) (value : bytes) : bytes := jstring key ++ 58 :: value.

Fixpoint join_members (ms : list bytes) : bytes :=
  match ms with
  | [] => []
  | [m] => m
  | m :: rest => m ++ 44 :: join_members rest
  end.

Definition object (ms : list bytes) : bytes := 123 :: join_members ms ++ [125].

Definition opt_member {A} (key : bytes) (f : A -> bytes) (o : option A) : list bytes :=
  match o with Some x => [member key (f x)] | None => [] end.

Definition mdc_object (m : list (bytes * bytes)) : bytes :=
  object (map (fun kv => member (fst kv) (jstring (snd kv))) m).

Definition message_object (r : record) : bytes :=
  object ([ member k_time (jstring (r_time r));
            member k_level (jstring (level_name (r_level r)));
            member k_message (jstring (r_message r)) ]
          ++ opt_member k_module_path jstring (r_module r)
          ++ opt_member k_file jstring (r_file r)
          ++ opt_member k_line dec (r_line r)
          ++ [ member k_target (jstring (r_target r));
               member k_thread (match r_thread r with Some t => jstring t | None => j_null end);
               member k_thread_id (dec (r_thread_id r));
               member k_mdc (mdc_object (r_mdc r)) ]).

(* encode_inner: serialize, then NEWLINE *)
Definition encode_record (r : record) : bytes := message_object r ++ [10].
