(* C19 — model of env_util::expand_env_vars (src/append/mod.rs, as of fix cc9466f: the
   output is built in ONE pass over the original path).  The algorithm the crate used before
   that fix (sequential replace-all on the rewritten output) is kept at the end of this file
   as `old_expand`, for the record of the defect only.

   Strings are lists of Unicode scalar values; every index the Rust code computes is a
   BYTE offset into the UTF-8 encoding, so the model carries byte offsets
   (`len_utf8`, `blen`) and the slicing operations `split_at` / `&path[a..b]` are
   the partial functions `bdrop` / `bslice`, which fail (= the Rust panic) when an
   offset is not a character boundary or out of range.

   Modelled from their documented behaviour (not verified):
   * `str::match_indices(pat)`: byte offsets of the disjoint occurrences of `pat`, left
     to right (`match_indices`);
   * `str::replace(from, to)`: replaces all disjoint occurrences, left to right
     (`replace_all`; used by the pre-fix algorithm only).  Both search bytes in Rust; on valid UTF-8 a match of a valid UTF-8
     needle always starts and ends on character boundaries (UTF-8 is self-synchronising),
     so matching is done on scalar values here;
   * `char::is_alphanumeric`: exact on ASCII, an oracle `uni_alnum` on the rest (a
     parameter of the model; at run time the harness reports the real classification);
   * `std::env::var`: a lookup `env : name -> option value` (set and valid Unicode, or not).  *)
From Coq Require Import List NArith Bool.
Import ListNotations.
From L4 Require Import Common.Str.
Local Open Scope N_scope.

Definition chr := N.
Definition ustr := list chr.

Definition len_utf8 (c : chr) : N :=
  if c <? 128 then 1 else if c <? 2048 then 2 else if c <? 65536 then 3 else 4.

Fixpoint blen (s : ustr) : N :=
  match s with [] => 0 | c :: r => len_utf8 c + blen r end.

(* s[a..] for a byte offset a: None when a is not a char boundary / beyond the end *)
Fixpoint bdrop (s : ustr) (a : N) : option ustr :=
  if a =? 0 then Some s
  else match s with
       | [] => None
       | c :: r => if len_utf8 c <=? a then bdrop r (a - len_utf8 c) else None
       end.

(* s[..b] *)
Fixpoint btake (s : ustr) (b : N) : option ustr :=
  if b =? 0 then Some []
  else match s with
       | [] => None
       | c :: r => if len_utf8 c <=? b
                   then match btake r (b - len_utf8 c) with Some t => Some (c :: t) | None => None end
                   else None
       end.

(* &s[a..b] *)
Definition bslice (s : ustr) (a b : N) : option ustr :=
  if a <=? b then match bdrop s a with Some q => btake q (b - a) | None => None end else None.

Fixpoint starts_with (pat s : ustr) : bool :=
  match pat, s with
  | [], _ => true
  | p :: pat', c :: s' => (p =? c) && starts_with pat' s'
  | _ :: _, [] => false
  end.

(* "$ENV{" *)
Definition env_prefix : ustr := [36; 69; 78; 86; 123].
Definition env_prefix_len : N := 5.
Definition env_suffix : chr := 125.   (* '}' *)

(* byte offsets of the disjoint occurrences of pat in s (s starts at byte offset off;
   skip = characters of the current match still to be stepped over) *)
Fixpoint match_indices_from (pat s : ustr) (off : N) (skip : nat) : list N :=
  match s with
  | [] => []
  | c :: r =>
    match skip with
    | S k => match_indices_from pat r (off + len_utf8 c) k
    | O => if starts_with pat s
           then off :: match_indices_from pat r (off + len_utf8 c) (length pat - 1)
           else match_indices_from pat r (off + len_utf8 c) 0
    end
  end.
Definition match_indices (pat s : ustr) : list N := match_indices_from pat s 0 0.

(* str::replace: all disjoint occurrences of `from` (non-empty), left to right *)
Fixpoint replace_from (from to s : ustr) (skip : nat) : ustr :=
  match s with
  | [] => []
  | c :: r =>
    match skip with
    | S k => replace_from from to r k
    | O => if starts_with from s
           then to ++ replace_from from to r (length from - 1)
           else c :: replace_from from to r 0
    end
  end.
Definition replace_all (s from to : ustr) : ustr := replace_from from to s 0.

Definition ascii_alnum (c : chr) : bool :=
  ((48 <=? c) && (c <=? 57)) || ((65 <=? c) && (c <=? 90)) || ((97 <=? c) && (c <=? 122)).

Inductive res := Ok (s : ustr) | Panic.

Section Expand.
  Variable uni_alnum : chr -> bool.            (* char::is_alphanumeric beyond ASCII *)
  Variable env : ustr -> option ustr.          (* std::env::var(name).ok() *)

  Definition is_alnum (c : chr) : bool := if c <? 128 then ascii_alnum c else uni_alnum c.
  Definition is_env_var_start (c : chr) : bool := is_alnum c || (c =? 95).
  Definition is_env_var_part (c : chr) : bool := is_alnum c || (c =? 95) || (c =? 46).

  (* the `loop` over cs.next(): Some rest-of-name when it breaks with true *)
  Fixpoint name_loop (cs : ustr) : option ustr :=
    match cs with
    | [] => None                                            (* _ => break false *)
    | ch :: cs' =>
      if is_env_var_part ch then
        match name_loop cs' with Some nm => Some (ch :: nm) | None => None end
      else if ch =? env_suffix then Some []                 (* break true *)
      else None                                             (* break false *)
    end.

  (* one iteration of the `for` loop; the state is (outpath, copied), None = a panic *)
  Definition step (path : ustr) (st : option (ustr * N)) (match_start : N) : option (ustr * N) :=
    match st with
    | None => None
    | Some (outpath, copied) =>
      let env_name_start := match_start + env_prefix_len in
      match bdrop path env_name_start with            (* path.split_at(env_name_start) *)
      | None => None
      | Some tail =>
        match tail with
        | [] => st
        | ch :: cs =>
          if is_env_var_start ch then
            match name_loop cs with
            | None => st
            | Some nm =>
              let env_name := ch :: nm in
              match env env_name with
              | None => st
              | Some env_value =>
                let match_end := env_name_start + blen env_name + 1 in
                match bslice path copied match_start with        (* &path[copied..match_start] *)
                | None => None
                | Some lit => Some (outpath ++ lit ++ env_value, match_end)
                end
              end
            end
          else st
        end
      end
    end.

  Definition expand (path : ustr) : res :=
    match fold_left (step path) (match_indices env_prefix path) (Some ([], 0)) with
    | None => Panic
    | Some (outpath, copied) =>
      if copied =? 0 then Ok path                      (* nothing replaced: the input itself *)
      else match bdrop path copied with                (* &path[copied..] *)
           | None => Panic
           | Some t => Ok (outpath ++ t)
           end
    end.

  (* ---- PRE-FIX algorithm (before cc9466f), not what the crate does now ----
     every reference found in the ORIGINAL path was substituted with a replace-all on the
     progressively rewritten output *)
  Definition old_step (path : ustr) (outpath : res) (match_start : N) : res :=
    match outpath with
    | Panic => Panic
    | Ok out =>
      let env_name_start := match_start + env_prefix_len in
      match bdrop path env_name_start with
      | None => Panic
      | Some tail =>
        match tail with
        | [] => Ok out
        | ch :: cs =>
          if is_env_var_start ch then
            match name_loop cs with
            | None => Ok out
            | Some nm =>
              let env_name := ch :: nm in
              match env env_name with
              | None => Ok out
              | Some env_value =>
                let match_end := env_name_start + blen env_name + 1 in
                match bslice path match_start match_end with
                | None => Panic
                | Some needle => Ok (replace_all out needle env_value)
                end
              end
            end
          else Ok out
        end
      end
    end.

  Definition old_expand (path : ustr) : res :=
    fold_left (old_step path) (match_indices env_prefix path) (Ok path).
End Expand.

(* finite tables for running the model *)
Fixpoint lookup (tbl : list (ustr * ustr)) (k : ustr) : option ustr :=
  match tbl with
  | [] => None
  | (k', v) :: r => if str_eqb k k' then Some v else lookup r k
  end.

Definition in_table (tbl : list N) (c : chr) : bool := existsb (N.eqb c) tbl.
