(* C15 (part B) — model of the file reloader: src/config/file.rs
     ConfigReloader::{run, run_once}.   Executable definitions only.

   What is modelled how:
   * The file system is reduced to what one poll sees of the one path:
       Missing        fs::metadata fails (deleted)                  -> stat error
       Unreadable m   metadata/modified succeed (mtime m), fs::read_to_string
                      fails (invalid UTF-8, a directory, EACCES)    -> read error
       File m t       mtime m, text t
     The history of the file is the list of these states at successive polls.
   * `self.format.parse(&self.source)` + `config.refresh_rate()` +
     `deserialize(..)` is the abstract `parse : text -> option (cfg * option rate)`
     (`None` = Format::parse returns Err).  `deserialize` is lossy and never
     fails (appender-level errors are reported and the rest is installed), so
     "unparsable" means: the serde front-end rejects the text as a RawConfig.
     It is a Section variable here and in the proofs; Run/C15.v passes a table.
   * `self.handle.set_config(config)`: `r_active := c` and the ghost counter
     `r_nset` (number of set_config calls so far) is incremented; atomicity of
     set_config itself is Model/Swap.v.
   * `modified: Option<SystemTime>` is `r_mtime`; `None` (mtime was unavailable
     when the reloader was created) skips the stat, exactly as the code.
   * `run(rate)`: `thread::sleep` is dropped; one iteration is `poll`;
     `Ok(Some(r))` -> continue with r, `Ok(None)` -> `break` (`l_running = false`,
     the thread ends for good), `Err(e)` -> `handle_error`, continue with the
     old rate.  `run` is the fold of `poll` over the file history. *)
From Coq Require Import List NArith Bool.
Import ListNotations.
From L4 Require Import Common.Str.

Definition text := str.

Inductive file :=
| Missing
| Unreadable (m : N)
| File (m : N) (t : text).

Inductive result :=
| RErr                       (* Err(e) *)
| ROk (rate : option N).     (* Ok(rate) *)

Section Reloader.
  Variable cfg : Type.
  Variable parse : text -> option (cfg * option N).

  Record rstate := { r_mtime : option N; r_text : text; r_active : cfg; r_nset : nat }.

  (* fs::metadata(&self.path).and_then(|m| m.modified()) *)
  Definition stat (f : file) : option N :=
    match f with Missing => None | Unreadable m => Some m | File m _ => Some m end.

  (* read_config(&self.path) *)
  Definition read (f : file) : option text :=
    match f with File _ t => Some t | _ => None end.

  (* the part of run_once after the mtime test *)
  Definition read_phase (st : rstate) (rate : N) (f : file) : rstate * result :=
    match read f with
    | None => (st, RErr)                                   (* let source = read_config(..)?; *)
    | Some t =>
        if str_eqb t (r_text st) then (st, ROk (Some rate)) (* if source == self.source { return Ok(Some(rate)) } *)
        else
          (* self.source = source; *)
          let st1 := {| r_mtime := r_mtime st; r_text := t; r_active := r_active st; r_nset := r_nset st |} in
          match parse t with
          | None => (st1, RErr)                            (* let config = self.format.parse(&self.source)?; *)
          | Some (c, r) =>                                 (* self.handle.set_config(config); Ok(rate) *)
              ({| r_mtime := r_mtime st1; r_text := r_text st1; r_active := c; r_nset := S (r_nset st1) |},
               ROk r)
          end
    end.

  Definition run_once (st : rstate) (rate : N) (f : file) : rstate * result :=
    match r_mtime st with
    | Some last =>                                         (* if let Some(last_modified) = self.modified { *)
        match stat f with
        | None => (st, RErr)                               (*   let modified = fs::metadata(..)...?; *)
        | Some m =>
            if N.eqb last m then (st, ROk (Some rate))     (*   if last_modified == modified { return Ok(Some(rate)) } *)
            else                                           (*   self.modified = Some(modified); } *)
              read_phase {| r_mtime := Some m; r_text := r_text st; r_active := r_active st; r_nset := r_nset st |}
                         rate f
        end
    | None => read_phase st rate f
    end.

  Record loop := { l_st : rstate; l_rate : N; l_running : bool }.

  (* one iteration of `run`'s loop body (without the sleep) *)
  Definition poll (l : loop) (f : file) : loop :=
    if l_running l then
      match run_once (l_st l) (l_rate l) f with
      | (st', ROk (Some r)) => {| l_st := st'; l_rate := r; l_running := true |}
      | (st', ROk None) => {| l_st := st'; l_rate := l_rate l; l_running := false |}
      | (st', RErr) => {| l_st := st'; l_rate := l_rate l; l_running := true |}
      end
    else l.

  Definition run (l : loop) (h : list file) : loop := fold_left poll h l.

  (* `init_file` (src/config/file.rs:22-54) on the file as it is at that moment: read_config(..)?, the mtime
     (`.ok()`: unavailable -> None), format.parse(..)?; the configuration is installed (nset = 0: no set_config yet)
     and ConfigReloader::start is called iff the document has a refresh rate - a rate of zero is a rate.
     None = init_file returns Err (nothing installed by it). *)
  Definition init_file (f : file) : option (cfg * option loop) :=
    match read f with
    | None => None
    | Some t =>
        match parse t with
        | None => None
        | Some (c, r) =>
            let st := {| r_mtime := stat f; r_text := t; r_active := c; r_nset := 0 |} in
            Some (c, match r with
                     | Some rate => Some {| l_st := st; l_rate := rate; l_running := true |}
                     | None => None
                     end)
        end
    end.

  (* The intervals the refresh thread sleeps (`thread::sleep(rate)` at the head of every iteration of `run`; with
     the reloader_sleep hook: the durations the hook is called with), the k-th one before the k-th poll; `h` are
     the file states the successive polls find.  One more entry than polls when the thread is still running
     after the last of them (it is asleep again). *)
  Fixpoint sleeps (l : loop) (h : list file) : list N :=
    if l_running l then
      l_rate l :: match h with [] => [] | f :: r => sleeps (poll l f) r end
    else [].
End Reloader.

Arguments r_mtime {cfg}.
Arguments r_text {cfg}.
Arguments r_active {cfg}.
Arguments r_nset {cfg}.
Arguments l_st {cfg}.
Arguments l_rate {cfg}.
Arguments l_running {cfg}.
