(* C01/C02 — model of src/lib.rs: ConfiguredLogger::{add, find, max_log_level,
   enabled, log} and SharedLogger::new_with_err_handler (appender_map, root
   node, sort by name byte length, insertion).  Executable definitions only.

   Conventions / what is modelled how:
   * strings are their UTF-8 byte lists (`str := list N`).  `find("::")`,
     `split("::")`, slicing and `len()` are byte-level in Rust and "::" is ASCII,
     so the byte-level model is exact.
   * `children: FnvHashMap<String, ConfiguredLogger>` is an association list
     with unique keys: `get` = first match, `get_mut`+update in place,
     `insert` of an absent key = append.  Iteration order of the hash map is
     only used by `max_log_level` (a maximum, order-insensitive).
   * `appender_map: HashMap<&str, usize>` collected from `(name, index)` pairs:
     a later pair overwrites an earlier one (`resolve` = last index).  The
     indexing `appender_map[name]` panics when absent: `build` returns `None`.
   * the recursion of `add` on the remaining path string is rendered on the
     list of `part`s the successive `path.find("::")` calls produce
     (`add_parts`); the one place where the code recurses with an empty `rest`
     (child already present and `rest == ""`) continues with path `""`, whose
     only part is `""` (`[[]]` below).
   * `loggers.sort_by_key(|l| l.name().len())` is a stable sort; modelled as a
     stable insertion sort on the byte length.
   * Appender filters and `append` errors are C03's subject: a node's `log`
     is the list of appender indices whose `append` gets called. *)
From Coq Require Import List NArith Bool Arith.
Import ListNotations.

Definition str := list N.
Definition path := list str.

Fixpoint str_eqb (a b : str) : bool :=
  match a, b with
  | [], [] => true
  | x :: a', y :: b' => N.eqb x y && str_eqb a' b'
  | _, _ => false
  end.

Definition colon : N := 58%N.

(* `match path.find("::") { Some(idx) => (&path[..idx], Some(&path[idx+2..])), None => (path, None) }` *)
Fixpoint first_cc (s : str) : str * option str :=
  match s with
  | [] => ([], None)
  | c :: t =>
    match t with
    | d :: r =>
      if N.eqb c colon && N.eqb d colon then ([], Some r)
      else let (a, o) := first_cc t in (c :: a, o)
    | [] => ([c], None)
    end
  end.

(* `str::split("::")`: pieces between the leftmost non-overlapping matches;
   the remainder after the last match is always yielded (also when empty). *)
Fixpoint split_fuel (f : nat) (s : str) : list str :=
  match f with
  | O => [s]
  | S f' =>
    match first_cc s with
    | (a, None) => [a]
    | (a, Some r) => a :: split_fuel f' r
    end
  end.
Definition split_cc (s : str) : path := split_fuel (S (length s)) s.

(* the `part`s seen by the recursion of `add` on a fresh path: split at the
   first "::", stop (leaf) when `rest.is_empty()` *)
Fixpoint add_parts_fuel (f : nat) (s : str) : list str :=
  match f with
  | O => [s]
  | S f' =>
    match first_cc s with
    | (a, None) => [a]
    | (a, Some []) => [a]
    | (a, Some r) => a :: add_parts_fuel f' r
    end
  end.
Definition add_parts (s : str) : path := add_parts_fuel (S (length s)) s.

(* struct ConfiguredLogger { level, appenders: Vec<usize>, children } *)
Inductive tree := T (lvl : N) (apps : list nat) (kids : list (str * tree)).
Definition tlvl (t : tree) : N := match t with T l _ _ => l end.
Definition tapps (t : tree) : list nat := match t with T _ a _ => a end.
Definition tkids (t : tree) : list (str * tree) := match t with T _ _ k => k end.

(* children.get(part) *)
Fixpoint get (ks : list (str * tree)) (k : str) : option tree :=
  match ks with
  | [] => None
  | (k', c) :: r => if str_eqb k' k then Some c else get r k
  end.

(* `if let Some(child) = children.get_mut(part) { f(child) } else { children.insert(part, fresh) }` *)
Section UpdKids.
  Variables (f : tree -> tree) (fresh : tree) (part : str).
  Fixpoint upd_kids (ks : list (str * tree)) : list (str * tree) :=
    match ks with
    | [] => [(part, fresh)]
    | (k, c) :: r => if str_eqb k part then (k, f c) :: r else (k, c) :: upd_kids r
    end.
End UpdKids.

(* the new child created by `add` under a node with (pl, pa) when `part` is
   absent, for the remaining parts `rest`:
   rest empty  -> the logger's own node, appenders extended by the parent's if additive
   otherwise   -> an implied node copying (pl, pa), then `child.add(rest, ..)` on it
                  (which has no children, so the same case applies again) *)
Fixpoint fresh_chain (pl : N) (pa : list nat) (rest : path)
         (apps : list nat) (additive : bool) (lvl : N) : tree :=
  match rest with
  | [] => T lvl (apps ++ (if additive then pa else [])) []
  | part :: rest' => T pl pa [(part, fresh_chain pl pa rest' apps additive lvl)]
  end.

(* ConfiguredLogger::add *)
Fixpoint add (t : tree) (parts : path) (apps : list nat) (additive : bool) (lvl : N)
         {struct t} : tree :=
  match t with
  | T l a kids =>
    match parts with
    | [] => t
    | part :: rest =>
      T l a (upd_kids
               (fun c => add c (match rest with [] => [[]] | _ => rest end) apps additive lvl)
               (fresh_chain l a rest apps additive lvl)
               part kids)
    end
  end.

(* ConfiguredLogger::max_log_level *)
Fixpoint max_level (t : tree) : N :=
  match t with
  | T l _ kids => fold_left (fun m kc => N.max m (let (_, c) := kc : str * tree in max_level c)) kids l
  end.

(* ConfiguredLogger::find: `for part in path.split("::") { get or break }` *)
Fixpoint find_path (t : tree) (p : path) : tree :=
  match p with
  | [] => t
  | c :: p' =>
    match get (tkids t) c with
    | Some ch => find_path ch p'
    | None => t
    end
  end.
Definition find (t : tree) (target : str) : tree := find_path t (split_cc target).

(* ConfiguredLogger::enabled: `self.level >= level` (LevelFilter vs Level as usize) *)
Definition enabled (n : tree) (L : N) : bool := N.leb L (tlvl n).

(* ConfiguredLogger::log: the appenders whose `append` is called, in order *)
Definition node_log (n : tree) (L : N) : list nat := if enabled n L then tapps n else [].

(* Log::enabled / Log::log of `Logger` *)
Definition enabled_at (t : tree) (target : str) (L : N) : bool := enabled (find t target) L.
Definition deliver (t : tree) (target : str) (L : N) : list nat := node_log (find t target) L.

(* ---- config and SharedLogger::new_with_err_handler ---- *)
Record logger := { l_name : str; l_level : N; l_additive : bool; l_apps : list str }.
Record config := { c_appenders : list str; c_root_level : N; c_root_apps : list str;
                   c_loggers : list logger }.

Fixpoint resolve_from (i : nat) (names : list str) (a : str) : option nat :=
  match names with
  | [] => None
  | n :: r =>
    match resolve_from (S i) r a with
    | Some j => Some j
    | None => if str_eqb n a then Some i else None
    end
  end.
Definition resolve (names : list str) (a : str) : option nat := resolve_from 0 names a.

Fixpoint resolve_all (names : list str) (l : list str) : option (list nat) :=
  match l with
  | [] => Some []
  | a :: r =>
    match resolve names a, resolve_all names r with
    | Some i, Some is => Some (i :: is)
    | _, _ => None
    end
  end.

Fixpoint insert_len (x : logger) (l : list logger) : list logger :=
  match l with
  | [] => [x]
  | y :: l' => if Nat.leb (length (l_name x)) (length (l_name y)) then x :: l
               else y :: insert_len x l'
  end.
Fixpoint sort_len (l : list logger) : list logger :=
  match l with
  | [] => []
  | x :: l' => insert_len x (sort_len l')
  end.

Definition add_logger (names : list str) (ot : option tree) (lg : logger) : option tree :=
  match ot, resolve_all names (l_apps lg) with
  | Some t, Some ids => Some (add t (add_parts (l_name lg)) ids (l_additive lg) (l_level lg))
  | _, _ => None
  end.

Definition build (cfg : config) : option tree :=
  match resolve_all (c_appenders cfg) (c_root_apps cfg) with
  | Some ra => fold_left (add_logger (c_appenders cfg)) (sort_len (c_loggers cfg))
                         (Some (T (c_root_level cfg) ra []))
  | None => None
  end.

(* config/runtime.rs check_logger_name (the scan is over chars; ':' is ASCII and
   no UTF-8 continuation/lead byte equals 58, so scanning bytes is the same) *)
Fixpoint check_scan (s : str) (streak : nat) : bool :=
  match s with
  | [] => Nat.eqb streak 0
  | c :: r =>
    if N.eqb c colon then (if Nat.ltb 2 (S streak) then false else check_scan r (S streak))
    else if Nat.ltb 0 streak && negb (Nat.eqb streak 2) then false
    else check_scan r 0
  end.
Definition check_logger_name (s : str) : bool :=
  match s with [] => false | _ => check_scan s 0 end.
