(* C14 — the generic document tree that the three serde front-ends (serde_yaml,
   serde_json, toml) hand to log4rs, and the elementary vocabulary on it.

   TRUSTED, NOT MODELLED: the text -> tree step (the three parsers, serde's derive
   output, serde-value).  The tree is what `deserialize_any` shows to a visitor:
   null, bool, integer, float, string, sequence, map with string keys.  Strings
   are lists of Unicode scalar values (the Rust code compares `char`s / `str`s).
   Map keys are assumed pairwise distinct (what happens to a repeated key is
   decided by the front-end: serde_json keeps the last, toml rejects the file);
   `get` returns the first binding. *)
From Coq Require Import List NArith ZArith Bool.
Import ListNotations.
From L4 Require Import Common.Str.
Local Open Scope N_scope.

Inductive value :=
| DNull
| DBool (b : bool)
| DInt (z : Z)
| DFloat (text : str)          (* the literal as written; never inspected *)
| DStr (s : str)
| DSeq (l : list value)
| DMap (m : list (str * value)).

Definition dmap := list (str * value).

Fixpoint get (k : str) (m : dmap) : option value :=
  match m with
  | [] => None
  | (k', v) :: r => if str_eqb k k' then Some v else get k r
  end.

(* BTreeMap::remove(key) *)
Definition remove (k : str) (m : dmap) : dmap :=
  filter (fun kv => negb (str_eqb k (fst kv))) m.

Definition keys (m : dmap) : list str := map fst m.

(* #[serde(deny_unknown_fields)] over the field set `ks` *)
Definition only_keys (ks : list str) (m : dmap) : bool :=
  forallb (fun kv => mem (fst kv) ks) m.

(* result of a step that runs log4rs / component code *)
Inductive res (A : Type) :=
| Ok (a : A)
| Err                           (* an error value is returned *)
| Panic.                        (* the thread unwinds *)
Arguments Ok {A} a.
Arguments Err {A}.
Arguments Panic {A}.

Definition bind {A B} (r : res A) (f : A -> res B) : res B :=
  match r with Ok a => f a | Err => Err | Panic => Panic end.

Notation "'do' x <- r ; k" := (bind r (fun x => k)) (at level 200, x pattern, r at level 100, k at level 200).

Definition guard (b : bool) : res unit := if b then Ok tt else Err.

Definition of_opt {A} (o : option A) : res A := match o with Some a => Ok a | None => Err end.
