(* C14 — executable model of what log4rs itself does with a configuration document:
   config/raw.rs (RawConfig / Root / Logger, appenders_lossy), config/file.rs
   (deserialize = appenders_lossy + build_lossy), config/mod.rs (create_raw_config),
   the kind-tagged sub-configs (append/mod.rs AppenderConfig, encode/mod.rs
   EncoderConfig, filter/mod.rs FilterConfig, rolling_file/mod.rs Policy,
   policy/compound/mod.rs Trigger / Roller) and the `Deserialize` impls of the
   registered kinds.  Input: a document tree (Model/DocTree.v).  Output: the
   *logical configuration* — the arguments the programmatic builders would be given,
   with every default resolved — plus the errors the lossy path reports.

   BOUNDARY.  Trusted and exercised by the correspondence run, not modelled: the three
   text front-ends, serde's derive expansion and serde-value (here: "a field of type T
   accepts exactly these tree shapes": Option<T> takes null; integers must fit the
   target type; a String takes only a string; structs are read from maps.  serde-derive
   would also read Root / Logger positionally from a *sequence* in JSON/TOML but not
   YAML, and serde_yaml turns scalars into strings where a String is expected at the
   top level (root/logger `appenders` items): those shapes are outside the tree model,
   the model rejects them).
   Oracles (fields of `env`): TimeTrigger::new (chrono arithmetic; C16), opening the
   log file (OS), humantime::parse_duration.  FixedWindowRoller::build rejects a
   `.gz` / `.zst` pattern only when the crate is built without the `gzip` / `zstd`
   feature; the verified build (the harness) has both on, so the extension is free.
   HashMap iteration order (appenders, loggers) is document order here; names are unique
   map keys, for which the downstream build (C13) and routing (C01) do not depend on
   the order. *)
From Coq Require Import List NArith ZArith Bool.
Import ListNotations.
From L4 Require Import Common.Str Model.DocTree Model.Literals Model.ConfigBuild.
Local Open Scope N_scope.

Definition k_kind : str := [107;105;110;100].
Definition k_filters : str := [102;105;108;116;101;114;115].
Definition k_encoder : str := [101;110;99;111;100;101;114].
Definition k_pattern : str := [112;97;116;116;101;114;110].
Definition k_path : str := [112;97;116;104].
Definition k_append : str := [97;112;112;101;110;100].
Definition k_policy : str := [112;111;108;105;99;121].
Definition k_trigger : str := [116;114;105;103;103;101;114].
Definition k_roller : str := [114;111;108;108;101;114].
Definition k_limit : str := [108;105;109;105;116].
Definition k_interval : str := [105;110;116;101;114;118;97;108].
Definition k_modulate : str := [109;111;100;117;108;97;116;101].
Definition k_max_random_delay : str := [109;97;120;95;114;97;110;100;111;109;95;100;101;108;97;121].
Definition k_min_size : str := [109;105;110;95;115;105;122;101].
Definition k_base : str := [98;97;115;101].
Definition k_count : str := [99;111;117;110;116].
Definition k_target : str := [116;97;114;103;101;116].
Definition k_tty_only : str := [116;116;121;95;111;110;108;121].
Definition k_level : str := [108;101;118;101;108].
Definition k_appenders : str := [97;112;112;101;110;100;101;114;115].
Definition k_additive : str := [97;100;100;105;116;105;118;101].
Definition k_refresh_rate : str := [114;101;102;114;101;115;104;95;114;97;116;101].
Definition k_root : str := [114;111;111;116].
Definition k_loggers : str := [108;111;103;103;101;114;115].
Definition s_pattern : str := k_pattern.
Definition s_console : str := [99;111;110;115;111;108;101].
Definition s_file : str := [102;105;108;101].
Definition s_rolling_file : str := [114;111;108;108;105;110;103;95;102;105;108;101].
Definition s_json : str := [106;115;111;110].
Definition s_compound : str := [99;111;109;112;111;117;110;100].
Definition s_size : str := [115;105;122;101].
Definition s_time : str := [116;105;109;101].
Definition s_onstartup : str := [111;110;115;116;97;114;116;117;112].
Definition s_delete : str := [100;101;108;101;116;101].
Definition s_fixed_window : str := [102;105;120;101;100;95;119;105;110;100;111;119].
Definition s_threshold : str := [116;104;114;101;115;104;111;108;100].
Definition s_stdout : str := [115;116;100;111;117;116].
Definition s_stderr : str := [115;116;100;101;114;114].
Definition s_off : str := [111;102;102].
Definition s_error : str := [101;114;114;111;114].
Definition s_warn : str := [119;97;114;110].
Definition s_info : str := [105;110;102;111].
Definition s_debug : str := [100;101;98;117;103].
Definition s_trace : str := [116;114;97;99;101].
Definition default_pattern : str := [123;100;125;32;123;108;125;32;123;116;125;32;45;32;123;109;125;123;110;125].   (* "{d} {l} {t} - {m}{n}" *)
Definition s_braces : str := [123;125].   (* "{}" *)

Definition two32 : N := 4294967296.

(* ---- oracles --------------------------------------------------------------------- *)
Record env := {
  e_time : iunit -> N -> bool -> N -> res unit;  (* TimeTrigger::new(interval, modulate, max_random_delay) *)
  e_fs : str -> bool;                             (* the file at this path can be created / opened for writing *)
  e_dur : str -> option (N * N)                   (* humantime::parse_duration -> (secs, subsec nanos) *)
}.

(* ---- the logical configuration --------------------------------------------------- *)
Inductive encoder := EPattern (p : str) | EJson.
Inductive trigger :=
| TSize (limit : N)
| TTime (u : iunit) (n : N) (modulate : bool) (max_random_delay : N)
| TOnStartup (min_size : N).
Inductive roller := RDelete | RFixedWindow (pattern : str) (base count : N).
Inductive policy := PCompound (t : trigger) (r : roller).
Inductive ctarget := Stdout | Stderr.
Inductive acomp :=
| AConsole (t : ctarget) (tty_only : bool) (e : encoder)
| AFile (path : str) (append : bool) (e : encoder)
| ARolling (path : str) (append : bool) (e : encoder) (p : policy).

Record lappender := { a_name : str; a_filters : list N (* threshold levels *); a_comp : acomp }.

Inductive derr := EAppender (name : str) | EFilter (name : str).   (* DeserializingConfigError *)

(* ---- how a field of a given Rust type reads a tree value (serde, trusted) ---------- *)
Definition f_opt_bool (o : option value) (dflt : bool) : res bool :=   (* Option<bool>, None -> builder default *)
  match o with None | Some DNull => Ok dflt | Some (DBool b) => Ok b | Some _ => Err end.
Definition f_def_bool (o : option value) (dflt : bool) : res bool :=   (* #[serde(default)] bool *)
  match o with None => Ok dflt | Some (DBool b) => Ok b | Some _ => Err end.
Definition f_req_str (o : option value) : res str :=
  match o with Some (DStr s) => Ok s | _ => Err end.
Definition f_opt_str (o : option value) (dflt : str) : res str :=
  match o with None | Some DNull => Ok dflt | Some (DStr s) => Ok s | Some _ => Err end.
Definition uint (bound : N) (v : value) : res N :=
  match v with
  | DInt z => if (0 <=? z)%Z && (z <? Z.of_N bound)%Z then Ok (Z.to_N z) else Err
  | _ => Err
  end.
Definition f_req_uint (bound : N) (o : option value) : res N :=
  match o with Some v => uint bound v | None => Err end.
Definition f_def_uint (bound : N) (o : option value) (dflt : N) : res N :=
  match o with None => Ok dflt | Some v => uint bound v end.
Definition f_opt_uint (bound : N) (o : option value) (dflt : N) : res N :=
  match o with None | Some DNull => Ok dflt | Some v => uint bound v end.

(* log::LevelFilter: FromStr is case-insensitive over OFF..TRACE *)
Definition level_of_str (s : str) : option N :=
  if eq_ic s s_off then Some 0 else if eq_ic s s_error then Some 1
  else if eq_ic s s_warn then Some 2 else if eq_ic s s_info then Some 3
  else if eq_ic s s_debug then Some 4 else if eq_ic s s_trace then Some 5 else None.
Definition f_level (o : option value) : res N :=
  match o with Some (DStr s) => of_opt (level_of_str s) | _ => Err end.
Definition f_def_level (o : option value) (dflt : N) : res N :=
  match o with None => Ok dflt | _ => f_level o end.

Fixpoint all_res {A B} (f : A -> res B) (l : list A) : res (list B) :=
  match l with
  | [] => Ok []
  | x :: r => do y <- f x; do ys <- all_res f r; Ok (y :: ys)
  end.

Definition as_str (v : value) : res str := match v with DStr s => Ok s | _ => Err end.
Definition f_strs (o : option value) : res (list str) :=                (* #[serde(default)] Vec<String> *)
  match o with None => Ok [] | Some (DSeq l) => all_res as_str l | Some _ => Err end.

(* the scalar forms C20's literal parsers distinguish *)
Definition scalar_of (v : value) : option scalar :=
  match v with DInt z => Some (SInt z) | DFloat _ => Some SFloat | DStr s => Some (SStr s) | _ => None end.

(* ---- kind-tagged sections: the hand-written Deserialize impls ----------------------
   BTreeMap<Value,Value>::deserialize; map.remove("kind"); rest = Value::Map(map) *)
Definition split_kind (dflt : option str) (v : value) : res (str * dmap) :=
  match v with
  | DMap m =>
    match get k_kind m with
    | Some (DStr s) => Ok (s, remove k_kind m)
    | Some _ => Err
    | None => match dflt with Some d => Ok (d, remove k_kind m) | None => Err end
    end
  | _ => Err
  end.

(* an Option<EncoderConfig> field *)
Definition split_opt (dflt : option str) (o : option value) : res (option (str * dmap)) :=
  match o with
  | None | Some DNull => Ok None
  | Some v => do x <- split_kind dflt v; Ok (Some x)
  end.

(* ---- registered encoders ----------------------------------------------------------- *)
Definition interp_encoder_cfg (kind : str) (m : dmap) : res encoder :=
  if str_eqb kind s_pattern then
    do _ <- guard (only_keys [k_pattern] m);
    do p <- f_opt_str (get k_pattern m) default_pattern;        (* None -> PatternEncoder::default() *)
    Ok (EPattern p)
  else if str_eqb kind s_json then
    do _ <- guard (only_keys [] m);
    Ok EJson
  else Err.                                                      (* no encoder deserializer for kind *)

Definition build_encoder (o : option (str * dmap)) : res encoder :=
  match o with
  | None => Ok (EPattern default_pattern)                        (* builder default *)
  | Some (k, m) => interp_encoder_cfg k m
  end.

(* ---- registered triggers ----------------------------------------------------------- *)
Definition interp_trigger_cfg (E : env) (kind : str) (m : dmap) : res trigger :=
  if str_eqb kind s_size then
    do _ <- guard (only_keys [k_limit] m);
    do v <- of_opt (get k_limit m);
    do sc <- of_opt (scalar_of v);
    do n <- of_opt (parse_size sc);
    Ok (TSize n)
  else if str_eqb kind s_time then
    do _ <- guard (only_keys [k_interval; k_modulate; k_max_random_delay] m);
    do v <- of_opt (get k_interval m);
    do sc <- of_opt (scalar_of v);
    do un <- of_opt (parse_interval sc);
    do md <- f_def_bool (get k_modulate m) false;
    do dl <- f_def_uint two64 (get k_max_random_delay m) 0;
    do _ <- e_time E (fst un) (snd un) md dl;                    (* TimeTrigger::new *)
    Ok (TTime (fst un) (snd un) md dl)
  else if str_eqb kind s_onstartup then
    do _ <- guard (only_keys [k_min_size] m);
    do n <- f_def_uint two64 (get k_min_size m) 1;
    Ok (TOnStartup n)
  else Err.

(* ---- registered rollers ------------------------------------------------------------ *)
Fixpoint prefix_eqb (p s : str) : bool :=
  match p, s with
  | [], _ => true
  | a :: p', b :: s' => (a =? b) && prefix_eqb p' s'
  | _ :: _, [] => false
  end.
Fixpoint contains (p s : str) : bool :=
  prefix_eqb p s || match s with [] => false | _ :: r => contains p r end.
Definition ends_with (p s : str) : bool := prefix_eqb (rev p) (rev s).

(* FixedWindowRollerBuilder::build: needs "{}" (features gzip and zstd are on: any extension) *)
Definition roller_pattern_ok (p : str) : bool := contains s_braces p.

Definition interp_roller_cfg (kind : str) (m : dmap) : res roller :=
  if str_eqb kind s_delete then
    do _ <- guard (only_keys [] m);
    Ok RDelete
  else if str_eqb kind s_fixed_window then
    do _ <- guard (only_keys [k_pattern; k_base; k_count] m);
    do p <- f_req_str (get k_pattern m);
    do b <- f_opt_uint two32 (get k_base m) 0;                   (* Option<u32>, builder default 0 *)
    do c <- f_req_uint two32 (get k_count m);
    do _ <- guard (roller_pattern_ok p);
    Ok (RFixedWindow p b c)
  else Err.

(* ---- registered policy ------------------------------------------------------------- *)
Definition interp_policy_cfg (E : env) (kind : str) (m : dmap) : res policy :=
  if str_eqb kind s_compound then
    do _ <- guard (only_keys [k_trigger; k_roller] m);
    do tv <- of_opt (get k_trigger m);
    do rv <- of_opt (get k_roller m);
    do t <- split_kind None tv;                                  (* serde phase: both kind splits *)
    do r <- split_kind None rv;
    do tr <- interp_trigger_cfg E (fst t) (snd t);               (* then trigger, then roller *)
    do ro <- interp_roller_cfg (fst r) (snd r);
    Ok (PCompound tr ro)
  else Err.

(* ---- registered appenders ---------------------------------------------------------- *)
Definition f_target (o : option value) : res ctarget :=          (* Option<ConfigTarget>, renamed variants *)
  match o with
  | None | Some DNull => Ok Stdout
  | Some (DStr s) => if str_eqb s s_stdout then Ok Stdout else if str_eqb s s_stderr then Ok Stderr else Err
  | Some _ => Err
  end.

Definition interp_appender_cfg (E : env) (kind : str) (m : dmap) : res acomp :=
  if str_eqb kind s_console then
    do _ <- guard (only_keys [k_target; k_encoder; k_tty_only] m);
    do t <- f_target (get k_target m);
    do e <- split_opt (Some s_pattern) (get k_encoder m);
    do tty <- f_opt_bool (get k_tty_only m) false;
    do enc <- build_encoder e;
    Ok (AConsole t tty enc)
  else if str_eqb kind s_file then
    do _ <- guard (only_keys [k_path; k_encoder; k_append] m);
    do p <- f_req_str (get k_path m);
    do e <- split_opt (Some s_pattern) (get k_encoder m);
    do ap <- f_opt_bool (get k_append m) true;
    do enc <- build_encoder e;
    do _ <- guard (e_fs E p);                                    (* FileAppenderBuilder::build opens the file *)
    Ok (AFile p ap enc)
  else if str_eqb kind s_rolling_file then
    do _ <- guard (only_keys [k_path; k_append; k_encoder; k_policy] m);
    do p <- f_req_str (get k_path m);
    do ap <- f_opt_bool (get k_append m) true;
    do e <- split_opt (Some s_pattern) (get k_encoder m);
    do pv <- of_opt (get k_policy m);
    do pol <- split_kind (Some s_compound) pv;
    do enc <- build_encoder e;
    do po <- interp_policy_cfg E (fst pol) (snd pol);
    do _ <- guard (e_fs E p);
    Ok (ARolling p ap enc po)
  else Err.                                                      (* no appender deserializer for kind *)

(* ---- registered filter (ThresholdFilterConfig has NO deny_unknown_fields) ------------ *)
Definition interp_filter_cfg (kind : str) (m : dmap) : res N :=
  if str_eqb kind s_threshold then f_level (get k_level m) else Err.

(* ---- RawConfig: the serde phase (an error here rejects the whole document) ----------- *)
Record araw := { ar_kind : str; ar_filters : list (str * dmap); ar_cfg : dmap }.

Definition parse_appender (v : value) : res araw :=                (* AppenderConfig::deserialize *)
  match v with
  | DMap m =>
    do k <- f_req_str (get k_kind m);
    do fs <- match get k_filters m with
             | None => Ok []
             | Some (DSeq l) => all_res (split_kind None) l
             | Some _ => Err
             end;
    Ok {| ar_kind := k; ar_filters := fs; ar_cfg := remove k_filters (remove k_kind m) |}
  | _ => Err
  end.

Definition parse_logger (nv : str * value) : res logger :=
  match snd nv with
  | DMap m =>
    do _ <- guard (only_keys [k_level; k_appenders; k_additive] m);
    do l <- f_level (get k_level m);                              (* required *)
    do a <- f_strs (get k_appenders m);
    do ad <- f_def_bool (get k_additive m) true;
    Ok {| lname := fst nv; llevel := l; lapps := a; ladditive := ad |}
  | _ => Err
  end.

Definition parse_named {A} (f : str * value -> res A) (o : option value) : res (list A) :=
  match o with None => Ok [] | Some (DMap m) => all_res f m | Some _ => Err end.

Definition parse_root (o : option value) : res (N * list str) :=
  match o with
  | None => Ok (4, [])                                            (* Root::default(): Debug, no appenders *)
  | Some (DMap m) =>
    do _ <- guard (only_keys [k_level; k_appenders] m);
    do l <- f_def_level (get k_level m) 4;
    do a <- f_strs (get k_appenders m);
    Ok (l, a)
  | Some _ => Err
  end.

Definition parse_refresh (E : env) (o : option value) : res (option (N * N)) :=
  match o with
  | None | Some DNull => Ok None
  | Some (DStr s) => match e_dur E s with Some d => Ok (Some d) | None => Err end
  | Some _ => Err
  end.

Record raw := {
  rw_refresh : option (N * N);
  rw_root_level : N;
  rw_root_apps : list str;
  rw_appenders : list (str * araw);
  rw_loggers : list logger
}.

Definition interp_raw (E : env) (v : value) : res raw :=
  match v with
  | DMap m =>
    do _ <- guard (only_keys [k_refresh_rate; k_root; k_appenders; k_loggers] m);
    do rf <- parse_refresh E (get k_refresh_rate m);
    do rt <- parse_root (get k_root m);
    do aps <- parse_named (fun nv => do a <- parse_appender (snd nv); Ok (fst nv, a)) (get k_appenders m);
    do lgs <- parse_named parse_logger (get k_loggers m);
    Ok {| rw_refresh := rf; rw_root_level := fst rt; rw_root_apps := snd rt;
          rw_appenders := aps; rw_loggers := lgs |}
  | _ => Err
  end.

(* ---- RawConfig::appenders_lossy ------------------------------------------------------ *)
Fixpoint run_filters (name : str) (fs : list (str * dmap)) : list N * list derr :=
  match fs with
  | [] => ([], [])
  | (k, m) :: r =>
    let (ok, errs) := run_filters name r in
    match interp_filter_cfg k m with
    | Ok l => (l :: ok, errs)
    | _ => (ok, EFilter name :: errs)          (* no panic source in the threshold deserializer *)
    end
  end.

Definition run_appender (E : env) (na : str * araw) : res (option lappender * list derr) :=
  let (ok, ferrs) := run_filters (fst na) (ar_filters (snd na)) in
  match interp_appender_cfg E (ar_kind (snd na)) (ar_cfg (snd na)) with
  | Ok c => Ok (Some {| a_name := fst na; a_filters := ok; a_comp := c |}, ferrs)
  | Err => Ok (None, ferrs ++ [EAppender (fst na)])
  | Panic => Panic
  end.

Fixpoint appenders_lossy (E : env) (l : list (str * araw)) : res (list lappender * list derr) :=
  match l with
  | [] => Ok ([], [])
  | x :: r =>
    do oe <- run_appender E x;
    do rest <- appenders_lossy E r;
    Ok (match fst oe with Some a => a :: fst rest | None => fst rest end, snd oe ++ snd rest)
  end.

(* ---- config/file.rs deserialize (lossy) and config/mod.rs create_raw_config (strict) -- *)
Record loaded := {
  ld_refresh : option (N * N);
  ld_appenders : list lappender;        (* the appenders that were built *)
  ld_derrs : list derr;                 (* errors reported by appenders_lossy *)
  ld_config : config;                   (* C13: what build_lossy keeps *)
  ld_berrs : list cerr                  (* errors reported by build_lossy *)
}.

Definition load_lossy (E : env) (v : value) : res loaded :=
  do r <- interp_raw E v;
  do ae <- appenders_lossy E (rw_appenders r);
  let ce := build_lossy (map a_name (fst ae)) (rw_root_level r) (rw_root_apps r) (rw_loggers r) in
  Ok {| ld_refresh := rw_refresh r; ld_appenders := fst ae; ld_derrs := snd ae;
        ld_config := fst ce; ld_berrs := snd ce |}.

Definition load_strict (E : env) (v : value) : res (list lappender * config) :=
  do r <- interp_raw E v;
  do ae <- appenders_lossy E (rw_appenders r);
  match snd ae with
  | _ :: _ => Err                                                (* InitError::Deserializing *)
  | [] =>
    match build (map a_name (fst ae)) (rw_root_level r) (rw_root_apps r) (rw_loggers r) with
    | Some c => Ok (fst ae, c)
    | None => Err                                                (* InitError::BuildConfig *)
    end
  end.
