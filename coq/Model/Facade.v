(* C02 — model of the global plumbing between the `log` facade and the log4rs
   logger: src/config/mod.rs init_config (lines 27-35), src/lib.rs
   Handle::set_config (458-465), Log::enabled (420-426), and the `log` crate's
   `log!` / `log_enabled!` macros (log 0.4.34, src/macros.rs `__log`,
   `__log_enabled`).  Executable definitions only.

   What is modelled how:
   * the facade's state is two globals: the max level (`log::set_max_level` /
     `log::max_level`, an atomic usize) and the installed logger.  The installed
     log4rs `Logger` is an `Arc<ArcSwap<SharedLogger>>`; single-threaded
     histories only, so ArcSwap is a plain cell holding the current tree
     (`cur`).  Concurrent swaps are C15's subject.
   * `SharedLogger::new` = `Routing.build`; it can panic on an unresolved
     appender reference (`None`): in `set_config` that happens before either
     global is touched, so the step as a whole yields `None`.
   * `log::STATIC_MAX_LEVEL` is `Trace` (5): neither the harness nor log4rs turns
     on a `max_level_*` / `release_max_level_*` feature of `log`.
   * `set_boxed_logger` succeeding once per process is an assumption of the
     harness (one child process per history), not part of the model.
   * levels: LevelFilter Off..Trace = 0..5, Level Error..Trace = 1..5. *)
From Coq Require Import List NArith Bool.
Import ListNotations.
From L4 Require Import Model.Routing.

Definition static_max : N := 5%N.

Record fstate := { gmax : N; cur : tree }.

(* `let logger = Logger::new(config); log::set_max_level(logger.max_log_level());
    log::set_boxed_logger(Box::new(logger))` *)
Definition init (cfg : config) : option fstate :=
  match build cfg with
  | Some t => Some {| gmax := max_level t; cur := t |}
  | None => None
  end.

(* `let shared = SharedLogger::new(config);
    log::set_max_level(shared.root.max_log_level());
    self.shared.store(Arc::new(shared));` *)
Definition set_config (st : fstate) (cfg : config) : option fstate :=
  match build cfg with
  | Some t => Some {| gmax := max_level t; cur := t |}
  | None => None
  end.

Definition step (ost : option fstate) (cfg : config) : option fstate :=
  match ost with Some st => set_config st cfg | None => None end.

(* init_config(c0), then handle.set_config(c) for each c of cs in order *)
Definition run_history (c0 : config) (cs : list config) : option fstate :=
  fold_left step cs (init c0).

(* log::max_level() *)
Definition facade_max (st : fstate) : N := gmax st.

(* log::logger().enabled(&Metadata { level, target }) *)
Definition logger_enabled (st : fstate) (target : str) (L : N) : bool :=
  enabled_at (cur st) target L.

(* `log!(target: T, lvl, ..)`:
   `if lvl <= STATIC_MAX_LEVEL && lvl <= max_level() { logger().log(&record) }`
   (the macro does NOT consult `enabled`) *)
Definition macro_log (st : fstate) (target : str) (L : N) : list nat :=
  if N.leb L static_max && N.leb L (gmax st) then deliver (cur st) target L else [].

(* `log_enabled!(target: T, lvl)`:
   `lvl <= STATIC_MAX_LEVEL && lvl <= max_level() && logger().enabled(..)` *)
Definition macro_enabled (st : fstate) (target : str) (L : N) : bool :=
  N.leb L static_max && N.leb L (gmax st) && enabled_at (cur st) target L.

(* ---- inside Handle::set_config: program points and re-entrant logging ----
   The three statements in program order give two observable intermediate
   points: `mid` after `log::set_max_level(new max)` (global max already new,
   installed tree still the old one) and `fin` after `self.shared.store(..)`.
   The store swaps the new SharedLogger in and THEN releases the previous one:
   the previous configuration's appenders are dropped inside the store, after
   the swap, i.e. in state `fin`.  A record an old appender logs through the
   `log!` macro from its `Drop` (deterministic same-thread re-entrancy) is
   therefore filtered by the NEW global max and routed by the NEW tree. *)
Definition set_config_points (st : fstate) (cfg : config) : option (fstate * fstate) :=
  match build cfg with
  | Some t => Some ({| gmax := max_level t; cur := cur st |}, {| gmax := max_level t; cur := t |})
  | None => None
  end.

Definition drop_probe (st : fstate) (cfg : config) (target : str) (L : N) : option (list nat) :=
  match set_config_points st cfg with
  | Some (_, fin) => Some (macro_log fin target L)
  | None => None
  end.

(* `config.root_mut().set_level(l)` on an already built Config, before it is
   handed to init_config / set_config: the only post-build mutator of the
   public API (config/runtime.rs: Config::root_mut, Root::set_level) *)
Definition root_set_level (cfg : config) (l : N) : config :=
  {| c_appenders := c_appenders cfg; c_root_level := l; c_root_apps := c_root_apps cfg;
     c_loggers := c_loggers cfg |}.
