(* C02 — model of the global plumbing between the `log` facade and the log4rs
   logger: src/config/mod.rs init_config (lines 27-35), src/lib.rs
   Handle::set_config (458-465), Log::enabled (420-426), and the `log` crate's
   `log!` / `log_enabled!` macros (log 0.4.34, src/macros.rs `__log`,
   `__log_enabled`).  Executable definitions only.

   What is modelled how:
   * the facade's state is two globals: the max level (`log::set_max_level` /
     `log::max_level`, an atomic usize) and the installed logger.  The installed
     log4rs `Logger` is an `Arc<ArcSwap<SharedLogger>>`; single-threaded
     histories only, so ArcSwap is a plain cell holding the current tree
     (`cur`).  Concurrent swaps are C15's subject.
   * `SharedLogger::new` = `Routing.build`; it can panic on an unresolved
     appender reference (`None`): in `set_config` that happens before either
     global is touched, so the step as a whole yields `None`.
   * `log::STATIC_MAX_LEVEL` is `Trace` (5): neither the harness nor log4rs turns
     on a `max_level_*` / `release_max_level_*` feature of `log`.
   * `set_boxed_logger` succeeding once per process is an assumption of the
     harness (one child process per history), not part of the model.
   * levels: LevelFilter Off..Trace = 0..5, Level Error..Trace = 1..5. *)
From Coq Require Import List NArith Bool.
Import ListNotations.
From L4 Require Import Model.Routing.

Definition static_max : N := 5%N.

Record fstate := { gmax : N; cur : tree }.

(* `let logger = Logger::new(config); log::set_max_level(logger.max_log_level());
    log::set_boxed_logger(Box::new(logger))` *)
Definition init (cfg : config) : option fstate :=
  match build cfg with
  | Some t => Some {| gmax := max_level t; cur := t |}
  | None => None
  end.

(* `let shared = SharedLogger::new(config);
    log::set_max_level(shared.root.max_log_level());
    self.shared.store(Arc::new(shared));` *)
Definition set_config (st : fstate) (cfg : config) : option fstate :=
  match build cfg with
  | Some t => Some {| gmax := max_level t; cur := t |}
  | None => None
  end.

Definition step (ost : option fstate) (cfg : config) : option fstate :=
  match ost with Some st => set_config st cfg | None => None end.

(* init_config(c0), then handle.set_config(c) for each c of cs in order *)
Definition run_history (c0 : config) (cs : list config) : option fstate :=
  fold_left step cs (init c0).

(* log::max_level() *)
Definition facade_max (st : fstate) : N := gmax st.

(* log::logger().enabled(&Metadata { level, target }) *)
Definition logger_enabled (st : fstate) (target : str) (L : N) : bool :=
  enabled_at (cur st) target L.

(* `log!(target: T, lvl, ..)`:
   `if lvl <= STATIC_MAX_LEVEL && lvl <= max_level() { logger().log(&record) }`
   (the macro does NOT consult `enabled`) *)
Definition macro_log (st : fstate) (target : str) (L : N) : list nat :=
  if N.leb L static_max && N.leb L (gmax st) then deliver (cur st) target L else [].

(* `log_enabled!(target: T, lvl)`:
   `lvl <= STATIC_MAX_LEVEL && lvl <= max_level() && logger().enabled(..)` *)
Definition macro_enabled (st : fstate) (target : str) (L : N) : bool :=
  N.leb L static_max && N.leb L (gmax st) && enabled_at (cur st) target L.
