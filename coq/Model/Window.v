(* C07 / C08 — model of append/rolling_file/policy/compound/roll/fixed_window.rs
   (FixedWindowRoller::roll without background_rotation, rotate, move_file,
   Compression::compress) and roll/delete.rs (DeleteRoller::roll).
   Executable definitions only.

   External things and how they appear here:
   * the OS file system          -> Common/FSModel.v (regular files; rename = atomic replace,
                                    NotFound when the source is absent; no other OS error is
                                    modelled, so move_file's copy+delete fallback is unreachable
                                    and directories / create_dir_all have no model effect);
   * archive names               -> parameter `name : N -> path`,
                                    name i = expand_env_vars(pattern.replace("{}", i.to_string()))
                                    (Model/Subst.v gives the concrete function);
   * gzip (flate2)               -> parameter `cm : cmode`: None = Compression::None,
                                    Some g = Compression::Gzip with g the compression function
                                    (theorems hold for every g; the correspondence run
                                    decompresses in the harness, i.e. uses g = identity);
   * u32 arithmetic              -> `base + (count - 1)` panics in the debug profile (the one
                                    the harness builds) when it reaches 2^32: outcome Panicked;
   * the verif hook rotate_step  -> `fault : option nat`: Some k = the callback returns Err at
                                    its k-th call (k = 0.. counts the archive shifts, then the
                                    final move/compress); the call happens BEFORE the step. *)
From Coq Require Import List NArith Bool.
Import ListNotations.
From L4 Require Import Common.FSModel.
Local Open Scope N_scope.

Inductive outcome :=
| Done (f : fs)        (* Ok(()) *)
| Failed (f : fs)      (* Err(_), file system left as f *)
| Panicked.

(* one file-system step of rotate() *)
Inductive step :=
| Shift (src dst : path)     (* move_file(src, dst) inside the loop *)
| Final (src dst : path).    (* compression.compress(&file, &dst_0) *)

Definition cmode := option (bytes -> bytes).

(* content of an archive made from a rolled file with content x *)
Definition arch (cm : cmode) (x : bytes) : bytes :=
  match cm with None => x | Some g => g x end.

(* move_file: rename; Ok when the source does not exist *)
Definition move_file (src dst : path) (f : fs) : fs :=
  match rename src dst f with
  | RenOk f' => f'
  | RenNotFound => f
  end.

(* Compression::compress.  Gzip: File::open(src)?; File::create(dst)?; copy; remove_file(src) *)
Definition compress (cm : cmode) (src dst : path) (f : fs) : option fs :=
  match cm with
  | None => Some (move_file src dst f)
  | Some g =>
    match lookup src f with
    | None => None
    | Some x => Some (remove src (write dst (g x) f))
    end
  end.

Definition exec_step (cm : cmode) (s : step) (f : fs) : option fs :=
  match s with
  | Shift src dst => Some (move_file src dst f)
  | Final src dst => compress cm src dst f
  end.

Definition dec_fault (fault : option nat) : option nat :=
  match fault with
  | Some (S j) => Some j
  | x => x
  end.

(* execute a step list; the hook is consulted before every step *)
Fixpoint run_steps (cm : cmode) (fault : option nat) (ss : list step) (f : fs) : outcome :=
  match ss with
  | [] => Done f
  | s :: rest =>
    match fault with
    | Some O => Failed f
    | _ => match exec_step cm s f with
           | Some f' => run_steps cm (dec_fault fault) rest f'
           | None => Failed f
           end
    end
  end.

(* state of the file system at the k-th hook call of a rotation
   (= after the first k steps): a crash image *)
Fixpoint exec_prefix (cm : cmode) (k : nat) (ss : list step) (f : fs) : fs :=
  match k, ss with
  | S k', s :: rest =>
    match exec_step cm s f with
    | Some f' => exec_prefix cm k' rest f'
    | None => f
    end
  | _, _ => f
  end.

(* the images seen by the hook, in call order *)
Fixpoint images (cm : cmode) (fault : option nat) (ss : list step) (f : fs) : list fs :=
  match ss with
  | [] => []
  | s :: rest =>
    f :: match fault with
         | Some O => []
         | _ => match exec_step cm s f with
                | Some f' => images cm (dec_fault fault) rest f'
                | None => []
                end
         end
  end.

Section Roller.
  Variable name : N -> path.

  (* for i in (base .. base + m).rev(): src = name i, dst = name (i + 1) *)
  Fixpoint shift_steps (b : N) (m : nat) : list step :=
    match m with
    | O => []
    | S m' => Shift (name (b + N.of_nat m')) (name (b + N.of_nat m' + 1)) :: shift_steps b m'
    end.

  Definition steps (b c : N) (file : path) : list step :=
    shift_steps b (N.to_nat (c - 1)) ++ [Final file (name b)].

  Definition u32_max1 : N := 4294967296.

  (* rotate(pattern, compression, base, count, file), count >= 1 *)
  Definition rotate (cm : cmode) (fault : option nat) (b c : N) (file : path) (f : fs) : outcome :=
    if u32_max1 <=? b + (c - 1) then Panicked
    else run_steps cm fault (steps b c file) f.

  (* fs::remove_file(file) *)
  Definition remove_file (file : path) (f : fs) : outcome :=
    match lookup file f with
    | Some _ => Done (remove file f)
    | None => Failed f
    end.

  (* FixedWindowRoller::roll *)
  Definition roll (cm : cmode) (fault : option nat) (b c : N) (file : path) (f : fs) : outcome :=
    if c =? 0 then remove_file file f
    else rotate cm fault b c file f.

  (* DeleteRoller::roll *)
  Definition delete_roll (file : path) (f : fs) : outcome := remove_file file f.

  (* n successive rolls: the log file is (re)written with the next content, then rolled *)
  Fixpoint rolls (cm : cmode) (b c : N) (file : path) (contents : list bytes) (f : fs) : outcome :=
    match contents with
    | [] => Done f
    | x :: rest =>
      match roll cm None b c file (write file x f) with
      | Done f' => rolls cm b c file rest f'
      | o => o
      end
    end.
End Roller.
