(* C07 — which compression a fixed-window roller uses: FixedWindowRollerBuilder::build
   (src/append/rolling_file/policy/compound/roll/fixed_window.rs)

     let compression = match Path::new(pattern).extension() {
         Some(e) if e == "gz"  => Compression::Gzip,     (feature gzip)
         Some(e) if e == "zst" => Compression::Zstd,     (feature zstd)
         _ => Compression::None,
     };

   with std's Path::extension on a Unix path, byte for byte:
     components():  split at '/', empty components and "." dropped (a leading "." survives as
                    CurDir, which is no file name either);
     file_name():   the last component if it is a normal one (".." is not);
     extension():   rsplit_file_at_dot(file_name): ".." has none; otherwise split at the LAST '.';
                    no '.' -> none; nothing before it (".gz") -> none; else what follows it. *)
From Coq Require Import List NArith Bool.
Import ListNotations.
Local Open Scope N_scope.

Definition bytes := list N.

Fixpoint bytes_eqb (a b : bytes) : bool :=
  match a, b with
  | [], [] => true
  | x :: a', y :: b' => (x =? y) && bytes_eqb a' b'
  | _, _ => false
  end.

(* the component that is being read, the components already complete (newest first) *)
Fixpoint split_slash (cur : bytes) (s : bytes) : list bytes :=
  match s with
  | [] => [rev cur]
  | c :: rest => if c =? 47 then rev cur :: split_slash [] rest else split_slash (c :: cur) rest
  end.

Definition is_dot (c : bytes) : bool := bytes_eqb c [46].
Definition is_dotdot (c : bytes) : bool := bytes_eqb c [46; 46].

(* components that can be a file name candidate: empty ones and "." are skipped by the iterator *)
Definition components (s : bytes) : list bytes :=
  filter (fun c => negb (match c with [] => true | _ => false end) && negb (is_dot c)) (split_slash [] s).

Definition file_name (s : bytes) : option bytes :=
  match rev (components s) with
  | [] => None
  | c :: _ => if is_dotdot c then None else Some c
  end.

(* split at the last '.', scanning from the end: (before, after) *)
Fixpoint rsplit_dot_rev (after : bytes) (r : bytes) : option (bytes * bytes) :=
  match r with
  | [] => None
  | c :: rest => if c =? 46 then Some (rev rest, after) else rsplit_dot_rev (c :: after) rest
  end.

Definition rsplit_dot (f : bytes) : option (bytes * bytes) := rsplit_dot_rev [] (rev f).

Definition extension (s : bytes) : option bytes :=
  match file_name s with
  | None => None
  | Some f =>
      match rsplit_dot f with
      | None => None
      | Some ([], _) => None
      | Some (_ :: _, after) => Some after
      end
  end.

Definition ext_gz : bytes := [103; 122].
Definition ext_zst : bytes := [122; 115; 116].

(* both cargo features on (as the harness builds the crate) *)
Definition compressed (pattern : bytes) : bool :=
  match extension pattern with
  | Some e => bytes_eqb e ext_gz || bytes_eqb e ext_zst
  | None => false
  end.
