(* C06 — the io::Write layer of the rolling appender's LogWriter (src/append/rolling_file/mod.rs):

     fn write(&mut self, buf) -> io::Result<usize> {
         self.file.write(buf).map(|n| { self.len += n as u64; n })
     }

   and the entry points std derives from it.  `write_all` is std's default method:

     while !buf.is_empty() {
         match self.write(buf) {
             Ok(0) => return Err(WriteZero),
             Ok(n) => buf = &buf[n..],
             Err(ref e) if e.kind() == Interrupted => {}
             Err(e) => return Err(e),
         }
     }
     Ok(())

   The sink below LogWriter (BufWriter<File>, the kernel) is a SCRIPT of answers, one per
   `write` call: it takes some of the bytes offered (a short count is allowed: a pipe, a
   write(2) limited to 0x7ffff000 bytes, a nearly full disk), takes nothing, is interrupted,
   or fails.  `taken` is everything the sink accepted so far (what reaches the file, flushes
   aside); `len` is LogWriter's count, the number the policy is shown. *)
From Coq Require Import List NArith Bool.
Import ListNotations.
Local Open Scope N_scope.

Definition bytes := list N.
Definition blen (b : bytes) : N := N.of_nat (length b).

Inductive answer :=
| Took (n : nat)      (* Ok(min (S n) |buf|): at least one byte of a non-empty buffer *)
| Zero                (* Ok(0) *)
| Intr                (* Err(Interrupted) *)
| Fail.               (* any other error *)

Record lw := { taken : bytes; len : N }.

Inductive wres := WOk (n : nat) | WIntr | WErr.

(* LogWriter::write with the sink's answer to this call *)
Definition lw_write (w : lw) (buf : bytes) (a : answer) : lw * wres :=
  match a with
  | Took n =>
      let k := Nat.min (S n) (length buf) in
      ({| taken := taken w ++ firstn k buf; len := len w + N.of_nat k |}, WOk k)
  | Zero => (w, WOk 0)
  | Intr => (w, WIntr)
  | Fail => (w, WErr)
  end.

Inductive ares := AOk | AErr | AOutOfScript.

(* std's default write_all over LogWriter::write; one script entry per write call *)
Fixpoint write_all (w : lw) (buf : bytes) (script : list answer) : lw * ares * list answer :=
  match buf with
  | [] => (w, AOk, script)
  | _ :: _ =>
      match script with
      | [] => (w, AOutOfScript, [])
      | a :: rest =>
          match lw_write w buf a with
          | (w', WOk O) => (w', AErr, rest)                    (* WriteZero *)
          | (w', WOk k) => write_all w' (skipn k buf) rest
          | (w', WIntr) => write_all w' buf rest
          | (w', WErr) => (w', AErr, rest)
          end
      end
  end.

(* an encoder: a list of chunks, each handed to write_all; stops at the first failure *)
Fixpoint write_chunks (w : lw) (chunks : list bytes) (script : list answer) : lw * ares * list answer :=
  match chunks with
  | [] => (w, AOk, script)
  | c :: cs =>
      match write_all w c script with
      | (w', AOk, rest) => write_chunks w' cs rest
      | r => r
      end
  end.
