(* C13 — model of config/runtime.rs: check_logger_name, ConfigBuilder::build_lossy
   and ::build.  Names are UTF-8 byte strings; the Rust code compares chars with
   ':' only, which is byte-exact because ':' is ASCII (0x3A never occurs inside a
   multi-byte sequence).  HashSet<String> is modelled by a list with membership. *)
From Coq Require Import List NArith Bool.
Import ListNotations.
From L4 Require Import Common.Str.
Local Open Scope N_scope.

Definition colon : N := 58.

(* fn check_logger_name: the streak automaton *)
Fixpoint check_go (s : str) (streak : N) : bool :=
  match s with
  | [] => streak =? 0                          (* if streak > 0 { Err } else { Ok } *)
  | c :: r =>
    if c =? colon then
      let streak' := streak + 1 in
      if 2 <? streak' then false else check_go r streak'
    else
      if (0 <? streak) && negb (streak =? 2) then false else check_go r 0
  end.

Definition check_name (s : str) : bool :=
  match s with [] => false | _ => check_go s 0 end.

Record logger := { lname : str; llevel : N; lapps : list str; ladditive : bool }.

Inductive cerr :=
| DuplicateAppenderName (n : str)
| NonexistentAppender (n : str)
| DuplicateLoggerName (n : str)
| InvalidLoggerName (n : str).

(* for appender in appenders { if names.insert(name) { ok.push } else { err } } *)
Fixpoint dedup_appenders (seen : list str) (apps : list str) : list str * list cerr :=
  match apps with
  | [] => ([], [])
  | a :: rest =>
    if mem a seen then
      let (ok, errs) := dedup_appenders seen rest in (ok, DuplicateAppenderName a :: errs)
    else
      let (ok, errs) := dedup_appenders (a :: seen) rest in (a :: ok, errs)
  end.

(* for appender in refs { if names.contains { ok.push } else { err } } *)
Fixpoint strip_refs (names : list str) (refs : list str) : list str * list cerr :=
  match refs with
  | [] => ([], [])
  | r :: rest =>
    let (ok, errs) := strip_refs names rest in
    if mem r names then (r :: ok, errs) else (ok, NonexistentAppender r :: errs)
  end.

Fixpoint build_loggers (names : list str) (seen : list str) (ls : list logger)
  : list logger * list cerr :=
  match ls with
  | [] => ([], [])
  | l :: rest =>
    if mem (lname l) seen then
      let (ok, errs) := build_loggers names seen rest in
      (ok, DuplicateLoggerName (lname l) :: errs)
    else if negb (check_name (lname l)) then
      let (ok, errs) := build_loggers names (lname l :: seen) rest in
      (ok, InvalidLoggerName (lname l) :: errs)
    else
      let (refs, e1) := strip_refs names (lapps l) in
      let (ok, errs) := build_loggers names (lname l :: seen) rest in
      ({| lname := lname l; llevel := llevel l; lapps := refs; ladditive := ladditive l |} :: ok,
       e1 ++ errs)
  end.

Record config := {
  c_appenders : list str;
  c_root_level : N;
  c_root_apps : list str;
  c_loggers : list logger
}.

(* ConfigBuilder::build_lossy(self, root) *)
Definition build_lossy (apps : list str) (root_level : N) (root_refs : list str)
           (ls : list logger) : config * list cerr :=
  let (ok_apps, e1) := dedup_appenders [] apps in
  let (ok_root, e2) := strip_refs ok_apps root_refs in
  let (ok_ls, e3) := build_loggers ok_apps [] ls in
  ({| c_appenders := ok_apps; c_root_level := root_level;
      c_root_apps := ok_root; c_loggers := ok_ls |},
   e1 ++ e2 ++ e3).

(* ConfigBuilder::build: Ok(config) iff errors.is_empty() *)
Definition build (apps : list str) (root_level : N) (root_refs : list str)
           (ls : list logger) : option config :=
  let (c, e) := build_lossy apps root_level root_refs ls in
  match e with [] => Some c | _ => None end.
