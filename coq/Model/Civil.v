(* C16 — proleptic Gregorian calendar arithmetic as chrono's NaiveDate exposes it
   (year/month/day, ordinal0, weekday counted from Monday, ISO week number).
   chrono computes these through year-flag tables; this file is a small model of
   the *documented* behaviour (days since 1970-01-01 <-> civil date by the usual
   era/day-of-era algorithm, floor division throughout).  Executable definitions
   only; the facts about them are in Proofs/Civil.v. *)
From Coq Require Import ZArith Bool.
Local Open Scope Z_scope.

(* days since 1970-01-01 of the civil date y-m-d (m in 1..12, d in 1..31) *)
Definition days_from_civil (y m d : Z) : Z :=
  let y' := if m <=? 2 then y - 1 else y in
  let era := y' / 400 in
  let yoe := y' mod 400 in
  let mp := if 2 <? m then m - 3 else m + 9 in
  let doy := (153 * mp + 2) / 5 + d - 1 in
  let doe := yoe * 365 + yoe / 4 - yoe / 100 + doy in
  era * 146097 + doe - 719468.

(* the part of civil_from_days that depends on the day-of-era only:
   (year of era counted from 1 March, month, day) *)
Definition civil_of_doe (doe : Z) : Z * Z * Z :=
  let yoe := (doe - doe / 1460 + doe / 36524 - doe / 146096) / 365 in
  let doy := doe - (365 * yoe + yoe / 4 - yoe / 100) in
  let mp := (5 * doy + 2) / 153 in
  let d := doy - (153 * mp + 2) / 5 + 1 in
  let m := if mp <? 10 then mp + 3 else mp - 9 in
  ((if m <=? 2 then yoe + 1 else yoe), m, d).

Definition civil_from_days (z : Z) : Z * Z * Z :=
  let z := z + 719468 in
  let era := z / 146097 in
  let '(yy, m, d) := civil_of_doe (z mod 146097) in
  (yy + era * 400, m, d).

Definition year_of (z : Z) : Z := fst (fst (civil_from_days z)).

(* Datelike::weekday().num_days_from_monday(); 1970-01-01 was a Thursday *)
Definition weekday_mon (z : Z) : Z := (z + 3) mod 7.

(* Datelike::ordinal0(): days since 1 January of the same year *)
Definition ordinal0 (z : Z) : Z := z - days_from_civil (year_of z) 1 1.

Definition is_leap (y : Z) : bool :=
  (y mod 4 =? 0) && (negb (y mod 100 =? 0) || (y mod 400 =? 0)).

(* number of ISO 8601 weeks of year y: 53 iff 1 January is a Thursday, or a
   Wednesday in a leap year *)
Definition iso_weeks_in_year (y : Z) : Z :=
  let j := weekday_mon (days_from_civil y 1 1) in
  if (j =? 3) || (is_leap y && (j =? 2)) then 53 else 52.

(* Datelike::iso_week().week0(): ISO week number minus one *)
Definition iso_week0 (z : Z) : Z :=
  let y := year_of z in
  let w := (ordinal0 z + 1 - (weekday_mon z + 1) + 10) / 7 in
  if w <? 1 then iso_weeks_in_year (y - 1) - 1
  else if iso_weeks_in_year y <? w then 0
  else w - 1.
