(* Records whose ENCODER fails half-way, on top of Model/Rolling.v (post-processing triggers,
   i.e. the size trigger and user triggers consulted after the write).

   src/append/rolling_file/mod.rs, append(): `self.encoder.encode(writer, record)?` leaves the call
   before `writer.flush()` and before the policy: the chunks the encoder had already written sit in
   LogWriter's BufWriter (capacity 1024; fragments here are small) and ARE counted in `len`
   (LogWriter::write adds what the buffer accepted).  They reach the file with the next flush.

   The state of Model/Rolling.v is extended by `pend`, the bytes accepted but not yet flushed:
     enc_fail chunks    get_writer; the chunks go to the buffer and into `len`; Err
     eappend c chunks   get_writer; encode; flush puts pend ++ record on disk; policy
   (a restart drops the writer, which flushes: erestart). *)
From Coq Require Import List NArith Bool.
Import ListNotations.
From L4 Require Import Common.FSRoll Model.Rolling.

Record est := { est_s : state; est_pend : bytes }.

Definition with_writer (s : state) (w : option N) : state :=
  {| files := files s; writer := w; app := app s; fired := fired s; consults := consults s |}.

Definition with_files (s : state) (f : fs) : state :=
  {| files := f; writer := writer s; app := app s; fired := fired s; consults := consults s |}.

(* the buffered bytes reach the end of the active file (BufWriter flush / drop); `len` is not touched *)
Definition flush_pending (e : est) : state :=
  match est_pend e with
  | [] => est_s e
  | p => let s := est_s e in
         let old := match lookup (files s) Active with Some v => v | None => [] end in
         with_files s (write Active (old ++ p) (files s))
  end.

Definition enc_fail (chunks : list bytes) (e : est) : est :=
  let s0 := get_writer (est_s e) in
  match writer s0 with
  | Some len => {| est_s := with_writer s0 (Some (len + blen (concat chunks))%N);
                   est_pend := est_pend e ++ concat chunks |}
  | None => e
  end.

(* a successful append under a POST-processing trigger *)
Definition eappend (c : config) (chunks : list bytes) (e : est) : est * list event :=
  let s0 := get_writer (est_s e) in
  let s1 := flush_pending {| est_s := s0; est_pend := est_pend e |} in   (* flush: pending bytes first ... *)
  let s2 := encode_flush chunks s1 in                                       (* ... then the record *)
  let '(s3, ev) := process c s2 in
  ({| est_s := s3; est_pend := [] |}, EWrote (concat chunks) :: ev).

(* drop the appender (flushes), build a new one *)
Definition erestart (a : bool) (e : est) : est * list event :=
  let s := flush_pending e in
  let '(s', ev) := build a (files s) (consults s) in
  ({| est_s := s'; est_pend := [] |}, ev).

Inductive eop := EAppend (chunks : list bytes) | EFail (chunks : list bytes) | ERestart (a : bool).

Definition estep (c : config) (o : eop) (e : est) : est * list event :=
  match o with
  | EAppend chunks => eappend c chunks e
  | EFail chunks => (enc_fail chunks e, [])
  | ERestart a => erestart a e
  end.

Fixpoint erun (c : config) (ops : list eop) (e : est) : est * list event :=
  match ops with
  | [] => (e, [])
  | o :: r => let '(e1, ev) := estep c o e in
              let '(e2, evs) := erun c r e1 in
              (e2, ev ++ evs)
  end.

(* build the appender (mode a0) over a directory whose active file holds `pre` (or is absent) *)
Definition einit (a0 : bool) (pre : option bytes) : est :=
  {| est_s := fst (build a0 (init_fs pre) 0); est_pend := [] |}.
