(* C10 — byte-level model of the width/fill/alignment writers of
   src/encode/pattern/mod.rs: is_char_boundary, char_starts, MaxWidthWriter,
   LeftAlignWriter, RightAlignWriter and the six compositions of Chunk::encode.
   Executable definitions only.

   What is a parameter / modelled from documentation rather than from /repo:
   * the sink below all writers: an `encode::Write` whose `write(buf)` accepts a
     prefix of k bytes, 1 <= k <= len(buf), where k is chosen per call by an
     acceptance ORACLE `acc call_index offered` (clamped into 1..offered) — i.e.
     arbitrary short writes; the sink never returns Err and never Ok(0);
   * std's `io::Write::write_all` loop (`while !buf.is_empty() { match
     self.write(buf) { Ok(0) => Err(WriteZero), Ok(n) => buf = &buf[n..] } }`)
     with explicit fuel = number of bytes offered (Proofs/Width.v: never runs out);
   * `write!(w, "{}", fill)` / `w.write_fmt(args)`: std's fmt adapter turns every
     non-empty `&str` the formatter emits into ONE `write_all` call on `w`; a
     `char` displayed with "{}" is one `write_all` of its UTF-8 bytes.
   * `set_style` (forwarded by MaxWidth/LeftAlign, buffered and replayed in
     order by RightAlign) carries no text bytes and is not modelled; without
     style calls RightAlignWriter.buf is one Data blob (consecutive writes are
     appended to the last Data element), modelled as one byte list.
   Writers nest dynamically in Rust (`w: &mut dyn encode::Write`); here the
   nesting is an explicit stack of layers, head = outermost writer, over the
   sink.  usize counters are unbounded `nat` (explicit widths are small). *)
From Coq Require Import List NArith Bool Arith.
Import ListNotations.

Definition byte := N.
Definition bytes := list byte.

(* fn is_char_boundary(b: u8) -> bool { b as i8 >= -0x40 }  — i.e. not 0x80..=0xBF *)
Definition is_boundary (b : byte) : bool := (b <? 128)%N || (192 <=? b)%N.

(* fn char_starts(buf) = buf.iter().filter(|&&b| is_char_boundary(b)).count() *)
Fixpoint char_starts (buf : bytes) : nat :=
  match buf with
  | [] => 0
  | b :: t => if is_boundary b then S (char_starts t) else char_starts t
  end.

(* ---- the sink ---- *)
Record sink := { calls : nat; out : bytes }.
Definition oracle := nat -> nat -> nat.            (* call index -> bytes offered -> wish *)
Definition clamp (n k : nat) : nat := Nat.max 1 (Nat.min n k).

Definition sink_write (acc : oracle) (s : sink) (buf : bytes) : nat * sink :=
  let k := clamp (length buf) (acc (calls s) (length buf)) in
  (k, {| calls := S (calls s); out := out s ++ firstn k buf |}).

(* ---- writer layers ---- *)
Inductive layer :=
| LMax (remaining : nat)                                   (* MaxWidthWriter *)
| LLeft (to_fill : nat) (fill : bytes)                     (* LeftAlignWriter *)
| LRight (to_fill : nat) (fill : bytes) (buf : bytes).     (* RightAlignWriter *)

(* MaxWidthWriter::write, the scan:
     let mut remaining = self.remaining; let mut end = buf.len();
     for (idx, _) in buf.iter().enumerate().filter(|&(_, &b)| is_char_boundary(b)) {
         if remaining == 0 { end = idx; break; }
         remaining -= 1;
     }
   returns (end, remaining). *)
Fixpoint mw_scan (remaining : nat) (buf : bytes) (idx : nat) : nat * nat :=
  match buf with
  | [] => (idx, remaining)
  | b :: t =>
    if is_boundary b then
      match remaining with
      | 0 => (idx, 0)
      | S r => mw_scan r t (S idx)
      end
    else mw_scan remaining t (S idx)
  end.

(* One `write(buf)` call on the writer stack `ls` over sink `s`:
   returns (Ok(len), new stack, new sink). *)
Fixpoint write (acc : oracle) (ls : list layer) (s : sink) (buf : bytes)
  : nat * list layer * sink :=
  match ls with
  | [] => let (k, s') := sink_write acc s buf in (k, [], s')
  | LMax r :: inner =>
    let (end_, r1) := mw_scan r buf 0 in
    (* "we don't want to report EOF, so just act as a sink past this point" *)
    if end_ =? 0 then (length buf, LMax r :: inner, s)
    else
      let buf' := firstn end_ buf in
      let '(len, inner', s') := write acc inner s buf' in
      let r' := if len =? end_ then r1                      (* self.remaining = remaining *)
                else r - char_starts (firstn len buf') in   (* self.remaining -= char_starts(&buf[..len]) *)
      (len, LMax r' :: inner', s')
  | LLeft n f :: inner =>
    let '(len, inner', s') := write acc inner s buf in
    (* self.to_fill = self.to_fill.saturating_sub(char_starts(&buf[..len])) *)
    (len, LLeft (n - char_starts (firstn len buf)) f :: inner', s')
  | LRight n f b :: inner =>
    (* to_fill saturating_sub char_starts(buf); data appended to the buffer; Ok(buf.len()) *)
    (length buf, LRight (n - char_starts buf) f (b ++ buf) :: inner, s)
  end.

(* std io::Write::write_all.  None = Err(WriteZero) or fuel exhausted. *)
Fixpoint wa_loop (fuel : nat) (acc : oracle) (ls : list layer) (s : sink) (buf : bytes)
  : option (list layer * sink) :=
  match buf with
  | [] => Some (ls, s)
  | _ :: _ =>
    match fuel with
    | 0 => None
    | S f =>
      let '(k, ls', s') := write acc ls s buf in
      if k =? 0 then None else wa_loop f acc ls' s' (skipn k buf)
    end
  end.

Definition write_all (acc : oracle) (ls : list layer) (s : sink) (buf : bytes) :=
  wa_loop (length buf) acc ls s buf.

Definition bind {A B} (x : option A) (f : A -> option B) : option B :=
  match x with Some a => f a | None => None end.

(* `for _ in 0..to_fill { write!(self.w, "{}", self.fill)?; }` on the inner stack *)
Fixpoint pad_loop (n : nat) (acc : oracle) (ls : list layer) (s : sink) (fill : bytes)
  : option (list layer * sink) :=
  match n with
  | 0 => Some (ls, s)
  | S n' => bind (write_all acc ls s fill) (fun st => pad_loop n' acc (fst st) (snd st) fill)
  end.

(* LeftAlignWriter::finish / RightAlignWriter::finish: consumes the outermost
   layer; what remains is the inner writer `w`. *)
Definition finish (acc : oracle) (ls : list layer) (s : sink) : option (list layer * sink) :=
  match ls with
  | LLeft n f :: inner => pad_loop n acc inner s f
  | LRight n f b :: inner =>
    bind (pad_loop n acc inner s f) (fun st => write_all acc (fst st) (snd st) b)
  | _ => None
  end.

(* the MaxWidthWriter value goes out of scope: back to its `w` *)
Definition drop_max (st : list layer * sink) : option (list layer * sink) :=
  match fst st with
  | LMax _ :: inner => Some (inner, snd st)
  | _ => None
  end.

(* ---- patterns ---- *)
(* Parameters { fill, align, min_width, max_width } *)
Record params := { p_min : option nat; p_max : option nat; p_right : bool; p_fill : bytes }.

(* What a compiled pattern does to its writer, as a sequence:
   PChunk c  — one `write_all(c)` (a Text chunk, or one `&str` piece written by
               the formatter of the enclosing Formatted chunk: `{m}` writes one
               piece per `write_str` of the message's Display impl);
   PGroup p body — a Formatted chunk with parameters p whose formatter performs
               `body` on the writer it is handed (`{m:p}`: the message pieces;
               `{(..):p}`: the sub-chunks in order). *)
Inductive pat :=
| PNil
| PChunk (c : bytes) (rest : pat)
| PGroup (p : params) (body : pat) (rest : pat).

(* Chunk::encode for the chunks of a pattern in order
   (`for chunk in chunks { chunk.encode(w, record)?; }`). *)
Fixpoint encode (acc : oracle) (q : pat) (ls : list layer) (s : sink)
  : option (list layer * sink) :=
  match q with
  | PNil => Some (ls, s)
  | PChunk c rest =>
    bind (write_all acc ls s c) (fun st => encode acc rest (fst st) (snd st))
  | PGroup p body rest =>
    let r :=
      match p_min p, p_max p, p_right p with
      | None, None, _ => encode acc body ls s
      | None, Some M, _ =>
        bind (encode acc body (LMax M :: ls) s) drop_max
      | Some m, None, false =>
        bind (encode acc body (LLeft m (p_fill p) :: ls) s)
             (fun st => finish acc (fst st) (snd st))
      | Some m, None, true =>
        bind (encode acc body (LRight m (p_fill p) [] :: ls) s)
             (fun st => finish acc (fst st) (snd st))
      | Some m, Some M, false =>
        bind (bind (encode acc body (LLeft m (p_fill p) :: LMax M :: ls) s)
                   (fun st => finish acc (fst st) (snd st)))
             drop_max
      | Some m, Some M, true =>
        bind (bind (encode acc body (LRight m (p_fill p) [] :: LMax M :: ls) s)
                   (fun st => finish acc (fst st) (snd st)))
             drop_max
      end in
    bind r (fun st => encode acc rest (fst st) (snd st))
  end.

(* Encode::encode on a fresh sink: the bytes that reached the sink. *)
Definition run_pattern (acc : oracle) (q : pat) : option bytes :=
  match encode acc q [] {| calls := 0; out := [] |} with
  | Some (_, s) => Some (out s)
  | None => None
  end.
