(* Executable model of log4rs' RollingFileAppender + CompoundPolicy (C05, C06, C17),
   following src/append/rolling_file/mod.rs, policy/compound/mod.rs,
   trigger/{size,onstartup}.rs, roll/{delete,fixed_window}.rs as they are NOW
   (incl. fix c358786: `appender.append = true` after the builder's open, so
   truncation can only happen inside `build`).

   Modelled / assumed (not verified here):
   * the OS file system = Common/FSRoll.v (abstract distinct names, atomic
     replace-rename, NotFound source tolerated by move_file); all I/O succeeds
     (failing rotations are C08's subject);
   * `encoder.encode(w, rec); w.flush()` delivers the encoder's chunks, in
     order and completely, to the end of the active file and LogWriter adds
     each accepted chunk's length to `len` (BufWriter is write-through at the
     granularity observed after `flush`; its internals are C04's subject);
   * gzip: an archive is represented by its decompressed bytes
     (decompress (compress x) = x);
   * the trigger is a parameter: SizeTrigger, OnStartUpTrigger, or an ORACLE
     `TUser pre decide` answering from the global consultation index and the
     length shown — time triggers (any clock) and user-defined triggers are
     instances;
   * u64 `len` and u32 window indices are unbounded here (file sizes < 2^64,
     base + count <= 2^32; the overflow corner is C07's subject);
   * the whole of `append` runs under `self.writer.lock()`: the model is
     sequential; Common/LockSerial.v + Proofs/RollingConc.v prove that any
     schedule of threads whose calls are Acquire; <the micro-steps of
     append_op>; Release equals the sequential run of the calls in
     lock-acquisition order (the Mutex itself is modelled, not verified). *)
From Coq Require Import List NArith Bool.
Import ListNotations.
From L4 Require Import Common.FSRoll.

Definition bytes := list N.
Definition fs := fsys bytes.

Inductive trigger : Type :=
| TSize (limit : N)                              (* trigger/size.rs   *)
| TStartup (min_size : N)                        (* trigger/onstartup.rs *)
| TUser (pre : bool) (decide : nat -> N -> bool) (* any other Trigger impl *).

Inductive roller : Type :=
| Delete                                         (* roll/delete.rs *)
| Window (base count : nat)                      (* roll/fixed_window.rs *).

Record config := { trig : trigger; roll_by : roller }.

(* LogWriter = Some len;  `app` = RollingFileAppender.append;
   `fired` = OnStartUpTrigger.initial is completed;  `consults` = number of
   Trigger::trigger calls so far (index handed to the oracle). *)
Record state := {
  files : fs;
  writer : option N;
  app : bool;
  fired : bool;
  consults : nat
}.

Inductive event : Type :=
| EWrote (r : bytes)                       (* encode+flush of one record succeeded *)
| EConsult (shown disk : N) (fire : bool)  (* policy consulted: len_estimate, metadata len, decision *)
| ETrunc                                   (* the builder opened the file with truncate *).

Definition blen (v : bytes) : N := N.of_nat (length v).

Definition disk_len (f : fs) : N :=
  match lookup f Active with Some v => blen v | None => 0%N end.

(* Trigger::is_pre_process *)
Definition is_pre (t : trigger) : bool :=
  match t with TSize _ => false | TStartup _ => true | TUser p _ => p end.

(* RollingFileAppender::get_writer *)
Definition get_writer (s : state) : state :=
  match writer s with
  | Some _ => s
  | None =>
    let f' := if app s
              then match lookup (files s) Active with
                   | Some _ => files s
                   | None => write Active [] (files s)      (* create(true) *)
                   end
              else write Active [] (files s) in             (* truncate(true) *)
    let len := if app s then disk_len f' else 0%N in
    {| files := f'; writer := Some len; app := app s; fired := fired s; consults := consults s |}
  end.

(* one io::Write::write of LogWriter followed (eventually) by flush *)
Definition write_chunk (s : state) (ch : bytes) : state :=
  match writer s with
  | None => s                                               (* not reachable: see Proofs *)
  | Some len =>
    let old := match lookup (files s) Active with Some v => v | None => [] end in
    {| files := write Active (old ++ ch) (files s); writer := Some (len + blen ch)%N;
       app := app s; fired := fired s; consults := consults s |}
  end.

(* encoder.encode(writer, record); writer.flush() *)
Definition encode_flush (chunks : list bytes) (s : state) : state :=
  fold_left write_chunk chunks s.

(* Trigger::trigger(&LogFile{len}) *)
Definition trigger_fire (t : trigger) (s : state) (len : N) : bool :=
  match t with
  | TSize limit => (limit <? len)%N
  | TStartup m => negb (fired s) && (m <=? len)%N
  | TUser _ d => d (consults s) len
  end.

(* Roll::roll(path) *)
Definition do_roll (r : roller) (f : fs) : fs :=
  match r with
  | Delete => remove Active f
  | Window b c =>
    match c with
    | O => remove Active f
    | S k => rename Active (Arch b) (shift b k f)
    end
  end.

(* CompoundPolicy::process(&mut LogFile{writer, path, len}) *)
Definition process (c : config) (s : state) : state * list event :=
  match writer s with
  | None => (s, [])                                         (* not reachable *)
  | Some len =>
    let fire := trigger_fire (trig c) s len in
    let fired' := match trig c with TStartup _ => true | _ => fired s end in
    let ev := EConsult len (disk_len (files s)) fire in
    if fire
    then ({| files := do_roll (roll_by c) (files s); writer := None; app := app s;
             fired := fired'; consults := S (consults s) |}, [ev])
    else ({| files := files s; writer := writer s; app := app s;
             fired := fired'; consults := S (consults s) |}, [ev])
  end.

(* Append::append for one record given as the encoder's chunks *)
Definition append_op (c : config) (chunks : list bytes) (s : state) : state * list event :=
  let s0 := get_writer s in
  if is_pre (trig c) then
    let '(s1, ev) := process c s0 in
    let s2 := get_writer s1 in
    (encode_flush chunks s2, ev ++ [EWrote (concat chunks)])
  else
    let s1 := encode_flush chunks s0 in
    let '(s2, ev) := process c s1 in
    (s2, EWrote (concat chunks) :: ev).

(* RollingFileAppenderBuilder::append(a).build(path, policy) on the directory
   `f`: fresh writer slot, fresh trigger; the consultation counter of the
   oracle is global over the history. *)
Definition build (a : bool) (f : fs) (n : nat) : state * list event :=
  let s := get_writer {| files := f; writer := None; app := a; fired := false; consults := n |} in
  ({| files := files s; writer := writer s; app := true; fired := false; consults := n |},
   if a then [] else [ETrunc]).

Inductive op : Type :=
| Append (chunks : list bytes)
| Restart (a : bool)               (* drop the appender, build a new one on the same path *).

Definition step (c : config) (o : op) (s : state) : state * list event :=
  match o with
  | Append chunks => append_op c chunks s
  | Restart a => build a (files s) (consults s)
  end.

(* run, collecting one event list per op *)
Fixpoint run_ops (c : config) (ops : list op) (s : state) : state * list (list event) :=
  match ops with
  | [] => (s, [])
  | o :: ops' =>
    let '(s1, ev) := step c o s in
    let '(s2, evs) := run_ops c ops' s1 in
    (s2, ev :: evs)
  end.

(* directory before the first build: the active file may pre-exist; `raw` is
   the (not yet built) appender slot over it *)
Definition init_fs (pre : option bytes) : fs :=
  match pre with Some v => [(Active, v)] | None => [] end.

Definition raw (pre : option bytes) : state :=
  {| files := init_fs pre; writer := None; app := true; fired := false; consults := 0 |}.

(* a history: build with mode a0 over the directory, then the ops *)
Definition run (c : config) (a0 : bool) (pre : option bytes) (ops : list op)
  : state * list (list event) :=
  run_ops c (Restart a0 :: ops) (raw pre).
