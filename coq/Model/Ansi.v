(* C18 — executable model of AnsiWriter::set_style (src/encode/writer/ansi.rs), as the
   code is now (after fix 8076380: the stack buffer has 13 bytes).

   The Rust function fills a fixed array `buf` by indexed stores and finally writes the
   slice `buf[..=idx]`.  Every indexed store and the final slice are bounds-checked by
   Rust; the model keeps that check: a store or slice outside the array is the explicit
   result `Panic`.  The array length is a parameter (`set_style_cap`) so that the
   pre-fix length 12 can be evaluated as well; `set_style` is the code as it is (13).
   The inner writer's write_all is modelled as appending the bytes (infallible sink). *)
From Coq Require Import List NArith Bool Arith.
Import ListNotations.
Local Open Scope N_scope.

Inductive color := Black | Red | Green | Yellow | Blue | Magenta | Cyan | White.

(* encode::Style: every field optional *)
Record style := mkStyle {
  s_text : option color;
  s_background : option color;
  s_intense : option bool;
}.

Definition style_new : style := mkStyle None None None.        (* Style::new() *)

Inductive res (A : Type) :=
| Ok (a : A)
| Panic.
Arguments Ok {A} a.
Arguments Panic {A}.

(* color_byte *)
Definition color_byte (c : color) : N :=
  match c with
  | Black => 48 | Red => 49 | Green => 50 | Yellow => 51
  | Blue => 52 | Magenta => 53 | Cyan => 54 | White => 55
  end.

(* buf[i] = v with Rust's bounds check *)
Definition store (buf : list N) (i : nat) (v : N) : res (list N) :=
  if Nat.ltb i (length buf) then Ok (firstn i buf ++ v :: skipn (S i) buf) else Panic.

Definition bind {A B} (r : res A) (k : A -> res B) : res B :=
  match r with Ok a => k a | Panic => Panic end.
Notation "x <- e ;; k" := (bind e (fun x => k)) (at level 61, e at next level, right associativity).

(* &buf[..=idx] with Rust's bounds check *)
Definition slice_to_incl (buf : list N) (idx : nat) : res (list N) :=
  if Nat.ltb idx (length buf) then Ok (firstn (S idx) buf) else Panic.

Definition set_style_cap (cap : nat) (s : style) : res (list N) :=
  let buf := repeat 0 cap in                          (* let mut buf = [0; cap]; *)
  buf <- store buf 0 27 ;;                            (* buf[0] = b'\x1b'; *)
  buf <- store buf 1 91 ;;                            (* buf[1] = b'['; *)
  buf <- store buf 2 48 ;;                            (* buf[2] = b'0'; *)
  let idx := 3%nat in
  st <- match s_text s with                           (* if let Some(text) = style.text *)
        | Some c =>
          buf <- store buf idx 59 ;;
          buf <- store buf (idx + 1) 51 ;;
          buf <- store buf (idx + 2) (color_byte c) ;;
          Ok (buf, (idx + 3)%nat)
        | None => Ok (buf, idx)
        end ;;
  let '(buf, idx) := st in
  st <- match s_background s with                     (* if let Some(background) = ... *)
        | Some c =>
          buf <- store buf idx 59 ;;
          buf <- store buf (idx + 1) 52 ;;
          buf <- store buf (idx + 2) (color_byte c) ;;
          Ok (buf, (idx + 3)%nat)
        | None => Ok (buf, idx)
        end ;;
  let '(buf, idx) := st in
  st <- match s_intense s with                        (* if let Some(intense) = ... *)
        | Some true =>
          buf <- store buf idx 59 ;;
          buf <- store buf (idx + 1) 49 ;;
          Ok (buf, (idx + 2)%nat)
        | Some false =>
          buf <- store buf idx 59 ;;
          buf <- store buf (idx + 1) 50 ;;
          buf <- store buf (idx + 2) 50 ;;
          Ok (buf, (idx + 3)%nat)
        | None => Ok (buf, idx)
        end ;;
  let '(buf, idx) := st in
  buf <- store buf idx 109 ;;                         (* buf[idx] = b'm'; *)
  slice_to_incl buf idx.                              (* write_all(&buf[..=idx]) *)

Definition set_style (s : style) : res (list N) := set_style_cap 13 s.
