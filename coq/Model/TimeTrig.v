(* C16 — model of append/rolling_file/policy/compound/trigger/time.rs as it is now:
   TimeTrigger::get_next_time, TimeTrigger::new, Trigger::trigger, and the
   pre-process order of RollingFileAppender::append (mod.rs) as far as the time
   trigger is concerned.  Executable definitions only.

   Instants are UTC seconds (Z); the sub-second part of `now` only takes part in
   the comparison `current >= next_roll_time` (every scheduled instant has a zero
   sub-second part: with_ymd_and_hms plus whole-second durations).
   Integer behaviour follows the dev profile the harness is built with
   (overflow-checks = true): `n as i32`/`n as u32`/`year as u32` wrap, every
   overflowing `+ - *`, every remainder by zero, every `unwrap()` on a
   `LocalResult` that is not `Single`, every out-of-range `Duration::…` and every
   out-of-range `DateTime + Duration` is the explicit result `Panic why`
   (why: 1 arithmetic/range, 2 `unwrap` on None (local time in a gap), 3 `unwrap` on
   Ambiguous, 4 `unwrap` on None because the year is outside NaiveDate's range;
   0 is used for the poisoned lock).
   Domain: interval multiplier 0 <= n < 2^63 (what the config parser produces).
   Oracles / models of external code: chrono's calendar (Model/Civil.v), chrono's
   `Local` zone lookup (Model/TZ.v, transition table as data), chrono's value
   ranges (the constants below, from chrono 0.4.45's NaiveDate::MIN/MAX and
   TimeDelta::MAX), the random delay drawn by `rand` (parameter `r`). *)
From Coq Require Import ZArith NArith List Bool.
From L4 Require Import Model.Civil Model.TZ.
Import ListNotations.
Local Open Scope Z_scope.

Inductive res (A : Type) : Type := Ok (a : A) | Panic (why : N).
Arguments Ok {A} a.
Arguments Panic {A} why.

Definition bind {A B} (r : res A) (f : A -> res B) : res B :=
  match r with Ok a => f a | Panic w => Panic w end.
Notation "x <- e ;; k" := (bind e (fun x => k)) (at level 61, e at next level, right associativity).

Inductive tunit := USecond | UMinute | UHour | UDay | UWeek | UMonth | UYear.

(* chrono 0.4.45 value ranges *)
Definition min_year : Z := -262143.              (* NaiveDate::MIN = -262143-01-01 *)
Definition max_year : Z := 262142.               (* NaiveDate::MAX = +262142-12-31 *)
Definition min_utc : Z := -8334601228800.        (* days_from_civil min_year 1 1 * 86400 *)
Definition max_utc : Z := 8210266876799.         (* days_from_civil max_year 12 31 * 86400 + 86399 *)
Definition max_dur : Z := 9223372036854775.      (* TimeDelta::MAX.secs = i64::MAX / 1000 *)

Definition wrap_i32 (n : Z) : Z := (n + 2147483648) mod 4294967296 - 2147483648.
Definition wrap_u32 (n : Z) : Z := n mod 4294967296.
Definition wrap_i64 (n : Z) : Z := (n + 9223372036854775808) mod 18446744073709551616 - 9223372036854775808.
Definition chk_i32 (v : Z) : res Z :=
  if (-2147483648 <=? v) && (v <=? 2147483647) then Ok v else Panic 1.
Definition chk_u32 (v : Z) : res Z :=
  if (0 <=? v) && (v <=? 4294967295) then Ok v else Panic 1.

(* TimeDelta::weeks/days/hours/minutes/seconds(n): checked_mul, then the
   TimeDelta range (the i64 overflow of the product lies outside that range) *)
Definition duration (per n : Z) : res Z :=
  let s := n * per in
  if (- max_dur <=? s) && (s <=? max_dur) then Ok s else Panic 1.

(* DateTime<Local> + TimeDelta: the UTC date must stay inside NaiveDate's range *)
Definition dt_add (utc d : Z) : res Z :=
  let r := utc + d in
  if (min_utc <=? r) && (r <=? max_utc) then Ok r else Panic 1.

(* Local.with_ymd_and_hms(y, m, d, h, mi, s).unwrap(); the callers pass a valid
   month/day (fields of `current`, or day 1 of a month in 1..12), so
   NaiveDate::from_ymd_opt can only fail on the year *)
Definition with_ymd_and_hms (z : zone) (y m d h mi s : Z) : res Z :=
  if (min_year <=? y) && (y <=? max_year) then
    let l := days_from_civil y m d * 86400 + h * 3600 + mi * 60 + s in
    match resolve_local z l with
    | LSingle off => Ok (l - off)
    | LNone => Panic 2
    | LAmbiguous _ _ => Panic 3
    end
  else Panic 4.

(* `if modulate { n - x % n } else { n }` on i64 (x >= 0, n >= 0: no overflow) *)
Definition increment (modulate : bool) (n x : Z) : res Z :=
  if modulate then (if n =? 0 then Panic 1 else Ok (n - Z.rem x n)) else Ok n.

Definition get_next_time (z : zone) (now : Z) (u : tunit) (n : Z) (modulate : bool) : res Z :=
  let l := now + offset_at z now in           (* current.naive_local() *)
  let days := l / 86400 in
  let sod := l mod 86400 in
  let '(year, month, day) := civil_from_days days in
  match u with
  | UYear =>
    let n32 := wrap_i32 n in
    inc <- (if modulate
            then (if n32 =? 0 then Panic 1 else chk_i32 (n32 - Z.rem year n32))
            else Ok n32) ;;
    year_new <- chk_i32 (year + inc) ;;
    with_ymd_and_hms z year_new 1 1 0 0 0
  | UMonth =>
    let month0 := month - 1 in
    let nu := wrap_u32 n in
    inc <- (if modulate
            then (if nu =? 0 then Panic 1 else Ok (nu - month0 mod nu))
            else Ok nu) ;;
    y12 <- chk_u32 (wrap_u32 year * 12) ;;
    num_months <- chk_u32 (y12 + month0) ;;
    num_months_new <- chk_u32 (num_months + inc) ;;
    with_ymd_and_hms z (wrap_i32 (num_months_new / 12)) (num_months_new mod 12 + 1) 1 0 0 0
  | UWeek =>
    let week0 := iso_week0 days in
    let weekday := weekday_mon days in
    time <- with_ymd_and_hms z year month day 0 0 0 ;;
    inc <- increment modulate n week0 ;;
    dw <- duration 604800 inc ;;
    t1 <- dt_add time dw ;;
    dd <- duration 86400 weekday ;;
    dt_add t1 (- dd)
  | UDay =>
    time <- with_ymd_and_hms z year month day 0 0 0 ;;
    inc <- increment modulate n (ordinal0 days) ;;
    d <- duration 86400 inc ;;
    dt_add time d
  | UHour =>
    let hour := sod / 3600 in
    time <- with_ymd_and_hms z year month day hour 0 0 ;;
    inc <- increment modulate n hour ;;
    d <- duration 3600 inc ;;
    dt_add time d
  | UMinute =>
    let hour := sod / 3600 in
    let min := sod mod 3600 / 60 in
    time <- with_ymd_and_hms z year month day hour min 0 ;;
    inc <- increment modulate n min ;;
    d <- duration 60 inc ;;
    dt_add time d
  | USecond =>
    let hour := sod / 3600 in
    let min := sod mod 3600 / 60 in
    let sec := sod mod 60 in
    time <- with_ymd_and_hms z year month day hour min sec ;;
    inc <- increment modulate n sec ;;
    d <- duration 1 inc ;;
    dt_add time d
  end.

Record tconfig := { c_unit : tunit; c_n : Z; c_mod : bool; c_maxd : Z }.

(* TimeTrigger::new at clock reading `now`; r = the value drawn from 0..max_random_delay *)
Definition trigger_new (z : zone) (c : tconfig) (now r : Z) : res Z :=
  next <- get_next_time z now (c_unit c) (c_n c) (c_mod c) ;;
  if 0 <? c_maxd c
  then (d <- duration 1 (wrap_i64 r) ;; dt_add next d)
  else Ok next.

(* `current >= *next_roll_time` (next has no sub-second part) *)
Definition at_or_after (now_s now_ns next : Z) : bool :=
  (next <? now_s) || ((next =? now_s) && (0 <=? now_ns)).

(* Trigger::trigger: (fired, new scheduled instant) *)
Definition trigger_step (z : zone) (c : tconfig) (next now_s now_ns r : Z) : res (bool * Z) :=
  if at_or_after now_s now_ns next
  then (nx <- trigger_new z c now_s r ;; Ok (true, nx))
  else Ok (false, next).

(* One RollingFileAppender::append of record `idx` under a pre-process compound
   policy whose roller removes the active file: trigger first, roll, then write.
   A panic inside `trigger` happens while the RwLock write guard is held: the
   lock is poisoned and every later call panics at `write().unwrap()`;
   nothing is written by a panicking append. *)
Record arrival := { ar_s : Z; ar_ns : Z; ar_r : Z; ar_idx : N }.
Inductive outcome :=
| Appended (fired : bool) (sched : Z) (archived : list N)
| Panicked (why : N).
Record astate := { a_next : option Z;          (* None = lock poisoned *)
                   a_file : list N }.         (* records in the active file, oldest first *)

Definition append_step (z : zone) (c : tconfig) (st : astate) (a : arrival) : outcome * astate :=
  match a_next st with
  | None => (Panicked 0, st)
  | Some next =>
    match trigger_step z c next (ar_s a) (ar_ns a) (ar_r a) with
    | Panic w => (Panicked w, {| a_next := None; a_file := a_file st |})
    | Ok (fired, nx) =>
      if fired
      then (Appended true nx (a_file st), {| a_next := Some nx; a_file := [ar_idx a] |})
      else (Appended false nx [], {| a_next := Some nx; a_file := a_file st ++ [ar_idx a] |})
    end
  end.

Fixpoint run_appends (z : zone) (c : tconfig) (st : astate) (arr : list arrival)
  : list outcome * astate :=
  match arr with
  | [] => ([], st)
  | a :: rest =>
    let '(o, st1) := append_step z c st a in
    let '(os, st2) := run_appends z c st1 rest in
    (o :: os, st2)
  end.
