(* C07 — archive names: pattern.replace("{}", &i.to_string()) followed by
   expand_env_vars.  Executable definitions only.  Strings are UTF-8 byte lists;
   "{}" and the decimal digits are ASCII, so byte-level replacement equals
   str::replace on the text.

   expand_env_vars is the subject of C19; here only the class used by the C07
   cases is modelled (`expand_simple`): every reference `$ENV{NAME}` to a variable
   that is set is replaced by its value, values contain no '$', '{' or '}' (so no
   reference can be forged by a replacement), references to unset variables stay. *)
From Coq Require Import List NArith Bool.
Import ListNotations.
Local Open Scope N_scope.

(* u32::to_string *)
Fixpoint uint_bytes (u : Decimal.uint) : list N :=
  match u with
  | Decimal.Nil => []
  | Decimal.D0 r => 48 :: uint_bytes r
  | Decimal.D1 r => 49 :: uint_bytes r
  | Decimal.D2 r => 50 :: uint_bytes r
  | Decimal.D3 r => 51 :: uint_bytes r
  | Decimal.D4 r => 52 :: uint_bytes r
  | Decimal.D5 r => 53 :: uint_bytes r
  | Decimal.D6 r => 54 :: uint_bytes r
  | Decimal.D7 r => 55 :: uint_bytes r
  | Decimal.D8 r => 56 :: uint_bytes r
  | Decimal.D9 r => 57 :: uint_bytes r
  end.

Definition dec (n : N) : list N := uint_bytes (N.to_uint n).

(* pat.replace("{}", d): non-overlapping matches, left to right *)
Fixpoint subst (pat d : list N) : list N :=
  match pat with
  | [] => []
  | a :: t =>
    match t with
    | c :: rest => if (a =? 123) && (c =? 125) then d ++ subst rest d else a :: subst t d
    | [] => [a]
    end
  end.

Definition subst_index (pat : list N) (i : N) : list N := subst pat (dec i).

(* generic s.replace(needle, repl) for a non-empty needle *)
Fixpoint is_prefix (n h : list N) : bool :=
  match n, h with
  | [], _ => true
  | x :: n', y :: h' => (x =? y) && is_prefix n' h'
  | _ :: _, [] => false
  end.

Fixpoint replace_go (needle repl : list N) (skip : nat) (h : list N) : list N :=
  match h with
  | [] => []
  | x :: t =>
    match skip with
    | S k => replace_go needle repl k t
    | O => if is_prefix needle h
           then repl ++ replace_go needle repl (length needle - 1) t
           else x :: replace_go needle repl 0 t
    end
  end.

Definition replace_all (needle repl h : list N) : list N := replace_go needle repl 0 h.

(* "$ENV{" ++ k ++ "}" *)
Definition env_ref (k : list N) : list N := [36; 69; 78; 86; 123] ++ k ++ [125].

Definition expand_simple (env : list (list N * list N)) (s : list N) : list N :=
  fold_left (fun acc kv => replace_all (env_ref (fst kv)) (snd kv) acc) env s.

(* expand_env_vars(pattern.replace("{}", &i.to_string())) *)
Definition archive_name (env : list (list N * list N)) (pat : list N) (i : N) : list N :=
  expand_simple env (subst_index pat i).
