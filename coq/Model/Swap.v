(* C15 (part A) — model of runtime reconfiguration: src/lib.rs
     Logger(Arc<ArcSwap<SharedLogger>>), <Logger as Log>::log, Handle::set_config.
   Executable definitions only.

   What is modelled how:
   * `SharedLogger { root, appenders, .. }` is `shared := (tag, tree)`: the tree
     is C01's `ConfiguredLogger` (Model/Routing.v) and the appender table
     `Vec<Appender>` of the same snapshot is identified by the configuration's
     `tag` (the harness's recording appenders carry that tag; an appender is the
     pair (tag, index)).  Root and table are two fields of ONE heap object, so
     one pointer names both.
   * `ArcSwap` is a single cell `cur` with linearisable `load`/`store`
     (arc_swap is trusted to be that; assumed, not verified).
   * `Log::log`: `let shared = self.0.load();` is the micro-step Load (the
     snapshot is kept in the thread's frame; `find` + the level test are
     computed from it: `deliver (snd snap) T L`), then one micro-step Deliver
     per routed appender `shared.appenders[i].append(record)` — indices and
     table both from the snapshot —, then the micro-step Ret (log returns).
     The error handler also comes from the snapshot; recording appenders do not
     fail (C03's subject) so it is not called.
   * An appender's `append` may itself call `Handle::set_config(c)`
     (re-entrant swap, on the logging thread, in the middle of the fan-out):
     `reent tag i rid = Some c`.  It is a separate micro-step Store after the
     Deliver it belongs to (other threads may run in between).
   * `Handle::set_config(c)`: `SharedLogger::new(c)` is thread-local (builds the
     COMPLETE tree and table: `build`), `log::set_max_level` is C02's subject,
     then `self.shared.store(Arc::new(shared))` is the one micro-step Store.
     `SharedLogger::new` panics on an unresolved appender reference
     (`build = None`): the thread dies (`Dead`, event EPanic) before storing.
   * Threads are programs of `OLog`/`OSet`; a schedule is a list of thread ids;
     `step` runs the next micro-step of the scheduled thread, or stutters when
     it has finished (there is no lock: a live thread is always enabled).
   * Every micro-step appends one event to the global `trace` (ghost state,
     chronological).  A record is identified by (thread, index of its op). *)
From Coq Require Import List NArith Bool Arith.
Import ListNotations.
From L4 Require Import Model.Routing.

Definition tcfg := (N * config)%type.      (* a tagged configuration *)
Definition shared := (N * tree)%type.      (* Arc<SharedLogger>: (appender table id, root) *)
Definition rid := (nat * nat)%type.        (* record id: (thread, op index) *)

Inductive op :=
| OLog (tg : str) (L : N)                  (* logger.log(record with target T, level L) *)
| OSet (c : tcfg).                         (* handle.set_config(c) *)

Inductive event :=
| ELoad (r : rid) (s : shared)             (* r's log call loaded snapshot s *)
| EDeliver (r : rid) (tag : N) (i : nat)   (* appender i of table `tag` got record r *)
| ERet (r : rid)                           (* r's log call returned *)
| EStore (s : shared)                      (* an ArcSwap::store of s *)
| EPanic (t : nat).                        (* thread t panicked in SharedLogger::new *)

Inductive tstate :=
| Idle (pc : nat) (prog : list op)
| Fan (pc : nat) (snap : shared) (todo : list nat) (pend : option tcfg) (prog : list op)
| Dead.

(* appender behaviour: does appender (tag, i), handling record r, reconfigure? *)
Definition reent_t := N -> nat -> rid -> option tcfg.

(* SharedLogger::new *)
Definition set_config (c : tcfg) : option shared :=
  match build (snd c) with
  | Some t => Some (fst c, t)
  | None => None
  end.

(* one micro-step of thread `tid` in thread state `ts` with the shared cell `cur`:
   (new cell, new thread state, events) *)
Definition tstep (reent : reent_t) (tid : nat) (cur : shared) (ts : tstate)
  : shared * tstate * list event :=
  match ts with
  | Idle pc [] => (cur, ts, [])
  | Idle pc (OLog tg L :: p) =>
      (cur, Fan pc cur (deliver (snd cur) tg L) None p, [ELoad (tid, pc) cur])
  | Idle pc (OSet c :: p) =>
      match set_config c with
      | Some s => (s, Idle (S pc) p, [EStore s])
      | None => (cur, Dead, [EPanic tid])
      end
  | Fan pc snap todo (Some c) p =>
      match set_config c with
      | Some s => (s, Fan pc snap todo None p, [EStore s])
      | None => (cur, Dead, [EPanic tid])
      end
  | Fan pc snap (i :: todo) None p =>
      (cur, Fan pc snap todo (reent (fst snap) i (tid, pc)) p, [EDeliver (tid, pc) (fst snap) i])
  | Fan pc snap [] None p => (cur, Idle (S pc) p, [ERet (tid, pc)])
  | Dead => (cur, Dead, [])
  end.

Record state := { cur : shared; thr : list tstate; trace : list event }.

Fixpoint upd {A} (l : list A) (n : nat) (x : A) : list A :=
  match l, n with
  | [], _ => []
  | _ :: r, O => x :: r
  | y :: r, S n' => y :: upd r n' x
  end.

Definition step (reent : reent_t) (st : state) (tid : nat) : state :=
  match nth_error (thr st) tid with
  | None => st
  | Some ts =>
      match tstep reent tid (cur st) ts with
      | (c, ts', ev) => {| cur := c; thr := upd (thr st) tid ts'; trace := trace st ++ ev |}
      end
  end.

Definition run (reent : reent_t) (sch : list nat) (st : state) : state :=
  fold_left (step reent) sch st.

Definition init_state (c0 : shared) (progs : list (list op)) : state :=
  {| cur := c0; thr := map (Idle 0) progs; trace := [] |}.

(* ---- helpers for running scenarios to completion (Run/C15.v) ---- *)
Definition finished (ts : tstate) : bool :=
  match ts with Idle _ [] => true | Dead => true | _ => false end.

(* round-robin over the unfinished threads until all are finished (fuel-bounded) *)
Fixpoint finish (reent : reent_t) (fuel : nat) (st : state) : state :=
  match fuel with
  | O => st
  | S f =>
      if forallb finished (thr st) then st
      else finish reent f (run reent (seq 0 (length (thr st))) st)
  end.
