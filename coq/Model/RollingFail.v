(* Extension of Model/Rolling.v (C06, C17): an append during which the ROLLER
   FAILS.  `CompoundPolicy::process` is
       if trigger.trigger(log)? { log.roll(); roller.roll(path)?; }
   so when the trigger fires the writer slot is emptied first (`log.roll()`),
   then `roller.roll` returns Err and `?` propagates it out of
   `RollingFileAppender::append`:
     * post-processing trigger: the record has already been written and flushed;
     * pre-processing trigger: the early return skips get_writer/encode — the
       record is NOT written.
   The failing roller is modelled as leaving the directory untouched (an Err
   before the first file-system effect: blocked archive directory, EACCES on the
   first rename, a user Roll impl that refuses).  Partial rotations are C08's
   subject (Model/RollFault.v).  The next append finds the writer slot empty and
   reopens the (still present) active file in append mode, seeding `len` from
   its metadata.  Executable definitions only; nothing in Model/Rolling.v changes. *)
From Coq Require Import List NArith Bool.
Import ListNotations.
From L4 Require Import Common.FSRoll Model.Rolling.

(* CompoundPolicy::process when roller.roll() returns Err (if it is called) *)
Definition process_fail (c : config) (s : state) : state * list event * bool :=
  match writer s with
  | None => (s, [], false)                                   (* not reachable *)
  | Some len =>
    let fire := trigger_fire (trig c) s len in
    let fired' := match trig c with TStartup _ => true | _ => fired s end in
    let ev := EConsult len (disk_len (files s)) fire in
    ({| files := files s; writer := if fire then None else writer s; app := app s;
        fired := fired'; consults := S (consults s) |}, [ev], fire)
  end.

(* Append::append with a failing roller: (state, events, the call returned Err) *)
Definition append_op_fail (c : config) (chunks : list bytes) (s : state)
  : state * list event * bool :=
  let s0 := get_writer s in
  if is_pre (trig c) then
    let '(s1, ev, fire) := process_fail c s0 in
    if fire then (s1, ev, true)
    else (encode_flush chunks (get_writer s1), ev ++ [EWrote (concat chunks)], false)
  else
    let s1 := encode_flush chunks s0 in
    let '(s2, ev, fire) := process_fail c s1 in
    (s2, EWrote (concat chunks) :: ev, fire).

(* A roller that does ALL its work and then reports failure (a user Roll impl with a failing post-processing step
   after the rename; a roller whose last action - say a notification - fails): `log.roll()` has emptied the writer
   slot, the rotation has happened, `roller.roll(..)?` propagates the Err out of append.  The directory and the
   appender state are those of a successful roll; only the call's result differs, and under a pre-processing
   trigger the early return skips the record. *)
Definition append_op_fail_after (c : config) (chunks : list bytes) (s : state)
  : state * list event * bool :=
  let s0 := get_writer s in
  if is_pre (trig c) then
    let '(s1, ev) := process c s0 in
    match writer s1 with
    | None => (s1, ev, true)
    | Some _ => (encode_flush chunks (get_writer s1), ev ++ [EWrote (concat chunks)], false)
    end
  else
    let s1 := encode_flush chunks s0 in
    let '(s2, ev) := process c s1 in
    (s2, EWrote (concat chunks) :: ev, match writer s2 with None => true | Some _ => false end).

Inductive xop : Type :=
| XOp (o : op)                          (* Append / Restart with a working roller *)
| XAppendFail (chunks : list bytes)     (* append; the roller fails if it is called *)
| XAppendFailAfter (chunks : list bytes) (* append; the roller, if called, rotates and then reports failure *).

Definition xstep (c : config) (o : xop) (s : state) : state * list event * bool :=
  match o with
  | XOp o' => (fst (step c o' s), snd (step c o' s), false)
  | XAppendFail chunks => append_op_fail c chunks s
  | XAppendFailAfter chunks => append_op_fail_after c chunks s
  end.

(* run, collecting per op the events and whether the call returned Err *)
Fixpoint xrun_ops (c : config) (ops : list xop) (s : state)
  : state * list (list event * bool) :=
  match ops with
  | [] => (s, [])
  | o :: ops' =>
    let '(s1, ev, err) := xstep c o s in
    let '(s2, evs) := xrun_ops c ops' s1 in
    (s2, (ev, err) :: evs)
  end.

Definition xrun (c : config) (a0 : bool) (pre : option bytes) (ops : list xop)
  : state * list (list event * bool) :=
  xrun_ops c (XOp (Restart a0) :: ops) (raw pre).
