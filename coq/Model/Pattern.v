(* C09 / C11 — executable model of src/encode/pattern/parser.rs (Parser) and
   src/encode/pattern/mod.rs (From<Piece> for Chunk, Chunk::encode,
   FormattedChunk::encode, PatternEncoder::new/encode).  Definitions only.

   Conventions / oracles (what is NOT modelled but taken as a parameter):
   * a pattern is a list of Unicode scalar values (`str`); `char::is_alphabetic`
     and `char::is_alphanumeric` are the parameters `alpha`, `alnum`
     (`to_digit(10)` is exact: ASCII '0'..'9' only);
   * chrono: `strftime_ok fmt` = the validation done when the pattern is
     compiled: "StrftimeItems::new(fmt) yields no Item::Error AND rendering
     Utc::now().format(fmt) into a String succeeds" (`%#z` parses but cannot
     be rendered); `time_str fmt zone` = the rendering of now() in that zone;
   * runtime values (pid, thread ids, thread name, MDC map, build profile) are
     fields of `env`;
   * the width writers (MaxWidthWriter / LeftAlignWriter / RightAlignWriter)
     are modelled at the level of characters (`apply_params`): the refinement
     of the byte-level writers to this law is C10's theorem (Model/Width.v);
     a sink that accepts everything is assumed (no I/O errors);
   * usize is 64 bits;
   * a panic is the explicit value `CPanic` (construction) / `Boom` (encode).
   The output of encode is a flat list of items: a character, a set_style call,
   or Boom. *)
From Coq Require Import String Ascii.
From Coq Require Import List NArith Bool.
Import ListNotations.
Local Open Scope N_scope.

Definition str := list N.

Definition lit (s : String.string) : str :=
  List.map N_of_ascii (String.list_ascii_of_string s).
Arguments lit s%string.
(* string constants are evaluated where they are written, so that the extracted
   model contains plain code-point lists and no Coq `string` *)
Notation "'LIT' s" :=
  (ltac:(let v := eval vm_compute in (lit s%string) in exact v))
  (at level 10, s at level 0, only parsing).

Fixpoint str_eqb (a b : str) : bool :=
  match a, b with
  | [], [] => true
  | x :: a', y :: b' => (x =? y) && str_eqb a' b'
  | _, _ => false
  end.

(* ------------------------------------------------------------------ *)
(* parser.rs data *)

Inductive align := ALeft | ARight.

Record params := mkParams {
  p_fill : N; p_align : align; p_min : option N; p_max : option N }.

Definition default_params : params := mkParams 32 ALeft None None.

Inductive piece :=
| PText (t : str)
| PArg (name : str) (args : list (list piece)) (prm : params)
| PError (msg : str).

Inductive res (A : Type) := Ok (a : A) | OutOfFuel.
Arguments Ok {A}.
Arguments OutOfFuel {A}.

Definition usize_max : N := 18446744073709551615.

(* '{' 123  '}' 125  '(' 40  ')' 41  '\' 92  ':' 58  '<' 60  '>' 62  '.' 46  '_' 95 *)
Definition is_special (c : N) : bool :=
  (c =? 123) || (c =? 125) || (c =? 40) || (c =? 41) || (c =? 92).

(* Parser::consume *)
Definition consume (ch : N) (s : str) : option str :=
  match s with
  | c :: r => if c =? ch then Some r else None
  | [] => None
  end.

Fixpoint span (p : N -> bool) (s : str) : str * str :=
  match s with
  | c :: r => if p c then let (a, b) := span p r in (c :: a, b) else ([], s)
  | [] => ([], [])
  end.

(* Parser::text: the maximal run of non-special characters *)
Definition text_run (s : str) : str * str := span (fun c => negb (is_special c)) s.

(* Parser::integer — `to_digit(10)`, checked_mul(10), checked_add(digit) *)
Definition digit_val (c : N) : option N :=
  if (48 <=? c) && (c <=? 57) then Some (c - 48) else None.

Definition checked_step (cur : option N) (d : N) : option N :=
  match cur with
  | Some v =>
    let m := v * 10 in
    if usize_max <? m then None
    else let a := m + d in if usize_max <? a then None else Some a
  | None => None
  end.

Fixpoint integer_loop (s : str) (cur : option N) (found : bool) : option N * bool * str :=
  match s with
  | c :: r =>
    match digit_val c with
    | Some d => integer_loop r (checked_step cur d) true
    | None => (cur, found, s)
    end
  | [] => (cur, found, [])
  end.

Definition msg_width : str := (LIT "width too large").

(* Result<Option<usize>, String> and the rest of the input *)
Definition integer (s : str) : (option N + str) * str :=
  match integer_loop s (Some 0) false with
  | (_, false, r) => (inl None, r)
  | (Some v, true, r) => (inl (Some v), r)
  | (None, true, r) => (inr msg_width, r)
  end.

(* Parser::parameters *)
Definition parameters (s : str) : (params + str) * str :=
  match s with
  | c :: r =>
    if c =? 58 then
      (* fill: look at the second character from here *)
      let '(fill, r1) :=
        match r with
        | ch :: c2 :: _ => if (c2 =? 60) || (c2 =? 62) then (ch, tl r) else (32, r)
        | _ => (32, r)
        end in
      let '(al, r2) :=
        match r1 with
        | a :: r' => if a =? 60 then (ALeft, r') else if a =? 62 then (ARight, r') else (ALeft, r1)
        | [] => (ALeft, r1)
        end in
      match integer r2 with
      | (inr e, r3) => (inr e, r3)
      | (inl mn, r3) =>
        match r3 with
        | c3 :: r4 =>
          if c3 =? 46 then
            match integer r4 with
            | (inr e, r5) => (inr e, r5)
            | (inl mx, r5) => (inl (mkParams fill al mn mx), r5)
            end
          else (inl (mkParams fill al mn None), r3)
        | [] => (inl (mkParams fill al mn None), r3)
        end
      end
    else (inl default_params, s)
  | [] => (inl default_params, s)
  end.

Definition msg_unclosed : str := (LIT "unclosed '('").
Definition msg_expected_close : str := (LIT "expected '}'").
Definition msg_unmatched_close : str := (LIT "unmatched '}'").
Definition msg_unexpected_open : str := (LIT "unexpected '('").
Definition msg_unexpected_rpar : str := (LIT "unexpected ')'").
Definition msg_unexpected_bslash : str := (LIT "unexpected '\'").

Section Parser.
  Variable alpha alnum : N -> bool.

  (* Parser::name: one alphabetic, then alphanumerics or '_' *)
  Definition name (s : str) : str * str :=
    match s with
    | c :: r =>
      if alpha c
      then let (n, r') := span (fun c => alnum c || (c =? 95)) r in (c :: n, r')
      else ([], s)
    | [] => ([], [])
    end.

  Section Loops.
    (* `self.next()` of the enclosing recursion level *)
    Variable nx : str -> res (option piece * str).

    (* Parser::arg after its '(' was consumed: pieces until ')' *)
    Fixpoint arg_loop (k : nat) (s : str) : res ((list piece + str) * str) :=
      match k with
      | O => OutOfFuel
      | S k' =>
        match consume 41 s with
        | Some r => Ok (inl [], r)
        | None =>
          match nx s with
          | OutOfFuel => OutOfFuel
          | Ok (None, r) => Ok (inr msg_unclosed, r)
          | Ok (Some p, r) =>
            match arg_loop k' r with
            | Ok (inl ps, r') => Ok (inl (p :: ps), r')
            | other => other
            end
          end
        end
      end.

    (* Parser::args: `while let Some('(') = peek { args.push(self.arg()?) }` *)
    Fixpoint args_loop (k : nat) (s : str) : res ((list (list piece) + str) * str) :=
      match k with
      | O => OutOfFuel
      | S k' =>
        match consume 40 s with
        | Some r =>
          match arg_loop (S (length r)) r with
          | OutOfFuel => OutOfFuel
          | Ok (inr e, r') => Ok (inr e, r')
          | Ok (inl a, r') =>
            match args_loop k' r' with
            | Ok (inl more, r'') => Ok (inl (a :: more), r'')
            | other => other
            end
          end
        | None => Ok (inl [], s)
        end
      end.

    (* Parser::argument (formatter, then parameters) *)
    Definition argument (s : str) : res (piece * str) :=
      let (nm, r1) := name s in
      match args_loop (S (length r1)) r1 with
      | OutOfFuel => OutOfFuel
      | Ok (inr e, r2) => Ok (PError e, r2)
      | Ok (inl args, r2) =>
        match parameters r2 with
        | (inl p, r3) => Ok (PArg nm args p, r3)
        | (inr e, r3) => Ok (PError e, r3)
        end
      end.

    (* the '{' branch of next() after "{{" was ruled out *)
    Definition argument_close (s : str) : res (option piece * str) :=
      match argument s with
      | OutOfFuel => OutOfFuel
      | Ok (p, r) =>
        match consume 125 r with
        | Some r' => Ok (Some p, r')
        | None => Ok (Some (PError msg_expected_close), [])   (* `for _ in &mut self.it {}` *)
        end
      end.

    (* Iterator::collect over the top level *)
    Fixpoint top_loop (k : nat) (s : str) : res (list piece) :=
      match k with
      | O => OutOfFuel
      | S k' =>
        match nx s with
        | OutOfFuel => OutOfFuel
        | Ok (None, _) => Ok []
        | Ok (Some p, r) =>
          match top_loop k' r with
          | Ok ps => Ok (p :: ps)
          | OutOfFuel => OutOfFuel
          end
        end
      end.
  End Loops.

  (* Iterator::next; d = recursion depth still allowed *)
  Fixpoint next (d : nat) (s : str) : res (option piece * str) :=
    match d with
    | O => OutOfFuel
    | S d' =>
      match s with
      | [] => Ok (None, [])
      | c :: r =>
        if c =? 123 then
          match consume 123 r with
          | Some r2 => Ok (Some (PText [123]), r2)
          | None => argument_close (next d') r
          end
        else if c =? 125 then
          match consume 125 r with
          | Some r2 => Ok (Some (PText [125]), r2)
          | None => Ok (Some (PError msg_unmatched_close), r)
          end
        else if c =? 40 then
          match consume 40 r with
          | Some r2 => Ok (Some (PText [40]), r2)
          | None => Ok (Some (PError msg_unexpected_open), r)
          end
        else if c =? 41 then
          match consume 41 r with
          | Some r2 => Ok (Some (PText [41]), r2)
          | None => Ok (Some (PError msg_unexpected_rpar), r)
          end
        else if c =? 92 then
          match r with
          | c2 :: r2 =>
            if is_special c2 then Ok (Some (PText [c2]), r2)
            else Ok (Some (PError msg_unexpected_bslash), r)
          | [] => Ok (Some (PError msg_unexpected_bslash), r)
          end
        else
          let (t, r') := text_run s in Ok (Some (PText t), r')
      end
    end.

  (* Parser::new(pattern).collect() *)
  Definition parse (s : str) : res (list piece) :=
    top_loop (next (S (length s))) (S (length s)) s.
End Parser.

(* ------------------------------------------------------------------ *)
(* mod.rs: chunks *)

Inductive tz := Utc | Local.

Inductive leaf :=
| KTime (fmt : str) (z : tz)
| KLevel | KMessage | KModule | KFile | KLine | KThread | KThreadId | KPid
| KSysTid | KTarget | KNewline
| KMdc (key dflt : str).

Inductive group := GAlign | GHighlight | GDebug | GRelease.

Inductive chunk :=
| CText (t : str)
| CLeaf (k : leaf) (prm : params)              (* Formatted { chunk: <leaf>, params } *)
| CGroup (g : group) (cs : list chunk) (prm : params)
| CError (msg : str)
| CPanic.                                       (* From<Piece> panicked *)

Definition err_open : str := (LIT "{ERROR: ").

Definition date_format_of (arg : list piece) : str :=
  flat_map (fun p => match p with
                     | PText t => t
                     | PArg _ _ _ => (LIT "{ERROR: unexpected formatter}")
                     | PError e => err_open ++ e ++ [125]
                     end) arg.

Definition one_of (nm a b : str) : bool := str_eqb nm a || str_eqb nm b.

Definition no_args (args : list (list piece)) (prm : params) (k : leaf) : chunk :=
  match args with
  | [] => CLeaf k prm
  | _ => CError (LIT "unexpected arguments")
  end.

(* fn literal_arg (fixes c13258d, d5a5dce): the text pieces of an argument joined - an escaped character
   is a piece of its own -, or the message of the error to report: the first piece that is not text
   decides (an error piece: its message; a formatter: `what`); an empty argument is `what` *)
Fixpoint literal_pieces (what : str) (arg : list piece) : str + str :=
  match arg with
  | [] => inl []
  | PText t :: r =>
    match literal_pieces what r with
    | inl u => inl (t ++ u)
    | inr e => inr e
    end
  | PError e :: _ => inr e
  | PArg _ _ _ :: _ => inr what
  end.

Definition literal_arg (what : str) (arg : list piece) : str + str :=
  match arg with
  | [] => inr what
  | _ :: _ => literal_pieces what arg
  end.

Section Compile.
  Variable strftime_ok : str -> bool.

  Definition compile_date (args : list (list piece)) (prm : params) : chunk :=
    if Nat.ltb 2 (length args) then CError (LIT "expected at most two arguments") else
    let fmt := match args with a :: _ => date_format_of a | [] => (LIT "%+") end in
    if negb (strftime_ok fmt)
    then CError ((LIT "invalid date format `") ++ fmt ++ (LIT "`")) else
    match nth_error args 1 with
    | Some arg =>
      match literal_arg (LIT "invalid timezone") arg with
      | inl z =>
        if str_eqb z (LIT "utc") then CLeaf (KTime fmt Utc) prm
        else if str_eqb z (LIT "local") then CLeaf (KTime fmt Local) prm
        else CError ((LIT "invalid timezone `") ++ z ++ (LIT "`"))
      | inr _ => CError (LIT "invalid timezone")
      end
    | None => CLeaf (KTime fmt Local) prm
    end.

  Definition compile_mdc (args : list (list piece)) (prm : params) : chunk :=
    if Nat.ltb 2 (length args) then CError (LIT "expected at most two arguments") else
    match args with
    | [] => CError (LIT "missing MDC key")
    | a :: _ =>
      match literal_arg (LIT "invalid MDC key") a with
      | inr e => CError e
      | inl key =>
        match nth_error args 1 with
        | Some b =>
          match literal_arg (LIT "invalid MDC default") b with
          | inr e => CError e
          | inl dflt => CLeaf (KMdc key dflt) prm
          end
        | None => CLeaf (KMdc key []) prm
        end
      end
    end.

  (* impl From<Piece> for Chunk *)
  Fixpoint compile (p : piece) : chunk :=
    match p with
    | PText t => CText t
    | PError e => CError e
    | PArg nm args prm =>
      let grp (g : group) :=
        if negb (Nat.eqb (length args) 1) then CError (LIT "expected exactly one argument")
        else (fix pop (l : list (list piece)) : chunk :=      (* args.pop().unwrap() *)
                match l with
                | [] => CPanic
                | a :: r => match r with
                            | [] => CGroup g (List.map compile a) prm
                            | _ :: _ => pop r
                            end
                end) args in
      if one_of nm (LIT "d") (LIT "date") then compile_date args prm
      else if one_of nm (LIT "h") (LIT "highlight") then grp GHighlight
      else if one_of nm (LIT "D") (LIT "debug") then grp GDebug
      else if one_of nm (LIT "R") (LIT "release") then grp GRelease
      else if one_of nm (LIT "l") (LIT "level") then no_args args prm KLevel
      else if one_of nm (LIT "m") (LIT "message") then no_args args prm KMessage
      else if one_of nm (LIT "M") (LIT "module") then no_args args prm KModule
      else if str_eqb nm (LIT "n") then no_args args prm KNewline
      else if one_of nm (LIT "f") (LIT "file") then no_args args prm KFile
      else if one_of nm (LIT "L") (LIT "line") then no_args args prm KLine
      else if one_of nm (LIT "T") (LIT "thread") then no_args args prm KThread
      else if one_of nm (LIT "I") (LIT "thread_id") then no_args args prm KThreadId
      else if one_of nm (LIT "P") (LIT "pid") then no_args args prm KPid
      else if one_of nm (LIT "i") (LIT "tid") then no_args args prm KSysTid
      else if one_of nm (LIT "t") (LIT "target") then no_args args prm KTarget
      else if one_of nm (LIT "X") (LIT "mdc") then compile_mdc args prm
      else if str_eqb nm [] then grp GAlign
      else CError ((LIT "unknown formatter `") ++ nm ++ (LIT "`"))
    end.
End Compile.

(* ------------------------------------------------------------------ *)
(* mod.rs: encoding *)

Inductive item :=
| Ch (c : N)            (* one character written *)
| St (s : N)            (* set_style; s = text + 16*background + 256*intense,
                           colour = 1 + index (0 none), intense 0 none/1 false/2 true *)
| Boom.                 (* a panic at encode time *)

Record env := mkEnv {
  e_level : N;                   (* 1 Error .. 5 Trace *)
  e_msg : str;
  e_target : str;
  e_module : option str;
  e_file : option str;
  e_line : option N;
  e_thread : option str;         (* thread::current().name() *)
  e_tid : N;                     (* thread_id::get() *)
  e_systid : N;                  (* the cached TID thread-local *)
  e_pid : N;
  e_mdc : list (str * str);
  e_debug : bool                 (* cfg!(debug_assertions) *)
}.

Fixpoint dec_loop (k : nat) (n : N) (acc : str) : str :=
  match k with
  | O => acc
  | S k' =>
    let acc' := (48 + n mod 10) :: acc in
    if n / 10 =? 0 then acc' else dec_loop k' (n / 10) acc'
  end.
Definition dec (n : N) : str := dec_loop (S (N.size_nat n)) n [].

Definition level_str (l : N) : str :=
  if l =? 1 then (LIT "ERROR") else if l =? 2 then (LIT "WARN") else if l =? 3 then (LIT "INFO")
  else if l =? 4 then (LIT "DEBUG") else (LIT "TRACE").

(* Style::new().text(Red).intense(true) = 2 + 512; Yellow = 4; Green = 3; Cyan = 7 *)
Definition level_style (l : N) : option N :=
  if l =? 1 then Some 514 else if l =? 2 then Some 4 else if l =? 3 then Some 3
  else if l =? 5 then Some 7 else None.

Fixpoint mdc_get (m : list (str * str)) (k : str) : option str :=
  match m with
  | [] => None
  | (k', v) :: r => if str_eqb k' k then Some v else mdc_get r k
  end.

Definition opt_or (o : option str) (d : str) : str := match o with Some s => s | None => d end.

Definition chars (s : str) : list item := List.map Ch s.

Fixpoint nchars (l : list item) : N :=
  match l with
  | [] => 0
  | Ch _ :: r => 1 + nchars r
  | _ :: r => nchars r
  end.

(* MaxWidthWriter: the first M characters pass, later ones are swallowed;
   set_style calls always pass *)
Fixpoint trunc (M : N) (l : list item) : list item :=
  match l with
  | [] => []
  | Ch c :: r => if M =? 0 then trunc 0 r else Ch c :: trunc (M - 1) r
  | x :: r => x :: trunc M r
  end.

Definition padding (fill : N) (n : N) : list item := repeat (Ch fill) (N.to_nat n).

(* Left/RightAlignWriter: to_fill = min_width.saturating_sub(chars written to it);
   Left pads in finish() after the data, Right pads first and then replays its
   buffer (data and style calls) *)
Definition pad_side (a : align) (fill : N) (n : N) (l : list item) : list item :=
  match a with
  | ALeft => l ++ padding fill n
  | ARight => padding fill n ++ l
  end.

(* Chunk::encode, the six writer compositions; with both widths the padding
   is written THROUGH the MaxWidthWriter *)
Definition apply_params (p : params) (l : list item) : list item :=
  match p_min p, p_max p with
  | None, None => l
  | None, Some M => trunc M l
  | Some m, None => pad_side (p_align p) (p_fill p) (m - nchars l) l
  | Some m, Some M => trunc M (pad_side (p_align p) (p_fill p) (m - nchars l) l)
  end.

Section Encode.
  Variable strftime_ok : str -> bool.
  Variable time_str : str -> tz -> str.
  Variable e : env.

  Definition q3 : str := (LIT "???").

  (* FormattedChunk::encode, leaves *)
  Definition enc_leaf (k : leaf) : list item :=
    match k with
    | KTime fmt z =>
      (* write!(w, "{}", now.format(fmt)) panics when an item is invalid or
         cannot be formatted *)
      if strftime_ok fmt then chars (time_str fmt z) else [Boom]
    | KLevel => chars (level_str (e_level e))
    | KMessage => chars (e_msg e)
    | KModule => chars (opt_or (e_module e) q3)
    | KFile => chars (opt_or (e_file e) q3)
    | KLine => chars (match e_line e with Some n => dec n | None => q3 end)
    | KThread => chars (opt_or (e_thread e) (LIT "unnamed"))
    | KThreadId => chars (dec (e_tid e))
    | KPid => chars (dec (e_pid e))
    | KSysTid => chars (dec (e_systid e))
    | KTarget => chars (e_target e)
    | KNewline => chars [10]
    | KMdc key dflt => chars (opt_or (mdc_get (e_mdc e) key) dflt)
    end.

  Definition enc_group (g : group) (body : list item) : list item :=
    match g with
    | GAlign => body
    | GHighlight =>
      match level_style (e_level e) with
      | Some s => St s :: body ++ [St 0]
      | None => body
      end
    | GDebug => if e_debug e then body else []
    | GRelease => if e_debug e then [] else body
    end.

  (* Chunk::encode *)
  Fixpoint enc_chunk (c : chunk) : list item :=
    match c with
    | CText t => chars t
    | CError m => chars (err_open ++ m ++ [125])
    | CPanic => [Boom]
    | CLeaf k p => apply_params p (enc_leaf k)
    | CGroup g cs p => apply_params p (enc_group g (flat_map enc_chunk cs))
    end.

  (* PatternEncoder::encode *)
  Definition encode (cs : list chunk) : list item := flat_map enc_chunk cs.
End Encode.

(* PatternEncoder::new *)
Definition construct (alpha alnum : N -> bool) (strftime_ok : str -> bool) (s : str)
  : res (list chunk) :=
  match parse alpha alnum s with
  | Ok ps => Ok (List.map (compile strftime_ok) ps)
  | OutOfFuel => OutOfFuel
  end.
