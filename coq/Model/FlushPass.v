(* C15 — <Logger as Log>::flush under reconfiguration (src/lib.rs):

     fn flush(&self) {
         for appender in &self.0.load().appenders { appender.flush(); }
     }

   ONE load of the ArcSwap cell, then one `flush` call per appender of THAT snapshot's table,
   in table order.  Anything may happen to the cell meanwhile: other threads store new
   configurations between any two calls, and an appender's own flush() may call
   Handle::set_config (a re-entrant store on the flushing thread).

   The cell holds (tag, n): the identity of the snapshot's appender table and its length.
   A flushing thread is Idle, or in a pass over snapshot `snap` at index `i`.
   One micro-step of the flusher: load / flush appender i (emits the event, then the
   appender's re-entrant store if it makes one) / return.  `other` steps are stores by
   anybody else.  A schedule is a list of who moves: the flusher, or a store of some cell. *)
From Coq Require Import List NArith Bool Arith.
Import ListNotations.

Definition cell := (N * nat)%type.               (* (appender table id, number of appenders) *)

Inductive fstate :=
| FIdle
| FPass (snap : cell) (i : nat)                  (* next appender to flush *)
| FDone (snap : cell).

Inductive fevent :=
| FLoad (s : cell)
| FFlush (tag : N) (i : nat)
| FRet.

Inductive move :=
| MFlusher                                       (* the flushing thread makes its next micro-step *)
| MStore (c : cell).                             (* somebody else's ArcSwap::store *)

(* does appender (tag, i), when flushed, install a configuration? *)
Definition reent_t := N -> nat -> option cell.

Record st := { cur : cell; fl : fstate; trace : list fevent }.

Definition step (reent : reent_t) (s : st) (m : move) : st :=
  match m with
  | MStore c => {| cur := c; fl := fl s; trace := trace s |}
  | MFlusher =>
      match fl s with
      | FIdle => {| cur := cur s; fl := FPass (cur s) 0; trace := trace s ++ [FLoad (cur s)] |}
      | FPass snap i =>
          if i <? snd snap
          then {| cur := match reent (fst snap) i with Some c => c | None => cur s end;
                  fl := FPass snap (S i);
                  trace := trace s ++ [FFlush (fst snap) i] |}
          else {| cur := cur s; fl := FDone snap; trace := trace s ++ [FRet] |}
      | FDone _ => s
      end
  end.

Definition run (reent : reent_t) (ms : list move) (s : st) : st := fold_left (step reent) ms s.

Definition init (c : cell) : st := {| cur := c; fl := FIdle; trace := [] |}.

(* the flush calls a pass over snapshot (tag, n) makes when it has got to index i *)
Definition flushes (tag : N) (i : nat) : list fevent := map (FFlush tag) (seq 0 i).
