(* C08 — model of append/rolling_file/mod.rs (RollingFileAppender::append, get_writer,
   RollingFileAppenderBuilder::build, LogFile::roll) and policy/compound/mod.rs
   (CompoundPolicy::process) on top of Model/Window.v (the roller as a list of small
   steps, with the rotate_step hook as fault position and crash images).
   Executable definitions only.

   External things and how they appear here:
   * file system                 -> Common/FSModel.v;
   * BufWriter + flush per record -> every record is on disk in full when append returns
                                    (writes are whole: encode then flush, no OS write error);
   * LogWriter.len               -> equals the size of the active file (it is initialised from
                                    the file's metadata, or 0 after the truncating open of the
                                    builder, and advanced by every write; no other process
                                    writes the file), so the model reads it from the file system;
   * Mutex                       -> one appender call at a time (sequential histories);
   * encoder                     -> a record is the byte string the encoder produces;
   * trigger                     -> an ORACLE carried by every append operation:
                                    `fire : N -> bool`, the trigger's answer as a function of
                                    the length it is shown.  SizeTrigger is fun len => limit <? len;
                                    a time / on-start-up / user trigger at a given moment is some
                                    other function.  `c_pre` = Trigger::is_pre_process();
   * a failing file-system step   -> `fault : option nat` of the operation: the k-th step of the
                                    rotation performed by this append returns Err without
                                    touching the directory (the rotate_step hook's contract;
                                    a real EISDIR/EACCES on a rename behaves the same way);
   * process death               -> the appender state is dropped, the directory stays as it is
                                    (the crash image); a new appender is built on it (HRestart).
                                    Dying at hook call k leaves exactly the directory that a
                                    fault at step k leaves (Proofs/RollFault.v,
                                    crash_image_is_fault_state). *)
From Coq Require Import List NArith Bool.
Import ListNotations.
From L4 Require Import Common.FSModel Model.Window.
Local Open Scope N_scope.

Record cfg := { c_base : N; c_count : N; c_pre : bool }.

(* appender: the directory and `writer.is_some()` *)
Record ast := { afs : fs; wopen : bool }.

Inductive ack := AOk | AErr | APanic.

(* what an operation did to the record stream (for the specification only) *)
Inductive ev :=
| EvWrite (r : bytes)   (* the record's bytes were appended to the active file *)
| EvRolled              (* a rotation ran to completion *)
| EvTrunc.              (* a builder opened the active file with truncate(true) *)

Section Appender.
  Variable name : N -> path.
  Variable cm : cmode.
  Variable file : path.
  Variable cf : cfg.

  (* OpenOptions::new().write(true).append(true).create(true).open(path) *)
  Definition ensure (f : fs) : fs :=
    match lookup file f with
    | Some _ => f
    | None => write file [] f
    end.

  (* get_writer: reopen only when the writer is None; after build `append` is always true,
     so a reopen never truncates (fix c358786) *)
  Definition get_writer (s : ast) : ast :=
    if wopen s then s else {| afs := ensure (afs s); wopen := true |}.

  (* RollingFileAppenderBuilder::build: the only open that may truncate *)
  Definition build (append_mode : bool) (f : fs) : ast :=
    {| afs := if append_mode then ensure f else write file [] f; wopen := true |}.

  Definition flen (f : fs) : N :=
    match lookup file f with
    | Some x => N.of_nat (length x)
    | None => 0
    end.

  (* CompoundPolicy::process: trigger, log.roll() (writer := None), roller.roll(path)?
     result: state, outcome, "a rotation completed", the directory at each rotate_step call *)
  Definition process (fire : N -> bool) (fault : option nat) (s : ast) : ast * ack * bool * list fs :=
    if fire (flen (afs s)) then
      let imgs := if c_count cf =? 0 then []
                  else if u32_max1 <=? c_base cf + (c_count cf - 1) then []
                  else images cm fault (steps name (c_base cf) (c_count cf) file) (afs s) in
      match roll name cm fault (c_base cf) (c_count cf) file (afs s) with
      | Done g => ({| afs := g; wopen := false |}, AOk, true, imgs)
      | Failed g => ({| afs := g; wopen := false |}, AErr, false, imgs)
      | Panicked => (s, APanic, false, imgs)
      end
    else (s, AOk, false, []).

  (* encoder.encode(writer, record); writer.flush() *)
  Definition write_rec (r : bytes) (s : ast) : ast :=
    {| afs := FSModel.append file r (afs s); wopen := wopen s |}.

  Definition rolled_ev (rolled : bool) : list ev := if rolled then [EvRolled] else [].

  (* Append::append.  Result: state, what the caller sees, stream events, hook images *)
  Definition append_rec (fire : N -> bool) (fault : option nat) (r : bytes) (s : ast)
    : ast * ack * list ev * list fs :=
    let s1 := get_writer s in
    if c_pre cf then
      match process fire fault s1 with
      | (s2, AOk, rolled, imgs) => (write_rec r (get_writer s2), AOk, rolled_ev rolled ++ [EvWrite r], imgs)
      | (s2, a, _, imgs) => (s2, a, [], imgs)
      end
    else
      match process fire fault (write_rec r s1) with
      | (s2, a, rolled, imgs) => (s2, a, EvWrite r :: rolled_ev rolled, imgs)
      end.

  (* histories *)
  Inductive hop :=
  | HAppend (r : bytes) (fire : N -> bool) (fault : option nat)
  | HRestart (append_mode : bool).     (* drop the appender (process death or shutdown), build a new one *)

  Definition step_hist (o : hop) (s : ast) : ast * ack * list ev * list fs :=
    match o with
    | HAppend r fire fault => append_rec fire fault r s
    | HRestart m => (build m (afs s), AOk, if m then [] else [EvTrunc], [])
    end.

  (* final state, and per operation (ack, events); stops at a panic *)
  Fixpoint run_hist (ops : list hop) (s : ast) : ast * list (ack * list ev) :=
    match ops with
    | [] => (s, [])
    | o :: rest =>
      match step_hist o s with
      | (s1, a, e, _) =>
        match a with
        | APanic => (s1, [(a, e)])
        | _ => let (s2, l) := run_hist rest s1 in (s2, (a, e) :: l)
        end
      end
    end.
End Appender.
