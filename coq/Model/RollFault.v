(* C08 — model of append/rolling_file/mod.rs (RollingFileAppender::append, get_writer,
   RollingFileAppenderBuilder::build, LogFile::roll) and policy/compound/mod.rs
   (CompoundPolicy::process) on top of Model/Window.v (the roller, with the
   rotate_step hook as fault position and crash images).  Executable definitions only.

   External things and how they appear here:
   * file system                 -> Common/FSModel.v;
   * BufWriter + flush per record -> every record is on disk in full when append returns
                                    (writes are whole: encode then flush, no OS write error);
   * LogWriter.len               -> equals the size of the active file (it is initialised from
                                    the file's metadata, or 0 after a truncating open, and
                                    advanced by every write; no other process writes the file),
                                    so the model reads the size from the file system;
   * Mutex                       -> one appender call at a time (sequential histories);
   * encoder                     -> a record is the byte string the encoder produces;
   * trigger                     -> fires iff len > limit (SizeTrigger, post-process) or the same
                                    criterion evaluated before the write (a pre-processing trigger);
   * process death               -> the appender state is dropped, the directory stays as the
                                    crash image; a new appender is built on it (Restart). *)
From Coq Require Import List NArith Bool.
Import ListNotations.
From L4 Require Import Common.FSModel Model.Window.
Local Open Scope N_scope.

Record cfg := { c_base : N; c_count : N; c_limit : N; c_pre : bool }.

(* appender: the directory and `writer.is_some()` *)
Record ast := { afs : fs; wopen : bool }.

Inductive ack := AOk | AErr | APanic.

Section Appender.
  Variable name : N -> path.
  Variable cm : cmode.
  Variable file : path.
  Variable cf : cfg.

  (* OpenOptions::new().write(true).append(true).create(true).open(path) *)
  Definition ensure (f : fs) : fs :=
    match lookup file f with
    | Some _ => f
    | None => write file [] f
    end.

  (* get_writer: reopen only when the writer is None; after build `append` is always true *)
  Definition get_writer (s : ast) : ast :=
    if wopen s then s else {| afs := ensure (afs s); wopen := true |}.

  (* RollingFileAppenderBuilder::build: the only open that may truncate *)
  Definition build (append_mode : bool) (f : fs) : ast :=
    {| afs := if append_mode then ensure f else write file [] f; wopen := true |}.

  Definition flen (f : fs) : N :=
    match lookup file f with
    | Some x => N.of_nat (length x)
    | None => 0
    end.

  (* CompoundPolicy::process: trigger, log.roll() (writer := None), roller.roll(path)?
     third component: the directory as seen at each rotate_step hook call *)
  Definition process (fault : option nat) (s : ast) : ast * ack * list fs :=
    if c_limit cf <? flen (afs s) then
      let imgs := if c_count cf =? 0 then []
                  else if u32_max1 <=? c_base cf + (c_count cf - 1) then []
                  else images cm fault (steps name (c_base cf) (c_count cf) file) (afs s) in
      match roll name cm fault (c_base cf) (c_count cf) file (afs s) with
      | Done g => ({| afs := g; wopen := false |}, AOk, imgs)
      | Failed g => ({| afs := g; wopen := false |}, AErr, imgs)
      | Panicked => (s, APanic, imgs)
      end
    else (s, AOk, []).

  (* encoder.encode(writer, record); writer.flush() *)
  Definition write_rec (r : bytes) (s : ast) : ast :=
    {| afs := FSModel.append file r (afs s); wopen := wopen s |}.

  (* Append::append.  Result: state, acknowledgement, whether the record reached the
     file, hook images *)
  Definition append_rec (fault : option nat) (r : bytes) (s : ast) : ast * ack * bool * list fs :=
    let s1 := get_writer s in
    if c_pre cf then
      match process fault s1 with
      | (s2, AOk, imgs) => (write_rec r (get_writer s2), AOk, true, imgs)
      | (s2, a, imgs) => (s2, a, false, imgs)
      end
    else
      match process fault (write_rec r s1) with
      | (s2, a, imgs) => (s2, a, true, imgs)
      end.

  (* histories *)
  Inductive hop :=
  | HAppend (r : bytes) (fault : option nat)
  | HRestart (append_mode : bool).     (* drop the appender (process death or shutdown), build a new one *)

  Definition step_hist (o : hop) (s : ast) : ast * ack * bool * list fs :=
    match o with
    | HAppend r fault => append_rec fault r s
    | HRestart m => (build m (afs s), AOk, false, [])
    end.

  (* final state, and per operation (ack, written) *)
  Fixpoint run_hist (ops : list hop) (s : ast) : ast * list (ack * bool) :=
    match ops with
    | [] => (s, [])
    | o :: rest =>
      match step_hist o s with
      | (s1, a, w, _) =>
        match a with
        | APanic => (s1, [(a, w)])
        | _ => let (s2, l) := run_hist rest s1 in (s2, (a, w) :: l)
        end
      end
    end.
End Appender.
