(* C03 — model of lib.rs: Appender::append (filter chain), ConfiguredLogger::log
   (fan-out with error collection) and Log::log (error handler calls), and of
   filter/threshold.rs.  Executable definitions only. *)
From Coq Require Import List NArith Bool.
Import ListNotations.
Local Open Scope N_scope.

(* log::Level: Error=1 Warn=2 Info=3 Debug=4 Trace=5; LevelFilter adds Off=0. *)
Inductive resp := Accept | Neutral | Reject.

Inductive filt :=
| Scripted (r : resp)            (* user filter answering r for this record *)
| Threshold (lvl : N).           (* filter::threshold::ThresholdFilter *)

(* threshold.rs: if record.level() > self.level { Reject } else { Neutral } *)
Definition filt_resp (f : filt) (L : N) : resp :=
  match f with
  | Scripted r => r
  | Threshold t => if t <? L then Reject else Neutral
  end.

Inductive event :=
| Consult (a k : nat)            (* filter k of appender a was asked *)
| Deliver (a : nat)              (* Append::append of appender a was called *)
| Handler (a : nat).             (* err_handler called with appender a's error *)

(* lib.rs Appender::append, the `for filter in &self.filters` loop:
   Accept => break, Neutral => {}, Reject => return Ok(()) *)
Fixpoint chain (a k : nat) (fs : list filt) (L : N) : list event * bool :=
  match fs with
  | [] => ([], true)
  | f :: rest =>
    match filt_resp f L with
    | Accept => ([Consult a k], true)
    | Reject => ([Consult a k], false)
    | Neutral => let (ev, d) := chain a (S k) rest L in (Consult a k :: ev, d)
    end
  end.

Record appender := { filters : list filt; fails : bool }.

Definition dummy_app : appender := {| filters := []; fails := false |}.

(* one Appender::append call: events, and whether it returned Err *)
Definition app_append (a : nat) (ap : appender) (L : N) : list event * bool :=
  let (ev, d) := chain a 0 (filters ap) L in
  if d then (ev ++ [Deliver a], fails ap) else (ev, false).

(* ConfiguredLogger::log: `for &idx in &self.appenders`, collecting errors *)
Fixpoint fan (apps : list appender) (attached : list nat) (L : N) : list event * list nat :=
  match attached with
  | [] => ([], [])
  | i :: rest =>
    let (ev, err) := app_append i (nth i apps dummy_app) L in
    let (evs, errs) := fan apps rest L in
    (ev ++ evs, if err then i :: errs else errs)
  end.

(* Log::log for a node with threshold `node_level` and attachment list *)
Definition log_record (node_level : N) (apps : list appender) (attached : list nat) (L : N)
  : list event :=
  if L <=? node_level
  then let (ev, errs) := fan apps attached L in ev ++ map Handler errs
  else [].
