(* C03 — model of lib.rs: Appender::append (filter chain), ConfiguredLogger::log
   (fan-out with error collection) and Log::log (error handler calls), and of
   filter/threshold.rs.  Executable definitions only. *)
From Coq Require Import List NArith Bool.
Import ListNotations.
Local Open Scope N_scope.

(* log::Level: Error=1 Warn=2 Info=3 Debug=4 Trace=5; LevelFilter adds Off=0. *)
Inductive resp := Accept | Neutral | Reject.

Inductive filt :=
| Scripted (r : resp)            (* user filter answering r for this record *)
| Threshold (lvl : N).           (* filter::threshold::ThresholdFilter *)

(* threshold.rs: if record.level() > self.level { Reject } else { Neutral } *)
Definition filt_resp (f : filt) (L : N) : resp :=
  match f with
  | Scripted r => r
  | Threshold t => if t <? L then Reject else Neutral
  end.

Inductive event :=
| Consult (a k : nat)            (* filter k of appender a was asked *)
| Deliver (a : nat)              (* Append::append of appender a was called *)
| Handler (a : nat).             (* err_handler called with appender a's error *)

(* lib.rs Appender::append, the `for filter in &self.filters` loop:
   Accept => break, Neutral => {}, Reject => return Ok(()) *)
Fixpoint chain (a k : nat) (fs : list filt) (L : N) : list event * bool :=
  match fs with
  | [] => ([], true)
  | f :: rest =>
    match filt_resp f L with
    | Accept => ([Consult a k], true)
    | Reject => ([Consult a k], false)
    | Neutral => let (ev, d) := chain a (S k) rest L in (Consult a k :: ev, d)
    end
  end.

Record appender := { filters : list filt; fails : bool }.

Definition dummy_app : appender := {| filters := []; fails := false |}.

(* one Appender::append call: events, and whether it returned Err *)
Definition app_append (a : nat) (ap : appender) (L : N) : list event * bool :=
  let (ev, d) := chain a 0 (filters ap) L in
  if d then (ev ++ [Deliver a], fails ap) else (ev, false).

(* ConfiguredLogger::log: `for &idx in &self.appenders`, collecting errors *)
Fixpoint fan (apps : list appender) (attached : list nat) (L : N) : list event * list nat :=
  match attached with
  | [] => ([], [])
  | i :: rest =>
    let (ev, err) := app_append i (nth i apps dummy_app) L in
    let (evs, errs) := fan apps rest L in
    (ev ++ evs, if err then i :: errs else errs)
  end.

(* Log::log for a node with threshold `node_level` and attachment list *)
Definition log_record (node_level : N) (apps : list appender) (attached : list nat) (L : N)
  : list event :=
  if L <=? node_level
  then let (ev, errs) := fan apps attached L in ev ++ map Handler errs
  else [].

(* ------------------------------------------------------------------------
   Re-entrant histories.  lib.rs keeps no state between or during log calls
   (Logger::log loads the immutable SharedLogger; Appender::append and
   ConfiguredLogger::log hold no lock, flag or thread-local), so a user Append
   or a user error handler may call Logger::log again on the same Logger while
   an outer call is still running: the nested call is an ordinary call executed
   at that point.

   A `call` is one Logger::log call together with the scripted behaviour of the
   user code it reaches:  its record (id, level L, routed to node `node`), the
   appenders that panic inside Append::append for this record (`panics`), and
   the nested calls (`kids`) that user code issues while this record is being
   processed; kid k is issued by appender `by_app k` inside append() when
   `by_handler k = false`, and by the error handler while it is handling the
   error returned by appender `by_app k` when `by_handler k = true`.
   (by_handler/by_app of a top-level call are unused.)

   External things: the user Append/handler behaviour is scripted per record
   (oracle = the call tree); a panic is modelled by the mark `Unwind`: unwinding
   leaves lib.rs without running anything else up to the caller's catch_unwind,
   and because nothing is stateful the events before the panic are those of the
   same run without it, so the observable of a top-level call is the event list
   cut after the first `Unwind` (`run_top`).  Nodes: node 0 is the root, node
   k>0 a non-additive logger (routing itself is C01's subject); a node is its
   (level, attachment list).
   ------------------------------------------------------------------------ *)
Inductive call :=
  Call (id : nat) (by_handler : bool) (by_app : nat)
       (node : nat) (L : N) (panics : list nat) (kids : list call).

Inductive rev :=
| Ev (id : nat) (e : event)      (* event e observed on the record with this id *)
| Unwind (id : nat).             (* an appender panicked while appending record id *)

Definition triggered (k : call) (h : bool) (a : nat) : bool :=
  match k with Call _ bh ba _ _ _ _ => Bool.eqb bh h && Nat.eqb ba a end.

Section Reentrant.
  Variable apps : list appender.
  Variable nodes : list (N * list nat).

  (* Appender::append where the user Append, once called, does `inner a`
     before returning its result *)
  Definition app_append_r (id : nat) (inner : nat -> list rev) (a : nat) (ap : appender) (L : N)
    : list rev * bool :=
    let (ev, d) := chain a 0 (filters ap) L in
    if d then (map (Ev id) ev ++ Ev id (Deliver a) :: inner a, fails ap)
    else (map (Ev id) ev, false).

  Fixpoint fan_r (id : nat) (inner : nat -> list rev) (attached : list nat) (L : N)
    : list rev * list nat :=
    match attached with
    | [] => ([], [])
    | i :: rest =>
      let (ev, err) := app_append_r id inner i (nth i apps dummy_app) L in
      let (evs, errs) := fan_r id inner rest L in
      (ev ++ evs, if err then i :: errs else errs)
    end.

  (* Log::log: fan-out, then `for e in errs { (err_handler)(&e) }` where the
     user handler, once called with appender i's error, does `inner_h i` *)
  Definition log_record_r (id : nat) (inner_a inner_h : nat -> list rev)
             (node_level : N) (attached : list nat) (L : N) : list rev :=
    if L <=? node_level
    then let (ev, errs) := fan_r id inner_a attached L in
         ev ++ concat (map (fun i => Ev id (Handler i) :: inner_h i) errs)
    else [].

  Fixpoint run (c : call) : list rev :=
    match c with
    | Call id _ _ nd L panics kids =>
      let issued (h : bool) (a : nat) :=
          concat (map (fun k => if triggered k h a then run k else []) kids) in
      log_record_r id
        (fun a => (if existsb (Nat.eqb a) panics then [Unwind id] else []) ++ issued false a)
        (issued true)
        (fst (nth nd nodes (0, []))) (snd (nth nd nodes (0, []))) L
    end.

  (* catch_unwind around a top-level call *)
  Fixpoint cut (l : list rev) : list rev :=
    match l with
    | [] => []
    | Unwind i :: _ => [Unwind i]
    | e :: rest => e :: cut rest
    end.

  Definition run_top (c : call) : list rev := cut (run c).

  (* a thread that issues top-level calls one after the other *)
  Definition run_seq (cs : list call) : list rev := concat (map run_top cs).
End Reentrant.

(* Two threads, deterministic rendezvous of the harness: thread 1 runs until
   its error handler is entered for the first time (the handler records its
   event, then blocks), thread 2 then runs to completion, then thread 1 is
   released.  Without a handler call thread 1 simply finishes first. *)
Fixpoint sched (ev1 ev2 : list rev) : list rev :=
  match ev1 with
  | [] => ev2
  | Ev i (Handler a) :: rest => Ev i (Handler a) :: ev2 ++ rest
  | e :: rest => e :: sched rest ev2
  end.
