(* C18 — executable model of the console appender's write decision and of what reaches
   the two standard streams (unix code path):
     src/encode/writer/console.rs  COLOR_MODE, imp::Writer::stdout/stderr
     src/append/console.rs         ConsoleAppenderBuilder::build, ConsoleAppender::append
     src/encode/pattern/mod.rs     FormattedChunk::Highlight (set_style / reset around a group)
     src/encode/writer/simple.rs   SimpleWriter: set_style is the default no-op

   External things as parameters/oracles of the model:
   * std::env::var(NAME): `None` = unset or not valid Unicode (both give Err, which the code
     maps to the default), `Some bytes` = the value.  COLOR_MODE is read once per process
     (Lazy); the model is one process with a fixed environment.
   * libc::isatty(fd) == 1 for the two fds: the booleans w_out_tty / w_err_tty.
   * std's Stdout/Stderr (line buffering, locking) — modelled as appending the bytes to the
     stream; the appender flushes after every record, so the bytes per record are exactly
     the bytes written.
   * the pattern is given as its compiled chunk tree, restricted to literal text, {l}, {m},
     {n} and {h(..)} (pattern syntax is C09's/C11's subject).  A highlight group may carry a
     format spec (min width, max width, alignment, fill): Chunk::encode then wraps the writer
     in MaxWidthWriter / LeftAlignWriter / RightAlignWriter, modelled here on the sequence of
     writer calls (apply_params): text is truncated / padded by characters (a byte starts a
     character iff it is < 0x80 or >= 0xC0, `is_char_boundary`), set_style calls pass through
     MaxWidthWriter and LeftAlignWriter immediately and are buffered and replayed in order by
     RightAlignWriter.  The sink accepts every write completely (short writes are C10's). *)
From Coq Require Import List NArith Bool.
Import ListNotations.
From L4 Require Import Model.Ansi.
Local Open Scope N_scope.

Definition bytes := list N.

Fixpoint bytes_eqb (a b : bytes) : bool :=
  match a, b with
  | [], [] => true
  | x :: a', y :: b' => (x =? y) && bytes_eqb a' b'
  | _, _ => false
  end.

(* ---- COLOR_MODE ---------------------------------------------------------- *)

Record env3 := {
  e_no_color : option bytes;
  e_clicolor_force : option bytes;
  e_clicolor : option bytes;
}.

(* std::env::var(NAME).map(|var| var != "0").unwrap_or(default) *)
Definition env_flag (v : option bytes) (default : bool) : bool :=
  match v with
  | Some s => negb (bytes_eqb s [48])
  | None => default
  end.

Inductive mode := Auto | Always | Never.

Definition colour_mode (e : env3) : mode :=
  let no_color := env_flag (e_no_color e) false in
  let clicolor_force := env_flag (e_clicolor_force e) false in
  if no_color then Never
  else if clicolor_force then Always
  else
    let clicolor := env_flag (e_clicolor e) true in
    if clicolor then Auto else Never.

(* ---- ConsoleWriter::stdout / stderr -------------------------------------- *)

(* Some(writer) / None *)
Definition console_writer (m : mode) (isatty : bool) : bool :=
  match m with
  | Auto => isatty          (* if isatty(fd) != 1 { None } else { Some } *)
  | Always => true
  | Never => false
  end.

(* append::console::Writer *)
Inductive wkind :=
| Tty        (* Writer::Tty(ConsoleWriter)  = AnsiWriter over the std stream *)
| Raw.       (* Writer::Raw(StdWriter)      = SimpleWriter over the std stream *)

Definition writer_kind (m : mode) (isatty : bool) : wkind :=
  if console_writer m isatty then Tty else Raw.

Definition is_tty (k : wkind) : bool := match k with Tty => true | Raw => false end.

(* let do_write = writer.is_tty() || !self.tty_only; *)
Definition do_write (k : wkind) (tty_only : bool) : bool := is_tty k || negb tty_only.

(* set_style produces bytes only through the AnsiWriter *)
Definition emits_escapes (k : wkind) : bool := is_tty k.

(* ---- pattern encoding as a sequence of writer calls ---------------------- *)

Inductive level := Error | Warn | Info | Debug | Trace.

Definition level_name (l : level) : bytes :=
  match l with
  | Error => [69; 82; 82; 79; 82]
  | Warn => [87; 65; 82; 78]
  | Info => [73; 78; 70; 79]
  | Debug => [68; 69; 66; 85; 71]
  | Trace => [84; 82; 65; 67; 69]
  end.

Inductive ev :=
| EvBytes (b : bytes)        (* write_all / write_fmt *)
| EvStyle (s : style).       (* set_style *)

(* Parameters of a formatted chunk; fill is the UTF-8 encoding of the fill character *)
Record params := {
  p_min : option N;
  p_max : option N;
  p_right : bool;          (* Alignment::Right *)
  p_fill : bytes;
}.

Definition no_params : params := {| p_min := None; p_max := None; p_right := false; p_fill := [32] |}.

Inductive chunk :=
| CText (s : bytes)
| CLevel
| CMessage
| CNewline
| CHighlight (p : params) (cs : list chunk).

(* the style Highlight sets for the record's level, None = no set_style call at all *)
Definition highlight_style (l : level) : option style :=
  match l with
  | Error => Some (mkStyle (Some Red) None (Some true))
  | Warn => Some (mkStyle (Some Yellow) None None)
  | Info => Some (mkStyle (Some Green) None None)
  | Trace => Some (mkStyle (Some Cyan) None None)
  | Debug => None
  end.

(* ---- width writers, on the sequence of writer calls ---- *)

(* is_char_boundary(b): b as i8 >= -0x40 *)
Definition is_boundary (b : N) : bool := (b <? 128) || (192 <=? b).

(* char_starts *)
Definition char_starts (bs : bytes) : N := N.of_nat (length (filter is_boundary bs)).

(* MaxWidthWriter::write over one buffer: the bytes passed on and the remaining budget.
   The first character start met with remaining = 0 ends the output; the rest is swallowed. *)
Fixpoint take_chars (remaining : N) (bs : bytes) : bytes * N :=
  match bs with
  | [] => ([], remaining)
  | b :: r =>
    if is_boundary b then
      if remaining =? 0 then ([], 0)
      else let '(k, rem') := take_chars (remaining - 1) r in (b :: k, rem')
    else let '(k, rem') := take_chars remaining r in (b :: k, rem')
  end.

(* MaxWidthWriter over a sequence of calls: set_style is forwarded unconditionally *)
Fixpoint max_width (remaining : N) (evs : list ev) : list ev :=
  match evs with
  | [] => []
  | EvBytes b :: r => let '(k, rem') := take_chars remaining b in EvBytes k :: max_width rem' r
  | EvStyle s :: r => EvStyle s :: max_width remaining r
  end.

Fixpoint total_chars (evs : list ev) : N :=
  match evs with
  | [] => 0
  | EvBytes b :: r => char_starts b + total_chars r
  | EvStyle _ :: r => total_chars r
  end.

(* finish(): to_fill times write!(w, "{}", fill) *)
Definition fill_ev (fill : bytes) (n : N) : ev := EvBytes (N.iter n (app fill) []).

(* Chunk::encode's match on (min_width, max_width, align).  to_fill = min saturating-minus the
   characters offered to the align writer (also those a MaxWidthWriter below it swallows). *)
Definition apply_params (p : params) (evs : list ev) : list ev :=
  match p_min p, p_max p with
  | None, None => evs
  | None, Some mx => max_width mx evs
  | Some mn, None =>
    let pad := fill_ev (p_fill p) (mn - total_chars evs) in
    if p_right p then pad :: evs              (* fill, then the buffered writes and styles in order *)
    else evs ++ [pad]
  | Some mn, Some mx =>
    let pad := fill_ev (p_fill p) (mn - total_chars evs) in
    if p_right p then max_width mx (pad :: evs)
    else max_width mx (evs ++ [pad])
  end.

Fixpoint enc_chunk (c : chunk) (lv : level) (msg : bytes) : list ev :=
  match c with
  | CText s => [EvBytes s]
  | CLevel => [EvBytes (level_name lv)]
  | CMessage => [EvBytes msg]
  | CNewline => [EvBytes [10]]
  | CHighlight p cs =>
    let inner := (fix go (l : list chunk) : list ev :=
                    match l with
                    | [] => []
                    | c' :: r => enc_chunk c' lv msg ++ go r
                    end) cs in
    apply_params p
      match highlight_style lv with
      | Some st => EvStyle st :: inner ++ [EvStyle style_new]
      | None => inner
      end
  end.

(* PatternEncoder::encode *)
Definition enc_chunks (cs : list chunk) (lv : level) (msg : bytes) : list ev :=
  flat_map (fun c => enc_chunk c lv msg) cs.

(* the bytes the writer of kind k puts on its stream for a sequence of calls *)
Fixpoint write_events (k : wkind) (evs : list ev) : res bytes :=
  match evs with
  | [] => Ok []
  | EvBytes b :: r => r' <- write_events k r ;; Ok (b ++ r')
  | EvStyle s :: r =>
    match k with
    | Raw => write_events k r                      (* default set_style: Ok(()) *)
    | Tty => sb <- set_style s ;; r' <- write_events k r ;; Ok (sb ++ r')
    end
  end.

(* ---- the appender -------------------------------------------------------- *)

Inductive target := Stdout | Stderr.

Record appender := {
  a_target : target;
  a_tty_only : bool;
  a_pattern : list chunk;
}.

Record world := {
  w_env : env3;
  w_out_tty : bool;        (* isatty(STDOUT_FILENO) == 1 *)
  w_err_tty : bool;        (* isatty(STDERR_FILENO) == 1 *)
}.

Definition isatty (w : world) (t : target) : bool :=
  match t with Stdout => w_out_tty w | Stderr => w_err_tty w end.

(* build(): the writer kind and do_write *)
Definition built_kind (w : world) (a : appender) : wkind :=
  writer_kind (colour_mode (w_env w)) (isatty w (a_target a)).

Definition writes (w : world) (a : appender) : bool :=
  do_write (built_kind w a) (a_tty_only a).

(* append(): (bytes on stdout, bytes on stderr) *)
Definition append (w : world) (a : appender) (lv : level) (msg : bytes) : res (bytes * bytes) :=
  if writes w a then
    out <- write_events (built_kind w a) (enc_chunks (a_pattern a) lv msg) ;;
    Ok (match a_target a with Stdout => (out, []) | Stderr => ([], out) end)
  else Ok ([], []).
