(* A small file-system model shared by the rolling-file properties.
   fs = association list path -> bytes (regular files only; directories are not
   modelled: the code creates them with create_dir_all, the harness exercises
   that).  Operations and the lookup equations that characterise them.

     lookup p fs        content of p, None when absent
     write p c fs       create or replace p with content c
     remove p fs        delete p (no-op when absent; callers test presence first
                        when the OS would report NotFound)
     append p c fs      append c to p, creating it when absent
     rename s d fs      std::fs::rename: atomic replace of d by s; RenNotFound when
                        s is absent (the case move_file tolerates); s = d is a no-op

   All reasoning about results goes through `lookup` (extensional view): see the
   lookup_* lemmas.  `wf fs` = no path listed twice; preserved by every operation
   and established by `mkfs`. *)
From Coq Require Import List NArith Bool.
Import ListNotations.
Local Open Scope N_scope.

Definition path := list N.
Definition bytes := list N.
Definition fs := list (path * bytes).

Fixpoint path_eqb (a b : path) : bool :=
  match a, b with
  | [], [] => true
  | x :: a', y :: b' => (x =? y) && path_eqb a' b'
  | _, _ => false
  end.

Lemma path_eqb_eq : forall a b, path_eqb a b = true <-> a = b.
Proof.
  induction a as [|x a IH]; destruct b as [|y b]; cbn [path_eqb]; split; intro H;
    try reflexivity; try discriminate.
  - apply andb_true_iff in H. destruct H as [H1 H2].
    apply N.eqb_eq in H1. apply IH in H2. subst. reflexivity.
  - inversion H; subst. apply andb_true_iff. split; [apply N.eqb_refl|apply IH; reflexivity].
Qed.

Lemma path_eqb_refl : forall a, path_eqb a a = true.
Proof. intro a. apply path_eqb_eq. reflexivity. Qed.

Lemma path_eqb_neq : forall a b, path_eqb a b = false <-> a <> b.
Proof.
  intros a b. split.
  - intros H E. apply path_eqb_eq in E. rewrite E in H. discriminate.
  - intro H. destruct (path_eqb a b) eqn:E; [|reflexivity].
    apply path_eqb_eq in E. contradiction.
Qed.

Lemma path_eq_dec : forall a b : path, {a = b} + {a <> b}.
Proof.
  intros a b. destruct (path_eqb a b) eqn:E.
  - left. apply path_eqb_eq. exact E.
  - right. apply path_eqb_neq. exact E.
Qed.

Fixpoint lookup (p : path) (f : fs) : option bytes :=
  match f with
  | [] => None
  | (q, c) :: rest => if path_eqb p q then Some c else lookup p rest
  end.

Fixpoint remove (p : path) (f : fs) : fs :=
  match f with
  | [] => []
  | (q, c) :: rest => if path_eqb p q then remove p rest else (q, c) :: remove p rest
  end.

Definition write (p : path) (c : bytes) (f : fs) : fs := (p, c) :: remove p f.

Definition append (p : path) (c : bytes) (f : fs) : fs :=
  match lookup p f with
  | Some old => write p (old ++ c) f
  | None => write p c f
  end.

Inductive rename_res := RenOk (f : fs) | RenNotFound.

Definition rename (src dst : path) (f : fs) : rename_res :=
  match lookup src f with
  | None => RenNotFound
  | Some c => if path_eqb src dst then RenOk f else RenOk (write dst c (remove src f))
  end.

(* build a file system from a listing (when a path is listed twice the earlier entry wins) *)
Fixpoint mkfs (l : list (path * bytes)) : fs :=
  match l with
  | [] => []
  | (p, c) :: rest => write p c (mkfs rest)
  end.

Definition paths (f : fs) : list path := map fst f.

(* ---- lookup equations ---- *)

Lemma lookup_remove_eq : forall p f, lookup p (remove p f) = None.
Proof.
  induction f as [|[q c] f IH]; cbn [remove lookup]; [reflexivity|].
  destruct (path_eqb p q) eqn:E; [exact IH|]. cbn [lookup]. rewrite E. exact IH.
Qed.

Lemma lookup_remove_neq : forall p q f, p <> q -> lookup p (remove q f) = lookup p f.
Proof.
  intros p q f H. induction f as [|[r c] f IH]; cbn [remove lookup]; [reflexivity|].
  destruct (path_eqb q r) eqn:E.
  - apply path_eqb_eq in E. subst r.
    apply path_eqb_neq in H. rewrite H. exact IH.
  - cbn [lookup]. rewrite IH. reflexivity.
Qed.

Lemma lookup_write_eq : forall p c f, lookup p (write p c f) = Some c.
Proof. intros. unfold write. cbn [lookup]. rewrite path_eqb_refl. reflexivity. Qed.

Lemma lookup_write_neq : forall p q c f, p <> q -> lookup p (write q c f) = lookup p f.
Proof.
  intros p q c f H. unfold write. cbn [lookup].
  pose proof H as H'. apply path_eqb_neq in H'. rewrite H'. apply lookup_remove_neq. exact H.
Qed.

Lemma lookup_append_eq : forall p c f,
  lookup p (append p c f) = Some (match lookup p f with Some o => o ++ c | None => c end).
Proof. intros. unfold append. destruct (lookup p f); apply lookup_write_eq. Qed.

Lemma lookup_append_neq : forall p q c f, p <> q -> lookup p (append q c f) = lookup p f.
Proof. intros. unfold append. destruct (lookup q f); apply lookup_write_neq; assumption. Qed.

(* rename, extensionally: when it succeeds, dst holds src's old content, src is
   gone (unless src = dst), every other path is untouched *)
Lemma rename_notfound : forall s d f, rename s d f = RenNotFound <-> lookup s f = None.
Proof.
  intros. unfold rename. destruct (lookup s f); [|tauto].
  destruct (path_eqb s d); split; discriminate.
Qed.

Lemma lookup_rename : forall s d f f' p,
  rename s d f = RenOk f' ->
  lookup p f' = if path_eqb p d then lookup s f
                else if path_eqb p s then None else lookup p f.
Proof.
  intros s d f f' p H. unfold rename in H. destruct (lookup s f) as [c|] eqn:Es; [|discriminate].
  destruct (path_eqb s d) eqn:Esd.
  - inversion H; subst f'. apply path_eqb_eq in Esd. subst d.
    destruct (path_eqb p s) eqn:Eps; [|reflexivity].
    apply path_eqb_eq in Eps. subst p. exact Es.
  - inversion H; subst f'. clear H.
    destruct (path_eqb p d) eqn:Epd.
    + apply path_eqb_eq in Epd. subst p. apply lookup_write_eq.
    + apply path_eqb_neq in Epd. rewrite lookup_write_neq by exact Epd.
      destruct (path_eqb p s) eqn:Eps.
      * apply path_eqb_eq in Eps. subst p. apply lookup_remove_eq.
      * apply path_eqb_neq in Eps. apply lookup_remove_neq. exact Eps.
Qed.

(* ---- well-formedness: no path listed twice ---- *)

Definition wf (f : fs) : Prop := NoDup (paths f).

Lemma In_paths_remove : forall p q f, In p (paths (remove q f)) -> In p (paths f) /\ p <> q.
Proof.
  intros p q f. induction f as [|[r c] f IH]; cbn [remove paths map In]; [tauto|].
  destruct (path_eqb q r) eqn:E.
  - intro H. apply IH in H. cbn [fst]. tauto.
  - unfold paths. cbn [map fst In]. fold (paths (remove q f)). fold (paths f). intros [H|H].
    + subst r. split; [left; reflexivity|]. apply path_eqb_neq in E. congruence.
    + apply IH in H. tauto.
Qed.

Lemma wf_remove : forall p f, wf f -> wf (remove p f).
Proof.
  unfold wf. intros p f. induction f as [|[q c] f IH]; cbn [remove paths map fst]; intro H.
  - constructor.
  - inversion H as [|x l Hn Hd]; subst.
    destruct (path_eqb p q); [apply IH; exact Hd|].
    cbn [paths map fst]. constructor; [|apply IH; exact Hd].
    intro Hin. apply In_paths_remove in Hin. tauto.
Qed.

Lemma wf_write : forall p c f, wf f -> wf (write p c f).
Proof.
  unfold wf, write. intros p c f H. cbn [paths map fst]. constructor.
  - intro Hin. apply In_paths_remove in Hin. tauto.
  - apply wf_remove. exact H.
Qed.

Lemma wf_append : forall p c f, wf f -> wf (append p c f).
Proof. intros. unfold append. destruct (lookup p f); apply wf_write; assumption. Qed.

Lemma wf_rename : forall s d f f', wf f -> rename s d f = RenOk f' -> wf f'.
Proof.
  intros s d f f' H R. unfold rename in R. destruct (lookup s f); [|discriminate].
  destruct (path_eqb s d); inversion R; subst; [exact H|].
  apply wf_write. apply wf_remove. exact H.
Qed.

Lemma wf_mkfs : forall l, wf (mkfs l).
Proof.
  induction l as [|[p c] l IH]; cbn [mkfs]; [constructor|]. apply wf_write. exact IH.
Qed.

Lemma lookup_In_paths : forall p f, lookup p f <> None <-> In p (paths f).
Proof.
  intros p f. induction f as [|[q c] f IH]; cbn [lookup paths map fst In]; [tauto|].
  destruct (path_eqb p q) eqn:E.
  - apply path_eqb_eq in E. subst q. split; [left; reflexivity|discriminate].
  - apply path_eqb_neq in E. rewrite IH. split; [tauto|]. intros [H|H]; [congruence|exact H].
Qed.
