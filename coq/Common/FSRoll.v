(* Minimal file-system model for the rolling appender (C05/C06/C17).
   The directory holds the active log file and numbered archives; file names
   are abstract (`Active`, `Arch i`), i.e. the active path and the expansions
   of the roller pattern are assumed pairwise distinct.  A file system is an
   association list name -> bytes; every lemma is stated pointwise on `lookup`.

   Documented OS behaviour assumed: `rename` replaces the destination
   atomically and fails with NotFound (tolerated by log4rs' `move_file`, so a
   no-op here) when the source does not exist; `remove_file` removes; opening
   with create+append keeps the content, create+truncate empties it. *)
From Coq Require Import List Arith Bool Lia.
Import ListNotations.

Inductive fname : Type := Active | Arch (i : nat).

Definition fname_eqb (a b : fname) : bool :=
  match a, b with
  | Active, Active => true
  | Arch i, Arch j => Nat.eqb i j
  | _, _ => false
  end.

Lemma fname_eqb_spec : forall a b, reflect (a = b) (fname_eqb a b).
Proof.
  intros [|i] [|j]; cbn; try (constructor; congruence).
  destruct (Nat.eqb_spec i j); constructor; congruence.
Qed.

Lemma fname_eqb_refl : forall a, fname_eqb a a = true.
Proof. intros a; destruct (fname_eqb_spec a a); congruence. Qed.

Definition fsys (B : Type) := list (fname * B).

Section FS.
Context {B : Type}.

Fixpoint lookup (f : fsys B) (n : fname) : option B :=
  match f with
  | [] => None
  | (m, v) :: f' => if fname_eqb m n then Some v else lookup f' n
  end.

Fixpoint remove (n : fname) (f : fsys B) : fsys B :=
  match f with
  | [] => []
  | (m, v) :: f' => if fname_eqb m n then remove n f' else (m, v) :: remove n f'
  end.

Definition write (n : fname) (v : B) (f : fsys B) : fsys B := (n, v) :: remove n f.

(* fs::rename as used by move_file: missing source = nothing happens *)
Definition rename (src dst : fname) (f : fsys B) : fsys B :=
  match lookup f src with
  | None => f
  | Some v => write dst v (remove src f)
  end.

Lemma lookup_remove : forall f n m,
  lookup (remove n f) m = if fname_eqb n m then None else lookup f m.
Proof.
  induction f as [|[k v] f IH]; intros n m; cbn.
  - destruct (fname_eqb n m); reflexivity.
  - destruct (fname_eqb_spec k n) as [->|Hkn].
    + rewrite IH. destruct (fname_eqb n m); reflexivity.
    + cbn. rewrite IH. destruct (fname_eqb_spec k m) as [->|Hkm].
      * destruct (fname_eqb_spec n m); congruence.
      * reflexivity.
Qed.

Lemma lookup_write : forall f n v m,
  lookup (write n v f) m = if fname_eqb n m then Some v else lookup f m.
Proof.
  intros f n v m; unfold write; cbn. rewrite lookup_remove.
  destruct (fname_eqb n m); reflexivity.
Qed.

Lemma lookup_rename : forall f src dst m,
  src <> dst ->
  lookup (rename src dst f) m =
  match lookup f src with
  | None => lookup f m
  | Some v => if fname_eqb dst m then Some v
              else if fname_eqb src m then None else lookup f m
  end.
Proof.
  intros f src dst m Hne; unfold rename.
  destruct (lookup f src) as [v|] eqn:E; [|reflexivity].
  rewrite lookup_write, lookup_remove. reflexivity.
Qed.

End FS.

(* FixedWindowRoller's shift loop `for i in (b .. b+k).rev() { move(i, i+1) }`
   (k = count-1 iterations, highest index first). *)
Fixpoint shift {B} (b k : nat) (f : fsys B) : fsys B :=
  match k with
  | O => f
  | S k' => shift b k' (rename (Arch (b + k')) (Arch (b + k' + 1)) f)
  end.

(* Where every name points after the shift, provided the archives present in
   [b, b+k] have no gap (an absent index is followed by absent ones). *)
Lemma lookup_shift : forall {B} k b (f : fsys B),
  (forall j, j < k -> lookup f (Arch (b + j)) = None -> lookup f (Arch (b + j + 1)) = None) ->
  forall m,
  lookup (shift b k f) m =
  match m with
  | Active => lookup f Active
  | Arch i =>
    if i <? b then lookup f (Arch i)
    else if i =? b then (match k with O => lookup f (Arch b) | S _ => None end)
    else if i <=? b + k then lookup f (Arch (i - 1))
    else lookup f (Arch i)
  end.
Proof.
  intros B k; induction k as [|k IH]; intros b f Hgap m.
  - cbn [shift]. destruct m as [|i]; [reflexivity|].
    destruct (Nat.ltb_spec i b); [reflexivity|].
    destruct (Nat.eqb_spec i b); [subst; reflexivity|].
    destruct (Nat.leb_spec i (b + 0)); [lia|reflexivity].
  - cbn [shift].
    set (f' := rename (Arch (b + k)) (Arch (b + k + 1)) f).
    assert (Hne : Arch (b + k) <> Arch (b + k + 1)) by (intro H; injection H; lia).
    assert (Hf' : forall n, lookup f' n =
              match lookup f (Arch (b + k)) with
              | None => lookup f n
              | Some v => if fname_eqb (Arch (b + k + 1)) n then Some v
                          else if fname_eqb (Arch (b + k)) n then None else lookup f n
              end) by (intro n; apply lookup_rename; exact Hne).
    rewrite IH.
    + destruct m as [|i].
      * rewrite Hf'. destruct (lookup f (Arch (b + k))); reflexivity.
      * destruct (Nat.ltb_spec i b) as [Hlt|Hge].
        { rewrite Hf'. destruct (lookup f (Arch (b + k))); [|reflexivity].
          cbn [fname_eqb].
          destruct (Nat.eqb_spec (b + k + 1) i); [lia|].
          destruct (Nat.eqb_spec (b + k) i); [lia|reflexivity]. }
        destruct (Nat.eqb_spec i b) as [->|Hnb].
        { destruct k; [|reflexivity].
          rewrite Hf'. replace (b + 0) with b by lia.
          destruct (lookup f (Arch b)) eqn:E; [|reflexivity].
          cbn [fname_eqb]. destruct (Nat.eqb_spec (b + 1) b); [lia|].
          rewrite Nat.eqb_refl. reflexivity. }
        destruct (Nat.leb_spec i (b + k)) as [Hle|Hgt].
        { destruct (Nat.leb_spec i (b + S k)); [|lia].
          rewrite Hf'. destruct (lookup f (Arch (b + k))); [|reflexivity].
          cbn [fname_eqb].
          destruct (Nat.eqb_spec (b + k + 1) (i - 1)); [lia|].
          destruct (Nat.eqb_spec (b + k) (i - 1)); [lia|reflexivity]. }
        destruct (Nat.leb_spec i (b + S k)) as [Hle2|Hgt2].
        { assert (i = b + k + 1) by lia; subst i.
          replace (b + k + 1 - 1) with (b + k) by lia.
          rewrite Hf'. destruct (lookup f (Arch (b + k))) eqn:E.
          - cbn [fname_eqb]. rewrite Nat.eqb_refl. reflexivity.
          - apply Hgap; [lia|exact E]. }
        { rewrite Hf'. destruct (lookup f (Arch (b + k))); [|reflexivity].
          cbn [fname_eqb].
          destruct (Nat.eqb_spec (b + k + 1) i); [lia|].
          destruct (Nat.eqb_spec (b + k) i); [lia|reflexivity]. }
    + intros j Hj Hnone. rewrite Hf' in Hnone. rewrite Hf'.
      destruct (lookup f (Arch (b + k))) eqn:E.
      * cbn [fname_eqb] in *.
        destruct (Nat.eqb_spec (b + k + 1) (b + j)); [lia|].
        destruct (Nat.eqb_spec (b + k + 1) (b + j + 1)); [lia|].
        destruct (Nat.eqb_spec (b + k) (b + j + 1)); [reflexivity|].
        destruct (Nat.eqb_spec (b + k) (b + j)); [lia|].
        apply Hgap; [lia|exact Hnone].
      * apply Hgap; [lia|exact Hnone].
Qed.

(* the shift never touches the active file (no gap condition needed) *)
Lemma lookup_shift_active : forall {B} k b (f : fsys B),
  lookup (shift b k f) Active = lookup f Active.
Proof.
  intros B k; induction k as [|k IH]; intros b f; cbn [shift]; [reflexivity|].
  rewrite IH, lookup_rename by (intro H; injection H; lia).
  destruct (lookup f (Arch (b + k))); reflexivity.
Qed.
