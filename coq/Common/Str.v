(* Byte strings as lists of N with boolean equality and membership. *)
From Coq Require Import List NArith Bool.
Import ListNotations.
Local Open Scope N_scope.

Definition str := list N.

Fixpoint str_eqb (a b : str) : bool :=
  match a, b with
  | [], [] => true
  | x :: a', y :: b' => (x =? y) && str_eqb a' b'
  | _, _ => false
  end.

Lemma str_eqb_spec a b : reflect (a = b) (str_eqb a b).
Proof.
  revert b; induction a as [|x a IH]; intros [|y b]; cbn; try (constructor; congruence).
  destruct (N.eqb_spec x y) as [->|Hne]; cbn.
  - destruct (IH b) as [->|Hne]; constructor; congruence.
  - constructor; congruence.
Qed.

Lemma str_eqb_refl a : str_eqb a a = true.
Proof. destruct (str_eqb_spec a a); congruence. Qed.

Lemma str_eqb_eq a b : str_eqb a b = true <-> a = b.
Proof. destruct (str_eqb_spec a b); split; congruence. Qed.

Lemma str_eqb_neq a b : str_eqb a b = false <-> a <> b.
Proof. destruct (str_eqb_spec a b); split; congruence. Qed.

Definition mem (x : str) (l : list str) : bool := existsb (str_eqb x) l.

Lemma mem_In x l : mem x l = true <-> In x l.
Proof.
  unfold mem. rewrite existsb_exists. split.
  - intros [y [Hy He]]. apply str_eqb_eq in He. now subst.
  - intros H. exists x. split; [exact H|apply str_eqb_refl].
Qed.

Lemma mem_not_In x l : mem x l = false <-> ~ In x l.
Proof.
  rewrite <- mem_In. destruct (mem x l); split; congruence.
Qed.
