(* Generic case/result value exchanged between the generators, the Rust
   harness and the extracted model: numbers, byte strings, lists. *)
From Coq Require Export List NArith ZArith Bool.
Export ListNotations.

Inductive vl : Type :=
| VN (n : N)
| VS (bs : list N)          (* byte string (UTF-8 when it carries text) *)
| VL (l : list vl).

Definition VB (b : bool) : vl := VN (if b then 1 else 0)%N.
Definition VZ (z : Z) : vl :=
  match z with
  | Z0 => VL [VN 0; VN 0]
  | Zpos p => VL [VN 0; VN (Npos p)]
  | Zneg p => VL [VN 1; VN (Npos p)]
  end%N.
Definition VErr (tag : N) : vl := VL [VS [101;114;114]%N; VN tag].   (* ("err" tag) *)
Definition VBad : vl := VS [98;97;100;99;97;115;101]%N.             (* "badcase" *)

Definition val_N (v : vl) : option N := match v with VN n => Some n | _ => None end.
Definition val_S (v : vl) : option (list N) := match v with VS s => Some s | _ => None end.
Definition val_L (v : vl) : option (list vl) := match v with VL l => Some l | _ => None end.
Definition val_bool (v : vl) : option bool :=
  match v with VN 0%N => Some false | VN _ => Some true | _ => None end.
Definition val_Z (v : vl) : option Z :=
  match v with
  | VL [VN 0%N; VN n] => Some (Z.of_N n)
  | VL [VN _; VN n] => Some (- Z.of_N n)%Z
  | _ => None
  end.

Fixpoint opt_map {A B} (f : A -> option B) (l : list A) : option (list B) :=
  match l with
  | [] => Some []
  | x :: xs => match f x, opt_map f xs with
               | Some y, Some ys => Some (y :: ys)
               | _, _ => None
               end
  end.

Definition val_list {A} (f : vl -> option A) (v : vl) : option (list A) :=
  match v with VL l => opt_map f l | _ => None end.
