(* Lock serialisation (atomic-block reduction), generic.
   Threads run programs = lists of calls.  A call is executed as
       Acquire ; micro-steps on the shared state ; Release
   where the lock is one bit with an owner (parking_lot::Mutex as documented:
   `lock()` blocks until the mutex is free, the guard releases it when dropped).
   A schedule is an arbitrary list of thread ids; `step t` executes thread t's
   next micro-action if it is enabled (Acquire needs the lock free) and stutters
   otherwise.  Threads touch the shared state only between their own Acquire and
   Release — this is what the model of a call is: `micro c` is the list of state
   transformers executed inside the critical section.

   `schedule_serialises`: for EVERY schedule, at every point, the shared state is
   the sequential execution of the calls in lock-acquisition order (`acq`, ghost),
   the last one possibly only partly executed (its owner still holds the lock);
   `acq` restricted to a thread followed by what the thread still has to do is the
   thread's program (program order respected, no call lost or duplicated). *)
From Coq Require Import List Arith Bool Lia.
Import ListNotations.

Section LockSerial.
Variables (St call : Type).
Variable micro : call -> list (St -> St).

Definition run_micro (fs : list (St -> St)) (s : St) : St := fold_left (fun s f => f s) fs s.
Definition seq_call (c : call) (s : St) : St := run_micro (micro c) s.
Definition seq_run (cs : list call) (s : St) : St := fold_left (fun s c => seq_call c s) cs s.

Inductive pc : Type := Idle | Holding (rest : list (St -> St)).
Record thread : Type := { todo : list call; at_pc : pc }.
Record mstate : Type := {
  shared : St;
  owner : option nat;
  threads : nat -> thread;
  acq : list (nat * call)            (* ghost: calls in lock-acquisition order *)
}.

Definition upd (t : nat) (th : thread) (f : nat -> thread) : nat -> thread :=
  fun u => if Nat.eqb u t then th else f u.

Definition step (t : nat) (st : mstate) : mstate :=
  let th := threads st t in
  match at_pc th with
  | Idle =>
    match todo th, owner st with
    | c :: rest, None =>                                  (* lock() succeeds *)
      {| shared := shared st; owner := Some t;
         threads := upd t {| todo := rest; at_pc := Holding (micro c) |} (threads st);
         acq := acq st ++ [(t, c)] |}
    | _, _ => st                                          (* finished, or blocked in lock() *)
    end
  | Holding [] =>                                         (* guard dropped *)
    {| shared := shared st; owner := None;
       threads := upd t {| todo := todo th; at_pc := Idle |} (threads st);
       acq := acq st |}
  | Holding (f :: fs) =>                                  (* one step inside the critical section *)
    {| shared := f (shared st); owner := owner st;
       threads := upd t {| todo := todo th; at_pc := Holding fs |} (threads st);
       acq := acq st |}
  end.

Definition run_sched (sch : list nat) (st : mstate) : mstate :=
  fold_left (fun st t => step t st) sch st.

Definition init (progs : nat -> list call) (s0 : St) : mstate :=
  {| shared := s0; owner := None;
     threads := fun t => {| todo := progs t; at_pc := Idle |};
     acq := [] |}.

Definition proj (t : nat) (l : list (nat * call)) : list call :=
  map snd (filter (fun p => Nat.eqb (fst p) t) l).

Definition all_done (st : mstate) : Prop :=
  forall t, todo (threads st t) = [] /\ at_pc (threads st t) = Idle.

(* order is an interleaving of the programs *)
Definition is_merge (progs : nat -> list call) (order : list (nat * call)) : Prop :=
  forall t, proj t order = progs t.

Lemma run_micro_app : forall a b s, run_micro (a ++ b) s = run_micro b (run_micro a s).
Proof. intros; unfold run_micro; apply fold_left_app. Qed.

Lemma seq_run_snoc : forall cs c s, seq_run (cs ++ [c]) s = seq_call c (seq_run cs s).
Proof. intros; unfold seq_run; rewrite fold_left_app; reflexivity. Qed.

Lemma proj_snoc : forall t l u c,
  proj t (l ++ [(u, c)]) = proj t l ++ (if Nat.eqb u t then [c] else []).
Proof.
  intros; unfold proj. rewrite filter_app, map_app. cbn [filter fst].
  destruct (Nat.eqb u t); reflexivity.
Qed.

Section Inv.
Variable progs : nat -> list call.
Variable s0 : St.

Definition Inv (st : mstate) : Prop :=
  (forall t r, at_pc (threads st t) = Holding r -> owner st = Some t)
  /\ (forall t, proj t (acq st) ++ todo (threads st t) = progs t)
  /\ match owner st with
     | None => shared st = seq_run (map snd (acq st)) s0
     | Some t => exists pre c done rest,
         acq st = pre ++ [(t, c)] /\ at_pc (threads st t) = Holding rest
         /\ micro c = done ++ rest
         /\ shared st = run_micro done (seq_run (map snd pre) s0)
     end.

Lemma init_inv : Inv (init progs s0).
Proof.
  split; [|split]; cbn.
  - intros t r H; discriminate.
  - intros t; reflexivity.
  - reflexivity.
Qed.

Lemma step_inv : forall t st, Inv st -> Inv (step t st).
Proof.
  intros t st HI. pose proof HI as (Hmx & Hpo & Hsh). unfold step.
  destruct (at_pc (threads st t)) as [|rest] eqn:Epc.
  - (* Idle *)
    destruct (todo (threads st t)) as [|c rest'] eqn:Etodo; [exact HI|].
    destruct (owner st) as [o|] eqn:Eo; [exact HI|].
    split; [|split]; cbn [owner threads acq shared].
    + intros u r H. unfold upd in H. destruct (Nat.eqb_spec u t) as [->|Hne]; [reflexivity|].
      apply Hmx in H. discriminate.
    + intros u. rewrite proj_snoc. unfold upd.
      rewrite (Nat.eqb_sym u t).
      destruct (Nat.eqb_spec t u) as [<-|Hne]; cbn [todo].
      * rewrite <- app_assoc. cbn [app]. rewrite <- Etodo. apply Hpo.
      * rewrite app_nil_r. apply Hpo.
    + exists (acq st), c, [], (micro c). unfold upd. rewrite Nat.eqb_refl. cbn [at_pc].
      repeat split. exact Hsh.
  - (* Holding *)
    pose proof (Hmx t rest Epc) as Ho. rewrite Ho in Hsh.
    destruct Hsh as (pre & c & done & rest0 & Hacq & Hat & Hmic & Hshared).
    rewrite Epc in Hat. injection Hat as <-.
    destruct rest as [|f fs].
    + (* release *)
      split; [|split]; cbn [owner threads acq shared].
      * intros u r H. unfold upd in H. destruct (Nat.eqb_spec u t) as [->|Hne]; [discriminate|].
        apply Hmx in H. rewrite Ho in H. injection H as <-. contradiction.
      * intros u. unfold upd. destruct (Nat.eqb_spec u t) as [->|Hne]; cbn [todo]; apply Hpo.
      * rewrite Hacq, map_app. cbn [map snd]. rewrite seq_run_snoc. unfold seq_call.
        rewrite Hmic, app_nil_r. exact Hshared.
    + (* micro-step *)
      split; [|split]; cbn [owner threads acq shared].
      * intros u r H. unfold upd in H. destruct (Nat.eqb_spec u t) as [->|Hne]; [exact Ho|].
        apply Hmx in H. exact H.
      * intros u. unfold upd. destruct (Nat.eqb_spec u t) as [->|Hne]; cbn [todo]; apply Hpo.
      * rewrite Ho. exists pre, c, (done ++ [f]), fs. unfold upd. rewrite Nat.eqb_refl. cbn [at_pc].
        repeat split; [exact Hacq|rewrite <- app_assoc; exact Hmic|].
        rewrite run_micro_app, <- Hshared. reflexivity.
Qed.

Lemma run_sched_inv : forall sch st, Inv st -> Inv (run_sched sch st).
Proof.
  induction sch as [|t sch IH]; intros st H; [exact H|].
  cbn [run_sched fold_left]. apply IH, step_inv, H.
Qed.

Theorem schedule_serialises : forall sch,
  let st := run_sched sch (init progs s0) in
  (forall t, proj t (acq st) ++ todo (threads st t) = progs t)
  /\ match owner st with
     | None => shared st = seq_run (map snd (acq st)) s0
     | Some t => exists pre c done rest,
         acq st = pre ++ [(t, c)] /\ micro c = done ++ rest
         /\ shared st = run_micro done (seq_run (map snd pre) s0)
     end.
Proof.
  intros sch st. destruct (run_sched_inv sch _ init_inv) as (_ & Hpo & Hsh). fold st in Hpo, Hsh.
  split; [exact Hpo|]. destruct (owner st); [|exact Hsh].
  destruct Hsh as (pre & c & done & rest & H1 & _ & H3 & H4). exists pre, c, done, rest. auto.
Qed.

(* when every thread has finished: the shared state is the sequential run of
   all calls in an order that interleaves the threads' programs *)
Theorem quiescent_is_sequential : forall sch,
  let st := run_sched sch (init progs s0) in
  all_done st ->
  is_merge progs (acq st) /\ shared st = seq_run (map snd (acq st)) s0.
Proof.
  intros sch st Hd. destruct (run_sched_inv sch _ init_inv) as (Hmx & Hpo & Hsh). fold st in Hmx, Hpo, Hsh.
  split.
  - intros t. rewrite <- (Hpo t). destruct (Hd t) as (-> & _). rewrite app_nil_r. reflexivity.
  - destruct (owner st) as [t|]; [|exact Hsh].
    destruct Hsh as (_ & _ & _ & rest & _ & Hat & _). destruct (Hd t) as (_ & Hi). congruence.
Qed.

End Inv.
End LockSerial.
