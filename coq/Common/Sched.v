(* A generic interleaving semantics for lock-protected shared state, and the
   atomic-block reduction theorem (DESIGN.md section 3, "Concurrency").

   Threads are programs of micro-steps
        Acquire | Release | Act a
   over ONE lock (a lock bit + owner) and one shared state `S`; `Act a` applies
   `step a` to the shared state.  `run sched st` executes, for each thread id
   of the schedule in turn, that thread's next micro-step if it is enabled:
     Acquire  enabled iff the lock is free       (else the thread stutters)
     Release  enabled iff the caller owns it     (else stutter)
     Act a    always enabled - the semantics does NOT protect the shared state;
              protection comes only from where the program puts its Acts.
   The state also records `acq`, the trace of successful lock acquisitions.

   Threads are indexed by `nat` through a function, so any number of threads is
   covered (finitely many = the others have the empty program).

   Reduction theorem: if every thread's program is a sequence of blocks
   `Acquire; Act a1; ...; Act ak; Release` (all shared accesses inside the
   lock; `well_locked` characterises these programs), then after EVERY schedule
   the shared state equals the sequential execution of the completed blocks in
   lock-acquisition order, followed by a prefix of at most one block (the
   holder's), and the projection of that order onto each thread is a prefix of
   that thread's program (program order preserved, nothing lost/duplicated). *)
From Coq Require Import List Arith Bool Lia.
Import ListNotations.

Section Sched.
  Variable S : Type.           (* shared state *)
  Variable A : Type.           (* shared-state actions *)
  Variable step : A -> S -> S.

  Inductive mstep := Acquire | Release | Act (a : A).

  Definition block := list A.

  Definition compile_block (b : block) : list mstep := Acquire :: map Act b ++ [Release].

  Fixpoint compile (bs : list block) : list mstep :=
    match bs with
    | [] => []
    | b :: r => compile_block b ++ compile r
    end.

  Record state := mkState {
    sh : S;                       (* shared state *)
    lock : option nat;            (* owner of the lock *)
    thr : nat -> list mstep;      (* remaining program of each thread *)
    acq : list nat                (* trace: thread ids in lock-acquisition order *)
  }.

  Definition upd (f : nat -> list mstep) (t : nat) (p : list mstep) : nat -> list mstep :=
    fun j => if Nat.eqb j t then p else f j.

  Definition sstep (t : nat) (st : state) : state :=
    match thr st t with
    | [] => st
    | Acquire :: rest =>
      match lock st with
      | None => mkState (sh st) (Some t) (upd (thr st) t rest) (acq st ++ [t])
      | Some _ => st
      end
    | Release :: rest =>
      match lock st with
      | Some o => if Nat.eqb o t then mkState (sh st) None (upd (thr st) t rest) (acq st) else st
      | None => st
      end
    | Act a :: rest => mkState (step a (sh st)) (lock st) (upd (thr st) t rest) (acq st)
    end.

  Fixpoint run (sched : list nat) (st : state) : state :=
    match sched with
    | [] => st
    | t :: r => run r (sstep t st)
    end.

  Definition init (s0 : S) (progs : nat -> list block) : state :=
    mkState s0 None (fun i => compile (progs i)) [].

  (* sequential execution *)
  Definition exec_acts (l : list A) (s : S) : S := fold_left (fun s a => step a s) l s.
  Definition exec_blocks (bs : list block) (s : S) : S := fold_left (fun s b => exec_acts b s) bs s.

  (* the blocks of thread i inside a global sequence of (thread, block) *)
  Definition proj (i : nat) (done : list (nat * block)) : list block :=
    map snd (filter (fun d => Nat.eqb (fst d) i) done).

  (* "all shared accesses happen between Acquire and Release" for an arbitrary
     micro-step program; `inside` = currently holding the lock *)
  Fixpoint well_locked (inside : bool) (p : list mstep) : bool :=
    match p with
    | [] => negb inside
    | Acquire :: r => negb inside && well_locked true r
    | Release :: r => inside && well_locked false r
    | Act _ :: r => inside && well_locked true r
    end.

  (* The reduction statement for one reachable state. *)
  Definition reduced (progs : nat -> list block) (s0 : S) (st : state) : Prop :=
    exists (done : list (nat * block)) (rem : nat -> list block),
      (forall i, proj i done ++ rem i = progs i) /\
      match lock st with
      | None =>
          acq st = map fst done /\
          sh st = exec_blocks (map snd done) s0 /\
          (forall i, thr st i = compile (rem i))
      | Some t =>
          acq st = map fst done ++ [t] /\
          exists pre post rest,
            rem t = (pre ++ post) :: rest /\
            thr st t = map Act post ++ Release :: compile rest /\
            sh st = exec_acts pre (exec_blocks (map snd done) s0) /\
            (forall i, i <> t -> thr st i = compile (rem i))
      end.

  (* ---------------------------------------------------------------- *)

  Lemma compile_cons : forall b r,
      compile (b :: r) = Acquire :: map Act b ++ Release :: compile r.
  Proof.
    intros b r. cbn [compile]. unfold compile_block. cbn [app].
    rewrite <- app_assoc. reflexivity.
  Qed.

  Lemma compile_head_acquire : forall bs rest,
      compile bs = Acquire :: rest ->
      exists b r, bs = b :: r /\ rest = map Act b ++ Release :: compile r.
  Proof.
    intros [|b r] rest H.
    - discriminate.
    - rewrite compile_cons in H. inversion H. eauto.
  Qed.

  Lemma compile_head_not_act : forall bs a rest, compile bs <> Act a :: rest.
  Proof. intros [|b r] a rest H; [discriminate|]. rewrite compile_cons in H. discriminate. Qed.

  Lemma compile_head_not_release : forall bs rest, compile bs <> Release :: rest.
  Proof. intros [|b r] rest H; [discriminate|]. rewrite compile_cons in H. discriminate. Qed.

  Lemma exec_acts_app : forall l1 l2 s, exec_acts (l1 ++ l2) s = exec_acts l2 (exec_acts l1 s).
  Proof. intros. unfold exec_acts. apply fold_left_app. Qed.

  Lemma exec_blocks_app : forall l1 l2 s, exec_blocks (l1 ++ l2) s = exec_blocks l2 (exec_blocks l1 s).
  Proof. intros. unfold exec_blocks. apply fold_left_app. Qed.

  Lemma proj_app : forall i d1 d2, proj i (d1 ++ d2) = proj i d1 ++ proj i d2.
  Proof. intros. unfold proj. rewrite filter_app, map_app. reflexivity. Qed.

  Lemma upd_same : forall f t p, upd f t p t = p.
  Proof. intros. unfold upd. rewrite Nat.eqb_refl. reflexivity. Qed.

  Lemma upd_other : forall f t p i, i <> t -> upd f t p i = f i.
  Proof. intros. unfold upd. destruct (Nat.eqb_spec i t); [contradiction|reflexivity]. Qed.

  Lemma reduced_init : forall progs s0, reduced progs s0 (init s0 progs).
  Proof.
    intros progs s0. exists [], progs. split; [reflexivity|].
    cbn. repeat split; reflexivity.
  Qed.

  Lemma reduced_step : forall progs s0 t st,
      reduced progs s0 st -> reduced progs s0 (sstep t st).
  Proof.
    intros progs s0 t st Hinv. unfold sstep.
    destruct (thr st t) as [|m rest] eqn:Ht; [exact Hinv|].
    destruct Hinv as (done & rem & Hproj & Hst).
    destruct m as [| |a].
    - (* Acquire *)
      destruct (lock st) as [o|] eqn:Hl.
      + exists done, rem. rewrite Hl. split; assumption.
      + destruct Hst as (Hacq & Hsh & Hthr).
        rewrite Hthr in Ht. apply compile_head_acquire in Ht.
        destruct Ht as (b & r & Hrem & Hrest).
        exists done, rem. split; [exact Hproj|]. cbn [lock acq thr sh].
        split; [rewrite Hacq; reflexivity|].
        exists [], b, r. cbn [app exec_acts fold_left].
        repeat split.
        * exact Hrem.
        * rewrite upd_same. exact Hrest.
        * exact Hsh.
        * intros i Hi. rewrite upd_other by exact Hi. apply Hthr.
    - (* Release *)
      destruct (lock st) as [o|] eqn:Hl.
      + destruct (Nat.eqb_spec o t) as [->|Hne].
        * destruct Hst as (Hacq & pre & post & rest0 & Hrem & Htt & Hsh & Hoth).
          rewrite Htt in Ht.
          destruct post as [|a post]; [|discriminate].
          cbn [map app] in Ht. inversion Ht as [Hrest]. clear Ht.
          rewrite app_nil_r in Hrem.
          exists (done ++ [(t, pre)]), (fun j => if Nat.eqb j t then rest0 else rem j).
          split.
          { intro i. rewrite proj_app. unfold proj at 2. cbn [filter fst]. cbv beta.
            destruct (Nat.eqb_spec i t) as [->|Hit].
            - rewrite Nat.eqb_refl. cbn [map snd]. rewrite <- app_assoc. cbn [app].
              rewrite <- (Hproj t), Hrem. reflexivity.
            - destruct (Nat.eqb_spec t i) as [->|_]; [contradiction|].
              cbn [map]. rewrite app_nil_r. apply Hproj. }
          cbn [lock acq thr sh].
          repeat split.
          { rewrite map_app. cbn [map fst]. exact Hacq. }
          { rewrite map_app, exec_blocks_app. cbn [map snd exec_blocks fold_left]. exact Hsh. }
          { intro i. destruct (Nat.eqb_spec i t) as [->|Hit].
            - rewrite upd_same. reflexivity.
            - rewrite upd_other by exact Hit. apply Hoth. exact Hit. }
        * exists done, rem. rewrite Hl. split; assumption.
      + exists done, rem. rewrite Hl. split; assumption.
    - (* Act *)
      destruct (lock st) as [o|] eqn:Hl.
      + destruct Hst as (Hacq & pre & post & rest0 & Hrem & Htt & Hsh & Hoth).
        destruct (Nat.eq_dec t o) as [->|Hne].
        * rewrite Htt in Ht.
          destruct post as [|a' post]; [discriminate|].
          cbn [map app] in Ht. inversion Ht; subst a' rest. clear Ht.
          exists done, rem. split; [exact Hproj|]. cbn [lock acq thr sh].
          split; [exact Hacq|].
          exists (pre ++ [a]), post, rest0.
          repeat split.
          { rewrite <- app_assoc. exact Hrem. }
          { rewrite upd_same. reflexivity. }
          { rewrite exec_acts_app. cbn [exec_acts fold_left]. rewrite Hsh. reflexivity. }
          { intros i Hi. rewrite upd_other by exact Hi. apply Hoth. exact Hi. }
        * rewrite (Hoth t Hne) in Ht. exfalso. exact (compile_head_not_act _ _ _ Ht).
      + destruct Hst as (_ & _ & Hthr). rewrite Hthr in Ht.
        exfalso. exact (compile_head_not_act _ _ _ Ht).
  Qed.

  Lemma reduced_run : forall progs s0 sched st,
      reduced progs s0 st -> reduced progs s0 (run sched st).
  Proof.
    intros progs s0 sched. induction sched as [|t r IH]; intros st H; cbn [run].
    - exact H.
    - apply IH. apply reduced_step. exact H.
  Qed.

  (* The atomic-block reduction. *)
  Theorem atomic_block_reduction : forall progs s0 sched,
      reduced progs s0 (run sched (init s0 progs)).
  Proof. intros. apply reduced_run. apply reduced_init. Qed.

  (* every well-locked micro-step program is a sequence of blocks *)
  Lemma well_locked_blocks : forall p,
      (well_locked false p = true -> exists bs, p = compile bs) /\
      (well_locked true p = true -> exists b bs, p = map Act b ++ Release :: compile bs).
  Proof.
    induction p as [|m p [IH1 IH2]]; split; intro H; cbn [well_locked] in H.
    - exists []. reflexivity.
    - discriminate.
    - destruct m; cbn [negb andb] in H; try discriminate.
      destruct (IH2 H) as (b & bs & ->). exists (b :: bs). rewrite compile_cons. reflexivity.
    - destruct m; cbn [negb andb] in H; try discriminate.
      + destruct (IH1 H) as (bs & ->). exists [], bs. reflexivity.
      + destruct (IH2 H) as (b & bs & ->). exists (a :: b), bs. reflexivity.
  Qed.

  Lemma well_locked_compile : forall bs, well_locked false (compile bs) = true.
  Proof.
    assert (Hb : forall b r, well_locked false r = true ->
                             well_locked true (map Act b ++ Release :: r) = true).
    { induction b as [|a b IH]; intros r Hr; cbn [map app well_locked andb]; auto. }
    induction bs as [|b r IH]; [reflexivity|].
    rewrite compile_cons. cbn [well_locked negb andb]. apply Hb. exact IH.
  Qed.

  (* Consequences used by clients. *)
  Lemma proj_prefix : forall (progs : nat -> list block) done rem i,
      proj i done ++ rem = progs i ->
      proj i done = firstn (length (proj i done)) (progs i) /\
      rem = skipn (length (proj i done)) (progs i).
  Proof.
    intros progs done rem i H. rewrite <- H. split.
    - rewrite firstn_app, Nat.sub_diag, firstn_all. cbn [firstn]. rewrite app_nil_r. reflexivity.
    - rewrite skipn_app, Nat.sub_diag, skipn_all. reflexivity.
  Qed.

  Lemma in_done_in_prog : forall (progs : nat -> list block) done rem t b,
      (forall i, proj i done ++ rem i = progs i) ->
      In (t, b) done -> In b (progs t).
  Proof.
    intros progs done rem t b H Hin. rewrite <- (H t). apply in_or_app. left.
    unfold proj. apply in_map_iff. exists (t, b). split; [reflexivity|].
    apply filter_In. split; [exact Hin|]. cbn [fst]. apply Nat.eqb_refl.
  Qed.
End Sched.

Arguments Acquire {A}.
Arguments Release {A}.
Arguments Act {A} a.
Arguments mkState {S A}.
Arguments sh {S A}.
Arguments lock {S A}.
Arguments thr {S A}.
Arguments acq {S A}.
Arguments compile {A}.
Arguments compile_block {A}.
Arguments proj {A}.
Arguments init {S A}.
Arguments well_locked {A}.
