(* C14 — non-vacuity: a concrete logical configuration, a concrete rendering of it (keys out of
   schema order, defaults omitted or null, `kind` of the policy omitted, size written as "1 kb",
   level names in mixed case, a filter carrying an extra key) and the proof that it IS a rendering
   and that the configuration is well-formed, so the round-trip theorem applies to it. *)
From Coq Require Import List NArith ZArith Bool Lia.
Import ListNotations.
From L4 Require Import Common.Str Model.DocTree Model.Literals Model.ConfigBuild Model.Schema
  Proofs.ConfigBuild Proofs.Schema Proofs.SchemaRender.
Local Open Scope N_scope.

Definition S30S : str := [51;48;32;115;101;99;111;110;100;115].   (* 30 seconds *)
Definition F1 : str := [102;49].   (* f1 *)
Definition R1 : str := [114;49].   (* r1 *)
Definition PATH1 : str := [47;116;109;112;47;102;49;46;108;111;103].   (* /tmp/f1.log *)
Definition PATH2 : str := [47;116;109;112;47;114;49;46;108;111;103].   (* /tmp/r1.log *)
Definition PAT1 : str := [123;108;125;32;123;116;125;32;123;109;125;123;110;125].   (* {l} {t} {m}{n} *)
Definition ROLLPAT : str := [47;116;109;112;47;114;49;46;123;125;46;108;111;103].   (* /tmp/r1.{}.log *)
Definition APPX : str := [97;112;112;58;58;120].   (* app::x *)
Definition WARN_MIXED : str := [87;97;82;110].   (* WaRn *)
Definition INFO_UP : str := [73;78;70;79].   (* INFO *)
Definition XTRA : str := [101;120;116;114;97].   (* extra *)
Definition ONEKB : str := [49;32;107;98].   (* 1 kb *)

Definition ex_env : env :=
  {| e_time := fun _ _ _ _ => Ok tt; e_fs := fun _ => true;
     e_dur := fun s => if str_eqb s S30S then Some (30, 0) else None |}.

Definition ex_f1 : lappender :=
  {| a_name := F1; a_filters := [3]; a_comp := AFile PATH1 true (EPattern PAT1) |}.
Definition ex_r1 : lappender :=
  {| a_name := R1; a_filters := [];
     a_comp := ARolling PATH2 false (EPattern default_pattern)
                 (PCompound (TSize 1024) (RFixedWindow ROLLPAT 0 2)) |}.
Definition ex_logger : logger := {| lname := APPX; llevel := 2; lapps := [F1]; ladditive := true |}.

Definition ex_lc : lconfig :=
  {| lc_refresh := Some (S30S, (30, 0)); lc_root_level := 4; lc_root_apps := [F1; R1];
     lc_appenders := [ex_f1; ex_r1]; lc_loggers := [ex_logger] |}.

Definition ex_doc : dmap :=
  [ (k_loggers, DMap [ (APPX, DMap [ (k_appenders, DSeq [DStr F1]); (k_level, DStr WARN_MIXED) ]) ]);
    (k_appenders, DMap [
       (F1, DMap [ (k_filters, DSeq [ DMap [ (k_level, DStr INFO_UP); (XTRA, DInt 1); (k_kind, DStr s_threshold) ] ]);
                   (k_path, DStr PATH1);
                   (k_encoder, DMap [ (k_pattern, DStr PAT1) ]);
                   (k_kind, DStr s_file) ]);
       (R1, DMap [ (k_policy, DMap [ (k_roller, DMap [ (k_count, DInt 2); (k_pattern, DStr ROLLPAT);
                                                         (k_kind, DStr s_fixed_window); (k_base, DNull) ]);
                                      (k_trigger, DMap [ (k_limit, DStr ONEKB); (k_kind, DStr s_size) ]) ]);
                   (k_kind, DStr s_rolling_file);
                   (k_append, DBool false);
                   (k_encoder, DNull);
                   (k_path, DStr PATH2) ]) ]);
    (k_refresh_rate, DStr S30S);
    (k_root, DMap [ (k_appenders, DSeq [DStr F1; DStr R1]) ]) ].

Ltac sec :=
  split; [ repeat constructor; cbn; intuition discriminate
         | let k := fresh in let H := fresh in intros k H; cbn in H; cbn; intuition ].

Lemma ex_wf : wf_lconfig ex_env ex_lc.
Proof.
  split.
  - repeat constructor.
  - reflexivity.
Qed.

Lemma ex_renders : renders_doc ex_lc ex_doc.
Proof.
  split; [sec|]. split; [reflexivity|]. split; [|split].
  - right. eexists. split; [reflexivity|]. split; [sec|]. split.
    + left. reflexivity.
    + eexists. split; reflexivity.
  - right. eexists. split; [reflexivity|]. split; [repeat constructor; cbn; intuition discriminate|].
    constructor; [|constructor; [|constructor]].
    + split; [reflexivity|]. eexists. split; [reflexivity|]. split.
      * cbn [a_comp ex_f1 renders_comp]. split; [sec|]. split; [reflexivity|]. split; [eexists; split; reflexivity|].
        split; [left; reflexivity|].
        right. eexists. split; [reflexivity|]. cbn [renders_encoder]. split; [sec|]. split; [right; split; reflexivity|].
        eexists. split; reflexivity.
      * right. eexists. split; [reflexivity|]. constructor; [|constructor].
        eexists. split; [reflexivity|]. split; [repeat constructor; cbn; intuition discriminate|].
        split; [reflexivity|]. eexists. split; [reflexivity|]. eexists. split; [reflexivity|]. vm_compute. reflexivity.
    + split; [reflexivity|]. eexists. split; [reflexivity|]. split.
      * cbn [a_comp ex_r1 renders_comp]. split; [sec|]. split; [reflexivity|]. split; [eexists; split; reflexivity|].
        split; [eexists; split; reflexivity|]. split; [left; split; [reflexivity|right; reflexivity]|].
        eexists. split; [reflexivity|]. cbn [renders_policy]. split; [sec|]. split; [right; split; reflexivity|].
        split.
        -- eexists. split; [reflexivity|]. cbn [renders_trigger]. split; [sec|]. split; [left; reflexivity|].
           eexists. split; [reflexivity|]. eexists. split; [reflexivity|]. vm_compute. reflexivity.
        -- eexists. split; [reflexivity|]. cbn [renders_roller]. split; [sec|]. split; [left; reflexivity|].
           split; [eexists; split; reflexivity|]. split; [right; left; reflexivity|]. eexists; split; reflexivity.
      * left. split; reflexivity.
  - right. eexists. split; [reflexivity|]. split; [repeat constructor; cbn; intuition discriminate|].
    constructor; [|constructor].
    split; [reflexivity|]. eexists. split; [reflexivity|]. split; [sec|].
    split; [eexists; split; [reflexivity|]; eexists; split; [reflexivity|vm_compute; reflexivity]|].
    split; [eexists; split; reflexivity|]. left. reflexivity.
Qed.

(* unknown-key instances: the document above with a stray key in the roller section *)
Definition ex_bad_roller_cfg : dmap :=
  [ (k_policy, DMap [ (k_roller, DMap [ (k_count, DInt 2); (XTRA, DInt 1); (k_pattern, DStr ROLLPAT);
                                         (k_kind, DStr s_fixed_window) ]);
                      (k_trigger, DMap [ (k_limit, DStr ONEKB); (k_kind, DStr s_size) ]) ]);
    (k_path, DStr PATH2) ].

Lemma ex_bad_roller_unknown :
  exists pm rm, get k_policy ex_bad_roller_cfg = Some (DMap pm) /\
                get k_roller (remove k_kind pm) = Some (DMap rm) /\
                kind_of None rm = Some s_fixed_window /\
                has_unknown (roller_keys s_fixed_window) (remove k_kind rm).
Proof.
  eexists. eexists. split; [reflexivity|]. split; [reflexivity|]. split; [reflexivity|].
  exists XTRA. split; [cbn; tauto|]. cbn. intuition discriminate.
Qed.
