(* C07 — archive names are pairwise distinct: for a pattern that contains "{}",
   pattern.replace("{}", i.to_string()) is injective in i.  This discharges the
   `names_injective` hypothesis of the window theorems for every pattern without
   $ENV references (with references the harness checks distinctness per case). *)
From Coq Require Import List NArith Bool Lia DecimalN.
Import ListNotations.
From L4 Require Import Model.Subst Proofs.Window.
Local Open Scope N_scope.

(* ---- decimal rendering is injective ---- *)
Lemma uint_bytes_inj : forall u v, uint_bytes u = uint_bytes v -> u = v.
Proof.
  induction u as [|u IH|u IH|u IH|u IH|u IH|u IH|u IH|u IH|u IH|u IH];
    intros v H; destruct v; cbn in H; try discriminate H; try reflexivity;
    injection H as H; f_equal; apply IH; exact H.
Qed.

Lemma dec_inj : forall i j, dec i = dec j -> i = j.
Proof.
  intros i j H. apply Unsigned.to_uint_inj. apply uint_bytes_inj. exact H.
Qed.

(* ---- occurrences of "{}" (non-overlapping, left to right, as str::replace) ---- *)
Fixpoint occ (pat : list N) : nat :=
  match pat with
  | [] => O
  | a :: t =>
    match t with
    | c :: rest => if (a =? 123) && (c =? 125) then S (occ rest) else occ t
    | [] => O
    end
  end.

Lemma occ_cons2 a c rest :
  occ (a :: c :: rest) = if (a =? 123) && (c =? 125) then S (occ rest) else occ (c :: rest).
Proof. reflexivity. Qed.
Lemma subst_cons2 a c rest d :
  subst (a :: c :: rest) d = if (a =? 123) && (c =? 125) then d ++ subst rest d else a :: subst (c :: rest) d.
Proof. reflexivity. Qed.

(* length pat + k * |d| = |subst pat d| + 2 k *)
Lemma subst_length_gen : forall n pat d, (length pat <= n)%nat ->
  (length (subst pat d) + 2 * occ pat = length pat + occ pat * length d)%nat.
Proof.
  induction n as [|n IH]; intros pat d Hn.
  - destruct pat; [reflexivity|cbn in Hn; lia].
  - destruct pat as [|a [|c rest]]; [reflexivity|reflexivity|].
    rewrite occ_cons2, subst_cons2.
    destruct ((a =? 123) && (c =? 125)) eqn:E.
    + rewrite app_length. cbn [length] in *.
      specialize (IH rest d ltac:(lia)). lia.
    + specialize (IH (c :: rest) d ltac:(cbn [length] in *; lia)).
      cbn [length] in *. lia.
Qed.

Lemma subst_length pat d :
  (length (subst pat d) + 2 * occ pat = length pat + occ pat * length d)%nat.
Proof. apply (subst_length_gen (length pat)). lia. Qed.

(* same-length replacements that differ give different results *)
Lemma app_same_length_inj {A} (x y u v : list A) :
  length x = length y -> x ++ u = y ++ v -> x = y.
Proof.
  revert y. induction x as [|a x IH]; intros [|b y] Hl H; cbn in *; try discriminate; try reflexivity.
  injection H as -> H. f_equal. apply IH; [lia|exact H].
Qed.

Lemma subst_inj_same_length_gen : forall n pat d e, (length pat <= n)%nat ->
  occ pat <> O -> length d = length e -> subst pat d = subst pat e -> d = e.
Proof.
  induction n as [|n IH]; intros pat d e Hn Ho Hl H.
  - destruct pat; [cbn in Ho; congruence|cbn in Hn; lia].
  - destruct pat as [|a [|c rest]]; [cbn in Ho; congruence|cbn in Ho; congruence|].
    rewrite occ_cons2 in Ho. rewrite !subst_cons2 in H.
    destruct ((a =? 123) && (c =? 125)) eqn:E.
    + eapply app_same_length_inj; eassumption.
    + injection H as H. apply (IH (c :: rest)); [cbn [length] in *; lia|exact Ho|exact Hl|exact H].
Qed.

Theorem subst_injective : forall pat i j,
  occ pat <> O -> subst_index pat i = subst_index pat j -> i = j.
Proof.
  intros pat i j Ho H. unfold subst_index in H.
  apply dec_inj.
  assert (Hl : length (dec i) = length (dec j)).
  { pose proof (subst_length pat (dec i)) as A. pose proof (subst_length pat (dec j)) as B.
    rewrite H in A.
    assert (occ pat * length (dec i) = occ pat * length (dec j))%nat as M by lia.
    apply PeanoNat.Nat.mul_cancel_l in M; [exact M|exact Ho]. }
  eapply subst_inj_same_length_gen; [apply PeanoNat.Nat.le_refl|exact Ho|exact Hl|exact H].
Qed.

(* "contains {}" as the code's `pattern.contains("{}")` — equivalent to occ <> 0 *)
Fixpoint contains_braces (pat : list N) : bool :=
  match pat with
  | [] => false
  | a :: t =>
    match t with
    | c :: _ => ((a =? 123) && (c =? 125)) || contains_braces t
    | [] => false
    end
  end.

Lemma contains_occ_gen : forall n pat, (length pat <= n)%nat ->
  contains_braces pat = true -> occ pat <> O.
Proof.
  induction n as [|n IH]; intros pat Hn H.
  - destruct pat; [discriminate H|cbn in Hn; lia].
  - destruct pat as [|a [|c rest]]; [discriminate H|discriminate H|].
    cbn [contains_braces occ] in *.
    destruct ((a =? 123) && (c =? 125)) eqn:E; [discriminate|].
    cbn [orb] in H. apply (IH (c :: rest)); [cbn [length] in *; lia|exact H].
Qed.

Lemma contains_occ pat : contains_braces pat = true -> occ pat <> O.
Proof. apply (contains_occ_gen (length pat)). lia. Qed.

(* without $ENV references archive_name is subst_index *)
Lemma archive_name_noenv pat i : archive_name [] pat i = subst_index pat i.
Proof. reflexivity. Qed.

Theorem archive_names_distinct : forall pat i j,
  contains_braces pat = true -> archive_name [] pat i = archive_name [] pat j -> i = j.
Proof.
  intros pat i j Hc H. rewrite !archive_name_noenv in H.
  eapply subst_injective; [apply contains_occ; exact Hc|exact H].
Qed.

Theorem pattern_names_injective : forall (pat : list N) (b c : N),
  contains_braces pat = true -> names_injective (archive_name [] pat) b c.
Proof.
  intros pat b c Hc i j _ _ H.
  apply archive_names_distinct in H; [|exact Hc]. lia.
Qed.
