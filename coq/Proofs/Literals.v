From Coq Require Import List NArith ZArith Bool Lia.
Import ListNotations.
From L4 Require Import Model.Literals.
Local Open Scope N_scope.

(* ================= spec vocabulary ================= *)

Definition all_digits (ds : ustr) : Prop := forallb is_digit ds = true.
Definition all_ws (w : ustr) : Prop := forallb is_ws w = true.
(* u is a spelling of the lower-case literal lit in some letter case *)
Definition spells (u lit : ustr) : Prop := map lower u = lit.
Definition letters (lit : ustr) : Prop := lit <> [] /\ Forall (fun x => 97 <= x <= 122) lit.

Definition size_units : list (ustr * N) :=
  [(s_b, 1); (s_kb, 1024); (s_kib, 1024); (s_mb, 1048576); (s_mib, 1048576);
   (s_gb, 1073741824); (s_gib, 1073741824); (s_tb, 1099511627776); (s_tib, 1099511627776)].

Definition interval_units : list (ustr * iunit) :=
  [(w_second, Second); (plural w_second, Second); (w_minute, Minute); (plural w_minute, Minute);
   (w_hour, Hour); (plural w_hour, Hour); (w_day, Day); (plural w_day, Day);
   (w_week, Week); (plural w_week, Week); (w_month, Month); (plural w_month, Month);
   (w_year, Year); (plural w_year, Year)].

(* ================= string lemmas ================= *)

Lemma ustr_eqb_spec a b : reflect (a = b) (ustr_eqb a b).
Proof.
  revert b; induction a as [|x a IH]; intros [|y b]; cbn; try (constructor; congruence).
  destruct (N.eqb_spec x y) as [->|Hne]; cbn.
  - destruct (IH b) as [->|Hne]; constructor; congruence.
  - constructor; congruence.
Qed.

Lemma span_digits_app ds rest :
  all_digits ds -> (match rest with [] => True | c :: _ => is_digit c = false end) ->
  span_digits (ds ++ rest) = (ds, rest).
Proof.
  unfold all_digits. induction ds as [|d ds IH]; cbn; intros Hd Hr.
  - destruct rest as [|c r]; [reflexivity|]. cbn. now rewrite Hr.
  - apply andb_true_iff in Hd. destruct Hd as [Hd1 Hd2]. rewrite Hd1, (IH Hd2 Hr). reflexivity.
Qed.

Lemma span_digits_nodigit s :
  (match s with [] => True | c :: _ => is_digit c = false end) -> span_digits s = ([], s).
Proof. destruct s as [|c r]; cbn; [reflexivity|]. intros ->. reflexivity. Qed.

Lemma drop_ws_app w s : all_ws w -> drop_ws (w ++ s) = drop_ws s.
Proof.
  unfold all_ws. induction w as [|c w IH]; cbn; [reflexivity|].
  intros H. apply andb_true_iff in H. destruct H as [H1 H2]. now rewrite H1, IH.
Qed.

Lemma drop_ws_id s : (match s with [] => True | c :: _ => is_ws c = false end) -> drop_ws s = s.
Proof. destruct s as [|c r]; cbn; [reflexivity|]. intros ->. reflexivity. Qed.

Lemma all_ws_rev w : all_ws w -> all_ws (rev w).
Proof.
  unfold all_ws. rewrite !forallb_forall. intros H x Hx. apply H. now apply in_rev.
Qed.

(* trimming removes exactly the surrounding white space of a word whose first and
   last characters are not white space *)
Lemma trim_spec w u w' :
  all_ws w -> all_ws w' -> u <> [] ->
  is_ws (hd 0 u) = false -> is_ws (last u 0) = false ->
  trim (w ++ u ++ w') = u.
Proof.
  intros Hw Hw' Hu Hh Hl. unfold trim.
  rewrite drop_ws_app by exact Hw.
  rewrite (drop_ws_id (u ++ w')).
  2:{ destruct u as [|c r]; [congruence|]. exact Hh. }
  rewrite rev_app_distr, drop_ws_app by (now apply all_ws_rev).
  rewrite drop_ws_id; [apply rev_involutive|].
  destruct (exists_last Hu) as (u' & x & ->).
  rewrite last_last in Hl. rewrite rev_app_distr. cbn. exact Hl.
Qed.

Lemma trim_all_ws w : all_ws w -> trim w = [].
Proof.
  intros Hw. unfold trim. replace w with (w ++ []) by apply app_nil_r.
  rewrite drop_ws_app by exact Hw. reflexivity.
Qed.

Ltac decide_cmp :=
  repeat match goal with
         | |- context [?a <=? ?b] =>
           first [ replace (a <=? b) with false by (symmetry; apply N.leb_gt; lia)
                 | replace (a <=? b) with true by (symmetry; apply N.leb_le; lia) ]
         | |- context [?a =? ?b] =>
           replace (a =? b) with false by (symmetry; apply N.eqb_neq; lia)
         end.

(* a character that lower-cases to a lower-case letter is a letter: neither a digit
   nor white space *)
Lemma lower_letter c : 97 <= lower c <= 122 -> is_ws c = false /\ is_digit c = false.
Proof.
  intros Hx.
  assert (Hr : 65 <= c <= 122).
  { unfold lower in Hx. destruct (N.leb_spec 65 c), (N.leb_spec c 90); cbn [andb] in Hx; lia. }
  unfold is_ws, is_digit. split; decide_cmp; reflexivity.
Qed.

Lemma ws_not_digit c : is_ws c = true -> is_digit c = false.
Proof.
  intros Hw. destruct (is_digit c) eqn:Hd; [|reflexivity]. exfalso.
  unfold is_digit in Hd. apply andb_true_iff in Hd. destruct Hd as [H1 H2].
  apply N.leb_le in H1. apply N.leb_le in H2.
  revert Hw. unfold is_ws. decide_cmp. cbn. discriminate.
Qed.

Lemma spells_hd u lit : spells u lit -> letters lit ->
  u <> [] /\ is_ws (hd 0 u) = false /\ is_digit (hd 0 u) = false /\ is_ws (last u 0) = false.
Proof.
  unfold spells, letters. intros Hs [Hne Hl]. subst lit.
  destruct u as [|c r]; [cbn in Hne; congruence|].
  split; [discriminate|].
  rewrite Forall_forall in Hl.
  assert (Hc : forall x, In x (c :: r) -> is_ws x = false /\ is_digit x = false).
  { intros x Hx. apply lower_letter. apply Hl. now apply in_map. }
  destruct (Hc c (or_introl eq_refl)) as [H1 H2].
  repeat split; try assumption.
  destruct (@exists_last _ (c :: r)) as (u' & x & E); [discriminate|].
  rewrite E, last_last. apply Hc. rewrite E. apply in_or_app. right. now left.
Qed.

(* ================= units ================= *)

Lemma eq_ic_spells u lit : eq_ic u lit = true <-> spells u lit.
Proof. unfold eq_ic, spells. destruct (ustr_eqb_spec (map lower u) lit); split; congruence. Qed.

Definition size_unit' (l : ustr) : option N :=
  if ustr_eqb l s_b then Some 1
  else if ustr_eqb l s_kb || ustr_eqb l s_kib then Some 1024
  else if ustr_eqb l s_mb || ustr_eqb l s_mib then Some 1048576
  else if ustr_eqb l s_gb || ustr_eqb l s_gib then Some 1073741824
  else if ustr_eqb l s_tb || ustr_eqb l s_tib then Some 1099511627776
  else None.

Lemma size_unit_lower u : size_unit u = size_unit' (map lower u).
Proof. reflexivity. Qed.

Lemma size_unit_listed lit m : In (lit, m) size_units -> size_unit' lit = Some m.
Proof.
  cbn. intros H.
  repeat (destruct H as [H|H]; [injection H as <- <-; vm_compute; reflexivity|]).
  contradiction.
Qed.

Lemma size_unit_only l m : size_unit' l = Some m -> In (l, m) size_units.
Proof.
  unfold size_unit'.
  repeat match goal with
         | |- context [ustr_eqb l ?s] => destruct (ustr_eqb_spec l s) as [->|?]; cbn [orb]
         end; intros H; try discriminate; injection H as <-; cbn; tauto.
Qed.

Definition interval_unit' (l : ustr) : option iunit :=
  if ustr_eqb l w_second || ustr_eqb l (plural w_second) then Some Second
  else if ustr_eqb l w_minute || ustr_eqb l (plural w_minute) then Some Minute
  else if ustr_eqb l w_hour || ustr_eqb l (plural w_hour) then Some Hour
  else if ustr_eqb l w_day || ustr_eqb l (plural w_day) then Some Day
  else if ustr_eqb l w_week || ustr_eqb l (plural w_week) then Some Week
  else if ustr_eqb l w_month || ustr_eqb l (plural w_month) then Some Month
  else if ustr_eqb l w_year || ustr_eqb l (plural w_year) then Some Year
  else None.

Lemma interval_unit_lower u : interval_unit u = interval_unit' (map lower u).
Proof. reflexivity. Qed.

Lemma interval_unit_listed lit m : In (lit, m) interval_units -> interval_unit' lit = Some m.
Proof.
  cbn. intros H.
  repeat (destruct H as [H|H]; [injection H as <- <-; vm_compute; reflexivity|]).
  contradiction.
Qed.

Lemma interval_unit_only l m : interval_unit' l = Some m -> In (l, m) interval_units.
Proof.
  unfold interval_unit'.
  repeat match goal with
         | |- context [ustr_eqb l ?s] => destruct (ustr_eqb_spec l s) as [->|?]; cbn [orb]
         end; intros H; try discriminate; injection H as <-; cbn; tauto.
Qed.

Lemma size_units_letters lit m : In (lit, m) size_units -> letters lit.
Proof.
  cbn. intros H.
  repeat (destruct H as [H|H]; [injection H as <- <-; split; [discriminate|repeat constructor; lia]|]).
  contradiction.
Qed.

Lemma interval_units_letters lit m : In (lit, m) interval_units -> letters lit.
Proof.
  cbn. intros H.
  repeat (destruct H as [H|H]; [injection H as <- <-; split; [discriminate|repeat constructor; lia]|]).
  contradiction.
Qed.

(* ================= main theorems ================= *)

Lemma rest_shape w u w' lit : spells u lit -> letters lit -> all_ws w ->
  w ++ u ++ w' <> [] /\
  (match w ++ u ++ w' with [] => True | c :: _ => is_digit c = false end).
Proof.
  intros Hs Hl Hw.
  destruct (spells_hd u lit Hs Hl) as (Hu & Hws & Hdg & Hlast).
  assert (Hne : w ++ u ++ w' <> []).
  { destruct w; [|discriminate]. destruct u; [congruence|discriminate]. }
  split; [exact Hne|].
  - destruct w as [|c w0]; cbn.
    + destruct u as [|c u0]; [congruence|]. exact Hdg.
    + unfold all_ws in Hw. cbn in Hw. apply andb_true_iff in Hw. destruct Hw as [Hc _].
      now apply ws_not_digit.
Qed.

Theorem size_str_exact ds w u w' lit m :
  ds <> [] -> all_digits ds -> all_ws w -> all_ws w' ->
  In (lit, m) size_units -> spells u lit ->
  parse_size_str (ds ++ w ++ u ++ w') =
  if digits_value ds <? two64
  then (if digits_value ds * m <? two64 then Some (digits_value ds * m) else None)
  else None.
Proof.
  intros Hne Hd Hw Hw' Hin Hs.
  assert (Hl := size_units_letters _ _ Hin).
  destruct (rest_shape w u w' lit Hs Hl Hw) as (Hr1 & Hr2).
  destruct (spells_hd u lit Hs Hl) as (Hu & Hws & _ & Hlast).
  unfold parse_size_str. rewrite (span_digits_app ds _ Hd Hr2). cbv beta iota.
  unfold parse_bounded. destruct ds as [|d0 ds0]; [congruence|].
  destruct (digits_value (d0 :: ds0) <? two64); [|reflexivity].
  destruct (w ++ u ++ w') eqn:E; [congruence|]. rewrite <- E.
  assert (Ht := trim_spec w u w' Hw Hw' Hu Hws Hlast). unfold ustr, chr in *. rewrite Ht.
  rewrite size_unit_lower. unfold spells in Hs. rewrite Hs.
  rewrite (size_unit_listed _ _ Hin). reflexivity.
Qed.

Theorem size_str_bare ds :
  ds <> [] -> all_digits ds ->
  parse_size_str ds = if digits_value ds <? two64 then Some (digits_value ds) else None.
Proof.
  intros Hne Hd. unfold parse_size_str.
  replace ds with (ds ++ []) at 1 by apply app_nil_r.
  rewrite (span_digits_app ds [] Hd I).
  unfold parse_bounded. destruct ds; [congruence|].
  destruct (_ <? two64); reflexivity.
Qed.

(* anything not starting with a digit — "", "-5", "+5", " 5", ".5" — is rejected *)
Theorem size_str_rejects_no_digit s :
  (match s with [] => True | c :: _ => is_digit c = false end) -> parse_size_str s = None.
Proof. intros H. unfold parse_size_str. rewrite (span_digits_nodigit s H). reflexivity. Qed.

(* digits followed by anything whose trimmed form is not a unit spelling: rejected
   (covers unknown units, fractional tails such as ".5kb", trailing blanks alone) *)
Theorem size_str_rejects_unknown_unit ds rest :
  all_digits ds -> rest <> [] ->
  (match rest with [] => True | c :: _ => is_digit c = false end) ->
  (forall lit m, In (lit, m) size_units -> ~ spells (trim rest) lit) ->
  parse_size_str (ds ++ rest) = None.
Proof.
  intros Hd Hne Hr Hno. unfold parse_size_str. rewrite (span_digits_app ds rest Hd Hr).
  destruct (parse_bounded two64 ds); [|reflexivity].
  destruct rest; [congruence|].
  rewrite size_unit_lower.
  destruct (size_unit' (map lower (trim (c :: rest)))) eqn:E; [|reflexivity].
  apply size_unit_only in E. exfalso. apply (Hno _ _ E). reflexivity.
Qed.

Theorem size_str_rejects_overflow ds rest :
  all_digits ds ->
  (match rest with [] => True | c :: _ => is_digit c = false end) ->
  two64 <= digits_value ds -> parse_size_str (ds ++ rest) = None.
Proof.
  intros Hd Hr Hov. unfold parse_size_str. rewrite (span_digits_app ds rest Hd Hr).
  unfold parse_bounded. destruct ds; [reflexivity|].
  destruct (N.ltb_spec (digits_value (c :: ds)) two64); [lia|reflexivity].
Qed.

Theorem interval_str_exact ds w u w' lit iu :
  ds <> [] -> all_digits ds -> all_ws w -> all_ws w' ->
  In (lit, iu) interval_units -> spells u lit ->
  parse_interval_str (ds ++ w ++ u ++ w') =
  if digits_value ds <? two63 then Some (iu, digits_value ds) else None.
Proof.
  intros Hne Hd Hw Hw' Hin Hs.
  assert (Hl := interval_units_letters _ _ Hin).
  destruct (rest_shape w u w' lit Hs Hl Hw) as (Hr1 & Hr2).
  destruct (spells_hd u lit Hs Hl) as (Hu & Hws & _ & Hlast).
  unfold parse_interval_str. rewrite (span_digits_app ds _ Hd Hr2). cbv beta iota.
  unfold parse_bounded. destruct ds as [|d0 ds0]; [congruence|].
  destruct (digits_value (d0 :: ds0) <? two63); [|reflexivity].
  destruct (w ++ u ++ w') eqn:E; [congruence|]. rewrite <- E.
  assert (Ht := trim_spec w u w' Hw Hw' Hu Hws Hlast). unfold ustr, chr in *. rewrite Ht.
  rewrite interval_unit_lower. unfold spells in Hs. rewrite Hs.
  rewrite (interval_unit_listed _ _ Hin). reflexivity.
Qed.

Theorem interval_str_bare ds :
  ds <> [] -> all_digits ds ->
  parse_interval_str ds = if digits_value ds <? two63 then Some (Second, digits_value ds) else None.
Proof.
  intros Hne Hd. unfold parse_interval_str.
  replace ds with (ds ++ []) at 1 by apply app_nil_r.
  rewrite (span_digits_app ds [] Hd I).
  unfold parse_bounded. destruct ds; [congruence|].
  destruct (_ <? two63); reflexivity.
Qed.

Theorem interval_str_rejects_no_digit s :
  (match s with [] => True | c :: _ => is_digit c = false end) -> parse_interval_str s = None.
Proof. intros H. unfold parse_interval_str. rewrite (span_digits_nodigit s H). reflexivity. Qed.

Theorem interval_str_rejects_unknown_unit ds rest :
  all_digits ds -> rest <> [] ->
  (match rest with [] => True | c :: _ => is_digit c = false end) ->
  (forall lit iu, In (lit, iu) interval_units -> ~ spells (trim rest) lit) ->
  parse_interval_str (ds ++ rest) = None.
Proof.
  intros Hd Hne Hr Hno. unfold parse_interval_str. rewrite (span_digits_app ds rest Hd Hr).
  destruct (parse_bounded two63 ds); [|reflexivity].
  destruct rest; [congruence|].
  rewrite interval_unit_lower.
  destruct (interval_unit' (map lower (trim (c :: rest)))) eqn:E; [|reflexivity].
  apply interval_unit_only in E. exfalso. apply (Hno _ _ E). reflexivity.
Qed.

Theorem interval_str_rejects_overflow ds rest :
  all_digits ds ->
  (match rest with [] => True | c :: _ => is_digit c = false end) ->
  two63 <= digits_value ds -> parse_interval_str (ds ++ rest) = None.
Proof.
  intros Hd Hr Hov. unfold parse_interval_str. rewrite (span_digits_app ds rest Hd Hr).
  unfold parse_bounded. destruct ds; [reflexivity|].
  destruct (N.ltb_spec (digits_value (c :: ds)) two63); [lia|reflexivity].
Qed.

(* integer and float scalar forms *)
Theorem size_int_exact z :
  parse_size (SInt z) = if ((0 <=? z) && (z <? Z.of_N two64))%Z then Some (Z.to_N z) else None.
Proof. reflexivity. Qed.

Theorem interval_int_exact z :
  parse_interval (SInt z) =
  if ((0 <=? z) && (z <? Z.of_N two63))%Z then Some (Second, Z.to_N z) else None.
Proof. reflexivity. Qed.

(* results always fit: never a wrapped value *)
Theorem size_result_in_range sc n : parse_size sc = Some n -> n < two64.
Proof.
  destruct sc as [z| |s]; unfold parse_size.
  - destruct ((0 <=? z)%Z && (z <? Z.of_N two64)%Z) eqn:Hc; [|discriminate].
    apply andb_true_iff in Hc. destruct Hc as [H1 H2].
    apply Z.leb_le in H1. apply Z.ltb_lt in H2.
    intros Hq. assert (n = Z.to_N z) by congruence. subst n. lia.
  - discriminate.
  - unfold parse_size_str. destruct (span_digits s) as [ds rest].
    unfold parse_bounded. destruct ds as [|d ds]; [discriminate|].
    destruct (N.ltb_spec (digits_value (d :: ds)) two64); [|discriminate].
    destruct rest.
    + intros Hq. assert (n = digits_value (d :: ds)) by congruence. subst n. assumption.
    + destruct (size_unit _) as [m|]; [|discriminate]. unfold checked_mul64.
      destruct (N.ltb_spec (digits_value (d :: ds) * m) two64); [|discriminate].
      intros Hq. assert (n = digits_value (d :: ds) * m) by congruence. subst n. assumption.
Qed.

Theorem interval_result_in_range sc u n : parse_interval sc = Some (u, n) -> n < two63.
Proof.
  destruct sc as [z| |s]; unfold parse_interval.
  - destruct ((0 <=? z)%Z && (z <? Z.of_N two63)%Z) eqn:Hc; [|discriminate].
    apply andb_true_iff in Hc. destruct Hc as [H1 H2].
    apply Z.leb_le in H1. apply Z.ltb_lt in H2.
    intros Hq. assert (n = Z.to_N z) by congruence. subst n. lia.
  - discriminate.
  - unfold parse_interval_str. destruct (span_digits s) as [ds rest].
    unfold parse_bounded. destruct ds as [|d ds]; [discriminate|].
    destruct (N.ltb_spec (digits_value (d :: ds)) two63); [|discriminate].
    destruct rest.
    + intros Hq. assert (n = digits_value (d :: ds)) by congruence. subst n. assumption.
    + destruct (interval_unit _) as [iu|]; [|discriminate].
      intros Hq. assert (n = digits_value (d :: ds)) by congruence. subst n. assumption.
Qed.
(* ================= tails that begin with a non-letter ================= *)

Lemma drop_ws_snoc l c : is_ws c = false -> exists l', drop_ws (l ++ [c]) = l' ++ [c].
Proof.
  intros Hc. induction l as [|x l IH]; cbn.
  - exists []. now rewrite Hc.
  - destruct (is_ws x); [exact IH|]. exists (x :: l). reflexivity.
Qed.

Lemma trim_hd c rest : is_ws c = false -> exists t, trim (c :: rest) = c :: t.
Proof.
  intros Hc. unfold trim. rewrite (drop_ws_id (c :: rest)) by exact Hc.
  cbn [rev]. destruct (drop_ws_snoc (rev rest) c Hc) as (l' & ->).
  exists (rev l'). rewrite rev_app_distr. reflexivity.
Qed.

Lemma nonletter_spells_nothing c rest lit :
  is_ws c = false -> ~ (97 <= lower c <= 122) -> letters lit -> ~ spells (trim (c :: rest)) lit.
Proof.
  intros Hw Hn [_ Hl] Hs. destruct (trim_hd c rest Hw) as (t & E). rewrite E in Hs.
  unfold spells in Hs. cbn [map] in Hs. subst lit. inversion Hl; subst. contradiction.
Qed.

(* digits followed by a character that is neither a digit, white space nor an ASCII
   letter: rejected whatever follows (fractions "1.5kb" / "1,5kb", signs, symbols) *)
Theorem size_str_rejects_nonletter_tail ds c rest :
  all_digits ds -> is_digit c = false -> is_ws c = false -> ~ (97 <= lower c <= 122) ->
  parse_size_str (ds ++ c :: rest) = None.
Proof.
  intros Hd Hc Hw Hn. apply size_str_rejects_unknown_unit; [exact Hd|discriminate|exact Hc|].
  intros lit m Hin. apply nonletter_spells_nothing; [exact Hw|exact Hn|].
  exact (size_units_letters _ _ Hin).
Qed.

Theorem interval_str_rejects_nonletter_tail ds c rest :
  all_digits ds -> is_digit c = false -> is_ws c = false -> ~ (97 <= lower c <= 122) ->
  parse_interval_str (ds ++ c :: rest) = None.
Proof.
  intros Hd Hc Hw Hn. apply interval_str_rejects_unknown_unit; [exact Hd|discriminate|exact Hc|].
  intros lit m Hin. apply nonletter_spells_nothing; [exact Hw|exact Hn|].
  exact (interval_units_letters _ _ Hin).
Qed.

(* fractional numbers "<digits>.<anything>" and negative numbers "-<anything>" *)
Theorem rejects_fraction ds rest :
  all_digits ds ->
  parse_size_str (ds ++ 46 :: rest) = None /\ parse_interval_str (ds ++ 46 :: rest) = None.
Proof.
  intros Hd. split; [apply size_str_rejects_nonletter_tail|apply interval_str_rejects_nonletter_tail];
    try exact Hd; try reflexivity; cbv; intros [H _]; apply H; reflexivity.
Qed.

Theorem rejects_negative rest :
  parse_size_str (45 :: rest) = None /\ parse_interval_str (45 :: rest) = None.
Proof.
  split; [apply size_str_rejects_no_digit|apply interval_str_rejects_no_digit]; reflexivity.
Qed.
