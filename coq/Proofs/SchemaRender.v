(* C14 — renderings of a logical configuration as document trees, and the round trip:
   every rendering (any key order, defaulted fields omitted / written / null, `kind` of encoder and
   policy omitted or explicit, any spelling C20's parsers accept for sizes and intervals, any letter
   case of level names) is interpreted back to exactly that logical configuration. *)
From Coq Require Import List NArith ZArith Bool Lia.
Import ListNotations.
From L4 Require Import Common.Str Model.DocTree Model.Literals Model.ConfigBuild Model.Schema
  Proofs.ConfigBuild Proofs.Schema.
Local Open Scope N_scope.

(* ================= the rendering relation (spec) ================= *)

(* a section over the field set ks: distinct keys, all of them fields; ORDER IS FREE *)
Definition section (m : dmap) (ks : list str) : Prop :=
  NoDup (keys m) /\ forall k, In k (keys m) -> In k ks.

(* how a field may be written *)
Definition fld_req (m : dmap) (k : str) (P : value -> Prop) : Prop := exists v, get k m = Some v /\ P v.
Inductive fmode := Def (* #[serde(default)]: may be omitted *) | Opt (* Option<T>: may be omitted or null *).
Definition fld (mode : fmode) (is_default : bool) (m : dmap) (k : str) (P : value -> Prop) : Prop :=
  if is_default then
    match mode with
    | Def => get k m = None \/ fld_req m k P
    | Opt => get k m = None \/ get k m = Some DNull \/ fld_req m k P
    end
  else fld_req m k P.

Definition is_bool (b : bool) (v : value) := v = DBool b.
Definition is_str (s : str) (v : value) := v = DStr s.
Definition is_uint (n : N) (v : value) := v = DInt (Z.of_N n).
Definition is_level (l : N) (v : value) := exists s, v = DStr s /\ level_of_str s = Some l.
(* any literal that C20's parsers read as this value *)
Definition is_size (n : N) (v : value) := exists sc, scalar_of v = Some sc /\ parse_size sc = Some n.
Definition is_interval (u : iunit) (n : N) (v : value) :=
  exists sc, scalar_of v = Some sc /\ parse_interval sc = Some (u, n).
Definition is_strs (l : list str) (v : value) := v = DSeq (map DStr l).

(* the `kind` entry of a kind-tagged section *)
Definition kinded (dflt : option str) (kind : str) (m : dmap) : Prop :=
  get k_kind m = Some (DStr kind) \/ (dflt = Some kind /\ get k_kind m = None).

Definition renders_encoder (e : encoder) (m : dmap) : Prop :=
  match e with
  | EPattern p => section m [k_kind; k_pattern] /\ kinded (Some s_pattern) s_pattern m /\
                  fld Opt (str_eqb p default_pattern) m k_pattern (is_str p)
  | EJson => section m [k_kind] /\ kinded (Some s_pattern) s_json m
  end.

(* an Option<EncoderConfig> field of an appender section *)
Definition renders_opt_encoder (e : encoder) (cfg : dmap) : Prop :=
  (e = EPattern default_pattern /\ (get k_encoder cfg = None \/ get k_encoder cfg = Some DNull))
  \/ exists em, get k_encoder cfg = Some (DMap em) /\ renders_encoder e em.

Definition renders_trigger (t : trigger) (m : dmap) : Prop :=
  match t with
  | TSize n => section m [k_kind; k_limit] /\ kinded None s_size m /\ fld_req m k_limit (is_size n)
  | TTime u n md dl =>
    section m [k_kind; k_interval; k_modulate; k_max_random_delay] /\ kinded None s_time m /\
    fld_req m k_interval (is_interval u n) /\
    fld Def (negb md) m k_modulate (is_bool md) /\
    fld Def (dl =? 0) m k_max_random_delay (is_uint dl)
  | TOnStartup n =>
    section m [k_kind; k_min_size] /\ kinded None s_onstartup m /\ fld Def (n =? 1) m k_min_size (is_uint n)
  end.

Definition renders_roller (r : roller) (m : dmap) : Prop :=
  match r with
  | RDelete => section m [k_kind] /\ kinded None s_delete m
  | RFixedWindow p b c =>
    section m [k_kind; k_pattern; k_base; k_count] /\ kinded None s_fixed_window m /\
    fld_req m k_pattern (is_str p) /\ fld Opt (b =? 0) m k_base (is_uint b) /\ fld_req m k_count (is_uint c)
  end.

Definition renders_policy (p : policy) (m : dmap) : Prop :=
  match p with
  | PCompound t r =>
    section m [k_kind; k_trigger; k_roller] /\ kinded (Some s_compound) s_compound m /\
    (exists tm, get k_trigger m = Some (DMap tm) /\ renders_trigger t tm) /\
    (exists rm, get k_roller m = Some (DMap rm) /\ renders_roller r rm)
  end.

Definition is_target (t : ctarget) (v : value) :=
  v = DStr (match t with Stdout => s_stdout | Stderr => s_stderr end).

(* the appender's own fields (everything but `kind` and `filters`) *)
Definition renders_comp (c : acomp) (m : dmap) : Prop :=
  match c with
  | AConsole t tty e =>
    section m [k_kind; k_filters; k_target; k_encoder; k_tty_only] /\ get k_kind m = Some (DStr s_console) /\
    fld Opt (match t with Stdout => true | Stderr => false end) m k_target (is_target t) /\
    fld Opt (negb tty) m k_tty_only (is_bool tty) /\ renders_opt_encoder e m
  | AFile p ap e =>
    section m [k_kind; k_filters; k_path; k_encoder; k_append] /\ get k_kind m = Some (DStr s_file) /\
    fld_req m k_path (is_str p) /\ fld Opt ap m k_append (is_bool ap) /\ renders_opt_encoder e m
  | ARolling p ap e po =>
    section m [k_kind; k_filters; k_path; k_append; k_encoder; k_policy] /\
    get k_kind m = Some (DStr s_rolling_file) /\
    fld_req m k_path (is_str p) /\ fld Opt ap m k_append (is_bool ap) /\ renders_opt_encoder e m /\
    exists pm, get k_policy m = Some (DMap pm) /\ renders_policy po pm
  end.

(* a threshold filter section: ThresholdFilterConfig tolerates further keys *)
Definition renders_filter (l : N) (v : value) : Prop :=
  exists fm, v = DMap fm /\ NoDup (keys fm) /\ get k_kind fm = Some (DStr s_threshold) /\
             fld_req fm k_level (is_level l).

Definition renders_filters (ls : list N) (m : dmap) : Prop :=
  (ls = [] /\ get k_filters m = None) \/
  exists vs, get k_filters m = Some (DSeq vs) /\ Forall2 renders_filter ls vs.

Definition renders_appender (a : lappender) (kv : str * value) : Prop :=
  fst kv = a_name a /\
  exists m, snd kv = DMap m /\ renders_comp (a_comp a) m /\ renders_filters (a_filters a) m.

Definition renders_logger (l : logger) (kv : str * value) : Prop :=
  fst kv = lname l /\
  exists m, snd kv = DMap m /\ section m [k_level; k_appenders; k_additive] /\
            fld_req m k_level (is_level (llevel l)) /\
            fld Def (match lapps l with [] => true | _ => false end) m k_appenders (is_strs (lapps l)) /\
            fld Def (ladditive l) m k_additive (is_bool (ladditive l)).

Definition renders_root (lvl : N) (apps : list str) (doc : dmap) : Prop :=
  (lvl = 4 /\ apps = [] /\ get k_root doc = None) \/
  exists rm, get k_root doc = Some (DMap rm) /\ section rm [k_level; k_appenders] /\
             fld Def (lvl =? 4) rm k_level (is_level lvl) /\
             fld Def (match apps with [] => true | _ => false end) rm k_appenders (is_strs apps).

(* entries of a name-keyed map: distinct names, one rendering per item, in the order of the list *)
Definition renders_named {A} (R : A -> str * value -> Prop) (items : list A) (k : str) (doc : dmap) : Prop :=
  (items = [] /\ get k doc = None) \/
  exists nm, get k doc = Some (DMap nm) /\ NoDup (keys nm) /\ Forall2 R items nm.

Record lconfig := {
  lc_refresh : option (str * (N * N));     (* the text written and the duration it denotes *)
  lc_root_level : N;
  lc_root_apps : list str;
  lc_appenders : list lappender;
  lc_loggers : list logger
}.

Definition renders_doc (lc : lconfig) (doc : dmap) : Prop :=
  section doc [k_refresh_rate; k_root; k_appenders; k_loggers] /\
  match lc_refresh lc with
  | None => get k_refresh_rate doc = None \/ get k_refresh_rate doc = Some DNull
  | Some (txt, _) => get k_refresh_rate doc = Some (DStr txt)
  end /\
  renders_root (lc_root_level lc) (lc_root_apps lc) doc /\
  renders_named renders_appender (lc_appenders lc) k_appenders doc /\
  renders_named renders_logger (lc_loggers lc) k_loggers doc.

(* what the logical configuration must satisfy for the components to be constructible *)
Definition wf_trigger (E : env) (t : trigger) : Prop :=
  match t with
  | TSize _ => True
  | TTime u n md dl => dl < two64 /\ e_time E u n md dl = Ok tt
  | TOnStartup n => n < two64
  end.
Definition wf_roller (r : roller) : Prop :=
  match r with RDelete => True | RFixedWindow p b c => b < two32 /\ c < two32 /\ roller_pattern_ok p = true end.
Definition wf_comp (E : env) (c : acomp) : Prop :=
  match c with
  | AConsole _ _ _ => True
  | AFile p _ _ => e_fs E p = true
  | ARolling p _ _ (PCompound t r) => e_fs E p = true /\ wf_trigger E t /\ wf_roller r
  end.
Definition wf_lconfig (E : env) (lc : lconfig) : Prop :=
  Forall (fun a => wf_comp E (a_comp a)) (lc_appenders lc) /\
  match lc_refresh lc with Some (txt, d) => e_dur E txt = Some d | None => True end.

(* ================= reader lemmas ================= *)

Ltac kne := apply str_eqb_neq; reflexivity.

Lemma rd_req_str m k s : fld_req m k (is_str s) -> f_req_str (get k m) = Ok s.
Proof. intros [v [H ->]]. now rewrite H. Qed.

Lemma rd_opt_str m k p d : fld Opt (str_eqb p d) m k (is_str p) -> f_opt_str (get k m) d = Ok p.
Proof.
  unfold fld. destruct (str_eqb_spec p d) as [->|Hne].
  - intros [H|[H|[v [H ->]]]]; now rewrite H.
  - intros [v [H ->]]. now rewrite H.
Qed.

Lemma rd_opt_bool m k b d isd : isd = Bool.eqb b d -> fld Opt isd m k (is_bool b) -> f_opt_bool (get k m) d = Ok b.
Proof.
  intros ->. unfold fld. destruct b, d; cbn;
    (intros [H|[H|[v [H ->]]]] || intros [v [H ->]]); now rewrite H.
Qed.

Lemma rd_def_bool m k b d isd : isd = Bool.eqb b d -> fld Def isd m k (is_bool b) -> f_def_bool (get k m) d = Ok b.
Proof.
  intros ->. unfold fld. destruct b, d; cbn;
    (intros [H|[v [H ->]]] || intros [v [H ->]]); now rewrite H.
Qed.

Lemma rd_uint n bound : n < bound -> uint bound (DInt (Z.of_N n)) = Ok n.
Proof.
  intros H. cbn. replace ((0 <=? Z.of_N n)%Z) with true by (symmetry; apply Z.leb_le; lia).
  replace ((Z.of_N n <? Z.of_N bound)%Z) with true by (symmetry; apply Z.ltb_lt; lia).
  cbn. now rewrite N2Z.id.
Qed.

Lemma rd_req_uint m k n bound : n < bound -> fld_req m k (is_uint n) -> f_req_uint bound (get k m) = Ok n.
Proof. intros Hn [v [H ->]]. rewrite H. cbn -[uint]. now apply rd_uint. Qed.

Lemma rd_def_uint m k n d bound :
  n < bound -> fld Def (n =? d) m k (is_uint n) -> f_def_uint bound (get k m) d = Ok n.
Proof.
  intros Hn. unfold fld. destruct (N.eqb_spec n d) as [->|Hne].
  - intros [H|[v [H ->]]]; rewrite H; cbn -[uint]; [reflexivity|now apply rd_uint].
  - intros [v [H ->]]. rewrite H. cbn -[uint]. now apply rd_uint.
Qed.

Lemma rd_opt_uint m k n d bound :
  n < bound -> fld Opt (n =? d) m k (is_uint n) -> f_opt_uint bound (get k m) d = Ok n.
Proof.
  intros Hn. unfold fld. destruct (N.eqb_spec n d) as [->|Hne].
  - intros [H|[H|[v [H ->]]]]; rewrite H; cbn -[uint]; [reflexivity|reflexivity|now apply rd_uint].
  - intros [v [H ->]]. rewrite H. cbn -[uint]. now apply rd_uint.
Qed.

Lemma rd_level m k l : fld_req m k (is_level l) -> f_level (get k m) = Ok l.
Proof. intros [v [H [s [-> Hs]]]]. rewrite H. cbn. now rewrite Hs. Qed.

Lemma rd_def_level m k l d : fld Def (l =? d) m k (is_level l) -> f_def_level (get k m) d = Ok l.
Proof.
  unfold fld. destruct (N.eqb_spec l d) as [->|Hne].
  - intros [H|Hr]; [now rewrite H|].
    pose proof (rd_level _ _ _ Hr) as Hl. destruct Hr as [v [H _]]. rewrite H in *. exact Hl.
  - intros Hr. pose proof (rd_level _ _ _ Hr) as Hl. destruct Hr as [v [H _]]. rewrite H in *. exact Hl.
Qed.

Lemma all_res_as_str l : all_res as_str (map DStr l) = Ok l.
Proof. induction l as [|x r IH]; cbn; [reflexivity|]. now rewrite IH. Qed.

Lemma rd_strs m k l :
  fld Def (match l with [] => true | _ => false end) m k (is_strs l) -> f_strs (get k m) = Ok l.
Proof.
  unfold fld. destruct l as [|x r].
  - intros [H|[v [H ->]]]; rewrite H; reflexivity.
  - intros [v [H ->]]. rewrite H. cbn -[all_res map]. apply (all_res_as_str (x :: r)).
Qed.

Lemma sec_only m k0 ks : section m (k0 :: ks) -> only_keys ks (remove k0 m) = true.
Proof.
  intros [_ H]. apply only_keys_spec. intros k Hk. apply keys_remove in Hk. destruct Hk as [Hk Hne].
  destruct (H _ Hk) as [E|E]; [congruence|exact E].
Qed.

Lemma sec_only2 m k0 k1 ks : section m (k0 :: k1 :: ks) -> only_keys ks (remove k1 (remove k0 m)) = true.
Proof.
  intros [_ H]. apply only_keys_spec. intros k Hk. apply keys_remove in Hk. destruct Hk as [Hk Hne1].
  apply keys_remove in Hk. destruct Hk as [Hk Hne0].
  destruct (H _ Hk) as [E|[E|E]]; [congruence|congruence|exact E].
Qed.

Lemma sec_only0 m ks : section m ks -> only_keys ks m = true.
Proof. intros [_ H]. now apply only_keys_spec. Qed.

Lemma kinded_split d kind m : kinded d kind m -> split_kind d (DMap m) = Ok (kind, remove k_kind m).
Proof. intros [H|[-> H]]; cbn; now rewrite H. Qed.

(* ================= components ================= *)

Lemma rt_encoder e m :
  renders_encoder e m -> exists k, split_kind (Some s_pattern) (DMap m) = Ok (k, remove k_kind m) /\
                                   interp_encoder_cfg k (remove k_kind m) = Ok e.
Proof.
  destruct e as [p|]; cbn [renders_encoder].
  - intros [Hs [Hk Hp]]. exists s_pattern. split; [now apply kinded_split|].
    unfold interp_encoder_cfg. change (str_eqb s_pattern s_pattern) with true. cbv iota.
    rewrite (sec_only _ _ _ Hs). cbn [guard bind].
    rewrite get_remove_neq by kne. now rewrite (rd_opt_str _ _ _ _ Hp).
  - intros [Hs Hk]. exists s_json. split; [now apply kinded_split|].
    unfold interp_encoder_cfg. change (str_eqb s_json s_pattern) with false.
    change (str_eqb s_json s_json) with true. cbv iota. now rewrite (sec_only _ _ _ Hs).
Qed.

Lemma rt_opt_encoder e cfg :
  renders_opt_encoder e cfg ->
  exists o, split_opt (Some s_pattern) (get k_encoder cfg) = Ok o /\ build_encoder o = Ok e.
Proof.
  intros [[-> [H|H]]|[em [H Hr]]]; rewrite H.
  - exists None. split; reflexivity.
  - exists None. split; reflexivity.
  - destruct (rt_encoder _ _ Hr) as [k [Hs Hi]]. exists (Some (k, remove k_kind em)).
    cbn -[split_kind]. rewrite Hs. split; [reflexivity|exact Hi].
Qed.

Lemma rt_trigger E t m :
  wf_trigger E t -> renders_trigger t m ->
  exists k, split_kind None (DMap m) = Ok (k, remove k_kind m) /\ interp_trigger_cfg E k (remove k_kind m) = Ok t.
Proof.
  destruct t as [n|u n md dl|n]; cbn [renders_trigger wf_trigger].
  - intros _ [Hs [Hk [v [Hv [sc [Hsc Hp]]]]]]. exists s_size. split; [now apply kinded_split|].
    unfold interp_trigger_cfg. change (str_eqb s_size s_size) with true. cbv iota.
    rewrite (sec_only _ _ _ Hs). cbn [guard bind].
    rewrite get_remove_neq by kne. rewrite Hv. cbn [of_opt bind]. rewrite Hsc. cbn [of_opt bind].
    now rewrite Hp.
  - intros [Hdl He] [Hs [Hk [[v [Hv [sc [Hsc Hp]]]] [Hm Hd]]]]. exists s_time. split; [now apply kinded_split|].
    unfold interp_trigger_cfg. change (str_eqb s_time s_size) with false.
    change (str_eqb s_time s_time) with true. cbv iota.
    rewrite (sec_only _ _ _ Hs). cbn [guard bind].
    rewrite !get_remove_neq by kne. rewrite Hv. cbn [of_opt bind]. rewrite Hsc. cbn [of_opt bind].
    rewrite Hp. cbn [of_opt bind fst snd].
    rewrite (rd_def_bool _ _ md false (negb md)) by (try exact Hm; now destruct md). cbn [bind].
    rewrite (rd_def_uint _ _ _ _ _ Hdl Hd). cbn [bind]. rewrite He. reflexivity.
  - intros Hn [Hs [Hk Hf]]. exists s_onstartup. split; [now apply kinded_split|].
    unfold interp_trigger_cfg. change (str_eqb s_onstartup s_size) with false.
    change (str_eqb s_onstartup s_time) with false.
    change (str_eqb s_onstartup s_onstartup) with true. cbv iota.
    rewrite (sec_only _ _ _ Hs). cbn [guard bind].
    rewrite get_remove_neq by kne. now rewrite (rd_def_uint _ _ _ _ _ Hn Hf).
Qed.

Lemma rt_roller r m :
  wf_roller r -> renders_roller r m ->
  exists k, split_kind None (DMap m) = Ok (k, remove k_kind m) /\ interp_roller_cfg k (remove k_kind m) = Ok r.
Proof.
  destruct r as [|p b c]; cbn [renders_roller wf_roller].
  - intros _ [Hs Hk]. exists s_delete. split; [now apply kinded_split|].
    unfold interp_roller_cfg. change (str_eqb s_delete s_delete) with true. cbv iota.
    now rewrite (sec_only _ _ _ Hs).
  - intros [Hb [Hc Hok]] [Hs [Hk [Hp [Hbf Hcf]]]]. exists s_fixed_window. split; [now apply kinded_split|].
    unfold interp_roller_cfg. change (str_eqb s_fixed_window s_delete) with false.
    change (str_eqb s_fixed_window s_fixed_window) with true. cbv iota.
    rewrite (sec_only _ _ _ Hs). cbn [guard bind].
    rewrite !get_remove_neq by kne.
    rewrite (rd_req_str _ _ _ Hp). cbn [bind].
    rewrite (rd_opt_uint _ _ _ _ _ Hb Hbf). cbn [bind].
    rewrite (rd_req_uint _ _ _ _ Hc Hcf). cbn [bind]. rewrite Hok. reflexivity.
Qed.

Lemma rt_policy E t r m :
  wf_trigger E t -> wf_roller r -> renders_policy (PCompound t r) m ->
  exists k, split_kind (Some s_compound) (DMap m) = Ok (k, remove k_kind m) /\
            interp_policy_cfg E k (remove k_kind m) = Ok (PCompound t r).
Proof.
  intros Wt Wr [Hs [Hk [[tm [Ht Hrt]] [rm [Hr Hrr]]]]]. exists s_compound. split; [now apply kinded_split|].
  unfold interp_policy_cfg. change (str_eqb s_compound s_compound) with true. cbv iota.
  rewrite (sec_only _ _ _ Hs). cbn [guard bind].
  rewrite !get_remove_neq by kne. rewrite Ht, Hr. cbn [of_opt bind].
  destruct (rt_trigger E _ _ Wt Hrt) as [tk [Hts Hti]]. destruct (rt_roller _ _ Wr Hrr) as [rk [Hrs Hri]].
  rewrite Hts. cbn [bind]. rewrite Hrs. cbn [bind fst snd]. rewrite Hti. cbn [bind]. rewrite Hri. reflexivity.
Qed.

Lemma opt_encoder_remove e m :
  renders_opt_encoder e m -> renders_opt_encoder e (remove k_filters (remove k_kind m)).
Proof. unfold renders_opt_encoder. now rewrite !get_remove_neq by kne. Qed.

Lemma rt_comp E c m :
  wf_comp E c -> renders_comp c m ->
  exists k, get k_kind m = Some (DStr k) /\
            interp_appender_cfg E k (remove k_filters (remove k_kind m)) = Ok c.
Proof.
  destruct c as [t tty e|p ap e|p ap e po]; cbn [renders_comp wf_comp].
  - intros _ [Hs [Hk [Ht [Hty He]]]]. exists s_console. split; [exact Hk|].
    unfold interp_appender_cfg. change (str_eqb s_console s_console) with true. cbv iota.
    rewrite (sec_only2 _ _ _ _ Hs). cbn [guard bind].
    apply opt_encoder_remove in He. destruct (rt_opt_encoder _ _ He) as [o [Ho Hb]].
    rewrite Ho. rewrite !get_remove_neq by kne.
    assert (Htg : f_target (get k_target m) = Ok t).
    { unfold fld in Ht. destruct t.
      - destruct Ht as [H|[H|[v [H ->]]]]; now rewrite H.
      - destruct Ht as [v [H ->]]. now rewrite H. }
    rewrite Htg. cbn [bind].
    rewrite (rd_opt_bool _ _ tty false (negb tty)) by (try exact Hty; now destruct tty). cbn [bind].
    rewrite Hb. reflexivity.
  - intros Hfs [Hs [Hk [Hp [Hap He]]]]. exists s_file. split; [exact Hk|].
    unfold interp_appender_cfg. change (str_eqb s_file s_console) with false.
    change (str_eqb s_file s_file) with true. cbv iota.
    rewrite (sec_only2 _ _ _ _ Hs). cbn [guard bind].
    apply opt_encoder_remove in He. destruct (rt_opt_encoder _ _ He) as [o [Ho Hb]].
    rewrite Ho. rewrite !get_remove_neq by kne.
    rewrite (rd_req_str _ _ _ Hp). cbn [bind].
    rewrite (rd_opt_bool _ _ ap true ap) by (try exact Hap; now destruct ap). cbn [bind].
    rewrite Hb. cbn [bind]. rewrite Hfs. reflexivity.
  - destruct po as [t r]. intros [Hfs [Wt Wr]] [Hs [Hk [Hp [Hap [He [pm [Hpm Hpo]]]]]]].
    exists s_rolling_file. split; [exact Hk|].
    unfold interp_appender_cfg. change (str_eqb s_rolling_file s_console) with false.
    change (str_eqb s_rolling_file s_file) with false.
    change (str_eqb s_rolling_file s_rolling_file) with true. cbv iota.
    rewrite (sec_only2 _ _ _ _ Hs). cbn [guard bind].
    apply opt_encoder_remove in He. destruct (rt_opt_encoder _ _ He) as [o [Ho Hb]].
    rewrite Ho. rewrite !get_remove_neq by kne.
    rewrite (rd_req_str _ _ _ Hp). cbn [bind].
    rewrite (rd_opt_bool _ _ ap true ap) by (try exact Hap; now destruct ap). cbn [bind].
    rewrite Hpm. cbn [of_opt bind].
    destruct (rt_policy E _ _ _ Wt Wr Hpo) as [pk [Hps Hpi]].
    rewrite Hps. cbn [bind fst snd]. rewrite Hb. cbn [bind]. rewrite Hpi. cbn [bind]. rewrite Hfs. reflexivity.
Qed.

(* ================= filters ================= *)

Lemma rt_filters_split ls vs :
  Forall2 renders_filter ls vs ->
  exists fs, all_res (split_kind None) vs = Ok fs /\ forall name, run_filters name fs = (ls, []).
Proof.
  induction 1 as [|l v ls vs [fm [-> [_ [Hk [lv [Hlv [s [-> Hs]]]]]]]] _ IH].
  - exists []. split; reflexivity.
  - destruct IH as [fs [Hfs Hrun]]. exists ((s_threshold, remove k_kind fm) :: fs). split.
    + cbn. rewrite Hk. cbn. now rewrite Hfs.
    + intros name. cbn [run_filters]. rewrite Hrun.
      unfold interp_filter_cfg. change (str_eqb s_threshold s_threshold) with true. cbv iota.
      rewrite get_remove_neq by kne. rewrite Hlv. cbn. now rewrite Hs.
Qed.

Lemma rt_appender E a kv :
  wf_comp E (a_comp a) -> renders_appender a kv ->
  exists ar, parse_appender (snd kv) = Ok ar /\
             run_appender E (fst kv, ar) = Ok (Some a, []).
Proof.
  intros W [Hn [m [Hm [Hc Hf]]]]. rewrite Hm.
  destruct (rt_comp E _ _ W Hc) as [k [Hk Hi]].
  assert (exists fs, match get k_filters m with
                     | None => Ok []
                     | Some (DSeq l) => all_res (split_kind None) l
                     | Some _ => Err
                     end = Ok fs /\ forall name, run_filters name fs = (a_filters a, [])) as [fs [Hfs Hrun]].
  { destruct Hf as [[-> H]|[vs [H Hall]]]; rewrite H.
    - exists []. split; reflexivity.
    - exact (rt_filters_split _ _ Hall). }
  eexists. split.
  - cbn. rewrite Hk. cbn [f_req_str bind]. rewrite Hfs. cbn [bind]. reflexivity.
  - unfold run_appender. cbn [fst snd ar_filters ar_kind ar_cfg]. rewrite Hrun, Hi, Hn.
    destruct a; reflexivity.
Qed.

Lemma rt_appenders E apps nm :
  Forall (fun a => wf_comp E (a_comp a)) apps -> Forall2 renders_appender apps nm ->
  exists raws, all_res (fun nv => do a <- parse_appender (snd nv); Ok (fst nv, a)) nm = Ok raws /\
               appenders_lossy E raws = Ok (apps, []).
Proof.
  intros W H. induction H as [|a kv apps nm Ha _ IH].
  - exists []. split; reflexivity.
  - inversion W as [|? ? Wa W']; subst. destruct (IH W') as [raws [Hr Hl]].
    destruct (rt_appender E _ _ Wa Ha) as [ar [Hp Hrun]].
    exists ((fst kv, ar) :: raws). split.
    + cbn. rewrite Hp. cbn. now rewrite Hr.
    + cbn [appenders_lossy]. rewrite Hrun. cbn [bind]. rewrite Hl. reflexivity.
Qed.

Lemma rt_logger l kv : renders_logger l kv -> parse_logger kv = Ok l.
Proof.
  intros [Hn [m [Hm [Hs [Hl [Ha Hd]]]]]]. unfold parse_logger. rewrite Hm.
  rewrite (sec_only0 _ _ Hs). cbn [guard bind].
  rewrite (rd_level _ _ _ Hl). cbn [bind]. rewrite (rd_strs _ _ _ Ha). cbn [bind].
  rewrite (rd_def_bool _ _ (ladditive l) true (ladditive l)) by (try exact Hd; now destruct (ladditive l)).
  cbn [bind]. rewrite Hn. destruct l; reflexivity.
Qed.

Lemma rt_loggers ls nm :
  Forall2 renders_logger ls nm -> all_res parse_logger nm = Ok ls.
Proof.
  intros H. induction H as [|l kv ls nm Hl _ IH]; [reflexivity|].
  cbn. rewrite (rt_logger _ _ Hl). cbn. now rewrite IH.
Qed.

(* ================= the document ================= *)

Theorem render_interp_roundtrip E lc doc :
  wf_lconfig E lc -> renders_doc lc doc ->
  let names := map a_name (lc_appenders lc) in
  let ce := build_lossy names (lc_root_level lc) (lc_root_apps lc) (lc_loggers lc) in
  load_lossy E (DMap doc) =
    Ok {| ld_refresh := option_map snd (lc_refresh lc); ld_appenders := lc_appenders lc; ld_derrs := [];
          ld_config := fst ce; ld_berrs := snd ce |}
  /\ load_strict E (DMap doc) =
     match build names (lc_root_level lc) (lc_root_apps lc) (lc_loggers lc) with
     | Some c => Ok (lc_appenders lc, c)
     | None => Err
     end.
Proof.
  intros [Wa Wr] [Hs [Hrf [Hroot [Happ Hlog]]]].
  assert (Hraw : exists raws,
    interp_raw E (DMap doc) =
      Ok {| rw_refresh := option_map snd (lc_refresh lc); rw_root_level := lc_root_level lc;
            rw_root_apps := lc_root_apps lc; rw_appenders := raws; rw_loggers := lc_loggers lc |}
    /\ appenders_lossy E raws = Ok (lc_appenders lc, [])).
  { assert (Hr1 : parse_refresh E (get k_refresh_rate doc) = Ok (option_map snd (lc_refresh lc))).
    { destruct (lc_refresh lc) as [[txt d]|].
      - rewrite Hrf. cbn. now rewrite Wr.
      - destruct Hrf as [H|H]; now rewrite H. }
    assert (Hr2 : parse_root (get k_root doc) = Ok (lc_root_level lc, lc_root_apps lc)).
    { destruct Hroot as [[-> [-> H]]|[rm [H [Hsr [Hl Ha]]]]]; rewrite H; [reflexivity|].
      cbn -[f_def_level f_strs]. rewrite (sec_only0 _ _ Hsr). cbn [guard bind].
      rewrite (rd_def_level _ _ _ _ Hl). cbn [bind]. now rewrite (rd_strs _ _ _ Ha). }
    assert (Hr3 : exists raws,
      parse_named (fun nv => do a <- parse_appender (snd nv); Ok (fst nv, a)) (get k_appenders doc) = Ok raws
      /\ appenders_lossy E raws = Ok (lc_appenders lc, [])).
    { destruct Happ as [[He H]|[nm [H [_ Hall]]]]; rewrite H.
      - exists []. rewrite He. split; reflexivity.
      - exact (rt_appenders E _ _ Wa Hall). }
    assert (Hr4 : parse_named parse_logger (get k_loggers doc) = Ok (lc_loggers lc)).
    { destruct Hlog as [[He H]|[nm [H [_ Hall]]]]; rewrite H.
      - now rewrite He.
      - cbn. now apply rt_loggers. }
    destruct Hr3 as [raws [Hr3 Hl]]. exists raws. split; [|exact Hl].
    cbn -[parse_refresh parse_root parse_named]. rewrite (sec_only0 _ _ Hs). cbn [guard bind].
    rewrite Hr1. cbn [bind]. rewrite Hr2. cbn [bind]. rewrite Hr3. cbn [bind]. rewrite Hr4. reflexivity. }
  destruct Hraw as [raws [Hraw Hl]]. unfold load_lossy, load_strict. rewrite Hraw.
  cbn [bind rw_appenders rw_refresh rw_root_level rw_root_apps rw_loggers]. rewrite Hl. cbn. split; reflexivity.
Qed.

(* with a C13-well-formed logical configuration nothing is reported and strict loading succeeds *)
Corollary render_interp_roundtrip_clean E lc doc :
  wf_lconfig E lc -> renders_doc lc doc ->
  NoDup (map a_name (lc_appenders lc)) -> NoDup (map lname (lc_loggers lc)) ->
  Forall (fun l => check_name (lname l) = true) (lc_loggers lc) ->
  Forall (fun r => In r (map a_name (lc_appenders lc))) (lc_root_apps lc) ->
  Forall (fun l => Forall (fun r => In r (map a_name (lc_appenders lc))) (lapps l)) (lc_loggers lc) ->
  let c := {| c_appenders := map a_name (lc_appenders lc); c_root_level := lc_root_level lc;
              c_root_apps := lc_root_apps lc; c_loggers := lc_loggers lc |} in
  load_strict E (DMap doc) = Ok (lc_appenders lc, c) /\
  load_lossy E (DMap doc) =
    Ok {| ld_refresh := option_map snd (lc_refresh lc); ld_appenders := lc_appenders lc; ld_derrs := [];
          ld_config := c; ld_berrs := [] |}.
Proof.
  intros W R H1 H2 H3 H4 H5 c. destruct (render_interp_roundtrip E lc doc W R) as [Hl Hs].
  assert (Hb : exists c', build (map a_name (lc_appenders lc)) (lc_root_level lc) (lc_root_apps lc) (lc_loggers lc) = Some c').
  { apply build_ok_iff. unfold input_ok. repeat split; assumption. }
  destruct Hb as [c' Hb]. pose proof (build_returns_input _ _ _ _ _ Hb) as Hc. fold c in Hc. subst c'.
  split.
  - now rewrite Hs, Hb.
  - rewrite Hl. unfold build in Hb.
    destruct (build_lossy (map a_name (lc_appenders lc)) (lc_root_level lc) (lc_root_apps lc) (lc_loggers lc)) as [cc ee].
    destruct ee; [|discriminate]. injection Hb as ->. reflexivity.
Qed.
