(* C09 — the parser inverts the printer of the documented grammar:
   parse (print ast) = the pieces the AST denotes, for well-formed ASTs outside
   the look-ahead finding class. *)
From Coq Require Import String Ascii.
From Coq Require Import List NArith Bool Lia Arith.
Import ListNotations.
From L4 Require Import Model.Pattern Proofs.PatternSpec Proofs.Pattern Proofs.PatternMeaning.
Local Open Scope N_scope.

(* ---------- heads of strings ---------- *)

Definition angle (c : N) : bool := (c =? 60) || (c =? 62).

Definition hd_special (s : str) : bool :=
  match s with [] => true | c :: _ => is_special c end.
Definition hd_angle (s : str) : bool :=
  match s with c :: _ => angle c | [] => false end.
Definition hd_digit (s : str) : bool :=
  match s with c :: _ => is_digit c | [] => false end.

(* ---------- Parser::integer on a printed width ---------- *)

Definition dstep (v c : N) : N := v * 10 + (c - 48).

Lemma digits_val_fold : forall ds, digits_val ds = fold_left dstep ds 0.
Proof. reflexivity. Qed.

Lemma fold_dstep_mono : forall ds v, v <= fold_left dstep ds v.
Proof.
  induction ds as [|c ds IH]; intros v; cbn [fold_left]; [lia|].
  specialize (IH (dstep v c)). unfold dstep in *. lia.
Qed.

Lemma integer_loop_stop : forall rest cur f,
  hd_digit rest = false -> integer_loop rest cur f = (cur, f, rest).
Proof.
  intros [|c r] cur f H; [reflexivity|]. cbn in H. cbn [integer_loop].
  unfold digit_val. unfold is_digit in H. rewrite H. reflexivity.
Qed.

Lemma integer_loop_digits : forall ds rest v f,
  forallb is_digit ds = true ->
  hd_digit rest = false ->
  fold_left dstep ds v <= usize_max ->
  integer_loop (ds ++ rest) (Some v) f
  = (Some (fold_left dstep ds v), f || negb (is_nil ds), rest).
Proof.
  induction ds as [|c ds IH]; intros rest v f Hd Hr Hv.
  - cbn [app fold_left is_nil negb]. rewrite orb_false_r. apply integer_loop_stop. exact Hr.
  - cbn [forallb] in Hd. apply andb_true_iff in Hd. destruct Hd as [Hc Hd].
    cbn [app integer_loop fold_left]. unfold digit_val. unfold is_digit in Hc. rewrite Hc.
    cbn [fold_left] in Hv.
    assert (Hm := fold_dstep_mono ds (dstep v c)).
    assert (Hs : checked_step (Some v) (c - 48) = Some (dstep v c)).
    { unfold checked_step, dstep in *.
      destruct (usize_max <? v * 10) eqn:E1; [apply N.ltb_lt in E1; lia|].
      destruct (usize_max <? v * 10 + (c - 48)) eqn:E2; [apply N.ltb_lt in E2; lia|].
      reflexivity. }
    rewrite Hs. rewrite (IH rest (dstep v c) true Hd Hr Hv).
    cbn [is_nil negb]. rewrite orb_true_r. reflexivity.
Qed.

Lemma integer_digits : forall ds rest,
  digits_ok ds = true -> hd_digit rest = false ->
  integer (ds ++ rest) = (inl (Some (digits_val ds)), rest).
Proof.
  intros ds rest H Hr. unfold digits_ok in H.
  apply andb_true_iff in H. destruct H as [H Hv].
  apply andb_true_iff in H. destruct H as [Hn Hd].
  apply N.leb_le in Hv. rewrite digits_val_fold in Hv.
  unfold integer. rewrite (integer_loop_digits ds rest 0 false Hd Hr Hv).
  rewrite Hn. cbn [orb]. reflexivity.
Qed.

Lemma integer_none : forall rest,
  hd_digit rest = false -> integer rest = (inl None, rest).
Proof.
  intros rest H. unfold integer. rewrite (integer_loop_stop rest _ _ H). reflexivity.
Qed.

(* ---------- Parser::parameters on a printed spec ---------- *)

Definition lookahead (r : str) : N * str :=
  match r with
  | ch :: c2 :: _ => if (c2 =? 60) || (c2 =? 62) then (ch, tl r) else (32, r)
  | _ => (32, r)
  end.

Definition align_of (r1 : str) : align * str :=
  match r1 with
  | a :: r' => if a =? 60 then (ALeft, r') else if a =? 62 then (ARight, r') else (ALeft, r1)
  | [] => (ALeft, r1)
  end.

Definition widths (fill : N) (al : align) (r2 : str) : (params + str) * str :=
  match integer r2 with
  | (inr e, r3) => (inr e, r3)
  | (inl mn, r3) =>
    match r3 with
    | c3 :: r4 =>
      if c3 =? 46 then
        match integer r4 with
        | (inr e, r5) => (inr e, r5)
        | (inl mx, r5) => (inl (mkParams fill al mn mx), r5)
        end
      else (inl (mkParams fill al mn None), r3)
    | [] => (inl (mkParams fill al mn None), r3)
    end
  end.

Lemma parameters_colon : forall r,
  parameters (58 :: r) =
    let '(fill, r1) := lookahead r in
    let '(al, r2) := align_of r1 in
    widths fill al r2.
Proof. reflexivity. Qed.

Definition wtail (mx : option (list N)) (rest : str) : str :=
  match mx with Some ds => 46 :: ds | None => [] end ++ 125 :: rest.

Lemma wtail_not_digit : forall mx rest, hd_digit (wtail mx rest) = false.
Proof. intros [ds|] rest; reflexivity. Qed.

Lemma widths_print : forall fill al mn mx rest,
  opt_digits_ok mn = true -> opt_digits_ok mx = true ->
  widths fill al (opt_digits mn ++ wtail mx rest)
  = (inl (mkParams fill al (option_map digits_val mn) (option_map digits_val mx)), 125 :: rest).
Proof.
  intros fill al mn mx rest Hmn Hmx. unfold widths.
  assert (Hi : integer (opt_digits mn ++ wtail mx rest)
               = (inl (option_map digits_val mn), wtail mx rest)).
  { destruct mn as [ds|]; cbn [opt_digits option_map].
    - apply integer_digits; [exact Hmn|apply wtail_not_digit].
    - cbn [app]. apply integer_none. apply wtail_not_digit. }
  rewrite Hi. destruct mx as [ds|]; cbn [wtail app option_map].
  - cbn [N.eqb Pos.eqb]. rewrite integer_digits; [reflexivity|exact Hmx|reflexivity].
  - reflexivity.
Qed.

Definition colon_only_spec (sp : spec) : bool :=
  match sp with mkSpec true None None None => true | _ => false end.

Definition snd_not_angle (r : str) : Prop :=
  match r with _ :: c2 :: _ => angle c2 = false | _ => True end.

Lemma lookahead_no : forall r, snd_not_angle r -> lookahead r = (32, r).
Proof.
  intros [|ch [|c2 r]] H; try reflexivity. cbn in H. unfold angle in H.
  unfold lookahead. rewrite H. reflexivity.
Qed.

Lemma digit_not_angle : forall c, is_digit c = true -> angle c = false.
Proof.
  intros c H. unfold is_digit in H. apply andb_true_iff in H. destruct H as [H1 H2].
  apply N.leb_le in H1. apply N.leb_le in H2. unfold angle.
  destruct (c =? 60) eqn:E1; [apply N.eqb_eq in E1; lia|].
  destruct (c =? 62) eqn:E2; [apply N.eqb_eq in E2; lia|]. reflexivity.
Qed.

Lemma body_hd_not_angle : forall mn mx rest,
  opt_digits_ok mn = true -> hd_angle (opt_digits mn ++ wtail mx rest) = false.
Proof.
  intros [ds|] mx rest H; cbn [opt_digits].
  - unfold opt_digits_ok, digits_ok in H. destruct ds as [|c ds]; [discriminate|].
    cbn [app hd_angle]. apply digit_not_angle.
    apply andb_true_iff in H. destruct H as [H _]. cbn in H.
    apply andb_true_iff in H. destruct H as [H _]. exact H.
  - destruct mx; reflexivity.
Qed.

Lemma digits_ok_cons : forall ds, digits_ok ds = true ->
  exists c r, ds = c :: r /\ is_digit c = true /\ forallb is_digit r = true.
Proof.
  intros [|c r] H; [discriminate|]. unfold digits_ok in H.
  apply andb_true_iff in H. destruct H as [H _]. cbn in H.
  apply andb_true_iff in H. destruct H as [H1 H2]. eauto.
Qed.

Lemma body_snd_not_angle : forall mn mx rest,
  opt_digits_ok mn = true -> opt_digits_ok mx = true ->
  (mn = None -> mx = None -> hd_angle rest = false) ->
  snd_not_angle (opt_digits mn ++ wtail mx rest).
Proof.
  intros mn mx rest Hmn Hmx Hc.
  destruct mn as [ds|]; cbn [opt_digits].
  - destruct (digits_ok_cons ds Hmn) as (c & r & -> & Hc1 & Hr).
    destruct r as [|c2 r]; cbn [app snd_not_angle].
    + destruct mx; reflexivity.
    + apply digit_not_angle. cbn in Hr. apply andb_true_iff in Hr. tauto.
  - destruct mx as [ds|]; cbn [wtail app snd_not_angle].
    + destruct (digits_ok_cons ds Hmx) as (c & r & -> & Hc1 & Hr).
      cbn [app]. apply digit_not_angle. exact Hc1.
    + specialize (Hc eq_refl eq_refl). destruct rest; [exact I|exact Hc].
Qed.

Lemma align_of_no : forall r, hd_angle r = false -> align_of r = (ALeft, r).
Proof.
  intros [|a r] H; [reflexivity|]. cbn in H. unfold angle in H.
  apply orb_false_iff in H. destruct H as [H1 H2].
  unfold align_of. rewrite H1, H2. reflexivity.
Qed.

Lemma align_of_achar : forall a r, align_of (achar a :: r) = (a, r).
Proof. intros [|] r; reflexivity. Qed.

Lemma print_spec_general : forall colon fa mn mx,
  colon_only_spec (mkSpec colon fa mn mx) = false ->
  (fa = None -> mn = None -> mx = None -> colon = false) ->
  match fa, mn, mx with None, None, None => True | _, _, _ =>
  print_spec (mkSpec colon fa mn mx) =
    58 :: match fa with
          | Some (Some f, a) => [f; achar a]
          | Some (None, a) => [achar a]
          | None => []
          end ++ opt_digits mn ++ match mx with Some ds => 46 :: ds | None => [] end
  end.
Proof. intros colon [[[f|] a]|] [mn|] [mx|] _ _; exact I || reflexivity. Qed.

Lemma parameters_print : forall sp rest,
  spec_ok sp = true ->
  (colon_only_spec sp = true -> hd_angle rest = false) ->
  parameters (print_spec sp ++ 125 :: rest) = (inl (params_of sp), 125 :: rest).
Proof.
  intros [colon fa mn mx] rest Hok Hc. unfold spec_ok in Hok. cbn [sp_min sp_max] in Hok.
  apply andb_true_iff in Hok. destruct Hok as [Hmn Hmx].
  destruct fa as [[[f|] a]|].
  - (* fill and align *)
    assert (Hp : print_spec (mkSpec colon (Some (Some f, a)) mn mx) ++ 125 :: rest
                 = 58 :: f :: achar a :: opt_digits mn ++ wtail mx rest).
    { unfold wtail. destruct mn, mx; cbn; rewrite <- ?app_assoc; reflexivity. }
    rewrite Hp, parameters_colon.
    assert (Hl : lookahead (f :: achar a :: opt_digits mn ++ wtail mx rest)
                 = (f, achar a :: opt_digits mn ++ wtail mx rest)) by (destruct a; reflexivity).
    rewrite Hl, align_of_achar. rewrite widths_print by assumption. reflexivity.
  - (* align only *)
    assert (Hp : print_spec (mkSpec colon (Some (None, a)) mn mx) ++ 125 :: rest
                 = 58 :: achar a :: opt_digits mn ++ wtail mx rest).
    { unfold wtail. destruct mn, mx; cbn; rewrite <- ?app_assoc; reflexivity. }
    rewrite Hp, parameters_colon.
    rewrite lookahead_no.
    2:{ assert (H := body_hd_not_angle mn mx rest Hmn).
        destruct (opt_digits mn ++ wtail mx rest); [exact I|exact H]. }
    rewrite align_of_achar. rewrite widths_print by assumption. reflexivity.
  - destruct mn as [dmn|] eqn:Emn; [|destruct mx as [dmx|] eqn:Emx].
    + (* min [max] *)
      assert (Hp : print_spec (mkSpec colon None (Some dmn) mx) ++ 125 :: rest
                   = 58 :: opt_digits (Some dmn) ++ wtail mx rest).
      { unfold wtail. destruct mx; cbn; rewrite <- ?app_assoc; reflexivity. }
      rewrite Hp, parameters_colon.
      rewrite lookahead_no by (apply body_snd_not_angle; [assumption|assumption|discriminate]).
      rewrite align_of_no by (apply body_hd_not_angle; assumption).
      rewrite widths_print by assumption. reflexivity.
    + (* max only *)
      assert (Hp : print_spec (mkSpec colon None None (Some dmx)) ++ 125 :: rest
                   = 58 :: opt_digits None ++ wtail (Some dmx) rest).
      { unfold wtail. cbn; rewrite <- ?app_assoc; reflexivity. }
      rewrite Hp, parameters_colon.
      rewrite lookahead_no by (apply body_snd_not_angle; [assumption|assumption|discriminate]).
      rewrite align_of_no by (apply body_hd_not_angle; assumption).
      rewrite widths_print by assumption. reflexivity.
    + destruct colon.
      * (* ':' alone *)
        change (print_spec (mkSpec true None None None) ++ 125 :: rest)
          with (58 :: opt_digits None ++ wtail None rest).
        rewrite parameters_colon.
        rewrite lookahead_no
          by (apply body_snd_not_angle; [reflexivity|reflexivity|intros _ _; apply Hc; reflexivity]).
        rewrite align_of_no by (apply body_hd_not_angle; reflexivity).
        rewrite widths_print by reflexivity. reflexivity.
      * (* no spec at all *)
        reflexivity.
Qed.

(* ---------- heads of printed nodes ---------- *)

Lemma special_cases : forall c, is_special c = true ->
  c = 123 \/ c = 125 \/ c = 40 \/ c = 41 \/ c = 92.
Proof.
  intros c H. unfold is_special in H.
  repeat (apply orb_true_iff in H; destruct H as [H|H]);
    apply N.eqb_eq in H; subst; tauto.
Qed.

Lemma special_not_angle : forall c, is_special c = true -> angle c = false.
Proof. intros c H. destruct (special_cases c H) as [->|[->|[->|[->| ->]]]]; reflexivity. Qed.

Lemma not_special_tests : forall c, is_special c = false ->
  (c =? 123) = false /\ (c =? 125) = false /\ (c =? 40) = false /\ (c =? 41) = false
  /\ (c =? 92) = false.
Proof.
  intros c H. unfold is_special in H.
  repeat (apply orb_false_iff in H; destruct H as [H ?]). tauto.
Qed.

Lemma consume_none : forall ch s,
  match s with c :: _ => (c =? ch) = false | [] => True end -> consume ch s = None.
Proof. intros ch [|c s] H; [reflexivity|]. cbn. rewrite H. reflexivity. Qed.

Lemma span_app_stop : forall p l rest,
  forallb p l = true ->
  match rest with [] => True | c :: _ => p c = false end ->
  span p (l ++ rest) = (l, rest).
Proof.
  induction l as [|x l IH]; intros rest Hl Hr.
  - cbn [app]. destruct rest as [|c r]; [reflexivity|]. cbn [span]. rewrite Hr. reflexivity.
  - cbn [forallb] in Hl. apply andb_true_iff in Hl. destruct Hl as [Hx Hl].
    cbn [app span]. rewrite Hx, (IH rest Hl Hr). reflexivity.
Qed.

Section Roundtrip.
  Variable al an : N -> bool.
  Hypothesis Hor : oracle_ok al an.

  Definition after_name (s : str) : Prop :=
    exists c r, s = c :: r /\ (c = 40 \/ c = 58 \/ c = 125).

  Lemma name_print : forall nm rest,
    name_ok al an nm = true -> after_name rest -> name al an (nm ++ rest) = (nm, rest).
  Proof.
    intros nm rest Hn (c & r & -> & Hc).
    destruct Hor as (_ & A1 & A2 & A3 & B1 & B2 & B3).
    destruct nm as [|x xs].
    - cbn [app name].
      assert (Ha : al c = false) by (destruct Hc as [->|[->| ->]]; assumption).
      rewrite Ha. reflexivity.
    - cbn [name_ok] in Hn. apply andb_true_iff in Hn. destruct Hn as [Hx Hxs].
      cbn [app name]. rewrite Hx.
      rewrite (span_app_stop _ xs (c :: r) Hxs); [reflexivity|].
      destruct Hc as [->|[->| ->]]; cbn; rewrite ?B1, ?B2, ?B3; reflexivity.
  Qed.

  (* first character of a printed well-formed node *)
  Lemma hd_print : forall strict inarg a,
    wf al an strict inarg a = true ->
    exists c r, print a = c :: r /\
      (is_lit a = true -> is_special c = false /\ starts_angle a = angle c) /\
      (is_lit a = false -> is_special c = true) /\
      (inarg = true -> (c =? 41) = false).
  Proof.
    intros strict inarg [t|c st|nm args sp] H; cbn [wf] in H.
    - apply andb_true_iff in H. destruct H as [Hn Hs].
      destruct t as [|c t]; [discriminate|]. cbn [forallb] in Hs.
      apply andb_true_iff in Hs. destruct Hs as [Hc _]. apply negb_true_iff in Hc.
      exists c, t. split; [reflexivity|]. split; [|split].
      + intros _. split; [exact Hc|reflexivity].
      + discriminate.
      + intros _. apply not_special_tests in Hc. tauto.
    - apply andb_true_iff in H. destruct H as [Hs Hi].
      destruct st.
      + exists c, [c]. split; [reflexivity|]. split; [discriminate|]. split; [intros _; exact Hs|].
        intros ->. cbn [andb] in Hi. destruct (c =? 41); [discriminate|reflexivity].
      + exists 92, [c]. split; [reflexivity|]. split; [discriminate|]. split; reflexivity.
    - exists 123. eexists. split; [reflexivity|]. split; [discriminate|]. split; reflexivity.
  Qed.

  Definition boundary (a : ast) (rest : str) : Prop :=
    (is_lit a = true -> hd_special rest = true) /\ (colon_only a = true -> hd_angle rest = false).

  Lemma boundary_chain : forall a b s i X,
    wf al an s i b = true -> adj_ok true a b = true -> boundary a (print b ++ X).
  Proof.
    intros a b s i X Hb Hadj. unfold adj_ok in Hadj.
    apply andb_true_iff in Hadj. destruct Hadj as [H1 H2].
    apply negb_true_iff in H1. apply negb_true_iff in H2. cbn [andb] in H2.
    destruct (hd_print s i b Hb) as (c & r & Hp & Hl & Hn & _). rewrite Hp. cbn [app].
    split; intros Ha; rewrite Ha in *.
    - cbn [andb] in H1. cbn [hd_special]. apply Hn. exact H1.
    - cbn [andb] in H2. cbn [hd_angle].
      destruct (is_lit b) eqn:Eb.
      + destruct (Hl eq_refl) as [_ Hs]. rewrite <- Hs. exact H2.
      + apply special_not_angle. apply Hn. reflexivity.
  Qed.

  Lemma boundary_close : forall a c rest,
    is_special c = true -> boundary a (c :: rest).
  Proof.
    intros a c rest H. split; intros _; cbn; [exact H|apply special_not_angle; exact H].
  Qed.

  Lemma boundary_nil : forall a, boundary a [].
  Proof. intros a. split; reflexivity. Qed.

  Lemma print_nonempty : forall s i a, wf al an s i a = true -> (1 <= length (print a))%nat.
  Proof.
    intros s i a H. destruct (hd_print s i a H) as (c & r & -> & _). cbn; lia.
  Qed.

  Lemma seq_length_le : forall s i seq,
    forallb (wf al an s i) seq = true -> (length seq <= length (print_seq seq))%nat.
  Proof.
    induction seq as [|a seq IH]; cbn [forallb]; intros H; [cbn; lia|].
    apply andb_true_iff in H. destruct H as [Ha H].
    unfold print_seq in *. cbn [flat_map length]. rewrite app_length.
    assert (L := print_nonempty _ _ _ Ha). specialize (IH H). lia.
  Qed.

  Lemma wf_inarg_weaken : forall s a, wf al an s true a = true -> wf al an s false a = true.
  Proof.
    intros s [t|c st|nm args sp]; cbn [wf]; try exact (fun H => H).
    intros H. apply andb_true_iff in H. destruct H as [H _]. rewrite H. reflexivity.
  Qed.

  (* ---------- the loops on printed sequences ---------- *)

  Definition node_ok (nx : str -> res (option piece * str)) (a : ast) : Prop :=
    forall rest, boundary a rest -> nx (print a ++ rest) = Ok (Some (piece_of a), rest).

  Lemma print_seq_cons : forall a seq, print_seq (a :: seq) = print a ++ print_seq seq.
  Proof. reflexivity. Qed.

  Lemma arg_loop_print : forall nx seq k rest,
    Forall (node_ok nx) seq ->
    forallb (wf al an true true) seq = true -> chain_ok true seq = true ->
    (length seq < k)%nat ->
    arg_loop nx k (print_seq seq ++ 41 :: rest) = Ok (inl (map piece_of seq), rest).
  Proof.
    intros nx. induction seq as [|a seq IH]; intros k rest Hn Hw Hc Hk.
    - destruct k; [cbn in Hk; lia|]. reflexivity.
    - destruct k; [cbn in Hk; lia|].
      inversion Hn as [|? ? Ha Hn']; subst.
      cbn [forallb] in Hw. apply andb_true_iff in Hw. destruct Hw as [Hwa Hw].
      rewrite print_seq_cons, <- app_assoc. cbn [arg_loop].
      destruct (hd_print _ _ _ Hwa) as (c & r & Hp & _ & _ & H41).
      rewrite consume_none by (rewrite Hp; cbn [app]; apply H41; reflexivity).
      assert (Hb : boundary a (print_seq seq ++ 41 :: rest)).
      { destruct seq as [|b seq'].
        - apply boundary_close. reflexivity.
        - rewrite print_seq_cons, <- app_assoc. cbn [forallb] in Hw.
          apply andb_true_iff in Hw. destruct Hw as [Hwb _].
          cbn [chain_ok] in Hc. apply andb_true_iff in Hc. destruct Hc as [Hadj _].
          eapply boundary_chain; eassumption. }
      rewrite (Ha _ Hb).
      assert (Hc' : chain_ok true seq = true).
      { destruct seq as [|b seq']; [reflexivity|].
        cbn [chain_ok] in Hc. apply andb_true_iff in Hc. tauto. }
      rewrite (IH k rest Hn' Hw Hc') by (cbn in Hk; lia). reflexivity.
  Qed.

  Definition arg_ok (nx : str -> res (option piece * str)) (arg : list ast) : Prop :=
    forall rest k, (length arg < k)%nat ->
      arg_loop nx k (print_seq arg ++ 41 :: rest) = Ok (inl (map piece_of arg), rest).

  Lemma args_loop_print : forall nx args k rest,
    Forall (arg_ok nx) args ->
    Forall (fun arg => forallb (wf al an true true) arg = true) args ->
    match rest with c :: _ => (c =? 40) = false | [] => True end ->
    (length args < k)%nat ->
    args_loop nx k (flat_map print_arg args ++ rest) = Ok (inl (map (map piece_of) args), rest).
  Proof.
    intros nx. induction args as [|arg args IH]; intros k rest Ha Hw Hr Hk.
    - destruct k; [cbn in Hk; lia|]. cbn [flat_map app args_loop map].
      rewrite consume_none by exact Hr. reflexivity.
    - destruct k; [cbn in Hk; lia|].
      inversion Ha as [|? ? Ha1 Ha']; subst. inversion Hw as [|? ? Hw1 Hw']; subst.
      cbn [flat_map]. unfold print_arg at 1.
      replace (((40 :: print_seq arg ++ [41]) ++ flat_map print_arg args) ++ rest)
        with (40 :: (print_seq arg ++ 41 :: (flat_map print_arg args ++ rest))).
      2:{ cbn [app]. rewrite <- !app_assoc. reflexivity. }
      cbn [args_loop consume N.eqb Pos.eqb].
      rewrite Ha1.
      2:{ rewrite app_length. assert (L := seq_length_le _ _ _ Hw1). lia. }
      rewrite (IH k rest Ha' Hw' Hr) by (cbn in Hk; lia). reflexivity.
  Qed.

  Lemma top_loop_print : forall nx seq k,
    nx [] = Ok (None, []) ->
    Forall (node_ok nx) seq ->
    forallb (wf al an true false) seq = true -> chain_ok true seq = true ->
    (length seq < k)%nat ->
    top_loop nx k (print_seq seq) = Ok (map piece_of seq).
  Proof.
    intros nx seq k Hnil. revert k. induction seq as [|a seq IH]; intros k Hn Hw Hc Hk.
    - destruct k; [cbn in Hk; lia|]. cbn [print_seq flat_map top_loop]. rewrite Hnil. reflexivity.
    - destruct k; [cbn in Hk; lia|].
      inversion Hn as [|? ? Ha Hn']; subst.
      cbn [forallb] in Hw. apply andb_true_iff in Hw. destruct Hw as [Hwa Hw].
      rewrite print_seq_cons. cbn [top_loop].
      assert (Hb : boundary a (print_seq seq)).
      { destruct seq as [|b seq'].
        - apply boundary_nil.
        - rewrite print_seq_cons. cbn [forallb] in Hw.
          apply andb_true_iff in Hw. destruct Hw as [Hwb _].
          cbn [chain_ok] in Hc. apply andb_true_iff in Hc. destruct Hc as [Hadj _].
          eapply boundary_chain; eassumption. }
      rewrite (Ha _ Hb).
      assert (Hc' : chain_ok true seq = true).
      { destruct seq as [|b seq']; [reflexivity|].
        cbn [chain_ok] in Hc. apply andb_true_iff in Hc. tauto. }
      rewrite (IH k Hn' Hw Hc') by (cbn in Hk; lia). reflexivity.
  Qed.
End Roundtrip.

Lemma flat_map_len_in : forall {A} (f : A -> str) x l,
  In x l -> (length (f x) <= length (flat_map f l))%nat.
Proof.
  intros A f x. induction l as [|y l IH]; intros H; [destruct H|].
  cbn [flat_map]. rewrite app_length. destruct H as [->|H]; [lia|]. specialize (IH H). lia.
Qed.

Lemma hd_spec_close : forall sp rest,
  exists c r, print_spec sp ++ 125 :: rest = c :: r /\ (c = 58 \/ c = 125).
Proof.
  intros [colon fa mn mx] rest.
  destruct fa as [[[f|] a]|], mn, mx, colon; cbn; eauto.
Qed.

Lemma colon_only_spec_eq : forall nm args sp, colon_only (AFmt nm args sp) = colon_only_spec sp.
Proof. intros nm args [[] [|] [|] [|]]; reflexivity. Qed.

Section Roundtrip2.
  Variable al an : N -> bool.
  Hypothesis Hor : oracle_ok al an.

  Lemma next_lit : forall d t rest,
    is_nil t = false -> forallb (fun c => negb (is_special c)) t = true ->
    hd_special rest = true ->
    next al an (S d) (t ++ rest) = Ok (Some (PText t), rest).
  Proof.
    intros d t rest Hn Ht Hr. destruct t as [|c t]; [discriminate|].
    assert (Hsp := Ht). cbn [forallb] in Ht. apply andb_true_iff in Ht. destruct Ht as [Hc _].
    apply negb_true_iff in Hc. destruct (not_special_tests c Hc) as (E1 & E2 & E3 & E4 & E5).
    rewrite next_S. cbn [app]. rewrite E1, E2, E3, E4, E5.
    unfold text_run.
    change (c :: t ++ rest) with ((c :: t) ++ rest).
    rewrite (span_app_stop _ (c :: t) rest Hsp); [reflexivity|].
    destruct rest as [|x r]; [exact I|]. cbn in Hr. rewrite Hr. reflexivity.
  Qed.

  Lemma next_esc : forall d c st rest,
    is_special c = true ->
    next al an (S d) (print (AEsc c st) ++ rest) = Ok (Some (PText [c]), rest).
  Proof.
    intros d c st rest H.
    destruct (special_cases c H) as [->|[->|[->|[->| ->]]]]; destruct st; reflexivity.
  Qed.

  Definition P (a : ast) : Prop :=
    forall d rest,
      wf al an true false a = true -> (length (print a) <= d)%nat -> boundary a rest ->
      next al an (S d) (print a ++ rest) = Ok (Some (piece_of a), rest).

  Lemma after_name_R1 : forall args sp rest,
    after_name (flat_map print_arg args ++ print_spec sp ++ 125 :: rest).
  Proof.
    intros [|arg args] sp rest.
    - cbn [flat_map app]. destruct (hd_spec_close sp rest) as (c & r & -> & Hc).
      exists c, r. split; [reflexivity|tauto].
    - cbn [flat_map print_arg app]. eexists _, _. split; [reflexivity|tauto].
  Qed.

  Lemma next_print : forall a, P a.
  Proof.
    induction a as [t|c st|nm args sp IH] using ast_ind'; intros d rest Hw Hd Hb.
    - cbn [wf] in Hw. apply andb_true_iff in Hw. destruct Hw as [Hn Ht].
      apply negb_true_iff in Hn.
      apply next_lit; [exact Hn|exact Ht|]. apply Hb. reflexivity.
    - cbn [wf] in Hw. apply andb_true_iff in Hw. destruct Hw as [Hs _].
      apply next_esc. exact Hs.
    - cbn [wf] in Hw. apply andb_true_iff in Hw. destruct Hw as [Hw Hargs].
      apply andb_true_iff in Hw. destruct Hw as [Hname Hspec].
      set (R2 := print_spec sp ++ 125 :: rest).
      set (R1 := flat_map print_arg args ++ R2).
      assert (Hpr : print (AFmt nm args sp) ++ rest = 123 :: nm ++ R1).
      { subst R1 R2. cbn [print]. change (fun arg : list ast => 40 :: flat_map print arg ++ [41])
          with print_arg. cbn [app]. rewrite <- !app_assoc. reflexivity. }
      assert (Hlen : (length (print (AFmt nm args sp)) =
                      1 + length nm + length (flat_map print_arg args)
                      + length (print_spec sp) + 1)%nat).
      { cbn [print]. change (fun arg : list ast => 40 :: flat_map print arg ++ [41])
          with print_arg. cbn [length]. rewrite !app_length. cbn [length]. lia. }
      rewrite Hpr. destruct d as [|d']; [exfalso; lia|].
      rewrite next_S. change (123 =? 123) with true. cbv iota.
      assert (HR1 := after_name_R1 args sp rest). fold R2 in HR1. fold R1 in HR1.
      rewrite consume_none.
      2:{ destruct nm as [|x xs].
          - cbn [app]. destruct HR1 as (c & r & -> & [->|[->| ->]]); reflexivity.
          - cbn [app]. cbn [name_ok] in Hname. apply andb_true_iff in Hname.
            destruct Hname as [Hx _]. destruct (x =? 123) eqn:E; [|reflexivity].
            apply N.eqb_eq in E. subst x. destruct Hor as (A0 & _). congruence. }
      unfold argument_close, argument.
      rewrite (name_print al an Hor nm R1 Hname HR1).
      assert (Hargs' : Forall (fun arg => forallb (wf al an true true) arg = true) args
                       /\ Forall (fun arg => chain_ok true arg = true) args).
      { rewrite forallb_forall in Hargs. split; apply Forall_forall; intros arg Hin;
          specialize (Hargs arg Hin); apply andb_true_iff in Hargs; tauto. }
      destruct Hargs' as [Hwf Hch].
      subst R1. rewrite (args_loop_print al an (next al an (S d')) args (S (length (flat_map print_arg args ++ R2))) R2).
      + subst R2.
        rewrite parameters_print.
        * cbn [consume]. change (125 =? 125) with true. cbv iota. reflexivity.
        * exact Hspec.
        * intros Hc. apply Hb. rewrite colon_only_spec_eq. exact Hc.
      + (* every argument *)
        apply Forall_forall. intros arg Hin rest' k Hk.
        apply (arg_loop_print al an); try assumption.
        * apply Forall_forall. intros a' Hin' rest'' Hb'.
          assert (L1 := flat_map_len_in print a' arg Hin').
          assert (L2 := flat_map_len_in print_arg arg args Hin).
          unfold print_arg at 1 in L2. cbn [length] in L2. rewrite app_length in L2.
          cbn [length] in L2. unfold print_seq in L2.
          rewrite Forall_forall in IH. specialize (IH arg Hin).
          rewrite Forall_forall in IH. apply (IH a' Hin'); [|lia|exact Hb'].
          apply wf_inarg_weaken. rewrite Forall_forall in Hwf. specialize (Hwf arg Hin).
          rewrite forallb_forall in Hwf. apply Hwf. exact Hin'.
        * rewrite Forall_forall in Hwf. apply Hwf. exact Hin.
        * rewrite Forall_forall in Hch. apply Hch. exact Hin.
      + exact Hwf.
      + subst R2. destruct (hd_spec_close sp rest) as (c & r & -> & [->| ->]); reflexivity.
      + rewrite app_length.
        assert (L : (length args <= length (flat_map print_arg args))%nat).
        { clear. induction args as [|a l IHl]; cbn [flat_map length]; [lia|].
          rewrite app_length. unfold print_arg at 1. cbn [length]. lia. }
        lia.
  Qed.

  (* Parser::new(print ast).collect() = the pieces the AST denotes *)
  Theorem parse_print_roundtrip : forall seq,
    wf_seq al an true false seq = true ->
    parse al an (print_seq seq) = Ok (map piece_of seq).
  Proof.
    intros seq H. unfold wf_seq in H. apply andb_true_iff in H. destruct H as [Hw Hc].
    unfold parse. apply (top_loop_print al an); try assumption.
    - reflexivity.
    - apply Forall_forall. intros a Hin rest Hb.
      apply next_print; [|exact (flat_map_len_in print a seq Hin)|exact Hb].
      rewrite forallb_forall in Hw. apply Hw. exact Hin.
    - assert (L := seq_length_le al an _ _ _ Hw). lia.
  Qed.
End Roundtrip2.
