(* C13 <-> C01: what the builder (Model/ConfigBuild.v) returns is what
   SharedLogger::new (Model/Routing.v `build`) can take: every name resolves, so the
   `appender_map[&**appender]` indexing of lib.rs:346-372 never misses.  Also: how the
   strict and the lossy path relate. *)
From Coq Require Import List NArith Bool Arith Lia.
Import ListNotations.
From L4 Require Import Common.Str Model.ConfigBuild Proofs.ConfigBuild.
From L4 Require Model.Routing.

Definition to_routing_logger (l : logger) : Routing.logger :=
  {| Routing.l_name := lname l; Routing.l_level := llevel l;
     Routing.l_additive := ladditive l; Routing.l_apps := lapps l |}.

(* Config::unpack as SharedLogger::new sees it *)
Definition to_routing (c : config) : Routing.config :=
  {| Routing.c_appenders := c_appenders c; Routing.c_root_level := c_root_level c;
     Routing.c_root_apps := c_root_apps c; Routing.c_loggers := map to_routing_logger (c_loggers c) |}.

Lemma resolve_from_some names : forall i a, In a names -> exists j, Routing.resolve_from i names a = Some j.
Proof.
  induction names as [|n r IH]; intros i a Hin; [destruct Hin|].
  cbn [Routing.resolve_from]. destruct (Routing.resolve_from (S i) r a) as [j|] eqn:E; [eauto|].
  destruct Hin as [->|Hin].
  - rewrite str_eqb_refl. eauto.
  - destruct (IH (S i) a Hin) as [j Hj]. congruence.
Qed.

Lemma resolve_all_some names l :
  Forall (fun r => In r names) l -> exists ids, Routing.resolve_all names l = Some ids.
Proof.
  induction l as [|a l IH]; intros H; [exists []; reflexivity|].
  inversion H as [|? ? Ha Hl]; subst. destruct (IH Hl) as [ids Hids].
  destruct (resolve_from_some names 0 a Ha) as [j Hj].
  cbn [Routing.resolve_all]. unfold Routing.resolve. rewrite Hj, Hids. eauto.
Qed.

Lemma insert_len_Forall (P : Routing.logger -> Prop) x l :
  P x -> Forall P l -> Forall P (Routing.insert_len x l).
Proof.
  intros Hx. induction l as [|y l IH]; intros Hl; cbn [Routing.insert_len]; [auto|].
  inversion Hl; subst. destruct (Nat.leb _ _); auto.
Qed.

Lemma sort_len_Forall (P : Routing.logger -> Prop) l : Forall P l -> Forall P (Routing.sort_len l).
Proof.
  induction l as [|x l IH]; intros H; cbn [Routing.sort_len]; [auto|].
  inversion H; subst. apply insert_len_Forall; auto.
Qed.

Lemma fold_add_logger_some names ls : forall t,
  Forall (fun lg => Forall (fun r => In r names) (Routing.l_apps lg)) ls ->
  exists t', fold_left (Routing.add_logger names) ls (Some t) = Some t'.
Proof.
  induction ls as [|lg ls IH]; intros t H; [exists t; reflexivity|].
  inversion H as [|? ? Hlg Hls]; subst.
  destruct (resolve_all_some names _ Hlg) as [ids Hids].
  cbn [fold_left]. unfold Routing.add_logger at 2. rewrite Hids. apply IH. exact Hls.
Qed.

(* a configuration whose references all resolve can be handed to SharedLogger::new *)
Lemma valid_installs c :
  Forall (fun r => In r (c_appenders c)) (c_root_apps c) ->
  Forall (fun l => Forall (fun r => In r (c_appenders c)) (lapps l)) (c_loggers c) ->
  exists t, Routing.build (to_routing c) = Some t.
Proof.
  intros Hr Hl. unfold Routing.build, to_routing. cbn.
  destruct (resolve_all_some _ _ Hr) as [ra Hra]. rewrite Hra.
  apply fold_add_logger_some. apply sort_len_Forall.
  apply Forall_forall. intros lg Hin. apply in_map_iff in Hin. destruct Hin as (l & <- & Hin).
  cbn. rewrite Forall_forall in Hl. exact (Hl l Hin).
Qed.

Theorem lossy_result_installs apps lvl root_refs ls :
  exists t, Routing.build (to_routing (fst (build_lossy apps lvl root_refs ls))) = Some t.
Proof.
  destruct (result_valid apps lvl root_refs ls) as (_ & _ & _ & Hr & Hl).
  apply valid_installs; assumption.
Qed.

Lemma build_is_lossy_clean apps lvl root_refs ls c :
  build apps lvl root_refs ls = Some c <-> build_lossy apps lvl root_refs ls = (c, []).
Proof.
  unfold build. destruct (build_lossy apps lvl root_refs ls) as [c' e]. destruct e; split; intros H; try congruence.
Qed.

Theorem strict_result_installs apps lvl root_refs ls c :
  build apps lvl root_refs ls = Some c -> exists t, Routing.build (to_routing c) = Some t.
Proof.
  intros H. apply build_is_lossy_clean in H.
  pose proof (lossy_result_installs apps lvl root_refs ls) as L. rewrite H in L. exact L.
Qed.

(* what the lossy path returns passes the strict path unchanged (the lossy result is a fixed point) *)
Theorem lossy_result_passes_strict apps lvl root_refs ls :
  let c := fst (build_lossy apps lvl root_refs ls) in
  build (c_appenders c) (c_root_level c) (c_root_apps c) (c_loggers c) = Some c.
Proof.
  intros c. destruct (result_valid apps lvl root_refs ls) as (H1 & H2 & H3 & H4 & H5). fold c in H1, H2, H3, H4, H5.
  destruct (proj2 (build_ok_iff (c_appenders c) (c_root_level c) (c_root_apps c) (c_loggers c))) as [c' Hc'].
  { repeat split; assumption. }
  rewrite Hc'. f_equal. rewrite (build_returns_input _ _ _ _ _ Hc'). destruct c; reflexivity.
Qed.
