(* C04 — soundness of the trace validator `check_trace` (Model/FileApp.v): a file
   it accepts is the open content followed by whole records, the records of each
   thread appearing exactly once and in that thread's order. *)
From Coq Require Import List Arith NArith Bool Lia.
Import ListNotations.
From L4 Require Import Model.BufW Model.FileApp.

Lemma strip_sound : forall p l l', strip p l = Some l' -> l = p ++ l'.
Proof.
  induction p as [|x p IH]; intros l l' H; cbn [strip] in H.
  - inversion H. reflexivity.
  - destruct l as [|y l]; [discriminate|].
    destruct (N.eqb_spec x y) as [->|_]; [|discriminate].
    cbn [app]. f_equal. apply IH. exact H.
Qed.

Lemma find_next_sound : forall rems i obs j obs',
    find_next i rems obs = Some (j, obs') ->
    exists k r rest, j = i + k /\ nth k rems [] = r :: rest /\ obs = r ++ obs'.
Proof.
  induction rems as [|l rems IH]; intros i obs j obs' H; cbn [find_next] in H; [discriminate|].
  assert (Hrec : find_next (S i) rems obs = Some (j, obs') ->
                 exists k r rest, j = i + k /\ nth k (l :: rems) [] = r :: rest /\ obs = r ++ obs').
  { intro H'. destruct (IH _ _ _ _ H') as (k & r & rest & Hj & Hn & Ho).
    exists (S k), r, rest. cbn [nth]. repeat split; auto. lia. }
  destruct l as [|r rest]; [auto|].
  destruct r as [|x r]; [auto|].
  destruct (strip (x :: r) obs) as [o1|] eqn:Hs; [|auto].
  inversion H; subst. exists 0, (x :: r), rest. cbn [nth]. repeat split; auto.
  apply strip_sound. exact Hs.
Qed.

Lemma pop_same : forall k rems, nth k (pop k rems) [] = tl (nth k rems []).
Proof.
  induction k as [|k IH]; intros [|l rems]; cbn [pop nth tl]; try reflexivity. apply IH.
Qed.

Lemma pop_other : forall k rems m, m <> k -> nth m (pop k rems) [] = nth m rems [].
Proof.
  induction k as [|k IH]; intros [|l rems] m Hm; cbn [pop]; try reflexivity.
  - destruct m; [contradiction|reflexivity].
  - destruct m; cbn [nth]; [reflexivity|]. apply IH. lia.
Qed.

Definition tproj (i : nat) (done : list (nat * bytes)) : list bytes :=
  map snd (filter (fun d => Nat.eqb (fst d) i) done).

Lemma parse_trace_sound : forall fuel rems obs acc order rems',
    parse_trace fuel rems obs acc = Some (order, rems') ->
    exists done : list (nat * bytes),
      order = rev acc ++ map fst done
      /\ obs = concat (map snd done)
      /\ forall i, tproj i done ++ nth i rems' [] = nth i rems [].
Proof.
  induction fuel as [|f IH]; intros rems obs acc order rems' H.
  - destruct obs; cbn [parse_trace] in H; [|discriminate].
    inversion H; subst. exists []. cbn. rewrite app_nil_r. auto.
  - destruct obs as [|b obs]; cbn [parse_trace] in H.
    + inversion H; subst. exists []. cbn. rewrite app_nil_r. auto.
    + destruct (find_next 0 rems (b :: obs)) as [[i obs']|] eqn:Hf; [|discriminate].
      apply find_next_sound in Hf. destruct Hf as (k & r & rest & Hi & Hn & Ho).
      cbn [plus] in Hi. subst k.
      apply IH in H. destruct H as (done & Hord & Hobs & Hproj).
      exists ((i, r) :: done). repeat split.
      * rewrite Hord. cbn [rev map fst]. rewrite <- app_assoc. reflexivity.
      * cbn [map snd concat]. rewrite Ho, Hobs. reflexivity.
      * intro j. unfold tproj. cbn [filter fst].
        destruct (Nat.eqb_spec i j) as [<-|Hne].
        -- cbn [map snd app]. fold (tproj i done). rewrite Hproj, pop_same, Hn. reflexivity.
        -- fold (tproj j done). rewrite Hproj. apply pop_other. lia.
Qed.

Lemma all_nil : forall (rems : list (list bytes)),
    forallb (fun l => match l with [] => true | _ => false end) rems = true ->
    forall i, nth i rems [] = [].
Proof.
  induction rems as [|l rems IH]; intros H i; [destruct i; reflexivity|].
  cbn [forallb] in H. apply andb_true_iff in H. destruct H as [Hl Hr].
  destruct i; cbn [nth].
  - destruct l; [reflexivity|discriminate].
  - apply IH. exact Hr.
Qed.

Lemma check_trace_sound : forall content0 recs obs order,
    check_trace content0 recs obs = Some order ->
    exists done : list (nat * bytes),
      map fst done = order
      /\ obs = content0 ++ concat (map snd done)
      /\ forall i, map snd (filter (fun d => Nat.eqb (fst d) i) done) = nth i recs [].
Proof.
  intros content0 recs obs order H. unfold check_trace in H.
  destruct (strip content0 obs) as [obs1|] eqn:Hs; [|discriminate].
  apply strip_sound in Hs.
  destruct (parse_trace (length (concat recs)) recs obs1 []) as [[ord rems]|] eqn:Hp; [|discriminate].
  destruct (forallb _ rems) eqn:Hall; [|discriminate].
  inversion H; subst ord. clear H.
  apply parse_trace_sound in Hp. destruct Hp as (done & Hord & Hobs & Hproj).
  exists done. repeat split.
  - rewrite Hord. reflexivity.
  - rewrite Hs, Hobs. reflexivity.
  - intro i. specialize (Hproj i). rewrite (all_nil rems Hall i), app_nil_r in Hproj. exact Hproj.
Qed.
