(* C16 — facts about Trigger::trigger / TimeTrigger::new that need no calendar
   arithmetic, and the refutation witnesses of the three open finding classes
   (computed on a small zone with two transitions, Berlin's 2025 rules). *)
From Coq Require Import ZArith NArith Lia List Bool.
From L4 Require Import Model.Civil Model.TZ Model.TimeTrig.
Import ListNotations.
Local Open Scope Z_scope.

(* ---------- trigger: compare, reschedule from the firing instant ---------- *)

Lemma at_or_after_iff : forall now_s now_ns next, 0 <= now_ns ->
  (at_or_after now_s now_ns next = true <-> next <= now_s).
Proof.
  intros s ns nx Hns. unfold at_or_after.
  rewrite orb_true_iff, andb_true_iff, Z.ltb_lt, Z.eqb_eq, Z.leb_le. lia.
Qed.

(* the trigger fires exactly when the scheduled instant is at or before the
   record's arrival time; only then is the schedule replaced, and the new one is
   TimeTrigger::new evaluated at the arrival time (not at the old schedule) *)
Lemma trigger_fires_iff : forall z c next now_s now_ns r fired nx,
  0 <= now_ns ->
  trigger_step z c next now_s now_ns r = Ok (fired, nx) ->
  (fired = true <-> next <= now_s) /\
  (fired = true -> trigger_new z c now_s r = Ok nx) /\
  (fired = false -> nx = next).
Proof.
  intros z c next s ns r fired nx Hns H. unfold trigger_step in H.
  pose proof (at_or_after_iff s ns next Hns) as Hiff.
  destruct (at_or_after s ns next).
  - destruct (trigger_new z c s r) as [t|w]; cbn [bind] in H; [|discriminate].
    injection H as <- <-. split; [tauto|]. split; [reflexivity|discriminate].
  - injection H as <- <-. repeat split; try discriminate; try reflexivity.
    intros H. apply Hiff in H. discriminate.
Qed.

Lemma trigger_not_due : forall z c next now_s now_ns r,
  0 <= now_ns -> now_s < next ->
  trigger_step z c next now_s now_ns r = Ok (false, next).
Proof.
  intros z c next s ns r Hns Hlt. unfold trigger_step.
  pose proof (at_or_after_iff s ns next Hns) as Hiff.
  destruct (at_or_after s ns next); [|reflexivity].
  assert (next <= s) by (apply Hiff; reflexivity). lia.
Qed.

(* ---------- TimeTrigger::new: the random delay ---------- *)

Lemma wrap_i64_small : forall r, 0 <= r < 9223372036854775808 -> wrap_i64 r = r.
Proof.
  intros r H. unfold wrap_i64.
  rewrite Z.mod_small by lia. lia.
Qed.

Lemma trigger_new_delay : forall z c now r t,
  0 <= r < Z.max (c_maxd c) 1 -> c_maxd c <= 18446744073709551615 ->
  r < 9223372036854775808 ->
  trigger_new z c now r = Ok t ->
  exists base, get_next_time z now (c_unit c) (c_n c) (c_mod c) = Ok base /\
               t = base + r /\ base <= t /\ (0 < c_maxd c -> t < base + c_maxd c).
Proof.
  intros z c now r t Hr Hmax Hr63 H. unfold trigger_new in H.
  destruct (get_next_time z now (c_unit c) (c_n c) (c_mod c)) as [base|w]; cbn [bind] in H; [|discriminate].
  exists base. split; [reflexivity|].
  destruct (0 <? c_maxd c) eqn:E.
  - apply Z.ltb_lt in E. rewrite wrap_i64_small in H by lia.
    unfold duration in H. destruct (_ && _); cbn [bind] in H; [|discriminate].
    unfold dt_add in H. destruct (_ && _); [|discriminate].
    injection H as <-. lia.
  - apply Z.ltb_ge in E. injection H as <-. lia.
Qed.

Lemma trigger_new_no_delay : forall z c now r,
  c_maxd c = 0 -> trigger_new z c now r = get_next_time z now (c_unit c) (c_n c) (c_mod c).
Proof.
  intros z c now r H. unfold trigger_new. rewrite H. cbn [Z.ltb Z.compare].
  destruct (get_next_time z now (c_unit c) (c_n c) (c_mod c)); reflexivity.
Qed.

(* ---------- pre-process order: the roll precedes the write of the firing record ---------- *)

Lemma append_fired_order : forall z c next file a nx st',
  append_step z c {| a_next := Some next; a_file := file |} a = (Appended true nx file, st') ->
  a_file st' = [ar_idx a] /\ a_next st' = Some nx.
Proof.
  intros z c next file a nx st' H. unfold append_step in H. cbn [a_next a_file] in H.
  destruct (trigger_step z c next (ar_s a) (ar_ns a) (ar_r a)) as [[f n1]|w]; [|discriminate].
  destruct f; injection H as ? ?; subst; [split; reflexivity|discriminate].
Qed.

Lemma append_step_cases : forall z c next file a,
  match append_step z c {| a_next := Some next; a_file := file |} a with
  | (Appended true nx arch, st') =>
      (* fired: everything written so far is archived, the firing record starts the new file *)
      arch = file /\ a_file st' = [ar_idx a] /\ a_next st' = Some nx
  | (Appended false nx arch, st') =>
      arch = [] /\ a_file st' = file ++ [ar_idx a] /\ nx = next /\ a_next st' = Some next
  | (Panicked w, st') => a_file st' = file /\ a_next st' = None
  end.
Proof.
  intros z c next file a. unfold append_step. cbn [a_next a_file].
  destruct (trigger_step z c next (ar_s a) (ar_ns a) (ar_r a)) as [[f n1]|w] eqn:E.
  - destruct f; cbn; repeat split; try reflexivity.
    + unfold trigger_step in E. destruct (at_or_after _ _ _).
      * destruct (trigger_new _ _ _ _); cbn in E; discriminate.
      * injection E as <-. reflexivity.
    + unfold trigger_step in E. destruct (at_or_after _ _ _).
      * destruct (trigger_new _ _ _ _); cbn in E; discriminate.
      * injection E as <-. reflexivity.
  - cbn. split; reflexivity.
Qed.

(* ---------- refutation witnesses (open finding classes) ---------- *)

(* Europe/Berlin around 2025: CET, CEST from 2025-03-30 01:00 UTC, CET again from
   2025-10-26 01:00 UTC *)
Definition berlin2025 : zone :=
  {| z_init := 3600;
     z_trans := [ {| tr_at := 1743296400; tr_off := 7200; tr_gap_excl := false |};
                  {| tr_at := 1761440400; tr_off := 3600; tr_gap_excl := false |} ] |}.
Definition utc0 : zone := {| z_init := 0; z_trans := [] |}.

(* F-C16-dst-overlap-panic: 2025-10-26 02:30 CEST (first pass through the repeated
   hour): the truncated local time is ambiguous, `unwrap` panics *)
Lemma dst_overlap_panics :
  exists z now u, In u [USecond; UMinute; UHour] /\
    get_next_time z now u 1 false = Panic 3.
Proof. exists berlin2025, 1761438600, UHour. split; [cbn; tauto|vm_compute; reflexivity]. Qed.

Lemma dst_overlap_panics_all_three :
  get_next_time berlin2025 1761438600 USecond 1 false = Panic 3 /\
  get_next_time berlin2025 1761438600 UMinute 1 false = Panic 3 /\
  get_next_time berlin2025 1761438600 UHour 1 false = Panic 3 /\
  (* second pass (CET) as well *)
  get_next_time berlin2025 (1761438600 + 3600) UHour 1 false = Panic 3.
Proof. vm_compute. repeat split; reflexivity. Qed.

(* F-C16-fallback-storm: 2025-10-26 23:10 CET, Day(1)/Week(1): the schedule is
   23:00 CET, not after now; the trigger fires, reschedules to the same past
   instant, and fires again on the next record *)
Lemma dst_fallback_storm :
  exists z now t, get_next_time z now UDay 1 false = Ok t /\ t <= now.
Proof. exists berlin2025, 1761516600, 1761516000. split; [vm_compute; reflexivity|lia]. Qed.

Lemma dst_fallback_storm_week :
  exists z now t, get_next_time z now UWeek 1 false = Ok t /\ t <= now.
Proof. exists berlin2025, 1761516600, 1761516000. split; [vm_compute; reflexivity|lia]. Qed.

Lemma dst_fallback_storm_fires_every_record :
  let c := {| c_unit := UDay; c_n := 1; c_mod := false; c_maxd := 0 |} in
  exists z next now,
    trigger_step z c next now 0 0 = Ok (true, next) /\
    trigger_step z c next (now + 1) 0 0 = Ok (true, next) /\
    trigger_step z c next (now + 2) 0 0 = Ok (true, next).
Proof.
  exists berlin2025, 1761516000, 1761516600. vm_compute. repeat split; reflexivity.
Qed.

(* F-C16-degenerate-interval *)
Lemma absurd_interval_panics :
  (exists w, get_next_time utc0 1700000000 UYear 300000 false = Panic w) /\
  (forall u, exists w, get_next_time utc0 1700000000 u 0 true = Panic w) /\
  (exists t, get_next_time utc0 1700000000 UHour 0 false = Ok t /\ t <= 1700000000) /\
  (exists w, get_next_time utc0 1700000000 USecond 4611686018427387904 false = Panic w) /\
  (* 2^32 months: `n as u32` = 0 *)
  (exists t, get_next_time utc0 1700000000 UMonth 4294967296 false = Ok t /\ t <= 1700000000).
Proof.
  split; [eexists; vm_compute; reflexivity|].
  split; [intros u; destruct u; eexists; vm_compute; reflexivity|].
  split; [eexists; split; [vm_compute; reflexivity|lia]|].
  split; [eexists; vm_compute; reflexivity|].
  eexists; split; [vm_compute; reflexivity|lia].
Qed.
