(* C16 — facts about the zone model (Model/TZ.v): on a well-separated table
   (offsets within [-K, K], consecutive transitions more than 2K apart), a local
   time that chrono resolves to a single offset resolves to THE offset in force,
   provided that offset is constant from the resolved instant to some later
   instant of reference (the trigger's `now`). *)
From Coq Require Import ZArith Lia List Bool.
From L4 Require Import Model.TZ.
Import ListNotations.
Local Open Scope Z_scope.

(* the zone's UTC offset is `off` at every instant of [a, b] *)
Definition const_on (z : zone) (off a b : Z) : Prop :=
  forall u, a <= u <= b -> offset_at z u = off.

(* decidable sanity class of a transition table *)
Fixpoint sane_from (K prev : Z) (trs : list transition) : bool :=
  (- K <=? prev) && (prev <=? K) &&
  match trs with
  | [] => true
  | t :: rest =>
    match rest with [] => true | t' :: _ => tr_at t + 2 * K <? tr_at t' end
    && sane_from K (tr_off t) rest
  end.
Definition sane (K : Z) (z : zone) : bool := sane_from K (z_init z) (z_trans z).

Lemma sane_from_prev : forall K prev trs, sane_from K prev trs = true -> - K <= prev <= K.
Proof.
  intros K prev trs H. destruct trs; cbn [sane_from] in H;
  rewrite !andb_true_iff in H; destruct H as [[H1 H2] _];
  apply Z.leb_le in H1, H2; lia.
Qed.

Lemma sane_from_tail : forall K prev t rest,
  sane_from K prev (t :: rest) = true -> sane_from K (tr_off t) rest = true.
Proof.
  intros K prev t rest H. cbn [sane_from] in H.
  rewrite !andb_true_iff in H. tauto.
Qed.

Lemma sane_from_gap : forall K prev t t' rest,
  sane_from K prev (t :: t' :: rest) = true -> tr_at t + 2 * K < tr_at t'.
Proof.
  intros K prev t t' rest H. cbn [sane_from] in H.
  rewrite !andb_true_iff in H. destruct H as [_ [H _]]. apply Z.ltb_lt in H. exact H.
Qed.

Lemma offset_scan_bound : forall K trs prev u,
  sane_from K prev trs = true -> - K <= offset_scan prev trs u <= K.
Proof.
  intros K trs. induction trs as [|t rest IH]; intros prev u H.
  - cbn. apply (sane_from_prev _ _ _ H).
  - cbn [offset_scan]. destruct (u <? tr_at t).
    + apply (sane_from_prev _ _ _ H).
    + apply IH. apply (sane_from_tail _ _ _ _ H).
Qed.

Lemma offset_scan_before : forall prev t rest u, u < tr_at t -> offset_scan prev (t :: rest) u = prev.
Proof.
  intros. cbn [offset_scan]. destruct (u <? tr_at t) eqn:E; [reflexivity|apply Z.ltb_ge in E; lia].
Qed.

Lemma offset_scan_after : forall prev t rest u, tr_at t <= u ->
  offset_scan prev (t :: rest) u = offset_scan (tr_off t) rest u.
Proof.
  intros. cbn [offset_scan]. destruct (u <? tr_at t) eqn:E; [apply Z.ltb_lt in E; lia|reflexivity].
Qed.

(* one step of resolve_scan, by the position of l relative to the transition *)
Lemma resolve_step_before : forall prev t rest l r,
  l < tr_at t + prev ->
  resolve_scan prev (t :: rest) l = LSingle r -> r = prev.
Proof.
  intros prev t rest l r Hl H. cbn [resolve_scan] in H. cbv zeta in H.
  destruct (Z.compare_spec (tr_at t + prev) (tr_at t + tr_off t)) as [E|E|E].
  - destruct (l <? tr_at t + prev) eqn:E1; [congruence|apply Z.ltb_ge in E1; lia].
  - destruct (tr_gap_excl t).
    + destruct (l <? tr_at t + prev) eqn:E1; [congruence|apply Z.ltb_ge in E1; lia].
    + destruct (l <=? tr_at t + prev) eqn:E1; [congruence|apply Z.leb_gt in E1; lia].
  - destruct (l <? tr_at t + tr_off t) eqn:E1; [congruence|].
    destruct (l <=? tr_at t + prev) eqn:E2; [|apply Z.leb_gt in E2; lia].
    destruct (prev <? tr_off t); discriminate.
Qed.

Lemma resolve_step_at_or_after : forall prev t rest l r,
  tr_at t + tr_off t <= l ->
  resolve_scan prev (t :: rest) l = LSingle r ->
  (r = tr_off t /\ l = tr_at t + tr_off t) \/ resolve_scan (tr_off t) rest l = LSingle r.
Proof.
  intros prev t rest l r Hl H. cbn [resolve_scan] in H. cbv zeta in H.
  destruct (Z.compare_spec (tr_at t + prev) (tr_at t + tr_off t)) as [E|E|E].
  - destruct (l <? tr_at t + prev) eqn:E1; [apply Z.ltb_lt in E1; lia|].
    destruct (l =? tr_at t + tr_off t) eqn:E2.
    + destruct (prev <? tr_off t); discriminate.
    + right. exact H.
  - assert (E0 : (if tr_gap_excl t then l <? tr_at t + prev else l <=? tr_at t + prev) = false).
    { destruct (tr_gap_excl t); [apply Z.ltb_ge|apply Z.leb_gt]; lia. }
    rewrite E0 in H.
    destruct (l <? tr_at t + tr_off t) eqn:E1; [apply Z.ltb_lt in E1; lia|].
    destruct (l =? tr_at t + tr_off t) eqn:E2.
    + apply Z.eqb_eq in E2. left. split; [congruence|exact E2].
    + right. exact H.
  - destruct (l <? tr_at t + tr_off t) eqn:E1; [apply Z.ltb_lt in E1; lia|].
    destruct (l <=? tr_at t + prev) eqn:E2.
    + destruct (prev <? tr_off t); discriminate.
    + right. exact H.
Qed.

Lemma resolve_step_far : forall prev t rest l,
  tr_at t + prev < l -> tr_at t + tr_off t < l ->
  resolve_scan prev (t :: rest) l = resolve_scan (tr_off t) rest l.
Proof.
  intros prev t rest l H1 H2. cbn [resolve_scan]. cbv zeta.
  destruct (Z.compare_spec (tr_at t + prev) (tr_at t + tr_off t)) as [E|E|E].
  - destruct (l <? tr_at t + prev) eqn:E1; [apply Z.ltb_lt in E1; lia|].
    destruct (l =? tr_at t + tr_off t) eqn:E2; [apply Z.eqb_eq in E2; lia|reflexivity].
  - assert (E0 : (if tr_gap_excl t then l <? tr_at t + prev else l <=? tr_at t + prev) = false).
    { destruct (tr_gap_excl t); [apply Z.ltb_ge|apply Z.leb_gt]; lia. }
    rewrite E0.
    destruct (l <? tr_at t + tr_off t) eqn:E1; [apply Z.ltb_lt in E1; lia|].
    destruct (l =? tr_at t + tr_off t) eqn:E2; [apply Z.eqb_eq in E2; lia|reflexivity].
  - destruct (l <? tr_at t + tr_off t) eqn:E1; [apply Z.ltb_lt in E1; lia|].
    destruct (l <=? tr_at t + prev) eqn:E2; [apply Z.leb_le in E2; lia|reflexivity].
Qed.

(* the key lemma *)
Lemma resolve_scan_const : forall K trs prev l off b off',
  sane_from K prev trs = true ->
  l - off <= b ->
  (forall u, l - off <= u <= b -> offset_scan prev trs u = off) ->
  resolve_scan prev trs l = LSingle off' ->
  off' = off.
Proof.
  intros K trs. induction trs as [|t rest IH]; intros prev l off b off' Hs Hab Hc Hr.
  - cbn in Hr. specialize (Hc (l - off) ltac:(lia)). cbn in Hc. congruence.
  - destruct (Z_lt_ge_dec (l - off) (tr_at t)) as [Hlt|Hge].
    + (* the candidate instant lies before this transition *)
      pose proof (Hc (l - off) ltac:(lia)) as H0.
      rewrite offset_scan_before in H0 by exact Hlt. subst prev.
      eapply resolve_step_before; [|exact Hr]. lia.
    + pose proof (sane_from_tail _ _ _ _ Hs) as Hs'.
      pose proof (sane_from_prev _ _ _ Hs) as Bp.
      pose proof (sane_from_prev _ _ _ Hs') as Bn.
      assert (Hc' : forall u, l - off <= u <= b -> offset_scan (tr_off t) rest u = off).
      { intros u Hu. rewrite <- (Hc u Hu). symmetry. apply offset_scan_after. lia. }
      assert (Boff : - K <= off <= K).
      { rewrite <- (Hc' (l - off) ltac:(lia)). apply offset_scan_bound. exact Hs'. }
      assert (Hnear : (rest = [] \/ exists t' r', rest = t' :: r' /\ l - off < tr_at t')
                      \/ exists t' r', rest = t' :: r' /\ tr_at t' <= l - off).
      { destruct rest as [|t' r']; [left; left; reflexivity|].
        destruct (Z_lt_ge_dec (l - off) (tr_at t')).
        - left. right. exists t', r'. split; [reflexivity|assumption].
        - right. exists t', r'. split; [reflexivity|lia]. }
      destruct Hnear as [Hnear|(t' & r' & -> & Hfar)].
      * assert (off = tr_off t).
        { rewrite <- (Hc' (l - off) ltac:(lia)).
          destruct Hnear as [->|(t' & r' & -> & Hn)]; [reflexivity|].
          apply offset_scan_before. exact Hn. }
        subst off.
        assert (Hte : tr_at t + tr_off t <= l) by lia.
        destruct (resolve_step_at_or_after _ _ _ _ _ Hte Hr) as [[-> _]|Hr'].
        -- reflexivity.
        -- apply (IH _ _ _ b _ Hs' Hab Hc' Hr').
      * pose proof (sane_from_gap _ _ _ _ _ Hs) as Hg.
        rewrite resolve_step_far in Hr by lia.
        apply (IH _ _ _ b _ Hs' Hab Hc' Hr).
Qed.

Lemma resolve_local_const : forall K z l off b off',
  sane K z = true -> l - off <= b -> const_on z off (l - off) b ->
  resolve_local z l = LSingle off' -> off' = off.
Proof.
  intros K z l off b off' Hs Hab Hc Hr.
  apply (resolve_scan_const K (z_trans z) (z_init z) l off b off' Hs Hab Hc Hr).
Qed.

(* fixed-offset zone *)
Lemma resolve_local_fixed : forall z l, z_trans z = [] -> resolve_local z l = LSingle (z_init z).
Proof. intros z l H. unfold resolve_local. rewrite H. reflexivity. Qed.

Lemma offset_at_fixed : forall z u, z_trans z = [] -> offset_at z u = z_init z.
Proof. intros z u H. unfold offset_at. rewrite H. reflexivity. Qed.

(* no transition instant in (a, b]  =>  the offset is constant on [a, b] *)
Definition no_transition_in (z : zone) (a b : Z) : bool :=
  forallb (fun t => negb ((a <? tr_at t) && (tr_at t <=? b))) (z_trans z).

Lemma offset_scan_no_transition : forall trs prev a b u,
  forallb (fun t => negb ((a <? tr_at t) && (tr_at t <=? b))) trs = true ->
  a <= u <= b -> offset_scan prev trs u = offset_scan prev trs a.
Proof.
  induction trs as [|t rest IH]; intros prev a b u H Hu; [reflexivity|].
  cbn [forallb] in H. apply andb_prop in H. destruct H as [H1 H2].
  cbn [offset_scan].
  apply negb_true_iff in H1. apply andb_false_iff in H1.
  destruct (u <? tr_at t) eqn:E1; destruct (a <? tr_at t) eqn:E2; try reflexivity;
    try (apply (IH _ _ _ _ H2 Hu)).
  - apply Z.ltb_lt in E1. apply Z.ltb_ge in E2. lia.
  - apply Z.ltb_ge in E1. apply Z.ltb_lt in E2.
    destruct H1 as [H1|H1]; [congruence|]. apply Z.leb_gt in H1. lia.
Qed.

Lemma no_transition_const : forall z a b,
  no_transition_in z a b = true -> const_on z (offset_at z a) a b.
Proof.
  intros z a b H u Hu. unfold offset_at. apply (offset_scan_no_transition _ _ a b u H Hu).
Qed.
