(* C15 (part A) — specification vocabulary and invariants for Model/Swap.v. *)
From Coq Require Import List NArith Bool Arith Lia.
Import ListNotations.
From L4 Require Import Model.Routing Model.Swap.

(* ---------------- declarative vocabulary over traces ---------------- *)

Definition rid_eqb (a b : rid) : bool := Nat.eqb (fst a) (fst b) && Nat.eqb (snd a) (snd b).

Definition ev_rid (e : event) : option rid :=
  match e with
  | ELoad r _ => Some r
  | EDeliver r _ _ => Some r
  | ERet r => Some r
  | _ => None
  end.

(* the events of a trace that belong to record r *)
Definition about (r : rid) (e : event) : bool :=
  match ev_rid e with Some r' => rid_eqb r r' | None => false end.
Definition proj (r : rid) (tr : list event) : list event := filter (about r) tr.

(* (table tag, appender index) of the deliveries in a trace *)
Definition dl (tr : list event) : list (N * nat) :=
  flat_map (fun e => match e with EDeliver _ tag i => [(tag, i)] | _ => [] end) tr.
(* the deliveries of record r in a trace, in order *)
Definition deliveries (r : rid) (tr : list event) : list (N * nat) := dl (proj r tr).

(* the configuration that is current after a trace: the last stored one, else the initial *)
Fixpoint current (c0 : shared) (tr : list event) : shared :=
  match tr with
  | [] => c0
  | EStore s :: r => current s r
  | _ :: r => current c0 r
  end.

(* the complete life of record r = (target tg, level L) under snapshot s *)
Definition full (r : rid) (s : shared) (tg : str) (L : N) : list event :=
  ELoad r s :: map (EDeliver r (fst s)) (deliver (snd s) tg L) ++ [ERet r].

(* the route of a record under snapshot s, as (tag, index) pairs *)
Definition route (s : shared) (tg : str) (L : N) : list (N * nat) :=
  map (pair (fst s)) (deliver (snd s) tg L).

(* ---------------- list / vocabulary lemmas ---------------- *)

Lemma rid_eqb_refl r : rid_eqb r r = true.
Proof. unfold rid_eqb. now rewrite !Nat.eqb_refl. Qed.

Lemma rid_eqb_eq a b : rid_eqb a b = true <-> a = b.
Proof.
  destruct a as [a1 a2], b as [b1 b2]. unfold rid_eqb. cbn.
  rewrite andb_true_iff, !Nat.eqb_eq. split; [intros [-> ->]; reflexivity|intros E; inversion E; auto].
Qed.

Lemma proj_app r a b : proj r (a ++ b) = proj r a ++ proj r b.
Proof. apply filter_app. Qed.

Lemma dl_app a b : dl (a ++ b) = dl a ++ dl b.
Proof. unfold dl. apply flat_map_app. Qed.

Lemma dl_map_deliver r tag l : dl (map (EDeliver r tag) l) = map (pair tag) l.
Proof. induction l as [|i l IH]; cbn; [reflexivity|]. now rewrite <- IH. Qed.

Lemma current_app c a b : current c (a ++ b) = current (current c a) b.
Proof. revert c; induction a as [|e a IH]; intros c; [reflexivity|]. destruct e; cbn; apply IH. Qed.

Lemma current_no_store c tr : (forall s, ~ In (EStore s) tr) -> current c tr = c.
Proof.
  induction tr as [|e tr IH]; intros H; [reflexivity|].
  destruct e as [r s1|r tag i|r|s1|t]; cbn;
    try (apply IH; intros s2 Hs; apply (H s2); right; exact Hs).
  exfalso. apply (H s1). left. reflexivity.
Qed.

(* every load in the trace returned the configuration current at that point *)
Fixpoint loads_ok (c : shared) (tr : list event) : Prop :=
  match tr with
  | [] => True
  | ELoad _ s :: t => s = c /\ loads_ok c t
  | EStore s :: t => loads_ok s t
  | _ :: t => loads_ok c t
  end.

Lemma loads_ok_app c a b : loads_ok c (a ++ b) <-> loads_ok c a /\ loads_ok (current c a) b.
Proof.
  revert c; induction a as [|e a IH]; intros c; [cbn; tauto|].
  destruct e; cbn; rewrite ?IH; tauto.
Qed.

Lemma skipn_cons_S {A} n (l : list A) x p : skipn n l = x :: p -> skipn (S n) l = p /\ nth_error l n = Some x.
Proof.
  revert l; induction n as [|n IH]; intros l H.
  - destruct l; cbn in *; [discriminate|]. inversion H; auto.
  - destruct l; cbn in H; [discriminate|]. apply IH in H. exact H.
Qed.

(* ---------------- per-thread invariant ---------------- *)

Definition prefix_ok (tid : nat) (prog : list op) (tr : list event) (k : nat) : Prop :=
  proj (tid, k) tr = [] \/
  exists tg L s rest, nth_error prog k = Some (OLog tg L) /\
                      full (tid, k) s tg L = proj (tid, k) tr ++ rest.

Definition TI (tid : nat) (prog : list op) (ts : tstate) (tr : list event) : Prop :=
  (forall k, prefix_ok tid prog tr k) /\
  match ts with
  | Idle pc p => p = skipn pc prog /\ (forall k, pc <= k -> proj (tid, k) tr = [])
  | Fan pc snap todo pend p =>
      exists tg L, skipn pc prog = OLog tg L :: p /\
                   (forall k, pc < k -> proj (tid, k) tr = []) /\
                   proj (tid, pc) tr ++ map (EDeliver (tid, pc) (fst snap)) todo ++ [ERet (tid, pc)]
                   = full (tid, pc) snap tg L
  | Dead => True
  end.

(* events of a step belong to the stepping thread *)
Definition ev_of (tid : nat) (e : event) : Prop :=
  match ev_rid e with Some r => fst r = tid | None => True end.

Lemma tstep_events reent tid c ts c' ts' ev :
  tstep reent tid c ts = (c', ts', ev) -> Forall (ev_of tid) ev.
Proof.
  unfold tstep. intros H.
  destruct ts as [pc [|[tg L|cf] p]|pc snap [|i todo] [cf|] p|];
    try destruct (set_config cf); inversion H; subst; repeat constructor.
Qed.

Lemma proj_other tid tid' k ev : tid <> tid' -> Forall (ev_of tid') ev -> proj (tid, k) ev = [].
Proof.
  intros Hne Hf. induction Hf as [|e ev He _ IH]; [reflexivity|].
  cbn. unfold about, ev_of in *. destruct (ev_rid e) as [[t j]|]; [|exact IH].
  cbn in He. subst t. unfold rid_eqb. cbn.
  destruct (Nat.eqb_spec tid tid'); [contradiction|]. cbn. exact IH.
Qed.

Lemma TI_other tid prog ts tr ev :
  (forall k, proj (tid, k) ev = []) -> TI tid prog ts tr -> TI tid prog ts (tr ++ ev).
Proof.
  intros He [Hp Hs]. unfold TI, prefix_ok in *.
  split.
  - intros k. rewrite proj_app, He, app_nil_r. apply Hp.
  - destruct ts as [pc p|pc snap todo pend p|]; [| |exact I].
    + destruct Hs as [A B]. split; [exact A|]. intros k Hk. rewrite proj_app, He, app_nil_r. auto.
    + destruct Hs as (tg & L & A & B & C). exists tg, L. split; [exact A|]. split.
      * intros k Hk. rewrite proj_app, He, app_nil_r. auto.
      * rewrite proj_app, He, app_nil_r. exact C.
Qed.

Lemma proj_one_same tid k e : ev_rid e = Some (tid, k) -> proj (tid, k) [e] = [e].
Proof. intros H. cbn. unfold about. rewrite H, rid_eqb_refl. reflexivity. Qed.

Lemma proj_one_diff tid k k' e : ev_rid e = Some (tid, k') -> k <> k' -> proj (tid, k) [e] = [].
Proof.
  intros H Hne. cbn. unfold about. rewrite H. unfold rid_eqb. cbn.
  destruct (Nat.eqb_spec k k'); [contradiction|]. now rewrite andb_false_r.
Qed.

Lemma proj_one_none r e : ev_rid e = None -> proj r [e] = [].
Proof. intros H. cbn. unfold about. now rewrite H. Qed.

(* the stepping thread keeps its invariant *)
Lemma TI_self reent tid prog c ts tr c' ts' ev :
  tstep reent tid c ts = (c', ts', ev) -> TI tid prog ts tr -> TI tid prog ts' (tr ++ ev).
Proof.
  intros Hstep [Hp Hs]. unfold tstep in Hstep.
  destruct ts as [pc [|[tg L|cf] p]|pc snap [|i todo] [cf|] p|].
  - (* finished *) inversion Hstep; subst. rewrite app_nil_r. split; assumption.
  - (* Load *)
    inversion Hstep; subst c' ts' ev. clear Hstep. destruct Hs as [A B].
    symmetry in A. destruct (skipn_cons_S _ _ _ _ A) as [_ Hnth].
    assert (E0 : proj (tid, pc) tr = []) by (apply B; lia).
    split.
    + intros k. unfold prefix_ok. rewrite proj_app.
      destruct (Nat.eq_dec k pc) as [->|Hne].
      * right. exists tg, L, c. rewrite E0, (proj_one_same tid pc) by reflexivity.
        eexists. split; [exact Hnth|]. unfold full. cbn [app]. reflexivity.
      * rewrite (proj_one_diff tid k pc) by (auto; reflexivity). rewrite app_nil_r. apply Hp.
    + exists tg, L. split; [exact A|]. split.
      * intros k Hk. rewrite proj_app, (proj_one_diff tid k pc) by (try reflexivity; lia).
        rewrite app_nil_r. apply B. lia.
      * rewrite proj_app, E0, (proj_one_same tid pc) by reflexivity. reflexivity.
  - (* set_config by the thread *)
    destruct Hs as [A B]. symmetry in A. destruct (skipn_cons_S _ _ _ _ A) as [A' _].
    destruct (set_config cf) as [s|]; inversion Hstep; subst c' ts' ev; clear Hstep.
    + split.
      * intros k. unfold prefix_ok. rewrite proj_app, proj_one_none, app_nil_r by reflexivity. apply Hp.
      * split; [symmetry; exact A'|]. intros k Hk.
        rewrite proj_app, proj_one_none, app_nil_r by reflexivity. apply B. lia.
    + split; [|exact I].
      intros k. unfold prefix_ok. rewrite proj_app, proj_one_none, app_nil_r by reflexivity. apply Hp.
  - (* re-entrant store, empty todo *)
    destruct Hs as (tg & L & A & B & C).
    destruct (set_config cf) as [s|]; inversion Hstep; subst c' ts' ev; clear Hstep.
    + split.
      * intros k. unfold prefix_ok. rewrite proj_app, proj_one_none, app_nil_r by reflexivity. apply Hp.
      * exists tg, L. split; [exact A|]. split.
        -- intros k Hk. rewrite proj_app, proj_one_none, app_nil_r by reflexivity. auto.
        -- rewrite proj_app, proj_one_none, app_nil_r by reflexivity. exact C.
    + split; [|exact I].
      intros k. unfold prefix_ok. rewrite proj_app, proj_one_none, app_nil_r by reflexivity. apply Hp.
  - (* Ret *)
    inversion Hstep; subst c' ts' ev. clear Hstep. destruct Hs as (tg & L & A & B & C).
    destruct (skipn_cons_S _ _ _ _ A) as [A' Hnth]. cbn [map app] in C.
    split.
    + intros k. unfold prefix_ok. rewrite proj_app.
      destruct (Nat.eq_dec k pc) as [->|Hne].
      * right. exists tg, L, snap, []. rewrite (proj_one_same tid pc) by reflexivity.
        split; [exact Hnth|]. rewrite app_nil_r. symmetry. exact C.
      * rewrite (proj_one_diff tid k pc) by (auto; reflexivity). rewrite app_nil_r. apply Hp.
    + split; [symmetry; exact A'|]. intros k Hk.
      rewrite proj_app, (proj_one_diff tid k pc) by (try reflexivity; lia).
      rewrite app_nil_r. apply B. lia.
  - (* re-entrant store, non-empty todo *)
    destruct Hs as (tg & L & A & B & C).
    destruct (set_config cf) as [s|]; inversion Hstep; subst c' ts' ev; clear Hstep.
    + split.
      * intros k. unfold prefix_ok. rewrite proj_app, proj_one_none, app_nil_r by reflexivity. apply Hp.
      * exists tg, L. split; [exact A|]. split.
        -- intros k Hk. rewrite proj_app, proj_one_none, app_nil_r by reflexivity. auto.
        -- rewrite proj_app, proj_one_none, app_nil_r by reflexivity. exact C.
    + split; [|exact I].
      intros k. unfold prefix_ok. rewrite proj_app, proj_one_none, app_nil_r by reflexivity. apply Hp.
  - (* Deliver *)
    inversion Hstep; subst c' ts' ev. clear Hstep. destruct Hs as (tg & L & A & B & C).
    destruct (skipn_cons_S _ _ _ _ A) as [_ Hnth].
    assert (C' : (proj (tid, pc) tr ++ [EDeliver (tid, pc) (fst snap) i])
                 ++ map (EDeliver (tid, pc) (fst snap)) todo ++ [ERet (tid, pc)]
                 = full (tid, pc) snap tg L).
    { rewrite <- C. rewrite <- app_assoc. reflexivity. }
    split.
    + intros k. unfold prefix_ok. rewrite proj_app.
      destruct (Nat.eq_dec k pc) as [->|Hne].
      * right. exists tg, L, snap. rewrite (proj_one_same tid pc) by reflexivity.
        eexists. split; [exact Hnth|]. symmetry. exact C'.
      * rewrite (proj_one_diff tid k pc) by (auto; reflexivity). rewrite app_nil_r. apply Hp.
    + exists tg, L. split; [exact A|]. split.
      * intros k Hk. rewrite proj_app, (proj_one_diff tid k pc) by (try reflexivity; lia).
        rewrite app_nil_r. apply B. lia.
      * rewrite proj_app, (proj_one_same tid pc) by reflexivity. exact C'.
  - (* Dead *) inversion Hstep; subst. rewrite app_nil_r. split; assumption.
Qed.

(* ---------------- global invariant ---------------- *)

Definition idle0 : tstate := Idle 0 [].

Definition Inv (c0 : shared) (progs : list (list op)) (st : state) : Prop :=
  cur st = current c0 (trace st) /\
  loads_ok c0 (trace st) /\
  (forall s, In (EStore s) (trace st) -> exists c, set_config c = Some s) /\
  forall tid, TI tid (nth tid progs []) (nth tid (thr st) idle0) (trace st).

Lemma nth_upd_same {A} (l : list A) n x d : n < length l -> nth n (upd l n x) d = x.
Proof.
  revert n; induction l as [|y l IH]; intros n H; cbn in H; [lia|].
  destruct n; cbn; [reflexivity|]. apply IH. lia.
Qed.

Lemma nth_upd_other {A} (l : list A) n m x d : m <> n -> nth m (upd l n x) d = nth m l d.
Proof.
  revert n m; induction l as [|y l IH]; intros n m H; [destruct n, m; reflexivity|].
  destruct n, m; cbn; try reflexivity; try congruence. apply IH. congruence.
Qed.

Lemma length_upd {A} (l : list A) n x : length (upd l n x) = length l.
Proof. revert n; induction l as [|y l IH]; intros [|n]; cbn; auto. Qed.

Lemma tstep_cur reent tid c ts c' ts' ev :
  tstep reent tid c ts = (c', ts', ev) ->
  c' = current c ev /\ loads_ok c ev /\ (forall s, In (EStore s) ev -> exists cf, set_config cf = Some s).
Proof.
  unfold tstep. intros H.
  destruct ts as [pc [|[tg L|cf] p]|pc snap [|i todo] [cf|] p|];
    try (destruct (set_config cf) as [s|] eqn:E); inversion H; subst; cbn;
      (split; [reflexivity|split; [auto|]]); intros s' Hs; cbn in Hs;
        repeat (destruct Hs as [Hs|Hs]; try discriminate Hs); try contradiction;
          inversion Hs; subst; eauto.
Qed.

Lemma Inv_step reent c0 progs st tid : Inv c0 progs st -> Inv c0 progs (step reent st tid).
Proof.
  intros (Hc & Hl & Hs & Ht). unfold step.
  destruct (nth_error (thr st) tid) as [ts|] eqn:En; [|unfold Inv; auto].
  destruct (tstep reent tid (cur st) ts) as [[c' ts'] ev] eqn:Es.
  destruct (tstep_cur _ _ _ _ _ _ _ Es) as (Ec & El & Est).
  assert (Hlt : tid < length (thr st)) by (apply nth_error_Some; congruence).
  assert (Ents : nth tid (thr st) idle0 = ts) by (apply nth_error_nth; exact En).
  unfold Inv. cbn [cur thr trace]. split; [|split; [|split]].
  - rewrite current_app, <- Hc. exact Ec.
  - apply loads_ok_app. split; [exact Hl|]. rewrite <- Hc. exact El.
  - intros s Hin. apply in_app_or in Hin. destruct Hin as [Hin|Hin]; [apply Hs; exact Hin|apply Est; exact Hin].
  - intros t. destruct (Nat.eq_dec t tid) as [->|Hne].
    + rewrite nth_upd_same by exact Hlt. apply (TI_self reent tid _ (cur st) ts _ c' ts' ev Es).
      rewrite <- Ents. apply Ht.
    + rewrite nth_upd_other by exact Hne. apply TI_other; [|apply Ht].
      intros k. apply (proj_other t tid k ev Hne). exact (tstep_events _ _ _ _ _ _ _ Es).
Qed.

Lemma Inv_run reent c0 progs sch st : Inv c0 progs st -> Inv c0 progs (run reent sch st).
Proof.
  revert st; induction sch as [|t sch IH]; intros st H; [exact H|].
  cbn. apply IH. apply Inv_step. exact H.
Qed.

Lemma Inv_init c0 progs : Inv c0 progs (init_state c0 progs).
Proof.
  unfold Inv, init_state. cbn. repeat split; try tauto.
  - intros k. left. reflexivity.
  - destruct (nth_error (map (Idle 0) progs) tid) as [ts|] eqn:E.
    + rewrite (nth_error_nth _ _ _ E). apply nth_error_In in E as Hin.
      rewrite nth_error_map in E. destruct (nth_error progs tid) as [p|] eqn:Ep; [|discriminate].
      cbn in E. inversion E; subst ts. rewrite (nth_error_nth _ _ _ Ep). cbn. auto.
    + apply nth_error_None in E. rewrite nth_overflow by exact E.
      rewrite map_length in E. rewrite nth_overflow by exact E. cbn. auto.
Qed.

(* ---------------- the headline facts ---------------- *)

Definition no_load_in (l : list event) : Prop := forall r s, ~ In (ELoad r s) l.

Lemma full_tail_no_load r tag l : no_load_in (map (EDeliver r tag) l ++ [ERet r]).
Proof.
  intros r' s H. apply in_app_or in H. destruct H as [H|[H|[]]]; [|discriminate].
  apply in_map_iff in H. destruct H as (i & H & _). discriminate.
Qed.

Lemma full_shape r s s' X A B rest :
  no_load_in X -> ELoad r s' :: X = (A ++ ELoad r s :: B) ++ rest ->
  A = [] /\ s = s' /\ X = B ++ rest.
Proof.
  intros Hn H. destruct A as [|a A].
  - cbn in H. inversion H; subst. auto.
  - cbn in H. inversion H; subst. exfalso. apply (Hn r s).
    rewrite <- app_assoc. apply in_or_app. right. left. reflexivity.
Qed.

Lemma last_forces_end {A} (l : list A) x P rest :
  l ++ [x] = P ++ rest -> ~ In x l -> In x P -> rest = [].
Proof.
  intros H Hn Hin. destruct rest as [|y rest'] using rev_ind; [reflexivity|].
  exfalso. rewrite app_assoc in H. apply app_inj_tail in H. destruct H as [H _].
  apply Hn. rewrite H. apply in_or_app. left. exact Hin.
Qed.

Lemma in_proj r e l : In e l -> about r e = true -> In e (proj r l).
Proof. intros. apply filter_In. auto. Qed.

Section Headline.
  Variables (reent : reent_t) (c0 : shared) (progs : list (list op)) (sch : list nat).
  Let st := run reent sch (init_state c0 progs).

  Lemma inv_final : Inv c0 progs st.
  Proof. apply Inv_run. apply Inv_init. Qed.

  (* Every record is routed under ONE snapshot: the configuration that was
     current (last stored, or the initial one) when its log call loaded. *)
  Lemma one_snapshot tid k s pre post :
    trace st = pre ++ ELoad (tid, k) s :: post ->
    s = current c0 pre /\
    exists tg L,
      nth_error (nth tid progs []) k = Some (OLog tg L) /\
      proj (tid, k) pre = [] /\
      (forall s', ~ In (ELoad (tid, k) s') post) /\
      (exists rest, route s tg L = deliveries (tid, k) post ++ rest) /\
      (In (ERet (tid, k)) post -> deliveries (tid, k) post = route s tg L).
  Proof.
    intros Htr. destruct inv_final as (_ & Hl & _ & Ht).
    split.
    - rewrite Htr in Hl. apply loads_ok_app in Hl. destruct Hl as [_ Hl]. cbn in Hl. tauto.
    - destruct (Ht tid) as [Hp _]. specialize (Hp k). unfold prefix_ok in Hp.
      assert (Eproj : proj (tid, k) (pre ++ ELoad (tid, k) s :: post)
                      = proj (tid, k) pre ++ ELoad (tid, k) s :: proj (tid, k) post).
      { rewrite proj_app. f_equal.
        change (ELoad (tid, k) s :: post) with ([ELoad (tid, k) s] ++ post).
        rewrite proj_app, (proj_one_same tid k) by reflexivity. reflexivity. }
      rewrite Htr, Eproj in Hp.
      destruct Hp as [Hp|(tg & L & s' & rest & Hnth & Hf)].
      { exfalso. destruct (proj (tid, k) pre); discriminate. }
      exists tg, L. unfold full in Hf.
      destruct (full_shape _ _ _ _ _ _ _ (full_tail_no_load (tid, k) (fst s') _) Hf) as (Epre & Es & EX).
      subst s'. split; [exact Hnth|]. split; [exact Epre|].
      assert (Hnl : no_load_in (proj (tid, k) post ++ rest)).
      { rewrite <- EX. apply full_tail_no_load. }
      split; [|split].
      + intros s' Hin. apply (Hnl (tid, k) s'). apply in_or_app. left.
        apply in_proj; [exact Hin|]. unfold about. cbn. apply rid_eqb_refl.
      + exists (dl rest). unfold deliveries, route. rewrite <- dl_app, <- EX, dl_app, dl_map_deliver.
        cbn. now rewrite app_nil_r.
      + intros Hret.
        assert (rest = []).
        { apply (last_forces_end _ _ _ _ EX).
          - intros Hin. apply in_map_iff in Hin. destruct Hin as (i & Hi & _). discriminate.
          - apply in_proj; [exact Hret|]. unfold about. cbn. apply rid_eqb_refl. }
        subst rest. rewrite app_nil_r in EX. unfold deliveries, route.
        rewrite <- EX, dl_app, dl_map_deliver. cbn. now rewrite app_nil_r.
  Qed.

  (* Never a mixture: all deliveries of a record, anywhere in the trace, carry the
     appender-table tag of the one snapshot it loaded, and use its route's indices. *)
  Lemma single_tag tid k s pre post d :
    trace st = pre ++ ELoad (tid, k) s :: post ->
    In d (deliveries (tid, k) (trace st)) ->
    fst d = fst s /\ exists tg L, nth_error (nth tid progs []) k = Some (OLog tg L) /\ In d (route s tg L).
  Proof.
    intros Htr Hin. destruct (one_snapshot tid k s pre post Htr) as (_ & tg & L & Hn & Hpre & _ & (rest & Hr) & _).
    assert (E : deliveries (tid, k) (trace st) = deliveries (tid, k) post).
    { unfold deliveries. rewrite Htr, proj_app, Hpre. cbn [app].
      change (ELoad (tid, k) s :: post) with ([ELoad (tid, k) s] ++ post).
      rewrite proj_app, (proj_one_same tid k) by reflexivity. reflexivity. }
    rewrite E in Hin.
    assert (Hd : In d (route s tg L)) by (rewrite Hr; apply in_or_app; left; exact Hin).
    split; [|exists tg, L; auto].
    unfold route in Hd. apply in_map_iff in Hd. destruct Hd as (i & <- & _). reflexivity.
  Qed.

  (* A load after a store (no store in between) sees exactly that store. *)
  Lemma after_store pre s mid r s' post :
    trace st = pre ++ EStore s :: mid ++ ELoad r s' :: post ->
    (forall s2, ~ In (EStore s2) mid) -> s' = s.
  Proof.
    intros Htr Hno. destruct inv_final as (_ & Hl & _).
    rewrite Htr in Hl. apply loads_ok_app in Hl. destruct Hl as [_ Hl]. cbn in Hl.
    apply loads_ok_app in Hl. destruct Hl as [_ Hl]. cbn in Hl.
    rewrite current_no_store in Hl by exact Hno. tauto.
  Qed.

  (* what is stored is always a complete SharedLogger built from one configuration *)
  Lemma stores_complete s : In (EStore s) (trace st) -> exists c, set_config c = Some s.
  Proof. destruct inv_final as (_ & _ & Hs & _). apply Hs. Qed.
End Headline.

(* ---------------- no panic, no stuck state ---------------- *)

Definition cfg_ok (c : tcfg) : Prop := build (snd c) <> None.

Definition NPt (ts : tstate) : Prop :=
  match ts with
  | Idle _ p => forall c, In (OSet c) p -> cfg_ok c
  | Fan _ _ _ pend p => (forall c, pend = Some c -> cfg_ok c) /\ forall c, In (OSet c) p -> cfg_ok c
  | Dead => False
  end.

Definition NP (st : state) : Prop :=
  Forall NPt (thr st) /\ forall t, ~ In (EPanic t) (trace st).

Lemma Forall_upd {A} (P : A -> Prop) l n x : Forall P l -> P x -> Forall P (upd l n x).
Proof.
  intros H Hx. revert n; induction H as [|y l Hy Hl IH]; intros n; [constructor|].
  destruct n; cbn; constructor; auto.
Qed.

Lemma NP_step reent st tid :
  (forall tag i r c, reent tag i r = Some c -> cfg_ok c) -> NP st -> NP (step reent st tid).
Proof.
  intros Hre [Hf Hp]. unfold step.
  destruct (nth_error (thr st) tid) as [ts|] eqn:En; [|split; assumption].
  assert (Hts : NPt ts).
  { rewrite Forall_forall in Hf. apply Hf. eapply nth_error_In; exact En. }
  destruct (tstep reent tid (cur st) ts) as [[c' ts'] ev] eqn:Es.
  assert (NPt ts' /\ forall t, ~ In (EPanic t) ev) as [Hts' Hev].
  { unfold tstep in Es.
    destruct ts as [pc [|[tg L|cf] p]|pc snap [|i todo] [cf|] p|]; cbn in Hts.
    - inversion Es; subst. split; [exact Hts|intros t0 []].
    - inversion Es; subst. split; [|intros t0 [H|[]]; discriminate].
      cbn. split; [discriminate|]. intros c Hc. apply Hts. right. exact Hc.
    - assert (Hok : cfg_ok cf) by (apply Hts; left; reflexivity).
      unfold cfg_ok in Hok. unfold set_config in Es. destruct (build (snd cf)); [|congruence].
      inversion Es; subst. split; [|intros t0 [H|[]]; discriminate].
      cbn. intros c Hc. apply Hts. right. exact Hc.
    - destruct Hts as [Hpe Hpr]. assert (Hok : cfg_ok cf) by (apply Hpe; reflexivity).
      unfold cfg_ok in Hok. unfold set_config in Es. destruct (build (snd cf)); [|congruence].
      inversion Es; subst. split; [|intros t0 [H|[]]; discriminate].
      cbn. split; [discriminate|exact Hpr].
    - destruct Hts as [_ Hpr]. inversion Es; subst. split; [exact Hpr|intros t0 [H|[]]; discriminate].
    - destruct Hts as [Hpe Hpr]. assert (Hok : cfg_ok cf) by (apply Hpe; reflexivity).
      unfold cfg_ok in Hok. unfold set_config in Es. destruct (build (snd cf)); [|congruence].
      inversion Es; subst. split; [|intros t0 [H|[]]; discriminate].
      cbn. split; [discriminate|exact Hpr].
    - destruct Hts as [_ Hpr]. inversion Es; subst. split; [|intros t0 [H|[]]; discriminate].
      cbn. split; [|exact Hpr]. intros c Hc. eapply Hre. exact Hc.
    - contradiction. }
  split; cbn [thr trace].
  - apply Forall_upd; assumption.
  - intros t Hin. apply in_app_or in Hin. destruct Hin as [Hin|Hin]; [exact (Hp t Hin)|exact (Hev t Hin)].
Qed.

Lemma NP_run reent sch st :
  (forall tag i r c, reent tag i r = Some c -> cfg_ok c) -> NP st -> NP (run reent sch st).
Proof.
  intros Hre. revert st; induction sch as [|t sch IH]; intros st H; [exact H|].
  cbn. apply IH. apply NP_step; assumption.
Qed.

Lemma never_panics reent c0 progs sch :
  (forall p c, In p progs -> In (OSet c) p -> cfg_ok c) ->
  (forall tag i r c, reent tag i r = Some c -> cfg_ok c) ->
  let st := run reent sch (init_state c0 progs) in
  ~ In Dead (thr st) /\ forall t, ~ In (EPanic t) (trace st).
Proof.
  intros Hpr Hre st.
  assert (H : NP st).
  { apply NP_run; [exact Hre|]. split; [|intros t []]. cbn.
    apply Forall_forall. intros ts Hin. apply in_map_iff in Hin. destruct Hin as (p & <- & Hp).
    cbn. intros c Hc. exact (Hpr p c Hp Hc). }
  destruct H as [Hf Hp]. split; [|exact Hp].
  intros Hin. rewrite Forall_forall in Hf. exact (Hf Dead Hin).
Qed.

(* a thread that has not finished is never blocked: scheduling it performs
   exactly one micro-step (one event) *)
Lemma never_stuck reent st tid ts :
  nth_error (thr st) tid = Some ts -> finished ts = false ->
  length (trace (step reent st tid)) = S (length (trace st)).
Proof.
  intros En Hf. unfold step. rewrite En.
  destruct (tstep reent tid (cur st) ts) as [[c' ts'] ev] eqn:Es.
  cbn [trace]. rewrite app_length.
  assert (length ev = 1); [|lia].
  unfold tstep in Es.
  destruct ts as [pc [|[tg L|cf] p]|pc snap [|i todo] [cf|] p|]; cbn in Hf; try discriminate;
    try destruct (set_config cf); inversion Es; subst; reflexivity.
Qed.

(* ... and left alone it finishes its program after finitely many of its own steps *)
Lemma run_repeat_app reent tid a b st :
  run reent (repeat tid (a + b)) st = run reent (repeat tid b) (run reent (repeat tid a) st).
Proof. unfold run. rewrite repeat_app, fold_left_app. reflexivity. Qed.

Definition thread_done (st : state) (tid : nat) : Prop :=
  exists ts, nth_error (thr st) tid = Some ts /\ finished ts = true.

Lemma nth_error_upd_same {A} (l : list A) n x y : nth_error l n = Some y -> nth_error (upd l n x) n = Some x.
Proof.
  revert n; induction l as [|z l IH]; intros [|n] H; cbn in *; try discriminate; auto.
Qed.

Lemma step_thread reent st tid ts :
  nth_error (thr st) tid = Some ts ->
  nth_error (thr (step reent st tid)) tid = Some (snd (fst (tstep reent tid (cur st) ts))).
Proof.
  intros En. unfold step. rewrite En.
  destruct (tstep reent tid (cur st) ts) as [[c' ts'] ev]. cbn.
  eapply nth_error_upd_same. exact En.
Qed.

Lemma finishes_fan reent tid : forall todo pend pc snap p st,
  nth_error (thr st) tid = Some (Fan pc snap todo pend p) ->
  exists n, let st' := run reent (repeat tid n) st in
            nth_error (thr st') tid = Some (Idle (S pc) p) \/ nth_error (thr st') tid = Some Dead.
Proof.
  induction todo as [|i todo IH]; intros pend pc snap p st En.
  - destruct pend as [cf|].
    + pose proof (step_thread reent st tid _ En) as H1. cbn in H1.
      destruct (set_config cf) as [s|]; cbn in H1.
      * pose proof (step_thread reent _ tid _ H1) as H2. cbn in H2.
        exists 2. cbn. left. exact H2.
      * exists 1. cbn. right. exact H1.
    + pose proof (step_thread reent st tid _ En) as H1. cbn in H1. exists 1. cbn. left. exact H1.
  - destruct pend as [cf|].
    + pose proof (step_thread reent st tid _ En) as H1. cbn in H1.
      destruct (set_config cf) as [s|]; cbn in H1.
      * pose proof (step_thread reent _ tid _ H1) as H2. cbn in H2.
        destruct (IH _ _ _ _ _ H2) as [n Hn].
        exists (2 + n). rewrite run_repeat_app. exact Hn.
      * exists 1. cbn. right. exact H1.
    + pose proof (step_thread reent st tid _ En) as H1. cbn in H1.
      destruct (IH _ _ _ _ _ H1) as [n Hn].
      exists (1 + n). rewrite run_repeat_app. exact Hn.
Qed.

Lemma finishes reent tid : forall p pc st,
  nth_error (thr st) tid = Some (Idle pc p) ->
  exists n, thread_done (run reent (repeat tid n) st) tid.
Proof.
  induction p as [|o p IH]; intros pc st En.
  - exists 0. cbn. exists (Idle pc []). auto.
  - destruct o as [tg L|cf].
    + pose proof (step_thread reent st tid _ En) as H1. cbn in H1.
      destruct (finishes_fan reent tid _ _ _ _ _ _ H1) as [n Hn]. cbn in Hn.
      destruct Hn as [Hn|Hn].
      * destruct (IH _ _ Hn) as [m Hm]. exists (1 + n + m).
        rewrite run_repeat_app, run_repeat_app. exact Hm.
      * exists (1 + n). rewrite run_repeat_app. exists Dead. auto.
    + pose proof (step_thread reent st tid _ En) as H1. cbn in H1.
      destruct (set_config cf) as [s|]; cbn in H1.
      * destruct (IH _ _ H1) as [m Hm]. exists (1 + m). rewrite run_repeat_app. exact Hm.
      * exists 1. cbn. exists Dead. auto.
Qed.

(* ---------------- error reports ---------------- *)
(* `Log::log` hands the errors of a record's failed deliveries to `shared.err_handler` of the SharedLogger it
   loaded at the top (src/lib.rs): handler and appender table are fields of the same snapshot.  With `fails`
   saying which deliveries fail, the reports of a record are its failed deliveries, each owned by the handler of
   the snapshot whose tag the delivery carries. *)
Definition reports (fails : N -> nat -> rid -> bool) (r : rid) (tr : list event) : list (N * nat) :=
  filter (fun d => fails (fst d) (snd d) r) (deliveries r tr).

Theorem reports_by_loaded_snapshot :
  forall fails reent c0 progs sch tid k s pre post d,
    trace (Swap.run reent sch (init_state c0 progs)) = pre ++ ELoad (tid, k) s :: post ->
    In d (reports fails (tid, k) (trace (Swap.run reent sch (init_state c0 progs)))) ->
    fst d = fst s /\
    exists tg L, nth_error (nth tid progs []) k = Some (OLog tg L) /\ In d (route s tg L).
Proof.
  intros fails reent c0 progs sch tid k s pre post d Htr Hin.
  unfold reports in Hin. apply filter_In in Hin. destruct Hin as [Hd _].
  exact (single_tag reent c0 progs sch tid k s pre post d Htr Hd).
Qed.
