(* C13: the reported errors, declaratively.  Every error names an offending item
   (no innocent item is named), and every offending item is named. *)
From Coq Require Import List NArith Bool Arith Lia.
Import ListNotations.
From L4 Require Import Common.Str Model.ConfigBuild Proofs.ConfigBuild.

(* `a` occurs at a position of `l` with an earlier occurrence before it *)
Definition repeated (a : str) (l : list str) : Prop :=
  exists pre post, l = pre ++ a :: post /\ In a pre.

Lemma repeats_In seen l a :
  In a (repeats seen l) <-> exists pre post, l = pre ++ a :: post /\ (In a seen \/ In a pre).
Proof.
  revert seen; induction l as [|x r IH]; intros seen; cbn [repeats].
  - split; [intros []|]. intros (pre & post & E & _). destruct pre; discriminate.
  - destruct (mem x seen) eqn:Em.
    + apply mem_In in Em. split.
      * intros [<-|Hin].
        -- exists [], r. auto.
        -- apply IH in Hin. destruct Hin as (pre & post & -> & H). exists (x :: pre), post. split; [reflexivity|].
           destruct H; [left; assumption|right; right; assumption].
      * intros (pre & post & E & H). destruct pre as [|p pre]; cbn in E; inversion E; subst.
        -- left; reflexivity.
        -- right. apply IH. exists pre, post. split; [reflexivity|].
           destruct H as [H|[->|H]]; auto.
    + apply mem_not_In in Em. split.
      * intros Hin. apply IH in Hin. destruct Hin as (pre & post & -> & H). exists (x :: pre), post. split; [reflexivity|].
        destruct H as [[->|H]|H]; [right; left; reflexivity|left; assumption|right; right; assumption].
      * intros (pre & post & E & H). destruct pre as [|p pre]; cbn in E; inversion E; subst.
        -- destruct H as [H|[]]. contradiction.
        -- apply IH. exists pre, post. split; [reflexivity|].
           destruct H as [H|[->|H]]; [left; right; assumption|left; left; reflexivity|right; assumption].
Qed.

Lemma names_In apps x : In x (firsts [] apps) <-> In x apps.
Proof. rewrite firsts_In. split; [tauto|]. intros H; split; [exact H|intros []]. Qed.

Lemma resolves_iff names r : resolves names r = true <-> In r names.
Proof. unfold resolves. apply mem_In. Qed.

Lemma dangling_In names refs r :
  In r (filter (fun r => negb (resolves names r)) refs) <-> In r refs /\ ~ In r names.
Proof.
  rewrite filter_In. split; intros [A B]; split; auto.
  - intros H. apply resolves_iff in H. rewrite H in B. discriminate.
  - destruct (resolves names r) eqn:E; [|reflexivity]. apply resolves_iff in E. contradiction.
Qed.

(* what each error of the logger pass means; `seen` = names of the loggers before *)
Definition before (seen : list str) (pre : list logger) (x : str) : Prop := In x seen \/ In x (map lname pre).

Lemma before_shift seen l pre x : before (lname l :: seen) pre x <-> before seen (l :: pre) x.
Proof. unfold before. cbn [map In]. tauto. Qed.

Definition err_meaning (names seen : list str) (ls : list logger) (e : cerr) : Prop :=
  match e with
  | DuplicateAppenderName _ => False
  | NonexistentAppender r =>
      exists pre l post, ls = pre ++ l :: post /\ ~ before seen pre (lname l) /\
                         check_name (lname l) = true /\ In r (lapps l) /\ ~ In r names
  | DuplicateLoggerName n =>
      exists pre l post, ls = pre ++ l :: post /\ lname l = n /\ before seen pre n
  | InvalidLoggerName n =>
      exists pre l post, ls = pre ++ l :: post /\ lname l = n /\ ~ before seen pre n /\ check_name n = false
  end.

(* an error about the tail is an error about the whole list, and conversely unless it is about the head *)
Lemma meaning_tail names seen l rest e :
  err_meaning names (lname l :: seen) rest e -> err_meaning names seen (l :: rest) e.
Proof.
  destruct e as [a|r|n|n]; cbn [err_meaning]; [tauto| | |].
  - intros (pre & l0 & post & -> & H1 & H2). exists (l :: pre), l0, post. split; [reflexivity|].
    rewrite <- before_shift. auto.
  - intros (pre & l0 & post & -> & H1 & H2). exists (l :: pre), l0, post. split; [reflexivity|].
    rewrite <- before_shift. auto.
  - intros (pre & l0 & post & -> & H1 & H2 & H3). exists (l :: pre), l0, post. split; [reflexivity|].
    rewrite <- before_shift. auto.
Qed.

Lemma meaning_cons names seen l rest e :
  err_meaning names seen (l :: rest) e ->
  err_meaning names (lname l :: seen) rest e \/
  match e with
  | DuplicateAppenderName _ => False
  | NonexistentAppender r => ~ In (lname l) seen /\ check_name (lname l) = true /\ In r (lapps l) /\ ~ In r names
  | DuplicateLoggerName n => lname l = n /\ In n seen
  | InvalidLoggerName n => lname l = n /\ ~ In n seen /\ check_name n = false
  end.
Proof.
  destruct e as [a|r|n|n]; cbn [err_meaning]; [tauto| | |].
  - intros (pre & l0 & post & E & H1 & H2). destruct pre as [|p pre]; cbn in E; inversion E; subst.
    + right. unfold before in H1. cbn in H1. tauto.
    + left. exists pre, l0, post. split; [reflexivity|]. rewrite before_shift. auto.
  - intros (pre & l0 & post & E & H1 & H2). destruct pre as [|p pre]; cbn in E; inversion E; subst.
    + right. unfold before in H2. cbn in H2. tauto.
    + left. exists pre, l0, post. split; [reflexivity|]. rewrite before_shift. auto.
  - intros (pre & l0 & post & E & H1 & H2 & H3). destruct pre as [|p pre]; cbn in E; inversion E; subst.
    + right. unfold before in H2. cbn in H2. tauto.
    + left. exists pre, l0, post. split; [reflexivity|]. rewrite before_shift. auto.
Qed.

Lemma meaning_head names seen l rest e :
  match e with
  | DuplicateAppenderName _ => False
  | NonexistentAppender r => ~ In (lname l) seen /\ check_name (lname l) = true /\ In r (lapps l) /\ ~ In r names
  | DuplicateLoggerName n => lname l = n /\ In n seen
  | InvalidLoggerName n => lname l = n /\ ~ In n seen /\ check_name n = false
  end -> err_meaning names seen (l :: rest) e.
Proof.
  destruct e as [a|r|n|n]; cbn [err_meaning]; [tauto| | |]; intros H; exists [], l, rest; unfold before; cbn; tauto.
Qed.

Lemma spec_loggers_errs names ls : forall seen e,
  In e (snd (spec_loggers names seen ls)) <-> err_meaning names seen ls e.
Proof.
  induction ls as [|l rest IH]; intros seen e.
  - cbn. split; [intros []|]. destruct e; cbn; try tauto; intros (pre & l & post & E & _); destruct pre; discriminate.
  - cbn [spec_loggers]. destruct (spec_loggers names (lname l :: seen) rest) as [ok errs] eqn:Es.
    assert (IH' := IH (lname l :: seen) e). rewrite Es in IH'. cbn [snd] in IH'.
    unfold logger_verdict. destruct (mem (lname l) seen) eqn:Em; [|destruct (check_name (lname l)) eqn:Ec]; cbn [snd].
    + (* a repeated name *) apply mem_In in Em. split.
      * intros [<-|Hin]; [apply meaning_head; cbn; auto|apply meaning_tail, IH', Hin].
      * intros H. apply meaning_cons in H. destruct H as [H|H]; [right; apply IH'; exact H|].
        destruct e as [a|r|n|n]; [contradiction| | |].
        -- exfalso. tauto.
        -- left. destruct H as [<- _]. reflexivity.
        -- exfalso. destruct H as (<- & H & _). contradiction.
    + (* kept *) apply mem_not_In in Em. rewrite in_app_iff, in_map_iff. split.
      * intros [(r & <- & Hr)|Hin]; [|apply meaning_tail, IH', Hin].
        apply dangling_In in Hr. apply meaning_head. cbn. tauto.
      * intros H. apply meaning_cons in H. destruct H as [H|H]; [right; apply IH'; exact H|].
        destruct e as [a|r|n|n]; [contradiction| | |].
        -- left. exists r. split; [reflexivity|]. apply dangling_In. tauto.
        -- exfalso. destruct H as [<- H]. contradiction.
        -- exfalso. destruct H as (<- & _ & H). congruence.
    + (* malformed *) apply mem_not_In in Em. split.
      * intros [<-|Hin]; [apply meaning_head; cbn; auto|apply meaning_tail, IH', Hin].
      * intros H. apply meaning_cons in H. destruct H as [H|H]; [right; apply IH'; exact H|].
        destruct e as [a|r|n|n]; [contradiction| | |].
        -- exfalso. destruct H as (_ & H & _). congruence.
        -- exfalso. destruct H as [<- H]. contradiction.
        -- left. destruct H as [<- _]. reflexivity.
Qed.

(* The error list of either path (strict building returns the same list), error by error. *)
Theorem errors_exactly_the_offenders apps lvl root_refs ls e :
  In e (snd (build_lossy apps lvl root_refs ls)) <->
  match e with
  | DuplicateAppenderName a => repeated a apps
  | NonexistentAppender r =>
      ~ In r apps /\
      (In r root_refs \/
       exists pre l post, ls = pre ++ l :: post /\ ~ In (lname l) (map lname pre) /\
                          check_name (lname l) = true /\ In r (lapps l))
  | DuplicateLoggerName n => exists pre l post, ls = pre ++ l :: post /\ lname l = n /\ In n (map lname pre)
  | InvalidLoggerName n =>
      exists pre l post, ls = pre ++ l :: post /\ lname l = n /\ ~ In n (map lname pre) /\ check_name n = false
  end.
Proof.
  rewrite build_lossy_spec. cbv zeta. cbn [snd]. rewrite !in_app_iff, !in_map_iff.
  pose proof (spec_loggers_errs (firsts [] apps) ls [] e) as L.
  assert (B : forall pre x, before [] pre x <-> In x (map lname pre)) by (intros; unfold before; cbn; tauto).
  destruct e as [a|r|n|n]; cbn [err_meaning] in L.
  - split.
    + intros [(x & E & Hx)|[(x & E & _)|H]]; try discriminate.
      * inversion E; subst. apply repeats_In in Hx. destruct Hx as (pre & post & -> & [[]|H]). exists pre, post. auto.
      * apply L in H. contradiction.
    + intros (pre & post & -> & H). left. exists a. split; [reflexivity|]. apply repeats_In. exists pre, post. auto.
  - split.
    + intros [(x & E & _)|[(x & E & Hx)|H]]; try discriminate.
      * inversion E; subst. apply dangling_In in Hx. rewrite names_In in Hx. tauto.
      * apply L in H. destruct H as (pre & l & post & E & H1 & H2 & H3 & H4). rewrite names_In in H4. rewrite B in H1.
        split; [exact H4|]. right. exists pre, l, post. auto.
    + intros [Hn [Hr|(pre & l & post & E & H1 & H2 & H3)]].
      * right; left. exists r. split; [reflexivity|]. apply dangling_In. rewrite names_In. auto.
      * right; right. apply L. exists pre, l, post. rewrite names_In, B. auto.
  - split.
    + intros [(x & E & _)|[(x & E & _)|H]]; try discriminate. apply L in H.
      destruct H as (pre & l & post & E & H1 & H2). rewrite B in H2. exists pre, l, post. auto.
    + intros (pre & l & post & E & H1 & H2). right; right. apply L. exists pre, l, post. rewrite B. auto.
  - split.
    + intros [(x & E & _)|[(x & E & _)|H]]; try discriminate. apply L in H.
      destruct H as (pre & l & post & E & H1 & H2 & H3). rewrite B in H2. exists pre, l, post. auto.
    + intros (pre & l & post & E & H1 & H2 & H3). right; right. apply L. exists pre, l, post. rewrite B. auto.
Qed.
