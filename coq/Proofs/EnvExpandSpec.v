(* C19 — declarative spec of $ENV{NAME} expansion (definitions only; the proofs are in
   Proofs/EnvExpand.v).  One pass over the path, leftmost non-overlapping well-formed
   references; everything else is literal text. *)
From Coq Require Import List NArith Bool.
Import ListNotations.
From L4 Require Import Common.Str Model.EnvExpand.
Local Open Scope N_scope.

Inductive seg := Lit (c : chr) | Ref (name : ustr).

(* the text of a reference to `name` *)
Definition raw (name : ustr) : ustr := env_prefix ++ name ++ [env_suffix].

Fixpoint span (f : chr -> bool) (s : ustr) : ustr * ustr :=
  match s with
  | c :: r => if f c then let (a, b) := span f r in (c :: a, b) else ([], s)
  | [] => ([], [])
  end.

Fixpoint strip_prefix (p s : ustr) : option ustr :=
  match p, s with
  | [], _ => Some s
  | x :: p', c :: s' => if x =? c then strip_prefix p' s' else None
  | _ :: _, [] => None
  end.

Section Spec.
  Variable uni_alnum : chr -> bool.
  Variable env : ustr -> option ustr.

  Notation is_start := (is_env_var_start uni_alnum).
  Notation is_part := (is_env_var_part uni_alnum).

  (* a well-formed reference at the head of s: "$ENV{" then the maximal run of name
     characters, which is non-empty, begins with a start character and is followed by '}'.
     Result: the name and the text after the '}' *)
  Definition ref_at (s : ustr) : option (ustr * ustr) :=
    match strip_prefix env_prefix s with
    | None => None
    | Some t =>
      let (nm, rest) := span is_part t in
      match nm, rest with
      | c :: _, b :: rest' => if is_start c && (b =? env_suffix) then Some (nm, rest') else None
      | _, _ => None
      end
    end.

  Fixpoint segs (fuel : nat) (s : ustr) : list seg :=
    match fuel with
    | O => []
    | S f =>
      match s with
      | [] => []
      | c :: r =>
        match ref_at s with
        | Some (n, rest) => Ref n :: segs f rest
        | None => Lit c :: segs f r
        end
      end
    end.
  Definition segments (s : ustr) : list seg := segs (length s) s.

  (* meaning of a segment when exactly the variables in `done` have been substituted;
     `sem` = all of them *)
  Definition sem_d (done : list ustr) (sg : seg) : ustr :=
    match sg with
    | Lit c => [c]
    | Ref n => match env n with
               | Some v => if mem n done then v else raw n
               | None => raw n
               end
    end.
  Definition sem (sg : seg) : ustr :=
    match sg with
    | Lit c => [c]
    | Ref n => match env n with Some v => v | None => raw n end
    end.

  Definition expand_spec (p : ustr) : ustr := concat (map sem (segments p)).

  (* the text a segment stands for in the path *)
  Definition seg_text (sg : seg) : ustr := match sg with Lit c => [c] | Ref n => raw n end.

  (* ---- analysis of the PRE-FIX algorithm only (Proofs/EnvExpandOld.v): forged references ----
     The old code substituted one variable at a time, in the order in which their references
     first occur, with a replace-all on the text rewritten so far.  `out_d done sgs` is the
     path after the variables in `done` have been substituted the one-pass way.  A forged
     occurrence of the reference to `n` is an occurrence of its text in that string that
     does not sit on a (still unsubstituted) reference segment to `n`.  Values being free
     of '$', an occurrence can only begin where a segment with non-empty text begins, which
     is where `clean` looks (a segment whose text is empty - a substituted empty value -
     shares its position with the next one). *)
  Definition out_d (done : list ustr) (sgs : list seg) : ustr := concat (map (sem_d done) sgs).

  Definition genuine (done : list ustr) (n : ustr) (sg : seg) : bool :=
    match sg with
    | Ref m => str_eqb m n && negb (mem n done)
    | Lit _ => false
    end.

  Fixpoint clean (done : list ustr) (n : ustr) (sgs : list seg) : bool :=
    match sgs with
    | [] => true
    | sg :: r => (genuine done n sg
                  || match sem_d done sg with [] => true | _ :: _ => false end
                  || negb (starts_with (raw n) (out_d done sgs)))
                 && clean done n r
    end.

  (* names of the references to set variables, in order of occurrence (with repeats) *)
  Fixpoint active (sgs : list seg) : list ustr :=
    match sgs with
    | [] => []
    | Ref n :: r => match env n with Some _ => n :: active r | None => active r end
    | Lit _ :: r => active r
    end.

  Fixpoint no_forged (sgs : list seg) (todo done : list ustr) : bool :=
    match todo with
    | [] => true
    | n :: r => clean done n sgs && no_forged sgs r (n :: done)
    end.

  Definition NoForgedRef (p : ustr) : bool :=
    let sgs := segments p in no_forged sgs (active sgs) [].
End Spec.
