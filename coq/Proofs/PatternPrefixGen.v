(* C11 — prefix_renders without the restriction on a trailing literal: when the
   well-formed part ends in a literal and the junk starts with ordinary
   characters, the literal and the junk's first text run form ONE Text piece;
   the output is still meaning ++ (output of junk alone). *)
From Coq Require Import String Ascii.
From Coq Require Import List NArith Bool Lia Arith.
Import ListNotations.
From L4 Require Import Model.Pattern Proofs.PatternSpec Proofs.Pattern Proofs.PatternMeaning
     Proofs.PatternParse Proofs.PatternPrefix Proofs.PatternTheorems.
Local Open Scope N_scope.

Lemma span_split : forall p s a b,
  span p s = (a, b) ->
  s = a ++ b /\ forallb p a = true /\ match b with [] => True | c :: _ => p c = false end.
Proof.
  induction s as [|c s IH]; intros a b H; cbn [span] in H.
  - inversion H; subst. repeat split.
  - destruct (p c) eqn:E.
    + destruct (span p s) as [a' b'] eqn:Es. inversion H; subst.
      destruct (IH _ _ eq_refl) as (-> & Ha & Hb). repeat split; [|exact Hb].
      cbn [forallb]. rewrite E. exact Ha.
    + inversion H; subst. repeat split. exact E.
Qed.

Lemma rev_cons_split : forall {A} (l : list A) x r, rev l = x :: r -> l = rev r ++ [x].
Proof.
  intros A l x r H. rewrite <- (rev_involutive l), H. reflexivity.
Qed.

Lemma chain_ok_replace_last : forall s init a b,
  (forall y, adj_ok s y a = adj_ok s y b) ->
  chain_ok s (init ++ [a]) = true -> chain_ok s (init ++ [b]) = true.
Proof.
  intros s init a b Hadj. induction init as [|y init IH]; intros H; [reflexivity|].
  destruct init as [|z r].
  - cbn [app chain_ok] in *. rewrite <- Hadj. exact H.
  - cbn [app chain_ok] in *. apply andb_true_iff in H. destruct H as [H1 H2].
    rewrite H1. cbn [andb]. apply IH. exact H2.
Qed.

Lemma print_seq_app : forall a b, print_seq (a ++ b) = print_seq a ++ print_seq b.
Proof. intros. unfold print_seq. apply flat_map_app. Qed.

Lemma chars_app : forall a b, chars (a ++ b) = chars a ++ chars b.
Proof. intros. unfold chars. apply map_app. Qed.

Section PrefixGen.
  Variable al an : N -> bool.
  Hypothesis Hor : oracle_ok al an.
  Variable ok : str -> bool.
  Variable ts : str -> tz -> str.
  Variable e : env.

  (* only the look-ahead finding class is excluded *)
  Definition last_not_lookahead (seq : list ast) (junk : str) : Prop :=
    match rev seq with a :: _ => colon_only a = true -> hd_angle junk = false | [] => True end.

  Theorem prefix_renders_full : forall seq junk cj,
    wf_seq al an true false seq = true ->
    forallb (sem_ok ok) seq = true ->
    last_not_lookahead seq junk ->
    construct al an ok junk = Ok cj ->
    exists cs, construct al an ok (print_seq seq ++ junk) = Ok cs
               /\ encode ok ts e cs = meaning_seq ts e seq ++ encode ok ts e cj.
  Proof.
    intros seq junk cj Hw Hs Hl Hj.
    destruct (rev seq) as [|a rinit] eqn:Er.
    { apply (prefix_renders al an Hor ok ts e seq junk cj Hw Hs); [|exact Hj].
      unfold last_boundary. rewrite Er. exact I. }
    destruct (is_lit a && negb (hd_special junk)) eqn:Eclash.
    2:{ (* the plain case *)
      apply (prefix_renders al an Hor ok ts e seq junk cj Hw Hs); [|exact Hj].
      unfold last_boundary, last_not_lookahead in *. rewrite Er in *. split.
      - intros Ha. rewrite Ha in Eclash. cbn [andb] in Eclash.
        apply negb_false_iff in Eclash. exact Eclash.
      - exact Hl. }
    (* trailing literal merges with the first text run of the junk *)
    apply andb_true_iff in Eclash. destruct Eclash as [Ha Hjs].
    apply negb_true_iff in Hjs.
    destruct a as [t| |]; try discriminate. clear Ha.
    apply rev_cons_split in Er. set (init := rev rinit) in *. subst seq.
    destruct (text_run junk) as [t' j'] eqn:Et. unfold text_run in Et.
    destruct (span_split _ _ _ _ Et) as (Hjunk & Ht' & Hj').
    unfold wf_seq in Hw. apply andb_true_iff in Hw. destruct Hw as [Hwf Hch].
    rewrite forallb_app in Hwf. apply andb_true_iff in Hwf. destruct Hwf as [Hwi Hwt].
    cbn [forallb wf] in Hwt. rewrite andb_true_r in Hwt.
    apply andb_true_iff in Hwt. destruct Hwt as [Htn Hts].
    destruct t as [|c0 t0]; [discriminate|].
    assert (Ht'n : is_nil t' = false).
    { destruct t' as [|x t'']; [|reflexivity]. cbn [app] in Hjunk. subst j'.
      destruct junk as [|x r]; [discriminate|]. cbn in Hjs. rewrite Hjs in Hj'. discriminate. }
    assert (Hj's : hd_special j' = true).
    { destruct j' as [|x r]; [reflexivity|]. cbn. apply negb_false_iff. exact Hj'. }
    set (u := (c0 :: t0) ++ t').
    set (seq2 := init ++ [ALit u]).
    assert (Hw2 : wf_seq al an true false seq2 = true).
    { unfold wf_seq, seq2. apply andb_true_iff. split.
      - rewrite forallb_app, Hwi. cbn [forallb wf andb]. rewrite andb_true_r.
        subst u. rewrite forallb_app, Hts, Ht'. reflexivity.
      - apply (chain_ok_replace_last true init (ALit (c0 :: t0)) (ALit u)); [|exact Hch].
        intros y. reflexivity. }
    assert (Hs2 : forallb (sem_ok ok) seq2 = true).
    { unfold seq2. rewrite forallb_app in *. apply andb_true_iff in Hs. destruct Hs as [Hs _].
      rewrite Hs. reflexivity. }
    assert (Hb2 : last_boundary seq2 j').
    { unfold last_boundary, seq2. rewrite rev_app_distr. cbn [rev app].
      split; [intros _; exact Hj's|discriminate]. }
    destruct (construct_no_panic al an ok j') as (cj' & Hcj' & _).
    destruct (prefix_renders al an Hor ok ts e seq2 j' cj' Hw2 Hs2 Hb2 Hcj') as (cs & Hcs & Hen).
    assert (Hstr : print_seq (init ++ [ALit (c0 :: t0)]) ++ junk = print_seq seq2 ++ j').
    { unfold seq2. rewrite !print_seq_app. subst u. rewrite Hjunk.
      unfold print_seq. cbn [flat_map print]. rewrite !app_nil_r, <- !app_assoc. reflexivity. }
    rewrite Hstr. exists cs. split; [exact Hcs|]. rewrite Hen.
    (* the junk alone: [ALit t'] followed by j' *)
    assert (Hw3 : wf_seq al an true false [ALit t'] = true).
    { unfold wf_seq. cbn [forallb wf chain_ok]. rewrite Ht'n, Ht'. reflexivity. }
    assert (Hb3 : last_boundary [ALit t'] j') by (split; [intros _; exact Hj's|discriminate]).
    destruct (prefix_renders al an Hor ok ts e [ALit t'] j' cj' Hw3 eq_refl Hb3 Hcj')
      as (cj2 & Hcj2 & Hen2).
    assert (Hjj : print_seq [ALit t'] ++ j' = junk).
    { unfold print_seq. cbn [flat_map print]. rewrite app_nil_r. symmetry. exact Hjunk. }
    rewrite Hjj in Hcj2. rewrite Hj in Hcj2. inversion Hcj2; subst cj2.
    rewrite Hen2. unfold seq2, meaning_seq. rewrite !flat_map_app. cbn [flat_map meaning].
    rewrite !app_nil_r. subst u. rewrite chars_app, <- !app_assoc. reflexivity.
  Qed.
End PrefixGen.
