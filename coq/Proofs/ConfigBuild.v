From Coq Require Import List NArith Bool Lia Arith.
Import ListNotations.
From L4 Require Import Common.Str Model.ConfigBuild.
Local Open Scope N_scope.

(* ================= declarative spec ================= *)

(* --- well-formed logger names: non-empty, colons only in pairs, none trailing.
   Stated on windows of the name padded with a non-colon sentinel (0) at both
   ends: no three consecutive colons, no colon without a colon neighbour, and
   the last character is not a colon. *)
Definition wf_name (s : str) : Prop :=
  s <> [] /\
  last s 0 <> colon /\
  (forall pre post, s <> pre ++ colon :: colon :: colon :: post) /\
  (forall pre a b post, 0 :: s ++ [0] = pre ++ a :: colon :: b :: post -> a = colon \/ b = colon).

(* --- offending items *)
(* appender declaration i offends iff its name occurred earlier *)
Fixpoint dup_flags (seen : list str) (l : list str) : list bool :=
  match l with
  | [] => []
  | x :: r => mem x seen :: dup_flags (x :: seen) r
  end.

(* first occurrences, in order *)
Fixpoint firsts (seen : list str) (l : list str) : list str :=
  match l with
  | [] => []
  | x :: r => if mem x seen then firsts seen r else x :: firsts (x :: seen) r
  end.

Fixpoint repeats (seen : list str) (l : list str) : list str :=
  match l with
  | [] => []
  | x :: r => if mem x seen then x :: repeats seen r else repeats (x :: seen) r
  end.

Definition resolves (names : list str) (r : str) : bool := mem r names.

(* what a logger declaration contributes, given the names seen before it *)
Inductive verdict := Vdup | Vbad | Vkeep.
Definition logger_verdict (seen : list str) (l : logger) : verdict :=
  if mem (lname l) seen then Vdup
  else if check_name (lname l) then Vkeep else Vbad.

Fixpoint spec_loggers (names seen : list str) (ls : list logger) : list logger * list cerr :=
  match ls with
  | [] => ([], [])
  | l :: rest =>
    let (ok, errs) := spec_loggers names (lname l :: seen) rest in
    match logger_verdict seen l with
    | Vdup => (ok, DuplicateLoggerName (lname l) :: errs)
    | Vbad => (ok, InvalidLoggerName (lname l) :: errs)
    | Vkeep =>
      ({| lname := lname l; llevel := llevel l;
          lapps := filter (resolves names) (lapps l); ladditive := ladditive l |} :: ok,
       map NonexistentAppender (filter (fun r => negb (resolves names r)) (lapps l)) ++ errs)
    end
  end.

(* validity of a built configuration: what Logger::new relies on *)
Definition valid (c : config) : Prop :=
  NoDup (c_appenders c) /\
  NoDup (map lname (c_loggers c)) /\
  Forall (fun l => check_name (lname l) = true) (c_loggers c) /\
  Forall (fun r => In r (c_appenders c)) (c_root_apps c) /\
  Forall (fun l => Forall (fun r => In r (c_appenders c)) (lapps l)) (c_loggers c).

(* ================= lemmas ================= *)

Lemma dedup_spec seen apps :
  dedup_appenders seen apps = (firsts seen apps, map DuplicateAppenderName (repeats seen apps)).
Proof.
  revert seen; induction apps as [|a rest IH]; intros seen; cbn; [reflexivity|].
  destruct (mem a seen); rewrite IH; reflexivity.
Qed.

Lemma strip_spec names refs :
  strip_refs names refs =
  (filter (resolves names) refs,
   map NonexistentAppender (filter (fun r => negb (resolves names r)) refs)).
Proof.
  induction refs as [|r rest IH]; cbn; [reflexivity|].
  rewrite IH. unfold resolves. destruct (mem r names); reflexivity.
Qed.

Lemma loggers_spec names seen ls :
  build_loggers names seen ls = spec_loggers names seen ls.
Proof.
  revert seen; induction ls as [|l rest IH]; intros seen; cbn [build_loggers spec_loggers]; [reflexivity|].
  unfold logger_verdict.
  destruct (mem (lname l) seen) eqn:Hm.
  - (* duplicate: the real code does not add it to the set again; the set is unchanged
       because the name is already a member *)
    rewrite IH.
    assert (Heq : spec_loggers names seen rest = spec_loggers names (lname l :: seen) rest).
    { clear IH. revert seen Hm. induction rest as [|l2 rest2 IH2]; intros seen Hm; cbn [spec_loggers]; [reflexivity|].
      unfold logger_verdict.
      assert (Hmem : mem (lname l2) (lname l :: seen) = mem (lname l2) seen).
      { unfold mem at 1. cbn [existsb]. fold (mem (lname l2) seen).
        destruct (str_eqb_spec (lname l2) (lname l)) as [He|Hne]; [|reflexivity].
        rewrite He, Hm. reflexivity. }
      rewrite Hmem.
      (* sets {l2}∪seen and {l2}∪{l}∪seen behave alike for the rest *)
      assert (Hrest : spec_loggers names (lname l2 :: seen) rest2
                      = spec_loggers names (lname l2 :: lname l :: seen) rest2).
      { clear IH2 Hmem. generalize (lname l2) as x. intros x.
        assert (G : forall s1 s2, (forall y, mem y s1 = mem y s2) ->
                     spec_loggers names s1 rest2 = spec_loggers names s2 rest2).
        { clear. induction rest2 as [|l3 r3 IH3]; intros s1 s2 Hs; cbn [spec_loggers]; [reflexivity|].
          unfold logger_verdict. rewrite (Hs (lname l3)).
          rewrite (IH3 (lname l3 :: s1) (lname l3 :: s2)); [reflexivity|].
          intros y. unfold mem. cbn [existsb]. fold (mem y s1) (mem y s2). now rewrite Hs. }
        apply G. intros y. unfold mem. cbn [existsb]. fold (mem y seen).
        destruct (str_eqb_spec y (lname l)) as [He|Hne].
        - subst y. rewrite Hm. now rewrite !orb_true_r.
        - reflexivity. }
      rewrite Hrest. reflexivity. }
    rewrite Heq. destruct (spec_loggers names (lname l :: seen) rest). reflexivity.
  - destruct (check_name (lname l)); cbn [negb].
    + rewrite strip_spec, IH. destruct (spec_loggers names (lname l :: seen) rest). reflexivity.
    + rewrite IH. destruct (spec_loggers names (lname l :: seen) rest). reflexivity.
Qed.

Theorem build_lossy_spec apps lvl root_refs ls :
  build_lossy apps lvl root_refs ls =
  let names := firsts [] apps in
  ({| c_appenders := names; c_root_level := lvl;
      c_root_apps := filter (resolves names) root_refs;
      c_loggers := fst (spec_loggers names [] ls) |},
   map DuplicateAppenderName (repeats [] apps)
   ++ map NonexistentAppender (filter (fun r => negb (resolves names r)) root_refs)
   ++ snd (spec_loggers names [] ls)).
Proof.
  unfold build_lossy. rewrite dedup_spec, strip_spec, loggers_spec.
  destruct (spec_loggers (firsts [] apps) [] ls). reflexivity.
Qed.

(* ---- firsts / repeats facts ---- *)

Lemma firsts_not_seen seen l x : In x (firsts seen l) -> ~ In x seen.
Proof.
  revert seen; induction l as [|y r IH]; intros seen; cbn; [tauto|].
  destruct (mem y seen) eqn:Hm.
  - apply IH.
  - intros [->|H].
    + now apply mem_not_In.
    + intros Hs. apply (IH _ H). now right.
Qed.

Lemma firsts_NoDup seen l : NoDup (firsts seen l).
Proof.
  revert seen; induction l as [|y r IH]; intros seen; cbn; [constructor|].
  destruct (mem y seen) eqn:Hm; [apply IH|].
  constructor; [|apply IH].
  intros H. apply firsts_not_seen in H. apply H. now left.
Qed.

Lemma firsts_In seen l x : In x (firsts seen l) <-> In x l /\ ~ In x seen.
Proof.
  revert seen; induction l as [|y r IH]; intros seen; cbn; [tauto|].
  destruct (mem y seen) eqn:Hm.
  - apply mem_In in Hm. rewrite IH. split.
    + intros [H1 H2]. split; [now right|exact H2].
    + intros [[->|H1] H2]; [contradiction|split; assumption].
  - apply mem_not_In in Hm. cbn. rewrite IH. split.
    + intros [->|[H1 H2]]; [split; [now left|exact Hm]|].
      split; [now right|]. intros H; apply H2; now right.
    + intros [[->|H1] H2]; [now left|].
      destruct (str_eqb_spec y x) as [->|Hne]; [now left|].
      right. split; [exact H1|]. intros [H|H]; [congruence|contradiction].
Qed.

Lemma repeats_nil_iff seen l : repeats seen l = [] <-> (NoDup l /\ forall x, In x l -> ~ In x seen).
Proof.
  revert seen; induction l as [|y r IH]; intros seen; cbn.
  - split; [intros _; split; [constructor|tauto]|reflexivity].
  - destruct (mem y seen) eqn:Hm.
    + apply mem_In in Hm. split; [discriminate|].
      intros [_ H]. exfalso. apply (H y); [now left|exact Hm].
    + apply mem_not_In in Hm. rewrite IH. split.
      * intros [Hnd H]. split.
        -- constructor; [|exact Hnd]. intros Hy. apply (H y Hy). now left.
        -- intros x [->|Hx]; [exact Hm|]. intros Hs. apply (H x Hx). now right.
      * intros [Hnd H]. inversion Hnd as [|? ? Hny Hnd']; subst. split; [exact Hnd'|].
        intros x Hx [->|Hs]; [contradiction|]. apply (H x); [now right|exact Hs].
Qed.

Lemma firsts_id seen l : repeats seen l = [] -> firsts seen l = l.
Proof.
  revert seen; induction l as [|y r IH]; intros seen; cbn; [reflexivity|].
  destruct (mem y seen); [discriminate|]. intros H. now rewrite IH.
Qed.

(* ---- loggers facts ---- *)

Lemma spec_loggers_names_fresh names seen ls :
  forall l, In l (fst (spec_loggers names seen ls)) -> ~ In (lname l) seen.
Proof.
  revert seen; induction ls as [|l0 rest IH]; intros seen l; cbn [spec_loggers]; [cbn; tauto|].
  destruct (spec_loggers names (lname l0 :: seen) rest) as [ok errs] eqn:E.
  assert (IH' := IH (lname l0 :: seen)). rewrite E in IH'. cbn [fst] in IH'.
  unfold logger_verdict. destruct (mem (lname l0) seen) eqn:Hm; cbn [fst].
  - intros H Hs. apply (IH' l H). now right.
  - destruct (check_name (lname l0)); cbn [fst].
    + intros [<-|H]; cbn [lname]; [now apply mem_not_In|].
      intros Hs. apply (IH' l H). now right.
    + intros H Hs. apply (IH' l H). now right.
Qed.

Lemma spec_loggers_NoDup names seen ls :
  NoDup (map lname (fst (spec_loggers names seen ls))).
Proof.
  revert seen; induction ls as [|l0 rest IH]; intros seen; cbn [spec_loggers]; [constructor|].
  assert (Hf := spec_loggers_names_fresh names (lname l0 :: seen) rest).
  assert (IH' := IH (lname l0 :: seen)).
  destruct (spec_loggers names (lname l0 :: seen) rest) as [ok errs]. cbn [fst] in *.
  unfold logger_verdict. destruct (mem (lname l0) seen); cbn [fst]; [exact IH'|].
  destruct (check_name (lname l0)); cbn [fst]; [|exact IH'].
  cbn [map lname]. constructor; [|exact IH'].
  intros Hin. apply in_map_iff in Hin. destruct Hin as [l [Hn Hl]].
  apply (Hf l Hl). left. now symmetry.
Qed.

Lemma spec_loggers_wf names seen ls :
  Forall (fun l => check_name (lname l) = true) (fst (spec_loggers names seen ls)).
Proof.
  revert seen; induction ls as [|l0 rest IH]; intros seen; cbn [spec_loggers]; [constructor|].
  assert (IH' := IH (lname l0 :: seen)).
  destruct (spec_loggers names (lname l0 :: seen) rest) as [ok errs]. cbn [fst] in *.
  unfold logger_verdict. destruct (mem (lname l0) seen); cbn [fst]; [exact IH'|].
  destruct (check_name (lname l0)) eqn:Hc; cbn [fst]; [|exact IH'].
  constructor; [exact Hc|exact IH'].
Qed.

Lemma filter_resolves_In names refs :
  Forall (fun r => In r names) (filter (resolves names) refs).
Proof.
  apply Forall_forall. intros r Hr. apply filter_In in Hr. destruct Hr as [_ Hr].
  now apply mem_In.
Qed.

Lemma spec_loggers_refs names seen ls :
  Forall (fun l => Forall (fun r => In r names) (lapps l)) (fst (spec_loggers names seen ls)).
Proof.
  revert seen; induction ls as [|l0 rest IH]; intros seen; cbn [spec_loggers]; [constructor|].
  assert (IH' := IH (lname l0 :: seen)).
  destruct (spec_loggers names (lname l0 :: seen) rest) as [ok errs]. cbn [fst] in *.
  unfold logger_verdict. destruct (mem (lname l0) seen); cbn [fst]; [exact IH'|].
  destruct (check_name (lname l0)); cbn [fst]; [|exact IH'].
  constructor; [cbn [lapps]; apply filter_resolves_In|exact IH'].
Qed.

(* every configuration returned by build_lossy (hence by build) is valid *)
Theorem result_valid apps lvl root_refs ls :
  valid (fst (build_lossy apps lvl root_refs ls)).
Proof.
  rewrite build_lossy_spec. cbn [fst]. unfold valid. cbn.
  repeat split.
  - apply firsts_NoDup.
  - apply spec_loggers_NoDup.
  - apply spec_loggers_wf.
  - apply filter_resolves_In.
  - apply spec_loggers_refs.
Qed.

(* ---- strict building succeeds exactly for well-formed inputs ---- *)

Definition input_ok (apps : list str) (root_refs : list str) (ls : list logger) : Prop :=
  NoDup apps /\
  NoDup (map lname ls) /\
  Forall (fun l => check_name (lname l) = true) ls /\
  Forall (fun r => In r apps) root_refs /\
  Forall (fun l => Forall (fun r => In r apps) (lapps l)) ls.

Lemma filter_neg_nil_iff names refs :
  filter (fun r => negb (resolves names r)) refs = [] <-> Forall (fun r => In r names) refs.
Proof.
  induction refs as [|r rest IH]; cbn; [split; [constructor|reflexivity]|].
  unfold resolves at 1. destruct (mem r names) eqn:Hm; cbn.
  - rewrite IH. apply mem_In in Hm. split; [intros H; now constructor|intros H; now inversion H].
  - apply mem_not_In in Hm. split; [discriminate|intros H; inversion H; contradiction].
Qed.

Lemma filter_all names refs :
  Forall (fun r => In r names) refs -> filter (resolves names) refs = refs.
Proof.
  induction 1 as [|r rest Hr _ IH]; cbn; [reflexivity|].
  unfold resolves at 1. apply mem_In in Hr. now rewrite Hr, IH.
Qed.

Lemma spec_loggers_errs_nil names seen ls :
  snd (spec_loggers names seen ls) = [] <->
  (NoDup (map lname ls) /\ (forall l, In l ls -> ~ In (lname l) seen) /\
   Forall (fun l => check_name (lname l) = true) ls /\
   Forall (fun l => Forall (fun r => In r names) (lapps l)) ls).
Proof.
  revert seen; induction ls as [|l0 rest IH]; intros seen; cbn [spec_loggers].
  - cbn. split; [intros _; repeat split; try constructor; tauto|reflexivity].
  - specialize (IH (lname l0 :: seen)).
    destruct (spec_loggers names (lname l0 :: seen) rest) as [ok errs]. cbn [snd] in *.
    unfold logger_verdict. destruct (mem (lname l0) seen) eqn:Hm; cbn [snd].
    + apply mem_In in Hm. split; [discriminate|].
      intros (_ & H & _). exfalso. apply (H l0); [now left|exact Hm].
    + apply mem_not_In in Hm. destruct (check_name (lname l0)) eqn:Hc; cbn [snd].
      * split.
        -- intros H. apply app_eq_nil in H. destruct H as [H1 H2].
           apply map_eq_nil in H1. apply filter_neg_nil_iff in H1.
           apply IH in H2. destruct H2 as (Hnd & Hfresh & Hwf & Hrefs).
           repeat split.
           ++ cbn [map]. constructor; [|exact Hnd].
              intros Hin. apply in_map_iff in Hin. destruct Hin as [l [Hn Hl]].
              apply (Hfresh l Hl). left. now symmetry.
           ++ intros l [<-|Hl]; [exact Hm|]. intros Hs. apply (Hfresh l Hl). now right.
           ++ constructor; assumption.
           ++ constructor; assumption.
        -- intros (Hnd & Hfresh & Hwf & Hrefs).
           inversion Hnd as [|? ? Hn0 Hnd']; subst.
           inversion Hwf as [|? ? _ Hwf']; subst.
           inversion Hrefs as [|? ? Hr0 Hrefs']; subst.
           apply filter_neg_nil_iff in Hr0. rewrite Hr0. cbn [map app].
           apply IH. repeat split; try assumption.
           intros l Hl [He|Hs].
           ++ apply Hn0. apply in_map_iff. exists l. split; [now symmetry|exact Hl].
           ++ apply (Hfresh l); [now right|exact Hs].
      * split; [discriminate|].
        intros (_ & _ & Hwf & _). inversion Hwf; congruence.
Qed.

Lemma spec_loggers_id names seen ls :
  snd (spec_loggers names seen ls) = [] ->
  fst (spec_loggers names seen ls) = ls.
Proof.
  revert seen; induction ls as [|l0 rest IH]; intros seen; cbn [spec_loggers]; [reflexivity|].
  specialize (IH (lname l0 :: seen)).
  destruct (spec_loggers names (lname l0 :: seen) rest) as [ok errs]. cbn [fst snd] in *.
  unfold logger_verdict. destruct (mem (lname l0) seen); cbn [fst snd]; [discriminate|].
  destruct (check_name (lname l0)); cbn [fst snd]; [|discriminate].
  intros H. apply app_eq_nil in H. destruct H as [H1 H2].
  apply map_eq_nil in H1. apply filter_neg_nil_iff in H1.
  rewrite (filter_all _ _ H1), (IH H2). destruct l0; reflexivity.
Qed.

Theorem build_ok_iff apps lvl root_refs ls :
  (exists c, build apps lvl root_refs ls = Some c) <-> input_ok apps root_refs ls.
Proof.
  unfold build. rewrite build_lossy_spec. cbv zeta.
  set (names := firsts [] apps).
  set (errs := _ ++ _ ++ _).
  assert (Hiff : errs = [] <-> input_ok apps root_refs ls).
  { unfold errs, input_ok. split.
    - intros H. apply app_eq_nil in H. destruct H as [H1 H]. apply app_eq_nil in H. destruct H as [H2 H3].
      apply map_eq_nil in H1. apply map_eq_nil in H2.
      assert (Hn : names = apps) by (unfold names; now apply firsts_id).
      apply repeats_nil_iff in H1. destruct H1 as [Hnd _].
      apply filter_neg_nil_iff in H2. apply spec_loggers_errs_nil in H3.
      destruct H3 as (Hl1 & _ & Hl3 & Hl4). rewrite Hn in *.
      repeat split; assumption.
    - intros (Hnd & Hl1 & Hl3 & Hr & Hl4).
      assert (Hrep : repeats [] apps = []) by (apply repeats_nil_iff; split; [exact Hnd|cbn; tauto]).
      assert (Hn : names = apps) by (unfold names; now apply firsts_id).
      rewrite Hrep, Hn. cbn [map app].
      apply filter_neg_nil_iff in Hr. rewrite Hr. cbn [map app].
      apply spec_loggers_errs_nil. repeat split; try assumption. cbn; tauto. }
  destruct errs eqn:E.
  - split; [intros _; now apply Hiff|intros _; eexists; reflexivity].
  - split; [intros [c0 Hc]; discriminate|intros H; apply Hiff in H; discriminate].
Qed.

(* strict building returns the input unchanged *)
Theorem build_returns_input apps lvl root_refs ls c :
  build apps lvl root_refs ls = Some c ->
  c = {| c_appenders := apps; c_root_level := lvl; c_root_apps := root_refs; c_loggers := ls |}.
Proof.
  unfold build. rewrite build_lossy_spec. cbv zeta.
  set (names := firsts [] apps).
  destruct (_ ++ _ ++ _) eqn:E; [|discriminate].
  intros H; injection H as Hc; rewrite <- Hc; clear Hc.
  apply app_eq_nil in E. destruct E as [H1 E]. apply app_eq_nil in E. destruct E as [H2 H3].
  apply map_eq_nil in H1. apply map_eq_nil in H2.
  assert (Hn : names = apps) by (unfold names; now apply firsts_id).
  apply filter_neg_nil_iff in H2.
  rewrite (filter_all _ _ H2), (spec_loggers_id _ _ _ H3), Hn. reflexivity.
Qed.

(* ================= check_logger_name = wf_name ================= *)

Definition no_triple (l : str) : Prop :=
  forall pre post, l <> pre ++ colon :: colon :: colon :: post.
Definition no_single (l : str) : Prop :=
  forall pre a b post, l = pre ++ a :: colon :: b :: post -> a = colon \/ b = colon.
Definition no_trailing (l : str) : Prop :=
  forall pre, l <> pre ++ [colon; 0].
Definition Good (l : str) : Prop := no_triple l /\ no_single l /\ no_trailing l.

Lemma Good_suffix x l : Good (x ++ l) -> Good l.
Proof.
  intros (H1 & H2 & H3). repeat split.
  - intros pre post E. apply (H1 (x ++ pre) post). now rewrite E, app_assoc.
  - intros pre a b post E. apply (H2 (x ++ pre) a b post). now rewrite E, app_assoc.
  - intros pre E. apply (H3 (x ++ pre)). now rewrite E, app_assoc.
Qed.

Lemma colon_ne0 : colon <> 0. Proof. discriminate. Qed.

Ltac inv E := inversion E; subst; clear E.
Ltac fin H := try congruence; try (left; reflexivity); try (right; reflexivity);
              try (eapply H; eassumption).

(* a non-colon character in front of a good string starting with a non-colon *)
Lemma Good_cons a c R : a <> colon -> c <> colon -> R <> [] ->
  Good (c :: R) -> Good (a :: c :: R).
Proof.
  intros Ha Hc HR (H1 & H2 & H3). repeat split.
  - intros [|p0 pre] post E; cbn in E; inv E; fin H1.
  - intros [|p0 pre] x y post E; cbn in E; inv E; fin H2.
  - intros [|p0 pre] E; cbn in E; inv E; fin H3.
Qed.

(* "a::" in front of a good string starting with a non-colon *)
Lemma Good_cons2 a c R : a <> colon -> c <> colon -> R <> [] ->
  Good (c :: R) -> Good (a :: colon :: colon :: c :: R).
Proof.
  intros Ha Hc HR (H1 & H2 & H3). repeat split.
  - intros [|p0 [|p1 [|p2 pre]]] post E; cbn in E; inv E; fin H1.
  - intros [|p0 [|p1 [|p2 pre]]] x y post E; cbn in E; inv E; fin H2.
  - intros [|p0 [|p1 [|p2 pre]]] E; cbn in E; inv E; fin H3.
Qed.

Lemma go_spec s : forall a, a <> colon ->
  (check_go s 0 = true <-> Good (a :: s ++ [0])) /\
  (check_go s 1 = true <-> Good (a :: colon :: s ++ [0])) /\
  (check_go s 2 = true <-> Good (a :: colon :: colon :: s ++ [0])).
Proof.
  induction s as [|c r IH]; intros a Ha.
  - (* end of input *)
    cbn [check_go app]. split; [|split]; split; try discriminate.
    + intros _. repeat split.
      * intros [|p0 [|p1 pre]] post E; cbn in E; inv E. destruct pre; discriminate.
      * intros [|p0 [|p1 pre]] x y post E; cbn in E; inv E. destruct pre; discriminate.
      * intros [|p0 [|p1 pre]] E; cbn in E; inv E; try congruence. destruct pre; discriminate.
    + intros _. reflexivity.
    + intros (_ & _ & H3). exfalso. apply (H3 [a]). reflexivity.
    + intros (_ & _ & H3). exfalso. apply (H3 [a; colon]). reflexivity.
  - cbn [check_go].
    destruct (N.eqb_spec c colon) as [->|Hc].
    + (* a colon extends the streak; the string read so far is unchanged *)
      destruct (IH a Ha) as (_ & IH1 & IH2).
      split; [|split].
      * exact IH1.
      * exact IH2.
      * split; [discriminate|].
        intros (H1 & _). exfalso. apply (H1 [a] (r ++ [0])). reflexivity.
    + (* a non-colon character *)
      destruct (IH c Hc) as (IH0 & _ & _).
      assert (HR : r ++ [0] <> []) by (destruct r; discriminate).
      split; [|split].
      * change (check_go r 0 = true <-> Good (a :: (c :: r) ++ [0])). rewrite IH0. split.
        -- now apply Good_cons.
        -- apply (Good_suffix [a]).
      * split; [discriminate|].
        intros (_ & H2 & _). exfalso.
        destruct (H2 [] a c (r ++ [0]) eq_refl); congruence.
      * change (check_go r 0 = true <-> Good (a :: colon :: colon :: (c :: r) ++ [0])). rewrite IH0. split.
        -- now apply Good_cons2.
        -- apply (Good_suffix [a; colon; colon]).
Qed.

Definition wf_name' (s : str) : Prop := s <> [] /\ Good (0 :: s ++ [0]).

Theorem check_name_wf' s : check_name s = true <-> wf_name' s.
Proof.
  unfold check_name, wf_name'. destruct s as [|c r].
  - split; [discriminate|intros [H _]; congruence].
  - destruct (go_spec (c :: r) 0) as (H0 & _ & _); [discriminate|].
    rewrite H0. split; [intros H; split; [discriminate|exact H]|intros [_ H]; exact H].
Qed.

(* bridge from the padded formulation to the plain one *)
Lemma no_trailing_last s : s <> [] ->
  (no_trailing (0 :: s ++ [0]) <-> last s 0 <> colon).
Proof.
  intros Hs. unfold no_trailing. split.
  - intros H Hl. destruct (exists_last Hs) as (s' & x & ->).
    rewrite last_last in Hl. subst x.
    apply (H (0 :: s')). cbn. now rewrite <- app_assoc.
  - intros Hl pre E.
    change (0 :: s ++ [0]) with ((0 :: s) ++ [0]) in E.
    change [colon; 0] with ([colon] ++ [0]) in E. rewrite app_assoc in E.
    apply app_inj_tail in E. destruct E as [E _].
    destruct (exists_last Hs) as (s' & x & ->).
    rewrite last_last in Hl. rewrite app_comm_cons in E.
    apply app_inj_tail in E. destruct E as [_ E]. congruence.
Qed.

Lemma no_triple_pad s : no_triple (0 :: s ++ [0]) <-> no_triple s.
Proof.
  unfold no_triple. split.
  - intros H pre post E. apply (H (0 :: pre) (post ++ [0])). rewrite E.
    cbn. rewrite <- app_assoc. reflexivity.
  - intros H [|p0 pre] post E; cbn in E.
    + injection E as E0 _. discriminate E0.
    + injection E as _ E1.
      (* the triple lies in s unless it reaches the final sentinel *)
      destruct post as [|q post0].
      * assert (E2 : s ++ [0] = (pre ++ [colon; colon]) ++ [colon])
          by (rewrite E1, <- app_assoc; reflexivity).
        apply app_inj_tail in E2. destruct E2 as [_ E2]. discriminate E2.
      * destruct (@exists_last _ (q :: post0)) as (post' & x & Hp); [discriminate|].
        rewrite Hp in E1.
        assert (E2 : s ++ [0] = (pre ++ colon :: colon :: colon :: post') ++ [x])
          by (rewrite E1, <- app_assoc; reflexivity).
        apply app_inj_tail in E2. destruct E2 as [E2 _].
        apply (H pre post' E2).
Qed.

Theorem check_name_wf s : check_name s = true <-> wf_name s.
Proof.
  rewrite check_name_wf'. unfold wf_name', wf_name, Good. split.
  - intros (Hs & H1 & H2 & H3). repeat split; try assumption.
    + now apply no_trailing_last.
    + apply (proj1 (no_triple_pad s)). exact H1.
  - intros (Hs & Hl & H1 & H2). repeat split; try assumption.
    + apply (proj2 (no_triple_pad s)). exact H1.
    + now apply no_trailing_last.
Qed.
