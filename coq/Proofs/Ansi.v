(* C18 — spec side for ANSI sequences: an independent SGR reader (sgr_parse / sgr_apply),
   the finite style space, and the exhaustive checks over it. *)
From Coq Require Import List NArith Bool Lia Arith.
Import ListNotations.
From L4 Require Import Model.Ansi.
Local Open Scope N_scope.

(* ======================================================================== *)
(* Spec: reading an SGR sequence  ESC [ p1 ; p2 ; ... m                      *)

Definition is_digit (c : N) : bool := (48 <=? c) && (c <=? 57).

(* parameters: non-empty decimal numbers separated by single ';', closed by 'm', which
   must be the last byte *)
Fixpoint sgr_params (s : list N) (cur : option N) (acc : list N) : option (list N) :=
  match s with
  | [] => None
  | c :: rest =>
    if is_digit c then
      sgr_params rest (Some (10 * (match cur with Some n => n | None => 0 end) + (c - 48))) acc
    else if c =? 59 then
      match cur with Some n => sgr_params rest None (acc ++ [n]) | None => None end
    else if c =? 109 then
      match cur, rest with Some n, [] => Some (acc ++ [n]) | _, _ => None end
    else None
  end.

Definition sgr_parse (bs : list N) : option (list N) :=
  match bs with
  | 27 :: 91 :: r => sgr_params r None []
  | _ => None
  end.

Definition well_formed_sgr (bs : list N) : bool :=
  match sgr_parse bs with Some _ => true | None => false end.

Definition color_of (n : N) : option color :=
  match n with
  | 0 => Some Black | 1 => Some Red | 2 => Some Green | 3 => Some Yellow
  | 4 => Some Blue | 5 => Some Magenta | 6 => Some Cyan | 7 => Some White
  | _ => None
  end.

(* ECMA-48 meaning of the parameters the property talks about; anything else is
   "not one of the requested attributes" and rejected *)
Definition apply_param (st : style) (p : N) : option style :=
  if p =? 0 then Some (mkStyle None None None)
  else if p =? 1 then Some (mkStyle (s_text st) (s_background st) (Some true))
  else if p =? 22 then Some (mkStyle (s_text st) (s_background st) (Some false))
  else if (30 <=? p) && (p <=? 37) then
    Some (mkStyle (color_of (p - 30)) (s_background st) (s_intense st))
  else if (40 <=? p) && (p <=? 47) then
    Some (mkStyle (s_text st) (color_of (p - 40)) (s_intense st))
  else None.

(* the style in force after the terminal, previously in style st, reads bs *)
Definition sgr_apply (st : style) (bs : list N) : option style :=
  match sgr_parse bs with
  | Some ps =>
    fold_left (fun o p => match o with Some s => apply_param s p | None => None end) ps (Some st)
  | None => None
  end.

(* ======================================================================== *)
(* The finite style space: 9 x 9 x 3 = 243                                   *)

Definition all_colors : list color := [Black; Red; Green; Yellow; Blue; Magenta; Cyan; White].
Definition opt_colors : list (option color) := None :: map Some all_colors.
Definition opt_bools : list (option bool) := [None; Some false; Some true].

Definition all_styles : list style :=
  flat_map (fun t => flat_map (fun b => map (fun i => mkStyle t b i) opt_bools) opt_colors) opt_colors.

Lemma all_styles_length : length all_styles = 243%nat.
Proof. reflexivity. Qed.

Lemma opt_colors_complete c : In c opt_colors.
Proof. destruct c as [[]|]; cbn; tauto. Qed.

Lemma opt_bools_complete b : In b opt_bools.
Proof. destruct b as [[]|]; cbn; tauto. Qed.

Lemma all_styles_complete s : In s all_styles.
Proof.
  destruct s as [t b i]. unfold all_styles.
  apply in_flat_map. exists t. split; [apply opt_colors_complete|].
  apply in_flat_map. exists b. split; [apply opt_colors_complete|].
  apply in_map. apply opt_bools_complete.
Qed.

Definition color_eqb (a b : color) : bool :=
  match a, b with
  | Black, Black | Red, Red | Green, Green | Yellow, Yellow
  | Blue, Blue | Magenta, Magenta | Cyan, Cyan | White, White => true
  | _, _ => false
  end.

Definition opt_eqb {A} (f : A -> A -> bool) (a b : option A) : bool :=
  match a, b with
  | Some x, Some y => f x y
  | None, None => true
  | _, _ => false
  end.

Definition style_eqb (a b : style) : bool :=
  opt_eqb color_eqb (s_text a) (s_text b)
  && opt_eqb color_eqb (s_background a) (s_background b)
  && opt_eqb Bool.eqb (s_intense a) (s_intense b).

Lemma color_eqb_eq a b : color_eqb a b = true -> a = b.
Proof. destruct a, b; cbn; intros H; try reflexivity; discriminate H. Qed.

Lemma opt_eqb_eq {A} (f : A -> A -> bool) (Hf : forall x y, f x y = true -> x = y) a b :
  opt_eqb f a b = true -> a = b.
Proof.
  destruct a, b; cbn; intros H; try reflexivity; try discriminate H. f_equal. apply Hf, H.
Qed.

Lemma style_eqb_eq a b : style_eqb a b = true -> a = b.
Proof.
  destruct a as [t1 b1 i1], b as [t2 b2 i2]. unfold style_eqb. cbn [s_text s_background s_intense].
  intros H. apply andb_true_iff in H. destruct H as [H H3].
  apply andb_true_iff in H. destruct H as [H1 H2].
  apply (opt_eqb_eq _ color_eqb_eq) in H1. apply (opt_eqb_eq _ color_eqb_eq) in H2.
  apply (opt_eqb_eq _ Bool.eqb_prop) in H3. subst. reflexivity.
Qed.

Definition opt_style_is (o : option style) (s : style) : bool :=
  match o with Some s' => style_eqb s' s | None => false end.

(* ======================================================================== *)
(* Exhaustive checks (finite domains, decided by vm_compute)                 *)

Fixpoint count27 (l : list N) : nat :=
  match l with [] => 0%nat | c :: r => ((if (c =? 27)%N then 1 else 0) + count27 r)%nat end.

(* one style request: the code returns bytes (no panic), they form exactly one well-formed
   SGR sequence, and from every previous style s0 the terminal ends in exactly style s *)
Definition style_ok (s : style) : bool :=
  match set_style s with
  | Ok bs =>
    well_formed_sgr bs && Nat.eqb (count27 bs) 1
    && forallb (fun s0 => opt_style_is (sgr_apply s0 bs) s) all_styles
  | Panic => false
  end.

Lemma all_styles_ok : forallb style_ok all_styles = true.
Proof. vm_compute. reflexivity. Qed.

Theorem sgr_decode_encode :
  forall s : style,
  exists bs, set_style s = Ok bs
    /\ well_formed_sgr bs = true
    /\ count27 bs = 1%nat
    /\ forall s0 : style, sgr_apply s0 bs = Some s.
Proof.
  intros s.
  pose proof (proj1 (forallb_forall _ _) all_styles_ok s (all_styles_complete s)) as H.
  unfold style_ok in H. destruct (set_style s) as [bs|]; [|discriminate H].
  exists bs. apply andb_true_iff in H. destruct H as [H H3].
  apply andb_true_iff in H. destruct H as [H1 H2].
  repeat split; try assumption.
  - apply Nat.eqb_eq. exact H2.
  - intros s0.
    pose proof (proj1 (forallb_forall _ _) H3 s0 (all_styles_complete s0)) as H0.
    unfold opt_style_is in H0. destruct (sgr_apply s0 bs) as [s'|]; [|discriminate H0].
    f_equal. apply style_eqb_eq. exact H0.
Qed.

Corollary set_style_never_panics s : set_style s <> Panic.
Proof. destruct (sgr_decode_encode s) as [bs [H _]]. congruence. Qed.

(* the bytes of a style request, as a total function justified by the theorem above *)
Definition sgr_bytes (s : style) : list N :=
  match set_style s with Ok bs => bs | Panic => [] end.

Lemma set_style_sgr_bytes s : set_style s = Ok (sgr_bytes s).
Proof. unfold sgr_bytes. destruct (sgr_decode_encode s) as [bs [-> _]]. reflexivity. Qed.

(* the defect fixed by 8076380, kept as a witness: with the old 12-byte array exactly the
   64 styles text + background + intense=false overran it *)
Definition overruns12 (s : style) : bool :=
  match set_style_cap 12 s with Panic => true | Ok _ => false end.

Definition in_overrun_class (s : style) : bool :=
  match s_text s, s_background s, s_intense s with
  | Some _, Some _, Some false => true
  | _, _, _ => false
  end.

Lemma overrun12_class_check :
  forallb (fun s => Bool.eqb (overruns12 s) (in_overrun_class s)) all_styles = true.
Proof. vm_compute. reflexivity. Qed.

Theorem ansi_overrun12_exact s : set_style_cap 12 s = Panic <-> in_overrun_class s = true.
Proof.
  pose proof (proj1 (forallb_forall _ _) overrun12_class_check s (all_styles_complete s)) as H.
  apply eqb_prop in H. unfold overruns12 in H. rewrite <- H.
  destruct (set_style_cap 12 s); split; congruence.
Qed.
