(* C16 — the finite sweeps behind Proofs/Civil.v, kept in their own small file.
   A range [s, s + p) is checked by binary recursion on the POSITIVE p (no unary
   numbers, no lists); the three facts are closed by the kernel VM.  Domains: the
   4800 months and the 400 years of one era (twice), stated in the lemmas;
   Proofs/Civil.v lifts them to all of Z by periodicity / uses them inside an era.
   Everything per DAY is proved by linear arithmetic in Proofs/Civil.v (no
   146097-day sweep). *)
From Coq Require Import ZArith Lia Bool.
From L4 Require Import Model.Civil.
Local Open Scope Z_scope.

Fixpoint chk (P : Z -> bool) (p : positive) (s : Z) : bool :=
  match p with
  | xH => P s
  | xO q => chk P q s && chk P q (s + Zpos q)
  | xI q => P s && chk P q (s + 1) && chk P q (s + 1 + Zpos q)
  end.

Lemma chk_sound : forall P p s, chk P p s = true ->
  forall z, s <= z < s + Zpos p -> P z = true.
Proof.
  intros P p. induction p as [q IH|q IH|]; intros s H z Hz; cbn [chk] in H.
  - apply andb_prop in H. destruct H as [H H2]. apply andb_prop in H. destruct H as [H0 H1].
    rewrite Pos2Z.inj_xI in Hz.
    destruct (Z.eq_dec z s) as [->|Hne]; [exact H0|].
    destruct (Z_lt_ge_dec z (s + 1 + Zpos q)).
    + apply (IH _ H1). lia.
    + apply (IH _ H2). lia.
  - apply andb_prop in H. destruct H as [H1 H2]. rewrite Pos2Z.inj_xO in Hz.
    destruct (Z_lt_ge_dec z (s + Zpos q)).
    + apply (IH _ H1). lia.
    + apply (IH _ H2). lia.
  - replace z with s by lia. exact H.
Qed.

(* day number of the first day of month number k, counted from January of year 0 *)
Definition month_start (k : Z) : Z := days_from_civil (k / 12) (k mod 12 + 1) 1.

Definition month_step_ok (k : Z) : bool := month_start k <? month_start (k + 1).

(* civil_from_days' year-of-era formula: ys y = day-of-era on which the March-based
   year y of an era starts (ysb: the same with the era's end 146097 at y = 400) *)
Definition ys (y : Z) : Z := 365 * y + y / 4 - y / 100.
Definition ysb (y : Z) : Z := ys y + (if 400 <=? y then 1 else 0).
Definition yoe_of (doe : Z) : Z := (doe - doe / 1460 + doe / 36524 - doe / 146096) / 365.
(* the formula is right on the first and on the last day of every year of the era *)
Definition yoe_ends_ok (y : Z) : bool := (yoe_of (ys y) =? y) && (yoe_of (ysb (y + 1) - 1) =? y).

(* Monday of the ISO week that contains 4 January of year y = first day of ISO year y *)
Definition iso_year_start (y : Z) : Z :=
  let j4 := days_from_civil y 1 4 in j4 - weekday_mon j4.

(* the ISO year a day belongs to *)
Definition iso_year (z : Z) : Z :=
  let y := year_of z in
  if z <? iso_year_start y then y - 1
  else if iso_year_start (y + 1) <=? z then y + 1
  else y.

(* an ISO year has exactly iso_weeks_in_year whole weeks *)
Definition iso_len_ok (y : Z) : bool :=
  iso_year_start (y + 1) - iso_year_start y =? 7 * iso_weeks_in_year y.

Lemma month_step_era : chk month_step_ok 4800 0 = true.
Proof. vm_cast_no_check (eq_refl true). Qed.

Lemma iso_len_era : chk iso_len_ok 400 0 = true.
Proof. vm_cast_no_check (eq_refl true). Qed.

Lemma yoe_ends_era : chk yoe_ends_ok 400 0 = true.
Proof. vm_cast_no_check (eq_refl true). Qed.

Global Opaque chk.
