(* C15 — the global side of a swap: Handle::set_config also moves the `log`
   facade's max level (Model/Facade.v, C02's model of init_config / set_config /
   the log! macro).  After a swap has returned, a record logged through the
   macro is filtered and routed by the NEW configuration only: the global
   filter installed by set_config never removes a record the new tree admits. *)
From Coq Require Import List NArith Bool Lia.
Import ListNotations.
From L4 Require Import Model.Routing Proofs.Routing.
From L4 Require Model.Facade.

Lemma macro_transparent t T L :
  (L <= 5)%N ->
  Facade.macro_log {| Facade.gmax := max_level t; Facade.cur := t |} T L = deliver t T L.
Proof.
  intros HL. unfold Facade.macro_log, Facade.static_max. cbn [Facade.gmax Facade.cur].
  assert (E5 : N.leb L 5 = true) by (apply N.leb_le; exact HL). rewrite E5. cbn [andb].
  destruct (N.leb L (max_level t)) eqn:E; [reflexivity|].
  apply N.leb_gt in E. unfold deliver, node_log, enabled.
  pose proof (find_level_le_max (split_cc T) t) as Hle. fold (find t T) in Hle.
  destruct (N.leb L (tlvl (find t T))) eqn:E2; [|reflexivity]. apply N.leb_le in E2. lia.
Qed.

Definition installed (cfg : config) (st : Facade.fstate) : Prop :=
  exists t, build cfg = Some t /\ st = {| Facade.gmax := max_level t; Facade.cur := t |}.

Lemma set_config_installed st cfg st' : Facade.set_config st cfg = Some st' -> installed cfg st'.
Proof.
  unfold Facade.set_config. destruct (build cfg) as [t|] eqn:E; [|discriminate].
  intros H. inversion H. exists t. auto.
Qed.

Lemma run_history_installed c0 cs st :
  Facade.run_history c0 cs = Some st -> installed (last cs c0) st.
Proof.
  revert st. induction cs as [|c cs IH] using rev_ind; intros st H.
  - unfold Facade.run_history in H. cbn in H. unfold Facade.init in H.
    destruct (build c0) as [t|] eqn:E; [|discriminate]. inversion H. exists t. auto.
  - unfold Facade.run_history in H. rewrite fold_left_app in H. cbn [fold_left] in H.
    rewrite last_last.
    destruct (fold_left Facade.step cs (Facade.init c0)) as [st0|]; [|discriminate].
    cbn [Facade.step] in H. exact (set_config_installed st0 c st H).
Qed.

(* init_config(c0), then set_config(c) for each c of cs: once the last call has
   returned, the installed tree is the complete build of the LAST configuration
   and every record logged through log! is delivered exactly along its route *)
Lemma facade_new_only c0 cs st :
  Facade.run_history c0 cs = Some st ->
  build (last cs c0) = Some (Facade.cur st) /\
  forall T L, (L <= 5)%N -> Facade.macro_log st T L = deliver (Facade.cur st) T L.
Proof.
  intros H. destruct (run_history_installed c0 cs st H) as (t & Hb & ->).
  cbn [Facade.cur]. split; [exact Hb|]. intros T L HL. apply macro_transparent. exact HL.
Qed.
