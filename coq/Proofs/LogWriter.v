(* C06 — size accounting at the io::Write layer (Model/LogWriter.v): for EVERY script of sink
   answers (short counts, zero, interrupted, failing), every buffer and every list of chunks,
   the count LogWriter keeps moves by exactly the number of bytes the sink accepted, and what
   the sink accepted is a prefix of what was offered - the whole of it when the call returns Ok.
   Interrupted calls are invisible. *)
From Coq Require Import List Arith NArith Bool Lia.
Import ListNotations.
From L4 Require Import Model.LogWriter.
Local Open Scope N_scope.

Lemma firstn_plus {A} (a b : nat) (l : list A) :
  firstn (a + b) l = firstn a l ++ firstn b (skipn a l).
Proof.
  revert l. induction a as [|a IH]; intros l; [reflexivity|].
  destruct l as [|x l]; cbn [Nat.add firstn skipn app].
  - rewrite firstn_nil. reflexivity.
  - rewrite IH. reflexivity.
Qed.

Lemma skipn_length_le {A} (k : nat) (l : list A) : (length (skipn k l) = length l - k)%nat.
Proof. apply skipn_length. Qed.

(* one write_all call: a prefix of the buffer was accepted, the count moved by its length *)
Theorem write_all_exact script : forall w buf w' r rest,
  write_all w buf script = (w', r, rest) ->
  exists k : nat,
    (k <= length buf)%nat /\
    taken w' = taken w ++ firstn k buf /\
    len w' = len w + N.of_nat k /\
    (r = AOk -> k = length buf).
Proof.
  induction script as [|a script IH]; intros w buf w' r rest H.
  - destruct buf as [|b bs]; cbn [write_all] in H; inversion H; subst; clear H.
    + exists 0%nat. cbn. rewrite app_nil_r, N.add_0_r. repeat split; auto.
    + exists 0%nat. cbn [firstn]. rewrite app_nil_r, N.add_0_r.
      repeat split; auto; try lia. discriminate.
  - destruct buf as [|b bs].
    + cbn [write_all] in H. inversion H; subst; clear H.
      exists 0%nat. cbn. rewrite app_nil_r, N.add_0_r. repeat split; auto.
    + cbn [write_all] in H. destruct a as [n| | |]; cbn [lw_write] in H.
      * (* Took n: k0 = S (min n |bs|) bytes, then the rest of the buffer *)
        cbn [length Nat.min] in H.
        remember (Nat.min n (length bs)) as m eqn:Em.
        apply IH in H. destruct H as [k [Hk [Ht [Hl Hok]]]].
        cbn [taken len] in Ht, Hl.
        assert (Hm : (m <= length bs)%nat) by (subst m; apply Nat.le_min_r).
        rewrite skipn_length in Hk. cbn [length] in Hk.
        exists (S m + k)%nat. split; [cbn [length]; lia|]. split.
        { rewrite Ht, <- app_assoc. f_equal. symmetry. apply firstn_plus. }
        split.
        { rewrite Hl. lia. }
        { intros E. specialize (Hok E). rewrite skipn_length in Hok. cbn [length] in Hok |- *. lia. }
      * inversion H; subst; clear H. exists 0%nat. cbn [firstn]. rewrite app_nil_r, N.add_0_r.
        repeat split; auto; try lia. discriminate.
      * apply IH in H. exact H.
      * inversion H; subst; clear H. exists 0%nat. cbn [firstn]. rewrite app_nil_r, N.add_0_r.
        repeat split; auto; try lia. discriminate.
Qed.

Corollary write_all_ok script w buf w' rest :
  write_all w buf script = (w', AOk, rest) ->
  taken w' = taken w ++ buf /\ len w' = len w + blen buf.
Proof.
  intros H. destruct (write_all_exact _ _ _ _ _ _ H) as [k [_ [Ht [Hl Hok]]]].
  rewrite (Hok eq_refl) in *. rewrite firstn_all in Ht. split; [exact Ht|exact Hl].
Qed.

(* The invariant the size trigger relies on: the count is the size the file had when the
   handle was opened plus everything the sink accepted through it. *)
Definition accounted (base : N) (w : lw) : Prop := len w = base + blen (taken w).

Lemma blen_app a b : blen (a ++ b) = blen a + blen b.
Proof. unfold blen. rewrite app_length. lia. Qed.

Theorem write_all_accounted base script w buf w' r rest :
  accounted base w -> write_all w buf script = (w', r, rest) -> accounted base w'.
Proof.
  unfold accounted. intros Hw H.
  destruct (write_all_exact _ _ _ _ _ _ H) as [k [Hk [Ht [Hl _]]]].
  rewrite Hl, Ht, blen_app, Hw. unfold blen. rewrite firstn_length. lia.
Qed.

(* an encoder that writes several chunks, whatever happens to each *)
Theorem write_chunks_accounted base chunks : forall script w w' r rest,
  accounted base w -> write_chunks w chunks script = (w', r, rest) -> accounted base w'.
Proof.
  induction chunks as [|c cs IH]; intros script w w' r rest Hw H; cbn [write_chunks] in H.
  - inversion H; subst. exact Hw.
  - destruct (write_all w c script) as [[w1 r1] rest1] eqn:E.
    pose proof (write_all_accounted _ _ _ _ _ _ _ Hw E) as H1.
    destruct r1; [eapply IH; eassumption| |]; inversion H; subst; exact H1.
Qed.

Theorem write_chunks_ok chunks : forall script w w' rest,
  write_chunks w chunks script = (w', AOk, rest) ->
  taken w' = taken w ++ concat chunks /\ len w' = len w + blen (concat chunks).
Proof.
  induction chunks as [|c cs IH]; intros script w w' rest H; cbn [write_chunks] in H.
  - inversion H; subst. cbn [concat]. rewrite app_nil_r. unfold blen. cbn [length N.of_nat].
    split; [reflexivity|]. rewrite N.add_0_r. reflexivity.
  - destruct (write_all w c script) as [[w1 r1] rest1] eqn:E.
    destruct r1; try discriminate.
    destruct (write_all_ok _ _ _ _ _ E) as [Ht1 Hl1].
    destruct (IH _ _ _ _ H) as [Ht Hl]. cbn [concat].
    split; [rewrite Ht, Ht1, app_assoc; reflexivity|rewrite Hl, Hl1, blen_app; lia].
Qed.

(* An interrupted call is not an error of the sink: a script of short counts and interruptions
   never makes write_all fail. *)
Definition benign (a : answer) : Prop := match a with Took _ | Intr => True | _ => False end.

Theorem interrupts_invisible script : forall w buf w' r rest,
  Forall benign script -> write_all w buf script = (w', r, rest) -> r <> AErr.
Proof.
  induction script as [|a script IH]; intros w buf w' r rest Hb H.
  - destruct buf; cbn [write_all] in H; inversion H; subst; discriminate.
  - destruct buf as [|b bs]; cbn [write_all] in H; [inversion H; subst; discriminate|].
    inversion Hb as [|a' s' Ha Hs]; subst.
    destruct a as [n| | |]; cbn [benign] in Ha; try contradiction; cbn [lw_write] in H.
    + cbn [length Nat.min] in H. eapply IH; eassumption.
    + eapply IH; eassumption.
Qed.

(* ... and with enough of them the whole buffer is written: every Took takes at least a byte *)
Fixpoint tooks (script : list answer) : nat :=
  match script with
  | [] => 0
  | Took _ :: s => S (tooks s)
  | _ :: s => tooks s
  end.

Theorem enough_answers_finish script : forall w buf,
  Forall benign script -> (length buf <= tooks script)%nat ->
  exists w' rest, write_all w buf script = (w', AOk, rest).
Proof.
  induction script as [|a script IH]; intros w buf Hb Hn.
  - destruct buf; [cbn [write_all]; eauto|cbn in Hn; lia].
  - destruct buf as [|b bs]; [cbn [write_all]; eauto|].
    inversion Hb as [|a' s' Ha Hs]; subst.
    destruct a as [n| | |]; cbn [benign] in Ha; try contradiction; cbn [write_all lw_write].
    + cbn [length Nat.min]. apply IH; [exact Hs|].
      rewrite skipn_length. cbn [length tooks] in Hn |- *. lia.
    + apply IH; [exact Hs|exact Hn].
Qed.

(* Non-vacuity: 6 bytes through a sink that takes 3, is interrupted, takes 1, then the rest;
   and a sink that fails after 2 bytes: the count is 2, like the sink's. *)
Example lw_example :
  let w0 := {| taken := [9]; len := 101 |} in
  write_all w0 [1; 2; 3; 4; 5; 6] [Took 2; Intr; Took 0; Took 100; Fail]
    = ({| taken := [9; 1; 2; 3; 4; 5; 6]; len := 107 |}, AOk, [Fail])
  /\ write_all w0 [1; 2; 3; 4; 5; 6] [Took 1; Fail; Took 9]
    = ({| taken := [9; 1; 2]; len := 103 |}, AErr, [Took 9])
  /\ accounted 100 w0.
Proof. vm_compute. repeat split. Qed.
