(* C12 — "for arbitrary Unicode": the line is well-formed UTF-8 whenever the record's strings are
   (Rust `str`s always are), i.e. escaping never splits, drops or damages a multi-byte character.

   Well-formed UTF-8 as Rust's `str::from_utf8` accepts it is the language of a byte automaton
   (the table of Unicode 3.9 / RFC 3629: no overlong forms, no surrogates, nothing above U+10FFFF):
     S0 start; C1 / C2 / C3: one / two / three continuation bytes 80..BF to come;
     E0: after E0 (next A0..BF), ED: after ED (next 80..9F), F0: after F0 (next 90..BF),
     F4: after F4 (next 80..8F). *)
From Coq Require Import List NArith Bool Lia.
Import ListNotations.
From L4 Require Import Model.Json Proofs.Json.
Local Open Scope N_scope.

Inductive ust := S0 | C1 | C2 | C3 | SE0 | SED | SF0 | SF4.

Definition inr (lo hi b : N) : bool := (lo <=? b) && (b <=? hi).

Definition ustep (s : ust) (b : N) : option ust :=
  match s with
  | S0 => if b <? 128 then Some S0
          else if inr 194 223 b then Some C1
          else if b =? 224 then Some SE0
          else if inr 225 236 b || inr 238 239 b then Some C2
          else if b =? 237 then Some SED
          else if b =? 240 then Some SF0
          else if inr 241 243 b then Some C3
          else if b =? 244 then Some SF4
          else None
  | C1 => if inr 128 191 b then Some S0 else None
  | C2 => if inr 128 191 b then Some C1 else None
  | C3 => if inr 128 191 b then Some C2 else None
  | SE0 => if inr 160 191 b then Some C1 else None
  | SED => if inr 128 159 b then Some C1 else None
  | SF0 => if inr 144 191 b then Some C2 else None
  | SF4 => if inr 128 143 b then Some C2 else None
  end.

Fixpoint urun (s : ust) (l : bytes) : option ust :=
  match l with
  | [] => Some s
  | b :: rest => match ustep s b with Some s' => urun s' rest | None => None end
  end.

Definition utf8 (l : bytes) : Prop := urun S0 l = Some S0.

Definition ascii (l : bytes) : Prop := Forall (fun b => b < 128) l.

(* an ASCII byte is a whole character at a character boundary and an error anywhere else *)
Lemma ustep_ascii s b : b < 128 -> ustep s b = if match s with S0 => true | _ => false end then Some S0 else None.
Proof.
  intros H. destruct s; cbn [ustep]; unfold inr;
    repeat match goal with
           | |- context [?x <? ?y] => destruct (N.ltb_spec x y); try lia
           | |- context [?x <=? ?y] => destruct (N.leb_spec x y); try lia
           end; cbn [andb orb]; try reflexivity.
Qed.

Lemma urun_app s a b : urun s (a ++ b) = match urun s a with Some s' => urun s' b | None => None end.
Proof.
  revert s. induction a as [|x a IH]; intros s; cbn [app urun]; [reflexivity|].
  destruct (ustep s x); [apply IH|reflexivity].
Qed.

Lemma urun_ascii_S0 l : ascii l -> urun S0 l = Some S0.
Proof.
  induction 1 as [|b l Hb Hl IH]; cbn [urun]; [reflexivity|].
  rewrite (ustep_ascii S0 b Hb). exact IH.
Qed.

Lemma urun_ascii_mid s b l : b < 128 -> s <> S0 -> urun s (b :: l) = None.
Proof. intros Hb Hs. cbn [urun]. rewrite (ustep_ascii s b Hb). destruct s; [contradiction| | | | | | |]; reflexivity. Qed.

(* what escape_byte does to a byte: a non-empty ASCII sequence for an ASCII byte, the byte itself otherwise *)
Lemma escape_byte_high b : 128 <= b -> escape_byte b = [b].
Proof.
  intros H. unfold escape_byte.
  repeat match goal with
         | |- context [?x =? ?y] => destruct (N.eqb_spec x y); try lia
         | |- context [?x <? ?y] => destruct (N.ltb_spec x y); try lia
         end; reflexivity.
Qed.

Lemma hex_digit_ascii n : n < 16 -> hex_digit n < 128.
Proof. intros H. unfold hex_digit. destruct (N.ltb_spec n 10); lia. Qed.

Lemma escape_byte_low b : b < 128 -> exists x xs, escape_byte b = x :: xs /\ ascii (x :: xs).
Proof.
  intros H. unfold escape_byte.
  repeat match goal with
         | |- context [?x =? ?y] => destruct (N.eqb_spec x y)
         | |- context [?x <? ?y] => destruct (N.ltb_spec x y)
         end;
    eexists; eexists; (split; [reflexivity|]); unfold ascii;
    repeat (apply Forall_cons; [try lia|]); try apply Forall_nil.
  - apply hex_digit_ascii. apply N.div_lt_upper_bound; lia.
  - apply hex_digit_ascii. apply N.mod_lt. lia.
Qed.

(* THE TRANSPARENCY LEMMA: the automaton cannot tell the escaped text from the text *)
Theorem urun_escape s0 : forall st, urun st (escape s0) = urun st s0.
Proof.
  induction s0 as [|b s IH]; intros st; [reflexivity|].
  unfold escape in *. cbn [flat_map].
  destruct (N.lt_ge_cases b 128) as [Hlo|Hhi].
  - destruct (escape_byte_low b Hlo) as [x [xs [E Ha]]]. rewrite E.
    destruct st.
    + (* at a boundary: the ASCII run is consumed, so is b *)
      rewrite urun_app, (urun_ascii_S0 _ Ha). cbn [urun]. rewrite (ustep_ascii S0 b Hlo). apply IH.
    + cbn [app]. inversion Ha; subst. rewrite !urun_ascii_mid by (assumption || discriminate). reflexivity.
    + cbn [app]. inversion Ha; subst. rewrite !urun_ascii_mid by (assumption || discriminate). reflexivity.
    + cbn [app]. inversion Ha; subst. rewrite !urun_ascii_mid by (assumption || discriminate). reflexivity.
    + cbn [app]. inversion Ha; subst. rewrite !urun_ascii_mid by (assumption || discriminate). reflexivity.
    + cbn [app]. inversion Ha; subst. rewrite !urun_ascii_mid by (assumption || discriminate). reflexivity.
    + cbn [app]. inversion Ha; subst. rewrite !urun_ascii_mid by (assumption || discriminate). reflexivity.
    + cbn [app]. inversion Ha; subst. rewrite !urun_ascii_mid by (assumption || discriminate). reflexivity.
  - rewrite (escape_byte_high b Hhi). cbn [app urun]. destruct (ustep st b); [apply IH|reflexivity].
Qed.

Corollary utf8_escape s : utf8 (escape s) <-> utf8 s.
Proof. unfold utf8. rewrite urun_escape. tauto. Qed.

(* ---- the whole line ---- *)

Lemma utf8_app a b : utf8 a -> utf8 b -> utf8 (a ++ b).
Proof. unfold utf8. intros Ha Hb. rewrite urun_app, Ha. exact Hb. Qed.

Lemma utf8_ascii l : ascii l -> utf8 l.
Proof. apply urun_ascii_S0. Qed.

Lemma utf8_cons_ascii b l : b < 128 -> utf8 l -> utf8 (b :: l).
Proof. intros Hb Hl. change (b :: l) with ([b] ++ l). apply utf8_app; [apply utf8_ascii; apply Forall_cons; [exact Hb|apply Forall_nil]|exact Hl]. Qed.

Lemma utf8_jstring s : utf8 s -> utf8 (jstring s).
Proof.
  intros H. unfold jstring. apply utf8_cons_ascii; [lia|].
  apply utf8_app; [apply utf8_escape, H|]. apply utf8_ascii. apply Forall_cons; [lia|apply Forall_nil].
Qed.

Lemma dec_ascii n : ascii (dec n).
Proof.
  unfold ascii. apply Forall_forall. intros x Hx. rewrite dec_digits in Hx.
  apply in_map_iff in Hx. destruct Hx as [d [<- Hd]]. apply digits_be_lt10 in Hd. lia.
Qed.

Lemma utf8_member k v : utf8 k -> utf8 v -> utf8 (member k v).
Proof. intros Hk Hv. unfold member. apply utf8_app; [apply utf8_jstring, Hk|]. apply utf8_cons_ascii; [lia|exact Hv]. Qed.

Lemma utf8_join ms : Forall utf8 ms -> utf8 (join_members ms).
Proof.
  induction 1 as [|m ms Hm Hms IH]; [reflexivity|].
  destruct ms as [|m2 ms]; [exact Hm|].
  cbn [join_members] in *. apply utf8_app; [exact Hm|]. apply utf8_cons_ascii; [lia|exact IH].
Qed.

Lemma utf8_object ms : Forall utf8 ms -> utf8 (object ms).
Proof.
  intros H. unfold object. apply utf8_cons_ascii; [lia|].
  apply utf8_app; [apply utf8_join, H|]. apply utf8_ascii. apply Forall_cons; [lia|apply Forall_nil].
Qed.

Definition opt_utf8 (o : option bytes) : Prop := match o with Some s => utf8 s | None => True end.

Record record_utf8 (r : record) : Prop := {
  u_time : utf8 (r_time r);
  u_message : utf8 (r_message r);
  u_module : opt_utf8 (r_module r);
  u_file : opt_utf8 (r_file r);
  u_target : utf8 (r_target r);
  u_thread : opt_utf8 (r_thread r);
  u_mdc : Forall (fun kv => utf8 (fst kv) /\ utf8 (snd kv)) (r_mdc r)
}.

Lemma key_utf8 :
  utf8 k_time /\ utf8 k_level /\ utf8 k_message /\ utf8 k_module_path /\ utf8 k_file /\ utf8 k_line /\
  utf8 k_target /\ utf8 k_thread /\ utf8 k_thread_id /\ utf8 k_mdc /\ utf8 j_null.
Proof. unfold utf8. vm_compute. repeat split. Qed.

Lemma level_name_utf8 l : utf8 (level_name l).
Proof. destruct l; unfold utf8; vm_compute; reflexivity. Qed.

Lemma utf8_mdc m : Forall (fun kv => utf8 (fst kv) /\ utf8 (snd kv)) m -> utf8 (mdc_object m).
Proof.
  intros H. unfold mdc_object. apply utf8_object. apply Forall_forall. intros x Hx.
  apply in_map_iff in Hx. destruct Hx as [[k v] [<- Hin]].
  rewrite Forall_forall in H. destruct (H _ Hin) as [Hk Hv]. cbn [fst snd] in *.
  apply utf8_member; [exact Hk|apply utf8_jstring, Hv].
Qed.

Theorem line_is_utf8 r : record_utf8 r -> utf8 (encode_record r).
Proof.
  intros [Ht Hm Hmo Hf Hta Hth Hmdc].
  destruct key_utf8 as [K1 [K2 [K3 [K4 [K5 [K6 [K7 [K8 [K9 [K10 KN]]]]]]]]]].
  unfold encode_record. apply utf8_app; [|apply utf8_ascii; apply Forall_cons; [lia|apply Forall_nil]].
  unfold message_object. apply utf8_object.
  apply Forall_app; split; [|apply Forall_app; split; [|apply Forall_app; split; [|apply Forall_app; split]]].
  - apply Forall_cons; [apply utf8_member; [exact K1|apply utf8_jstring, Ht]|].
    apply Forall_cons; [apply utf8_member; [exact K2|apply utf8_jstring, level_name_utf8]|].
    apply Forall_cons; [apply utf8_member; [exact K3|apply utf8_jstring, Hm]|]. constructor.
  - destruct (r_module r); cbn [opt_member opt_utf8] in *; [|constructor].
    apply Forall_cons; [apply utf8_member; [exact K4|apply utf8_jstring, Hmo]|constructor].
  - destruct (r_file r); cbn [opt_member opt_utf8] in *; [|constructor].
    apply Forall_cons; [apply utf8_member; [exact K5|apply utf8_jstring, Hf]|constructor].
  - destruct (r_line r); cbn [opt_member]; [|constructor].
    apply Forall_cons; [apply utf8_member; [exact K6|apply utf8_ascii, dec_ascii]|constructor].
  - apply Forall_cons; [apply utf8_member; [exact K7|apply utf8_jstring, Hta]|].
    apply Forall_cons.
    { apply utf8_member; [exact K8|]. destruct (r_thread r); cbn [opt_utf8] in Hth; [apply utf8_jstring, Hth|exact KN]. }
    apply Forall_cons; [apply utf8_member; [exact K9|apply utf8_ascii, dec_ascii]|].
    apply Forall_cons; [apply utf8_member; [exact K10|apply utf8_mdc, Hmdc]|constructor].
Qed.

(* Non-vacuity: "é€𝄞" with a quote and a newline inside is UTF-8, so is its escaped form;
   a lone continuation byte is not, and stays not. *)
Example utf8_examples :
  let s := [195;169; 34; 226;130;172; 10; 240;157;132;158] in
  urun S0 s = Some S0 /\ urun S0 (escape s) = Some S0 /\ urun S0 [128] = None /\ urun S0 (escape [128]) = None
  /\ urun S0 [237; 160; 128] = None /\ urun S0 [192; 128] = None /\ urun S0 [244; 144; 128; 128] = None.
Proof. vm_compute. repeat split. Qed.
