(* C12 — spec side (an independent JSON reader: string unescaping, a lexer and a
   small object parser) and the lemmas relating it to Model/Json.v. *)
From Coq Require Import List NArith Bool Lia.
Import ListNotations.
From L4 Require Import Model.Json.
Local Open Scope N_scope.

(* ======================================================================== *)
(* Spec: reading JSON.  Nothing below mentions the encoder.                  *)

Definition is_digit (c : N) : bool := (48 <=? c) && (c <=? 57).

Definition hexval (c : N) : option N :=
  if (48 <=? c) && (c <=? 57) then Some (c - 48)
  else if (97 <=? c) && (c <=? 102) then Some (c - 87)
  else if (65 <=? c) && (c <=? 70) then Some (c - 55)
  else None.

(* UTF-8 of a BMP scalar value; surrogates are not scalar values *)
Definition utf8_of_cp (cp : N) : option bytes :=
  if cp <? 128 then Some [cp]
  else if cp <? 2048 then Some [192 + cp / 64; 128 + cp mod 64]
  else if (55296 <=? cp) && (cp <=? 57343) then None
  else Some [224 + cp / 4096; 128 + (cp / 64) mod 64; 128 + cp mod 64].

(* the two-character escapes of RFC 8259 *)
Definition simple_escape (e : N) : option N :=
  if e =? 34 then Some 34            (* quote *)
  else if e =? 92 then Some 92       (* \\ *)
  else if e =? 47 then Some 47       (* \/ *)
  else if e =? 98 then Some 8        (* \b *)
  else if e =? 102 then Some 12      (* \f *)
  else if e =? 110 then Some 10      (* \n *)
  else if e =? 114 then Some 13      (* \r *)
  else if e =? 116 then Some 9       (* \t *)
  else None.

(* contents of a JSON string literal (between the quotes) -> the text it denotes;
   None: raw control byte, bare quote, unknown or truncated escape, surrogate *)
Fixpoint unescape (s : bytes) : option bytes :=
  match s with
  | [] => Some []
  | c :: rest =>
    if c =? 92 then
      match rest with
      | [] => None
      | e :: rest1 =>
        if e =? 117 then
          match rest1 with
          | h3 :: h2 :: h1 :: h0 :: rest2 =>
            match hexval h3, hexval h2, hexval h1, hexval h0 with
            | Some x3, Some x2, Some x1, Some x0 =>
              match utf8_of_cp (x3 * 4096 + x2 * 256 + x1 * 16 + x0), unescape rest2 with
              | Some u, Some r => Some (u ++ r)
              | _, _ => None
              end
            | _, _, _, _ => None
            end
          | _ => None
          end
        else
          match simple_escape e, unescape rest1 with
          | Some x, Some r => Some (x :: r)
          | _, _ => None
          end
      end
    else if (c =? 34) || (c <? 32) then None
    else option_map (cons c) (unescape rest)
  end.

(* no quote that is not the second byte of a backslash pair *)
Fixpoint no_bare_quote (s : bytes) : bool :=
  match s with
  | [] => true
  | c :: rest =>
    if c =? 92 then match rest with [] => false | _ :: rest' => no_bare_quote rest' end
    else if c =? 34 then false
    else no_bare_quote rest
  end.

(* ---- lexer: a one-byte-at-a-time transition system ---- *)
Inductive tok :=
| TLB | TRB | TColon | TComma | TNL
| TStr (raw : bytes)        (* raw contents between the quotes *)
| TNum (n : N)
| TNull.

Inductive lstate :=
| LOut                      (* between tokens *)
| LStr (acc : bytes)        (* inside a string *)
| LEsc (acc : bytes)        (* just after a backslash inside a string *)
| LNum (n : N)              (* inside an unsigned integer *)
| LWord (k : nat).          (* k bytes of the word null seen *)

Definition step_out (c : N) : option (list tok * lstate) :=
  if c =? 123 then Some ([TLB], LOut)
  else if c =? 125 then Some ([TRB], LOut)
  else if c =? 58 then Some ([TColon], LOut)
  else if c =? 44 then Some ([TComma], LOut)
  else if c =? 10 then Some ([TNL], LOut)
  else if (c =? 32) || (c =? 9) || (c =? 13) then Some ([], LOut)
  else if c =? 34 then Some ([], LStr [])
  else if c =? 110 then Some ([], LWord 1)
  else if is_digit c then Some ([], LNum (c - 48))
  else None.

Definition step (st : lstate) (c : N) : option (list tok * lstate) :=
  match st with
  | LOut => step_out c
  | LStr acc =>
    if c =? 34 then Some ([TStr acc], LOut)
    else if c =? 92 then Some ([], LEsc acc)
    else if c <? 32 then None
    else Some ([], LStr (acc ++ [c]))
  | LEsc acc => if c <? 32 then None else Some ([], LStr (acc ++ [92; c]))
  | LNum n =>
    if is_digit c then Some ([], LNum (10 * n + (c - 48)))
    else match step_out c with
         | Some (ts, st') => Some (TNum n :: ts, st')
         | None => None
         end
  | LWord 1 => if c =? 117 then Some ([], LWord 2) else None
  | LWord 2 => if c =? 108 then Some ([], LWord 3) else None
  | LWord 3 => if c =? 108 then Some ([TNull], LOut) else None
  | LWord _ => None
  end.

Fixpoint lex (st : lstate) (s : bytes) : option (list tok) :=
  match s with
  | [] => match st with LOut => Some [] | LNum n => Some [TNum n] | _ => None end
  | c :: rest =>
    match step st c with
    | Some (ts, st') => option_map (app ts) (lex st' rest)
    | None => None
    end
  end.

(* ---- parser over tokens ---- *)
Inductive jval :=
| JStr (s : bytes)
| JNum (n : N)
| JNull
| JMap (m : list (bytes * bytes)).     (* an object whose values are all strings *)

(* members of a string-valued object up to and including its '}' *)
Fixpoint parse_smap (ts : list tok) : option (list (bytes * bytes) * list tok) :=
  match ts with
  | TStr k :: TColon :: TStr v :: sep :: rest =>
    match unescape k, unescape v with
    | Some k', Some v' =>
      match sep with
      | TRB => Some ([(k', v')], rest)
      | TComma =>
        match parse_smap rest with
        | Some (m, r) => Some ((k', v') :: m, r)
        | None => None
        end
      | _ => None
      end
    | _, _ => None
    end
  | _ => None
  end.

Definition parse_map (ts : list tok) : option (list (bytes * bytes) * list tok) :=
  match ts with
  | TRB :: rest => Some ([], rest)
  | _ => parse_smap ts
  end.

Definition parse_value (ts : list tok) : option (jval * list tok) :=
  match ts with
  | TStr s :: rest => option_map (fun s' => (JStr s', rest)) (unescape s)
  | TNum n :: rest => Some (JNum n, rest)
  | TNull :: rest => Some (JNull, rest)
  | TLB :: rest =>
    match parse_map rest with
    | Some (m, r) => Some (JMap m, r)
    | None => None
    end
  | _ => None
  end.

(* members of the top-level object up to and including its '}' *)
Fixpoint parse_members (fuel : nat) (ts : list tok) : option (list (bytes * jval) * list tok) :=
  match fuel with
  | O => None
  | S f =>
    match ts with
    | TStr k :: TColon :: rest =>
      match unescape k, parse_value rest with
      | Some k', Some (v, TRB :: r) => Some ([(k', v)], r)
      | Some k', Some (v, TComma :: r) =>
        match parse_members f r with
        | Some (ms, r') => Some ((k', v) :: ms, r')
        | None => None
        end
      | _, _ => None
      end
    | _ => None
    end
  end.

(* a whole output line: one object, one newline, nothing else *)
Definition parse_line (s : bytes) : option (list (bytes * jval)) :=
  match lex LOut s with
  | Some (TLB :: ts) =>
    match (match ts with
           | TRB :: r => Some ([], r)
           | _ => parse_members (length ts) ts
           end) with
    | Some (ms, [TNL]) => Some ms
    | _ => None
    end
  | _ => None
  end.

(* ---- what the line must denote ---- *)
Definition opt_field {A} (key : bytes) (f : A -> jval) (o : option A) : list (bytes * jval) :=
  match o with Some x => [(key, f x)] | None => [] end.

Definition fields_of (r : record) : list (bytes * jval) :=
  [ (k_time, JStr (r_time r));
    (k_level, JStr (level_name (r_level r)));
    (k_message, JStr (r_message r)) ]
  ++ opt_field k_module_path JStr (r_module r)
  ++ opt_field k_file JStr (r_file r)
  ++ opt_field k_line JNum (r_line r)
  ++ [ (k_target, JStr (r_target r));
       (k_thread, match r_thread r with Some t => JStr t | None => JNull end);
       (k_thread_id, JNum (r_thread_id r));
       (k_mdc, JMap (r_mdc r)) ].

Fixpoint bytes_eqb (a b : bytes) : bool :=
  match a, b with
  | [], [] => true
  | x :: a', y :: b' => (x =? y) && bytes_eqb a' b'
  | _, _ => false
  end.

Fixpoint lookup {A} (key : bytes) (ms : list (bytes * A)) : option A :=
  match ms with
  | [] => None
  | (k, v) :: rest => if bytes_eqb key k then Some v else lookup key rest
  end.

(* ======================================================================== *)
(* Lemmas                                                                    *)

Ltac nfalse :=
  repeat match goal with
  | |- context [?a =? ?b] =>
    let H := fresh in
    assert (H : (a =? b) = false) by (apply N.eqb_neq; lia); rewrite H; clear H
  | |- context [?a <? ?b] =>
    let H := fresh in
    assert (H : (a <? b) = false) by (apply N.ltb_ge; lia); rewrite H; clear H
  end.

Lemma hex_digit_cases n : n < 16 ->
  (48 <= hex_digit n <= 57 /\ hex_digit n = 48 + n) \/ (97 <= hex_digit n <= 102 /\ hex_digit n = 87 + n).
Proof.
  intros H. unfold hex_digit. destruct (N.ltb_spec n 10); [left|right]; lia.
Qed.

Lemma hexval_hex_digit n : n < 16 -> hexval (hex_digit n) = Some n.
Proof.
  intros H. destruct (hex_digit_cases n H) as [[Hr He]|[Hr He]]; unfold hexval.
  - replace ((48 <=? hex_digit n) && (hex_digit n <=? 57)) with true
      by (symmetry; apply andb_true_iff; split; apply N.leb_le; lia).
    f_equal. lia.
  - replace ((48 <=? hex_digit n) && (hex_digit n <=? 57)) with false
      by (symmetry; apply andb_false_iff; right; apply N.leb_gt; lia).
    replace ((97 <=? hex_digit n) && (hex_digit n <=? 102)) with true
      by (symmetry; apply andb_true_iff; split; apply N.leb_le; lia).
    f_equal. lia.
Qed.

(* the nine shapes of escape_byte *)
Inductive esc_shape (b : N) : bytes -> Prop :=
| ES_pair x : In (b, x) [(34, 34); (92, 92); (8, 98); (9, 116); (10, 110); (12, 102); (13, 114)] ->
              esc_shape b [92; x]
| ES_u : b < 32 -> esc_shape b [92; 117; 48; 48; hex_digit (b / 16); hex_digit (b mod 16)]
| ES_raw : 32 <= b -> b <> 34 -> b <> 92 -> esc_shape b [b].

Ltac in_list := cbn [In]; repeat first [left; reflexivity | right].

Lemma escape_byte_shape b : esc_shape b (escape_byte b).
Proof.
  unfold escape_byte.
  destruct (N.eqb_spec b 34) as [->|]; [apply ES_pair; in_list|].
  destruct (N.eqb_spec b 92) as [->|]; [apply ES_pair; in_list|].
  destruct (N.eqb_spec b 8) as [->|]; [apply ES_pair; in_list|].
  destruct (N.eqb_spec b 9) as [->|]; [apply ES_pair; in_list|].
  destruct (N.eqb_spec b 10) as [->|]; [apply ES_pair; in_list|].
  destruct (N.eqb_spec b 12) as [->|]; [apply ES_pair; in_list|].
  destruct (N.eqb_spec b 13) as [->|]; [apply ES_pair; in_list|].
  destruct (N.ltb_spec b 32); [apply ES_u; assumption|apply ES_raw; assumption].
Qed.

Lemma hexpair_lt b : b < 32 -> b / 16 < 16 /\ b mod 16 < 16.
Proof.
  intros H. split.
  - apply N.div_lt_upper_bound; lia.
  - apply N.mod_lt; lia.
Qed.

Lemma hex_digit_ok n : n < 16 -> 48 <= hex_digit n /\ hex_digit n <> 92 /\ hex_digit n <> 34.
Proof. intros H. destruct (hex_digit_cases n H) as [[? ?]|[? ?]]; lia. Qed.

(* ---- escape: bytes >= 0x20, no bare quote, unescape inverts it ---- *)

Lemma escape_byte_ge32 b x : In x (escape_byte b) -> 32 <= x.
Proof.
  destruct (escape_byte_shape b) as [y Hy|Hb|Hb _ _]; cbn [In]; intros Hin.
  - cbn in Hy. destruct Hin as [<-|[<-|[]]]; [lia|].
    repeat (destruct Hy as [Hy|Hy]; [inversion Hy; subst; lia|]). destruct Hy.
  - destruct (hexpair_lt b Hb) as [H1 H2].
    pose proof (hex_digit_ok _ H1). pose proof (hex_digit_ok _ H2).
    repeat (destruct Hin as [<-|Hin]; [lia|]). destruct Hin.
  - destruct Hin as [<-|[]]. exact Hb.
Qed.

Lemma escape_ge32 s x : In x (escape s) -> 32 <= x.
Proof.
  unfold escape. rewrite in_flat_map. intros [b [_ H]]. eapply escape_byte_ge32; eauto.
Qed.

Lemma no_bare_quote_chunk b rest :
  no_bare_quote (escape_byte b ++ rest) = no_bare_quote rest.
Proof.
  destruct (escape_byte_shape b) as [y Hy|Hb|Hb H34 H92].
  - reflexivity.
  - destruct (hexpair_lt b Hb) as [H1 H2].
    pose proof (hex_digit_ok _ H1). pose proof (hex_digit_ok _ H2).
    cbn [app no_bare_quote]. cbn. nfalse. reflexivity.
  - cbn [app no_bare_quote]. nfalse. reflexivity.
Qed.

Lemma escape_no_bare_quote s : no_bare_quote (escape s) = true.
Proof.
  induction s as [|b s IH]; [reflexivity|].
  unfold escape in *. cbn [flat_map]. rewrite no_bare_quote_chunk. exact IH.
Qed.

Lemma unescape_chunk b rest :
  unescape (escape_byte b ++ rest) = option_map (cons b) (unescape rest).
Proof.
  destruct (escape_byte_shape b) as [y Hy|Hb|Hb H34 H92].
  - cbn in Hy.
    repeat (destruct Hy as [Hy|Hy];
            [inversion Hy; subst; cbn; destruct (unescape rest); reflexivity|]).
    destruct Hy.
  - destruct (hexpair_lt b Hb) as [H1 H2].
    cbn [app]. cbn [unescape]. cbn [N.eqb Pos.eqb].
    change (hexval 48) with (Some 0).
    rewrite (hexval_hex_digit _ H1), (hexval_hex_digit _ H2).
    replace (0 * 4096 + 0 * 256 + b / 16 * 16 + b mod 16) with b
      by (rewrite (N.div_mod b 16) at 1; lia).
    unfold utf8_of_cp. replace (b <? 128) with true by (symmetry; apply N.ltb_lt; lia).
    destruct (unescape rest); reflexivity.
  - cbn [app unescape]. nfalse. cbn [orb]. reflexivity.
Qed.

Lemma unescape_escape s : unescape (escape s) = Some s.
Proof.
  induction s as [|b s IH]; [reflexivity|].
  unfold escape in *. cbn [flat_map]. rewrite unescape_chunk, IH. reflexivity.
Qed.

(* ---- lexing strings ---- *)

Lemma option_map_app_nil {A} (o : option (list A)) : option_map (app []) o = o.
Proof. destruct o; reflexivity. Qed.

Lemma lex_str_raw acc c rest :
  c <> 34 -> c <> 92 -> 32 <= c -> lex (LStr acc) (c :: rest) = lex (LStr (acc ++ [c])) rest.
Proof.
  intros. cbn [lex step]. nfalse. apply option_map_app_nil.
Qed.

Lemma lex_str_esc acc c rest :
  32 <= c -> lex (LStr acc) (92 :: c :: rest) = lex (LStr (acc ++ [92; c])) rest.
Proof.
  intros. cbn [lex]. unfold step at 1. change (92 =? 34) with false. change (92 =? 92) with true.
  cbv iota. rewrite option_map_app_nil. unfold step. nfalse. apply option_map_app_nil.
Qed.

Lemma lex_chunk b acc rest :
  lex (LStr acc) (escape_byte b ++ rest) = lex (LStr (acc ++ escape_byte b)) rest.
Proof.
  destruct (escape_byte_shape b) as [y Hy|Hb|Hb H34 H92].
  - cbn [app]. apply lex_str_esc. cbn in Hy.
    repeat (destruct Hy as [Hy|Hy]; [inversion Hy; subst; lia|]). destruct Hy.
  - destruct (hexpair_lt b Hb) as [H1 H2].
    pose proof (hex_digit_ok _ H1). pose proof (hex_digit_ok _ H2).
    cbn [app]. rewrite lex_str_esc by lia.
    rewrite !lex_str_raw by lia.
    repeat rewrite <- app_assoc. reflexivity.
  - cbn [app]. apply lex_str_raw; assumption.
Qed.

Lemma lex_string s : forall acc rest,
  lex (LStr acc) (escape s ++ 34 :: rest) = option_map (cons (TStr (acc ++ escape s))) (lex LOut rest).
Proof.
  induction s as [|b s IH]; intros acc rest.
  - cbn. rewrite app_nil_r. destruct (lex LOut rest); reflexivity.
  - unfold escape in *. cbn [flat_map]. rewrite <- app_assoc, lex_chunk, IH, <- app_assoc. reflexivity.
Qed.

Lemma lex_jstring s rest :
  lex LOut (34 :: escape s ++ 34 :: rest) = option_map (cons (TStr (escape s))) (lex LOut rest).
Proof.
  cbn [lex]. change (step LOut 34) with (Some (@nil tok, LStr [])). cbv iota.
  rewrite option_map_app_nil, lex_string. reflexivity.
Qed.

(* ---- decimal numbers ---- *)

Fixpoint value_le (ds : list N) : N :=
  match ds with [] => 0 | d :: r => d + 10 * value_le r end.

Lemma rdigits_lt10 f : forall n d, In d (rdigits f n) -> d < 10.
Proof.
  induction f as [|f IH]; intros n d; cbn [rdigits]; [intros []|].
  intros [<-|Hin].
  - apply N.mod_lt; lia.
  - destruct (n / 10 =? 0); [destruct Hin|eauto].
Qed.

Lemma rdigits_value f : forall n, n < 10 ^ N.of_nat f -> value_le (rdigits f n) = n.
Proof.
  induction f as [|f IH]; intros n Hn.
  - cbn in Hn. cbn. lia.
  - cbn [rdigits value_le].
    pose proof (N.div_mod n 10 ltac:(lia)) as Hdm.
    destruct (N.eqb_spec (n / 10) 0) as [Hz|Hnz].
    + cbn [value_le]. lia.
    + rewrite IH; [lia|].
      rewrite Nat2N.inj_succ, N.pow_succ_r' in Hn.
      apply N.div_lt_upper_bound; lia.
Qed.

Lemma size_bound n : n < 10 ^ N.of_nat (S (N.to_nat (N.size n))).
Proof.
  rewrite Nat2N.inj_succ, N2Nat.id, N.pow_succ_r'.
  assert (H1 : n < 2 ^ N.size n) by apply N.size_gt.
  assert (H2 : 2 ^ N.size n <= 10 ^ N.size n) by (apply N.pow_le_mono_l; lia).
  assert (H3 : 0 < 10 ^ N.size n) by (apply N.neq_0_lt_0, N.pow_nonzero; lia).
  lia.
Qed.

Definition digits_be (n : N) : list N := rev (rdigits (S (N.to_nat (N.size n))) n).

Lemma dec_digits n : dec n = map (fun d => 48 + d) (digits_be n).
Proof. reflexivity. Qed.

Lemma digits_be_lt10 n d : In d (digits_be n) -> d < 10.
Proof. unfold digits_be. rewrite <- in_rev. apply rdigits_lt10. Qed.

Lemma digits_be_nonempty n : digits_be n <> [].
Proof.
  unfold digits_be. intros H. apply (f_equal (@length N)) in H.
  rewrite rev_length in H. cbn [rdigits length] in H. discriminate.
Qed.

Definition acc_step (a d : N) : N := 10 * a + d.

Lemma fold_rev_value l : fold_left acc_step (rev l) 0 = value_le l.
Proof.
  induction l as [|d l IH]; [reflexivity|].
  cbn [rev]. rewrite fold_left_app. cbn [fold_left value_le]. rewrite IH. unfold acc_step. lia.
Qed.

Lemma digits_be_value n : fold_left acc_step (digits_be n) 0 = n.
Proof. unfold digits_be. rewrite fold_rev_value. apply rdigits_value, size_bound. Qed.

Lemma is_digit_48 d : d < 10 -> is_digit (48 + d) = true.
Proof. intros H. unfold is_digit. apply andb_true_iff; split; apply N.leb_le; lia. Qed.

Lemma lex_digits ds : forall a rest,
  (forall d, In d ds -> d < 10) ->
  lex (LNum a) (map (fun d => 48 + d) ds ++ rest) = lex (LNum (fold_left acc_step ds a)) rest.
Proof.
  induction ds as [|d ds IH]; intros a rest Hd; [reflexivity|].
  cbn [map app lex step]. rewrite is_digit_48 by (apply Hd; left; reflexivity).
  replace (48 + d - 48) with d by lia.
  cbn [option_map app fold_left].
  rewrite <- IH by (intros; apply Hd; right; assumption).
  fold (acc_step a d). destruct (lex _ _); reflexivity.
Qed.

Lemma step_out_digit d : d < 10 -> step_out (48 + d) = Some ([], LNum d).
Proof.
  intros H. unfold step_out. nfalse. cbn [orb].
  rewrite is_digit_48 by assumption. do 3 f_equal. lia.
Qed.

Lemma lex_dec n rest : lex LOut (dec n ++ rest) = lex (LNum n) rest.
Proof.
  rewrite dec_digits.
  pose proof (digits_be_lt10 n) as Hlt. pose proof (digits_be_nonempty n) as Hne.
  pose proof (digits_be_value n) as Hv.
  destruct (digits_be n) as [|d ds]; [congruence|].
  cbn [map app lex step]. rewrite step_out_digit by (apply Hlt; left; reflexivity).
  cbn [option_map app].
  rewrite lex_digits by (intros; apply Hlt; right; assumption).
  cbn [fold_left] in Hv. unfold acc_step at 2 in Hv. cbn in Hv. rewrite Hv.
  destruct (lex _ rest); reflexivity.
Qed.

Lemma lex_dec_comma n rest :
  lex LOut (dec n ++ 44 :: rest) = option_map (fun ts => TNum n :: TComma :: ts) (lex LOut rest).
Proof. rewrite lex_dec. cbn. destruct (lex LOut rest); reflexivity. Qed.

Lemma dec_ge48 n x : In x (dec n) -> 48 <= x.
Proof. rewrite dec_digits, in_map_iff. intros [d [<- _]]. lia. Qed.

(* ---- punctuation ---- *)
Lemma lex_lb rest : lex LOut (123 :: rest) = option_map (cons TLB) (lex LOut rest).
Proof. cbn. destruct (lex LOut rest); reflexivity. Qed.
Lemma lex_rb rest : lex LOut (125 :: rest) = option_map (cons TRB) (lex LOut rest).
Proof. cbn. destruct (lex LOut rest); reflexivity. Qed.
Lemma lex_colon rest : lex LOut (58 :: rest) = option_map (cons TColon) (lex LOut rest).
Proof. cbn. destruct (lex LOut rest); reflexivity. Qed.
Lemma lex_comma rest : lex LOut (44 :: rest) = option_map (cons TComma) (lex LOut rest).
Proof. cbn. destruct (lex LOut rest); reflexivity. Qed.
Lemma lex_null rest : lex LOut (110 :: 117 :: 108 :: 108 :: rest) = option_map (cons TNull) (lex LOut rest).
Proof. cbn. destruct (lex LOut rest); reflexivity. Qed.

(* ---- the MDC object ---- *)

Fixpoint mdc_toks (m : list (bytes * bytes)) : list tok :=
  match m with
  | [] => []
  | [(k, v)] => [TStr (escape k); TColon; TStr (escape v)]
  | (k, v) :: rest => TStr (escape k) :: TColon :: TStr (escape v) :: TComma :: mdc_toks rest
  end.

Lemma lex_member_str k v rest :
  lex LOut (member k (jstring v) ++ rest) =
  option_map (fun ts => TStr (escape k) :: TColon :: TStr (escape v) :: ts) (lex LOut rest).
Proof.
  unfold member, jstring. cbn [app]. repeat (rewrite <- app_assoc; cbn [app]).
  rewrite lex_jstring, lex_colon, lex_jstring.
  destruct (lex LOut rest); reflexivity.
Qed.

Lemma lex_mdc_members m : forall rest,
  lex LOut (join_members (map (fun kv => member (fst kv) (jstring (snd kv))) m) ++ rest) =
  option_map (app (mdc_toks m)) (lex LOut rest).
Proof.
  induction m as [|[k v] m IH]; intros rest.
  - cbn. destruct (lex LOut rest); reflexivity.
  - destruct m as [|kv2 m].
    + cbn [map join_members fst snd mdc_toks]. rewrite lex_member_str.
      destruct (lex LOut rest); reflexivity.
    + cbn [map join_members fst snd] in *. cbn [mdc_toks].
      destruct kv2 as [k2 v2]. cbn [fst snd] in *.
      rewrite <- app_assoc. cbn [app]. rewrite lex_member_str, lex_comma.
      rewrite IH. destruct (lex LOut rest); reflexivity.
Qed.

Lemma lex_mdc m rest :
  lex LOut (mdc_object m ++ rest) =
  option_map (fun ts => TLB :: mdc_toks m ++ TRB :: ts) (lex LOut rest).
Proof.
  unfold mdc_object, object. cbn [app]. rewrite <- app_assoc. cbn [app].
  rewrite lex_lb, lex_mdc_members, lex_rb.
  destruct (lex LOut rest); reflexivity.
Qed.

Lemma parse_smap_mdc k v m : forall rest,
  parse_smap (mdc_toks ((k, v) :: m) ++ TRB :: rest) = Some ((k, v) :: m, rest).
Proof.
  revert k v. induction m as [|[k2 v2] m IH]; intros k v rest.
  - cbn [mdc_toks app parse_smap]. rewrite !unescape_escape. reflexivity.
  - change (mdc_toks ((k, v) :: (k2, v2) :: m))
      with (TStr (escape k) :: TColon :: TStr (escape v) :: TComma :: mdc_toks ((k2, v2) :: m)).
    cbn [app parse_smap]. rewrite !unescape_escape. rewrite IH. reflexivity.
Qed.

Lemma parse_map_mdc m rest : parse_map (mdc_toks m ++ TRB :: rest) = Some (m, rest).
Proof.
  destruct m as [|[k v] m]; [reflexivity|].
  unfold parse_map. rewrite <- (parse_smap_mdc k v m rest).
  destruct m as [|[k2 v2] m]; reflexivity.
Qed.

(* ---- the whole line ---- *)

Definition opt_toks {A} (key : bytes) (f : A -> tok) (o : option A) : list tok :=
  match o with Some x => [TStr (escape key); TColon; f x; TComma] | None => [] end.

Definition record_toks (r : record) : list tok :=
  [ TStr (escape k_time); TColon; TStr (escape (r_time r)); TComma;
    TStr (escape k_level); TColon; TStr (escape (level_name (r_level r))); TComma;
    TStr (escape k_message); TColon; TStr (escape (r_message r)); TComma ]
  ++ opt_toks k_module_path (fun s => TStr (escape s)) (r_module r)
  ++ opt_toks k_file (fun s => TStr (escape s)) (r_file r)
  ++ opt_toks k_line TNum (r_line r)
  ++ [ TStr (escape k_target); TColon; TStr (escape (r_target r)); TComma;
       TStr (escape k_thread); TColon;
       (match r_thread r with Some t => TStr (escape t) | None => TNull end); TComma;
       TStr (escape k_thread_id); TColon; TNum (r_thread_id r); TComma;
       TStr (escape k_mdc); TColon; TLB ] ++ mdc_toks (r_mdc r) ++ [TRB; TRB; TNL].

Lemma lex_member_dec_comma k n rest :
  lex LOut (member k (dec n) ++ 44 :: rest) =
  option_map (fun ts => TStr (escape k) :: TColon :: TNum n :: TComma :: ts) (lex LOut rest).
Proof.
  unfold member, jstring. cbn [app]. repeat (rewrite <- app_assoc; cbn [app]).
  rewrite lex_jstring, lex_colon, lex_dec_comma.
  destruct (lex LOut rest); reflexivity.
Qed.

Lemma lex_member_null k rest :
  lex LOut (member k j_null ++ rest) =
  option_map (fun ts => TStr (escape k) :: TColon :: TNull :: ts) (lex LOut rest).
Proof.
  unfold member, jstring, j_null. cbn [app]. repeat (rewrite <- app_assoc; cbn [app]).
  rewrite lex_jstring, lex_colon, lex_null.
  destruct (lex LOut rest); reflexivity.
Qed.

Lemma lex_member_mdc k m rest :
  lex LOut (member k (mdc_object m) ++ rest) =
  option_map (fun ts => TStr (escape k) :: TColon :: TLB :: mdc_toks m ++ TRB :: ts) (lex LOut rest).
Proof.
  unfold member, jstring. cbn [app]. repeat (rewrite <- app_assoc; cbn [app]).
  rewrite lex_jstring, lex_colon, lex_mdc.
  destruct (lex LOut rest); reflexivity.
Qed.

Lemma lex_record r : lex LOut (encode_record r) = Some (TLB :: record_toks r).
Proof.
  unfold encode_record, message_object, object, record_toks.
  destruct r as [time lvl msg mo fi li tgt th tid mdc]. cbn [r_time r_level r_message r_module r_file r_line r_target r_thread r_thread_id r_mdc].
  destruct mo as [mo|], fi as [fi|], li as [li|], th as [th|];
    cbn [opt_member opt_toks app join_members];
    repeat (rewrite <- app_assoc; cbn [app]);
    rewrite lex_lb;
    repeat first [ rewrite lex_member_str | rewrite lex_comma | rewrite lex_member_dec_comma
                 | rewrite lex_member_null | rewrite lex_member_mdc ];
    rewrite lex_rb; cbn; repeat (rewrite <- app_assoc; cbn [app]); reflexivity.
Qed.

Definition pm_cons (kv : bytes * jval) (o : option (list (bytes * jval) * list tok)) :=
  match o with Some (ms, r') => Some (kv :: ms, r') | None => None end.

Lemma pm_str f k s rest :
  parse_members (S f) (TStr (escape k) :: TColon :: TStr (escape s) :: TComma :: rest) =
  pm_cons (k, JStr s) (parse_members f rest).
Proof. cbn [parse_members parse_value]. rewrite !unescape_escape. reflexivity. Qed.

Lemma pm_num f k n rest :
  parse_members (S f) (TStr (escape k) :: TColon :: TNum n :: TComma :: rest) =
  pm_cons (k, JNum n) (parse_members f rest).
Proof. cbn [parse_members parse_value]. rewrite !unescape_escape. reflexivity. Qed.

Lemma pm_null f k rest :
  parse_members (S f) (TStr (escape k) :: TColon :: TNull :: TComma :: rest) =
  pm_cons (k, JNull) (parse_members f rest).
Proof. cbn [parse_members parse_value]. rewrite !unescape_escape. reflexivity. Qed.

Lemma pm_mdc_last f k m r :
  parse_members (S f) (TStr (escape k) :: TColon :: TLB :: mdc_toks m ++ TRB :: TRB :: r) =
  Some ([(k, JMap m)], r).
Proof. cbn [parse_members parse_value]. rewrite unescape_escape, parse_map_mdc. reflexivity. Qed.

Lemma parse_record_toks r :
  parse_members (length (record_toks r)) (record_toks r) = Some (fields_of r, [TNL]).
Proof.
  unfold record_toks, fields_of.
  destruct r as [time lvl msg mo fi li tgt th tid mdc]. cbn [r_time r_level r_message r_module r_file r_line r_target r_thread r_thread_id r_mdc].
  destruct mo as [mo|], fi as [fi|], li as [li|], th as [th|];
    cbn [opt_toks opt_field app length];
    repeat first [rewrite pm_str | rewrite pm_num | rewrite pm_null];
    change [TRB; TRB; TNL] with (TRB :: TRB :: [TNL]);
    rewrite pm_mdc_last; reflexivity.
Qed.

Lemma record_toks_not_rb r : match record_toks r with TRB :: _ => False | _ => True end.
Proof. exact I. Qed.

Theorem object_roundtrip r : parse_line (encode_record r) = Some (fields_of r).
Proof.
  unfold parse_line. rewrite lex_record.
  change (match record_toks r with TRB :: r0 => Some ([], r0) | _ => parse_members (length (record_toks r)) (record_toks r) end)
    with (parse_members (length (record_toks r)) (record_toks r)).
  rewrite parse_record_toks. reflexivity.
Qed.

(* absent optionals are absent from the parsed object, present ones present *)
Lemma lookup_fields_module r :
  lookup k_module_path (fields_of r) = option_map JStr (r_module r).
Proof. unfold fields_of. destruct (r_module r), (r_file r), (r_line r); reflexivity. Qed.
Lemma lookup_fields_file r :
  lookup k_file (fields_of r) = option_map JStr (r_file r).
Proof. unfold fields_of. destruct (r_module r), (r_file r), (r_line r); reflexivity. Qed.
Lemma lookup_fields_line r :
  lookup k_line (fields_of r) = option_map JNum (r_line r).
Proof. unfold fields_of. destruct (r_module r), (r_file r), (r_line r); reflexivity. Qed.

Theorem optionals_exact r :
  exists ms, parse_line (encode_record r) = Some ms
    /\ lookup k_module_path ms = option_map JStr (r_module r)
    /\ lookup k_file ms = option_map JStr (r_file r)
    /\ lookup k_line ms = option_map JNum (r_line r)
    /\ length ms = (7 + (if r_module r then 1 else 0) + (if r_file r then 1 else 0)
                      + (if r_line r then 1 else 0))%nat.
Proof.
  exists (fields_of r). rewrite object_roundtrip, lookup_fields_module, lookup_fields_file, lookup_fields_line.
  repeat split. unfold fields_of. destruct (r_module r), (r_file r), (r_line r); reflexivity.
Qed.

(* ---- one line ---- *)

Definition ge32 (l : bytes) : Prop := Forall (fun b => 32 <= b) l.

Lemma ge32_app a b : ge32 a -> ge32 b -> ge32 (a ++ b).
Proof. unfold ge32. intros. apply Forall_app. split; assumption. Qed.

Lemma ge32_escape s : ge32 (escape s).
Proof. apply Forall_forall. intros x. apply escape_ge32. Qed.

Lemma ge32_jstring s : ge32 (jstring s).
Proof.
  unfold jstring. constructor; [lia|]. apply ge32_app; [apply ge32_escape|]. constructor; [lia|constructor].
Qed.

Lemma ge32_dec n : ge32 (dec n).
Proof. apply Forall_forall. intros x Hx. apply dec_ge48 in Hx. lia. Qed.

Lemma ge32_member k v : ge32 v -> ge32 (member k v).
Proof. intros H. unfold member. apply ge32_app; [apply ge32_jstring|]. constructor; [lia|exact H]. Qed.

Lemma ge32_join ms : Forall ge32 ms -> ge32 (join_members ms).
Proof.
  induction 1 as [|m ms Hm Hms IH]; [constructor|].
  destruct ms as [|m2 ms]; [exact Hm|].
  cbn [join_members] in *. apply ge32_app; [exact Hm|]. constructor; [lia|exact IH].
Qed.

Lemma ge32_object ms : Forall ge32 ms -> ge32 (object ms).
Proof.
  intros H. unfold object. constructor; [lia|].
  apply ge32_app; [apply ge32_join, H|]. constructor; [lia|constructor].
Qed.

Lemma ge32_mdc m : ge32 (mdc_object m).
Proof.
  unfold mdc_object. apply ge32_object. apply Forall_forall. intros x Hx.
  apply in_map_iff in Hx. destruct Hx as [[k v] [<- _]]. apply ge32_member, ge32_jstring.
Qed.

Lemma ge32_opt {A} k (f : A -> bytes) o : (forall x, ge32 (f x)) -> Forall ge32 (opt_member k f o).
Proof.
  intros H. destruct o; cbn [opt_member]; [|constructor].
  apply Forall_cons; [apply ge32_member, H|constructor].
Qed.

Lemma ge32_message_object r : ge32 (message_object r).
Proof.
  unfold message_object. apply ge32_object.
  apply Forall_app; split; [|apply Forall_app; split; [|apply Forall_app; split; [|apply Forall_app; split]]].
  - repeat (apply Forall_cons; [apply ge32_member, ge32_jstring|]). constructor.
  - apply ge32_opt, ge32_jstring.
  - apply ge32_opt, ge32_jstring.
  - apply ge32_opt, ge32_dec.
  - apply Forall_cons; [apply ge32_member, ge32_jstring|].
    apply Forall_cons.
    { apply ge32_member. destruct (r_thread r); [apply ge32_jstring|].
      unfold j_null, ge32. repeat (apply Forall_cons; [lia|]). constructor. }
    apply Forall_cons; [apply ge32_member, ge32_dec|].
    apply Forall_cons; [apply ge32_member, ge32_mdc|constructor].
Qed.

Theorem one_line r :
  exists body, encode_record r = body ++ [10]
    /\ (forall b, In b body -> 32 <= b).
Proof.
  exists (message_object r). split; [reflexivity|].
  apply Forall_forall. apply ge32_message_object.
Qed.

Theorem one_newline r : count_occ N.eq_dec (encode_record r) 10 = 1%nat.
Proof.
  destruct (one_line r) as [body [-> Hb]].
  rewrite count_occ_app. cbn [count_occ].
  destruct (N.eq_dec 10 10) as [_|Hn]; [|congruence].
  replace (count_occ N.eq_dec body 10) with 0%nat; [reflexivity|].
  symmetry. apply count_occ_not_In. intros Hin. apply Hb in Hin. lia.
Qed.
