(* C09 / C11 — further lemmas: widths beyond usize are an error (never a wrap
   or a panic); set_style calls of highlight groups are properly bracketed. *)
From Coq Require Import String Ascii.
From Coq Require Import List NArith Bool Lia Arith.
Import ListNotations.
From L4 Require Import Model.Pattern Proofs.PatternSpec Proofs.Pattern Proofs.PatternMeaning
     Proofs.PatternParse.
Local Open Scope N_scope.

(* ---------- Parser::integer beyond usize::MAX ---------- *)

Lemma integer_loop_none : forall ds rest f,
  forallb is_digit ds = true -> hd_digit rest = false ->
  integer_loop (ds ++ rest) None f = (None, f || negb (is_nil ds), rest).
Proof.
  induction ds as [|c ds IH]; intros rest f Hd Hr.
  - cbn [app is_nil negb]. rewrite orb_false_r. apply integer_loop_stop. exact Hr.
  - cbn [forallb] in Hd. apply andb_true_iff in Hd. destruct Hd as [Hc Hd].
    cbn [app integer_loop]. unfold digit_val. unfold is_digit in Hc. rewrite Hc.
    cbn [checked_step]. rewrite (IH rest true Hd Hr). cbn [is_nil negb].
    rewrite orb_true_r. reflexivity.
Qed.

Lemma integer_loop_overflow : forall ds rest v f,
  forallb is_digit ds = true -> hd_digit rest = false ->
  v <= usize_max -> usize_max < fold_left dstep ds v ->
  integer_loop (ds ++ rest) (Some v) f = (None, true, rest).
Proof.
  induction ds as [|c ds IH]; intros rest v f Hd Hr Hv Ho.
  - cbn [fold_left] in Ho. lia.
  - cbn [forallb] in Hd. apply andb_true_iff in Hd. destruct Hd as [Hc Hd].
    cbn [app integer_loop fold_left] in *. unfold digit_val. unfold is_digit in Hc. rewrite Hc.
    unfold checked_step.
    destruct (usize_max <? v * 10) eqn:E1.
    { rewrite (integer_loop_none ds rest true Hd Hr). reflexivity. }
    destruct (usize_max <? v * 10 + (c - 48)) eqn:E2.
    { rewrite (integer_loop_none ds rest true Hd Hr). reflexivity. }
    apply N.ltb_ge in E2. apply (IH rest _ true Hd Hr); [exact E2|exact Ho].
Qed.

(* a width whose decimal value exceeds usize::MAX is the error "width too
   large" - in every build profile, no wrap-around, no panic *)
Theorem integer_overflow_is_error : forall ds rest,
  forallb is_digit ds = true -> hd_digit rest = false ->
  usize_max < digits_val ds ->
  integer (ds ++ rest) = (inr msg_width, rest).
Proof.
  intros ds rest Hd Hr Ho. unfold integer.
  rewrite (integer_loop_overflow ds rest 0 false Hd Hr); [reflexivity| |exact Ho].
  unfold usize_max. lia.
Qed.

(* ---------- set_style calls are bracketed ---------- *)

(* depth of open (non-default) styles after scanning l from depth k; None when a
   default-style call has nothing to close *)
Fixpoint style_run (k : nat) (l : list item) : option nat :=
  match l with
  | [] => Some k
  | St s :: r =>
    if s =? 0 then match k with O => None | S k' => style_run k' r end
    else style_run (S k) r
  | _ :: r => style_run k r
  end.

Lemma style_run_app : forall a k b,
  style_run k (a ++ b) = match style_run k a with Some k' => style_run k' b | None => None end.
Proof.
  induction a as [|x a IH]; intros k b; cbn [app style_run]; [reflexivity|].
  destruct x as [c|s|]; try apply IH.
  destruct (s =? 0); [destruct k; [reflexivity|apply IH]|apply IH].
Qed.

Lemma style_run_chars : forall s k, style_run k (chars s) = Some k.
Proof. induction s; intros k; cbn; [reflexivity|]. apply IHs. Qed.

Lemma style_run_padding : forall f n k, style_run k (padding f n) = Some k.
Proof. intros. unfold padding. induction (N.to_nat n); cbn; [reflexivity|]. assumption. Qed.

Lemma style_run_trunc : forall l M k, style_run k (trunc M l) = style_run k l.
Proof.
  induction l as [|x l IH]; intros M k; cbn [trunc]; [reflexivity|].
  destruct x as [c|s|].
  - destruct (M =? 0); cbn [style_run]; apply IH.
  - cbn [style_run]. destruct (s =? 0); [destruct k; [reflexivity|apply IH]|apply IH].
  - cbn [style_run]. apply IH.
Qed.

Lemma style_run_apply_params : forall p l k, style_run k (apply_params p l) = style_run k l.
Proof.
  intros p l k. unfold apply_params, pad_side.
  destruct (p_min p), (p_max p); rewrite ?style_run_trunc; try reflexivity;
    destruct (p_align p); rewrite style_run_app;
    rewrite ?style_run_padding; try reflexivity;
    destruct (style_run k l); try reflexivity; apply style_run_padding.
Qed.

Lemma level_style_nonzero : forall l s, level_style l = Some s -> (s =? 0) = false.
Proof.
  intros l s. unfold level_style.
  destruct (l =? 1); [intros H; inversion H; reflexivity|].
  destruct (l =? 2); [intros H; inversion H; reflexivity|].
  destruct (l =? 3); [intros H; inversion H; reflexivity|].
  destruct (l =? 5); [intros H; inversion H; reflexivity|discriminate].
Qed.

Section Styles.
  Variable ok : str -> bool.
  Variable ts : str -> tz -> str.
  Variable e : env.

  (* from any depth, the output of a chunk returns to the same depth and never
     closes a style it did not open: every styled group is closed by exactly
     one default-style call *)
  Theorem styles_bracketed : forall c k, style_run k (enc_chunk ok ts e c) = Some k.
  Proof.
    induction c as [t|lf p|m| |g cs p IH] using chunk_ind'; intros k; cbn [enc_chunk].
    - apply style_run_chars.
    - rewrite style_run_apply_params. destruct lf; cbn [enc_leaf]; try apply style_run_chars.
      destruct (ok fmt); [apply style_run_chars|reflexivity].
    - apply style_run_chars.
    - reflexivity.
    - rewrite style_run_apply_params.
      assert (Hb : forall k, style_run k (flat_map (enc_chunk ok ts e) cs) = Some k).
      { induction IH as [|x l Hx _ IHl]; intros k'; cbn [flat_map]; [reflexivity|].
        rewrite style_run_app, Hx. apply IHl. }
      destruct g; cbn [enc_group]; try apply Hb.
      + destruct (level_style (e_level e)) as [s|] eqn:El; [|apply Hb].
        cbn [style_run]. rewrite (level_style_nonzero _ _ El).
        rewrite style_run_app, Hb. reflexivity.
      + destruct (e_debug e); [apply Hb|reflexivity].
      + destruct (e_debug e); [reflexivity|apply Hb].
  Qed.
End Styles.

(* ---------- nested error chunks are visible ---------- *)

(* the group's body is rendered for this record / build profile *)
Definition group_on (e : env) (g : group) : bool :=
  match g with
  | GDebug => e_debug e
  | GRelease => negb (e_debug e)
  | _ => true
  end.

(* an Error chunk with message m sits at the top or inside rendered groups
   none of which has a maximum width (which could cut it) *)
Fixpoint error_reachable (e : env) (m : str) (c : chunk) : bool :=
  match c with
  | CError m' => str_eqb m m'
  | CGroup g cs p =>
    group_on e g && match p_max p with None => true | Some _ => false end
    && existsb (error_reachable e m) cs
  | _ => false
  end.

Definition contains (l needle : list item) : Prop := exists pre post, l = pre ++ needle ++ post.

Lemma contains_app_l : forall a l n, contains l n -> contains (a ++ l) n.
Proof. intros a l n (pre & post & ->). exists (a ++ pre), post. rewrite app_assoc. reflexivity. Qed.

Lemma contains_app_r : forall a l n, contains l n -> contains (l ++ a) n.
Proof.
  intros a l n (pre & post & ->). exists pre, (post ++ a). rewrite <- !app_assoc. reflexivity.
Qed.

Section NestedErrors.
  Variable ok : str -> bool.
  Variable ts : str -> tz -> str.
  Variable e : env.

  Theorem nested_errors_visible : forall m c,
    error_reachable e m c = true ->
    contains (enc_chunk ok ts e c) (chars (LIT "{ERROR: " ++ m ++ [125])).
  Proof.
    intros m. induction c as [t|lf p|m'| |g cs p IH] using chunk_ind'; cbn [error_reachable];
      try discriminate.
    - intros H. apply str_eqb_eq in H. subst m'. exists [], []. cbn [enc_chunk app].
      rewrite app_nil_r. reflexivity.
    - intros H. apply andb_true_iff in H. destruct H as [H Hex].
      apply andb_true_iff in H. destruct H as [Hon Hmax].
      cbn [enc_chunk].
      assert (Hb : contains (flat_map (enc_chunk ok ts e) cs) (chars (LIT "{ERROR: " ++ m ++ [125]))).
      { clear Hon Hmax. induction IH as [|x l Hx _ IHl]; cbn [existsb] in Hex; [discriminate|].
        cbn [flat_map]. apply orb_true_iff in Hex. destruct Hex as [Hx'|Hl].
        - apply contains_app_r. apply Hx. exact Hx'.
        - apply contains_app_l. apply IHl. exact Hl. }
      assert (Hg : contains (enc_group e g (flat_map (enc_chunk ok ts e) cs))
                            (chars (LIT "{ERROR: " ++ m ++ [125]))).
      { destruct g; cbn [enc_group group_on] in *.
        - exact Hb.
        - destruct (level_style (e_level e)); [|exact Hb].
          apply (contains_app_l [St n]). apply contains_app_r. exact Hb.
        - rewrite Hon. exact Hb.
        - apply negb_true_iff in Hon. rewrite Hon. exact Hb. }
      unfold apply_params. destruct (p_max p); [discriminate|].
      destruct (p_min p); [|exact Hg].
      unfold pad_side. destruct (p_align p); [apply contains_app_r|apply contains_app_l]; exact Hg.
  Qed.
End NestedErrors.
