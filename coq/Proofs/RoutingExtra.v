(* C01/C02 — readable characterisations of the routing spec of Proofs/Routing.v:
   path-level views, the chain as a list of members (effective logger, its
   additive configured ancestors, the root), delivery counts, transparency of
   names without a configured logger, accepted names are usable, and a boolean
   validity checker for concrete examples. *)
From Coq Require Import List NArith Bool Lia Arith Permutation.
Import ListNotations.
From L4 Require Import Model.Routing Proofs.Routing.

(* ---------------------------------------------------------------------- *)
(* path-level views (a target enters only through its component list)      *)
(* ---------------------------------------------------------------------- *)
Definition level_at (cfg : config) (q : path) : N := spec_level_rev cfg (rev q).
Definition chain_at (cfg : config) (q : path) : list str := spec_chain_rev cfg (rev q).
Definition eff_at (cfg : config) (q : path) : option logger := eff_rev (c_loggers cfg) (rev q).

Lemma spec_level_at cfg T : spec_level cfg T = level_at cfg (split_cc T).
Proof. reflexivity. Qed.
Lemma spec_chain_at cfg T : spec_chain cfg T = chain_at cfg (split_cc T).
Proof. reflexivity. Qed.
Lemma eff_eff_at cfg T : eff cfg T = eff_at cfg (split_cc T).
Proof. reflexivity. Qed.

Lemma nodup_map_inj {A B} (f : A -> B) (l : list A) x y :
  NoDup (map f l) -> In x l -> In y l -> f x = f y -> x = y.
Proof.
  induction l as [|z l IH]; intros Hn Hx Hy E; [contradiction|].
  cbn [map] in Hn. apply NoDup_cons_iff in Hn as [Hn1 Hn2].
  destruct Hx as [->|Hx], Hy as [->|Hy].
  - reflexivity.
  - exfalso. apply Hn1. rewrite E. apply in_map. exact Hy.
  - exfalso. apply Hn1. rewrite <- E. apply in_map. exact Hx.
  - apply IH; assumption.
Qed.

Lemma prefix_same_length q1 q2 p :
  is_prefix q1 p = true -> is_prefix q2 p = true -> length q1 = length q2 -> q1 = q2.
Proof.
  intros H1 H2 HL. apply is_prefix_app in H1 as [s1 E1]. apply is_prefix_app in H2 as [s2 E2].
  rewrite E1 in E2. clear E1. revert q2 HL E2.
  induction q1 as [|c q1 IH]; intros [|d q2] HL E2; try discriminate; [reflexivity|].
  cbn [app] in E2. injection E2 as -> E2. cbn [length] in HL. f_equal. apply IH; [lia|exact E2].
Qed.

(* the effective logger: THE configured logger with the longest component-wise
   prefix of the target's component list (unique when names are distinct) *)
Theorem eff_at_longest cfg q :
  NoDup (map l_name (c_loggers cfg)) ->
  match eff_at cfg q with
  | Some lg =>
    In lg (c_loggers cfg) /\ is_prefix (lpath lg) q = true /\
    (forall lg', In lg' (c_loggers cfg) -> is_prefix (lpath lg') q = true ->
                 length (lpath lg') <= length (lpath lg) /\
                 (length (lpath lg') = length (lpath lg) -> lg' = lg))
  | None => forall lg, In lg (c_loggers cfg) -> is_prefix (lpath lg) q = false
  end.
Proof.
  intro Hn. unfold eff_at. destruct (eff_rev (c_loggers cfg) (rev q)) as [lg|] eqn:E.
  - apply eff_rev_some in E. rewrite rev_involutive in E. destruct E as (H1 & H2 & H3).
    split; [exact H1|]. split; [exact H2|]. intros lg' Hin P. split; [apply H3; assumption|].
    intro HL. apply (nodup_map_inj l_name (c_loggers cfg)); try assumption.
    apply split_cc_inj. apply (prefix_same_length _ _ q); assumption.
  - intros lg Hin. pose proof (eff_rev_none _ _ E lg Hin) as H. rewrite rev_involutive in H. exact H.
Qed.

(* level and chain are decided by the effective logger; the chain continues -
   only if that logger is additive - with the chain of its parent name, whose
   own effective logger is the nearest configured proper ancestor *)
Theorem settings_by_eff cfg q :
  level_at cfg q =
    match eff_at cfg q with Some lg => l_level lg | None => c_root_level cfg end
  /\ chain_at cfg q =
    match eff_at cfg q with
    | Some lg => l_apps lg ++ (if l_additive lg then chain_at cfg (removelast (lpath lg)) else [])
    | None => c_root_apps cfg
    end.
Proof.
  unfold level_at, chain_at, eff_at. split; [apply spec_level_eff|apply spec_chain_eff].
Qed.

(* ---------------------------------------------------------------------- *)
(* the chain as a list of members                                          *)
(* ---------------------------------------------------------------------- *)
Inductive member := MRoot | MLogger (lg : logger).
Definition m_apps (cfg : config) (m : member) : list str :=
  match m with MRoot => c_root_apps cfg | MLogger lg => l_apps lg end.

Fixpoint members_rev (cfg : config) (rq : path) : list member :=
  match rq with
  | [] => [MRoot]
  | _ :: rq' =>
    match logger_at (c_loggers cfg) (rev rq) with
    | Some lg => MLogger lg :: (if l_additive lg then members_rev cfg rq' else [])
    | None => members_rev cfg rq'
    end
  end.
Definition members_at (cfg : config) (q : path) : list member := members_rev cfg (rev q).
Definition chain_members (cfg : config) (T : str) : list member := members_at cfg (split_cc T).

Lemma members_rev_eff cfg rq :
  members_rev cfg rq =
  match eff_rev (c_loggers cfg) rq with
  | Some lg => MLogger lg :: (if l_additive lg
                              then members_rev cfg (rev (removelast (lpath lg))) else [])
  | None => [MRoot]
  end.
Proof.
  induction rq as [|c rq IH]; [reflexivity|]. cbn [members_rev eff_rev].
  destruct (logger_at (c_loggers cfg) (rev (c :: rq))) as [lg|] eqn:E; [|exact IH].
  apply logger_at_some in E as [_ E]. rewrite E. cbn [rev]. rewrite removelast_snoc, rev_involutive.
  reflexivity.
Qed.

(* the members: the effective logger, then - while additive - the effective
   logger of the parent name (= nearest configured proper ancestor), ..., the
   root last; a non-additive logger ends the chain *)
Theorem members_by_eff cfg q :
  members_at cfg q =
  match eff_at cfg q with
  | Some lg => MLogger lg :: (if l_additive lg then members_at cfg (removelast (lpath lg)) else [])
  | None => [MRoot]
  end.
Proof. unfold members_at, eff_at. apply members_rev_eff. Qed.

Lemma chain_concat_rev cfg rq :
  spec_chain_rev cfg rq = concat (map (m_apps cfg) (members_rev cfg rq)).
Proof.
  induction rq as [|c rq IH]; [cbn; rewrite app_nil_r; reflexivity|].
  cbn [spec_chain_rev members_rev].
  destruct (logger_at (c_loggers cfg) (rev (c :: rq))) as [lg|]; [|exact IH].
  cbn [map concat m_apps]. destruct (l_additive lg); [rewrite IH; reflexivity|].
  cbn [map concat]. reflexivity.
Qed.

Theorem chain_is_members cfg T :
  spec_chain cfg T = concat (map (m_apps cfg) (chain_members cfg T)).
Proof. apply chain_concat_rev. Qed.

Definition str_dec : forall a b : str, {a = b} + {a <> b} := list_eq_dec N.eq_dec.

Lemma count_concat {A} (f : A -> list str) (ms : list A) a :
  count_occ str_dec (concat (map f ms)) a =
  list_sum (map (fun m => count_occ str_dec (f m) a) ms).
Proof.
  induction ms as [|m ms IH]; [reflexivity|].
  cbn [map concat list_sum]. rewrite count_occ_app, IH. reflexivity.
Qed.

(* every attachment along the chain = exactly one delivery; nothing else *)
Theorem delivered_counts cfg t :
  valid cfg -> build cfg = Some t ->
  forall T L a,
    count_occ str_dec (map (name_of cfg) (deliver t T L)) a =
    if N.leb L (spec_level cfg T)
    then list_sum (map (fun m => count_occ str_dec (m_apps cfg m) a) (chain_members cfg T))
    else 0.
Proof.
  intros Hv Hb T L a. destruct (routing_correct cfg Hv) as (t' & Ht & H).
  assert (t' = t) by congruence. subst t'. rewrite H. unfold spec_deliver.
  destruct (N.leb L (spec_level cfg T)); [|reflexivity].
  rewrite chain_is_members. apply count_concat.
Qed.

Theorem delivered_iff cfg t :
  valid cfg -> build cfg = Some t ->
  forall T L a,
    In a (map (name_of cfg) (deliver t T L)) <->
    (L <= spec_level cfg T)%N /\ exists m, In m (chain_members cfg T) /\ In a (m_apps cfg m).
Proof.
  intros Hv Hb T L a. destruct (routing_correct cfg Hv) as (t' & Ht & H).
  assert (t' = t) by congruence. subst t'. rewrite H. unfold spec_deliver.
  destruct (N.leb L (spec_level cfg T)) eqn:E.
  - apply N.leb_le in E. rewrite chain_is_members. rewrite in_concat. split.
    + intros (l & Hl & Ha). apply in_map_iff in Hl as (m & <- & Hm). split; [exact E|]. eauto.
    + intros (_ & m & Hm & Ha). exists (m_apps cfg m). split; [apply in_map; exact Hm|exact Ha].
  - apply N.leb_gt in E. split; [intros []|]. intros (H1 & _). lia.
Qed.

(* ---------------------------------------------------------------------- *)
(* the effective logger decides everything; unconfigured names transparent *)
(* ---------------------------------------------------------------------- *)
Lemma eff_of_own_name cfg lg :
  NoDup (map l_name (c_loggers cfg)) -> In lg (c_loggers cfg) -> eff cfg (l_name lg) = Some lg.
Proof.
  intros Hn Hin. unfold eff. fold (lpath lg).
  pose proof (split_cc_nonempty (l_name lg)) as Hne. fold (lpath lg) in Hne.
  destruct (rev (lpath lg)) as [|c rq] eqn:E.
  - exfalso. apply Hne. rewrite <- (rev_involutive (lpath lg)), E. reflexivity.
  - cbn [eff_rev]. rewrite <- E, rev_involutive.
    rewrite (logger_at_unique _ _ lg Hn Hin eq_refl). reflexivity.
Qed.

(* a target behaves exactly as the name of its effective logger (or as the
   root when no configured name is a prefix): whatever lies below - implied
   intermediates, unknown descendants, textual look-alikes - changes nothing *)
Theorem spec_decided_by_eff cfg T :
  NoDup (map l_name (c_loggers cfg)) ->
  match eff cfg T with
  | Some lg => forall L, spec_deliver cfg T L = spec_deliver cfg (l_name lg) L
  | None => forall L, spec_deliver cfg T L =
                      if N.leb L (c_root_level cfg) then c_root_apps cfg else []
  end.
Proof.
  intro Hn. destruct (spec_by_eff cfg T) as [H1 H2].
  pose proof (eff_longest cfg T) as HE.
  destruct (eff cfg T) as [lg|] eqn:E.
  - destruct HE as (Hin & _). intro L. unfold spec_deliver.
    destruct (spec_by_eff cfg (l_name lg)) as [G1 G2].
    rewrite (eff_of_own_name cfg lg Hn Hin) in G1, G2. rewrite H1, H2, G1, G2. reflexivity.
  - intro L. unfold spec_deliver. rewrite H1, H2. reflexivity.
Qed.

(* the built tree answers alike for a target and the same target minus a last
   component at which no logger is configured (implied intermediate or
   unknown name) *)
Theorem implied_transparent cfg t :
  valid cfg -> build cfg = Some t ->
  forall T T' c,
    split_cc T = split_cc T' ++ [c] ->
    logger_at (c_loggers cfg) (split_cc T) = None ->
    forall L, map (name_of cfg) (deliver t T L) = map (name_of cfg) (deliver t T' L)
              /\ enabled_at t T L = enabled_at t T' L.
Proof.
  intros Hv Hb T T' c Hs Hno L. destruct (routing_correct cfg Hv) as (t' & Ht & H).
  assert (t' = t) by congruence. subst t'.
  rewrite !H, !(enabled_iff_threshold cfg t Hv Hb).
  rewrite Hs in Hno. destruct (spec_implied_transparent cfg (split_cc T') c Hno) as [E1 E2].
  unfold spec_deliver, spec_level, spec_chain. rewrite Hs, E1, E2. split; reflexivity.
Qed.

(* ---------------------------------------------------------------------- *)
(* names accepted by check_logger_name are usable by `add`                 *)
(* ---------------------------------------------------------------------- *)
Lemma last_app_ne {A} (a l : list A) d : l <> [] -> last (a ++ l) d = last l d.
Proof.
  intro H. induction a as [|x a IH]; [reflexivity|].
  cbn [app]. rewrite last_cons_ne; [exact IH|]. destruct a; [exact H|discriminate].
Qed.

Lemma last_split_nil s : last (split_cc s) [] = [] -> s = [] \/ last s 0%N = colon.
Proof.
  induction s as [s IH] using str_ind_len. rewrite split_cc_eq.
  pose proof (first_cc_join s) as HJ.
  destruct (first_cc s) as [a [r|]] eqn:E.
  - pose proof (first_cc_some_len _ _ _ E) as HL.
    rewrite last_cons_ne by apply split_cc_nonempty. intro H.
    right. subst s. rewrite last_app_ne by discriminate.
    destruct (IH r) as [->|Hr]; [lia|exact H|reflexivity|].
    destruct r as [|x r]; [reflexivity|].
    change (last (colon :: colon :: x :: r) 0%N) with (last (x :: r) 0%N). exact Hr.
  - cbn [last]. intro H. left. congruence.
Qed.

Lemma check_scan_end r : forall k,
  check_scan r k = true -> (r = [] -> k = 0) /\ (r <> [] -> last r 0%N <> colon).
Proof.
  induction r as [|c r IH]; intros k H.
  - cbn [check_scan] in H. apply Nat.eqb_eq in H. split; [auto|congruence].
  - split; [discriminate|]. intros _. cbn [check_scan] in H.
    destruct (N.eqb c colon) eqn:Ec.
    + destruct (Nat.ltb 2 (S k)); [discriminate|].
      destruct (IH _ H) as [H1 H2]. destruct r as [|d r]; [specialize (H1 eq_refl); discriminate|].
      rewrite last_cons_ne by discriminate. apply H2. discriminate.
    + apply N.eqb_neq in Ec.
      destruct (Nat.ltb 0 k && negb (Nat.eqb k 2)); [discriminate|].
      destruct (IH _ H) as [H1 H2]. destruct r as [|d r]; [exact Ec|].
      rewrite last_cons_ne by discriminate. apply H2. discriminate.
Qed.

Theorem checked_name_ok s : check_logger_name s = true -> name_ok s.
Proof.
  unfold check_logger_name, name_ok. destruct s as [|c s]; [discriminate|]. intros H E.
  apply check_scan_end in H as [_ H]. apply last_split_nil in E as [E|E]; [discriminate|].
  apply H; [discriminate|exact E].
Qed.

(* ---------------------------------------------------------------------- *)
(* boolean validity checker (for concrete examples)                        *)
(* ---------------------------------------------------------------------- *)
Fixpoint mem_str (a : str) (l : list str) : bool :=
  match l with [] => false | x :: r => str_eqb x a || mem_str a r end.
Fixpoint nodupb (l : list str) : bool :=
  match l with [] => true | x :: r => negb (mem_str x r) && nodupb r end.
Definition name_okb (s : str) : bool := match last (split_cc s) [] with [] => false | _ => true end.
Definition validb (cfg : config) : bool :=
  nodupb (map l_name (c_loggers cfg))
  && forallb (fun lg => name_okb (l_name lg)) (c_loggers cfg)
  && forallb (fun a => mem_str a (c_appenders cfg)) (c_root_apps cfg)
  && forallb (fun lg => forallb (fun a => mem_str a (c_appenders cfg)) (l_apps lg)) (c_loggers cfg).

Lemma mem_str_in a l : mem_str a l = true <-> In a l.
Proof.
  induction l as [|x l IH]; cbn [mem_str In]; [split; [discriminate|intros []]|].
  rewrite orb_true_iff, IH, str_eqb_eq. reflexivity.
Qed.

Lemma nodupb_sound l : nodupb l = true -> NoDup l.
Proof.
  induction l as [|x l IH]; intro H; [constructor|].
  cbn [nodupb] in H. apply andb_true_iff in H as [H1 H2]. constructor; [|apply IH; exact H2].
  intro Hin. apply mem_str_in in Hin. rewrite Hin in H1. discriminate.
Qed.

Lemma validb_sound cfg : validb cfg = true -> valid cfg.
Proof.
  unfold validb, valid. intro H.
  apply andb_true_iff in H as [H H4]. apply andb_true_iff in H as [H H3].
  apply andb_true_iff in H as [H1 H2].
  rewrite forallb_forall in H2, H3, H4. repeat split.
  - apply nodupb_sound. exact H1.
  - intros lg Hin. specialize (H2 lg Hin). unfold name_okb, name_ok in *.
    destruct (last (split_cc (l_name lg)) []); [discriminate|discriminate].
  - intros a Ha. apply mem_str_in. apply H3. exact Ha.
  - intros lg a Hin Ha. specialize (H4 lg Hin). rewrite forallb_forall in H4.
    apply mem_str_in. apply H4. exact Ha.
Qed.

(* ASCII literal -> byte list, for readable examples *)
From Coq Require Import String Ascii.
Definition bs (s : string) : str := map N_of_ascii (list_ascii_of_string s).
