(* C19 — expansion is ONE pass: applying it a second time to its own result is a different
   function (a component that expands a path when a document is read and again when the file is
   opened does not create the file "at the expanded location").  Witness: the regression path of
   the fixed finding F-C19-forged-ref, values free of '$'. *)
From Coq Require Import List NArith Bool.
Import ListNotations.
From L4 Require Import Common.Str Model.EnvExpand Proofs.EnvExpandSpec Proofs.EnvExpandOld.
Local Open Scope N_scope.

Definition expand_twice (ua : N -> bool) (env : ustr -> option ustr) (p : ustr) : res :=
  match expand ua env p with
  | Ok q => expand ua env q
  | Panic => Panic
  end.

Lemma twice_is_not_once :
  exists ua env p,
    values_dollar_free env /\
    expand ua env p = Ok [120;36;69;78;86;123;66;125;45;118;98] /\         (* x$ENV{B}-vb *)
    expand_twice ua env p = Ok [120;118;98;45;118;98].                      (* xvb-vb *)
Proof.
  exists (fun _ => false), (lookup wit_tbl), wit_path.
  split; [apply lookup_dollar_free; vm_compute; reflexivity|].
  split; vm_compute; reflexivity.
Qed.
