(* C14 — declarative vocabulary and lemmas about Model/Schema.v:
   totality (no panic outside the constructor oracle), unknown-key rejection at the eight
   section kinds, independence of the appenders in the lossy pipeline and its composition
   with C13's build_lossy, strict = lossy-without-errors. *)
From Coq Require Import List NArith ZArith Bool Lia.
Import ListNotations.
From L4 Require Import Common.Str Model.DocTree Model.Literals Model.ConfigBuild Model.Schema
  Proofs.ConfigBuild.
Local Open Scope N_scope.

(* ================= elementary facts on maps ================= *)

Lemma get_In k m v : get k m = Some v -> In (k, v) m.
Proof.
  induction m as [|[k' v'] r IH]; cbn; [discriminate|].
  destruct (str_eqb_spec k k') as [->|Hne]; intros H.
  - injection H as ->. now left.
  - right. now apply IH.
Qed.

Lemma get_None k m : get k m = None <-> ~ In k (keys m).
Proof.
  induction m as [|[k' v'] r IH]; cbn; [tauto|].
  destruct (str_eqb_spec k k') as [->|Hne].
  - split; [discriminate|]. intros H. exfalso. apply H. now left.
  - rewrite IH. split; intros H; [intros [E|E]; [congruence|tauto]|tauto].
Qed.

Lemma get_Some_key k m v : get k m = Some v -> In k (keys m).
Proof. intros H. apply get_In in H. apply (in_map fst) in H. exact H. Qed.

Lemma In_get_NoDup k v m : NoDup (keys m) -> In (k, v) m -> get k m = Some v.
Proof.
  induction m as [|[k' v'] r IH]; cbn; [tauto|].
  intros Hnd [E|Hin].
  - injection E as -> ->. now rewrite str_eqb_refl.
  - inversion Hnd as [|? ? Hni Hnd']; subst.
    destruct (str_eqb_spec k k') as [->|Hne].
    + exfalso. apply Hni. apply (in_map fst) in Hin. exact Hin.
    + now apply IH.
Qed.

Lemma get_remove_neq k k' m : k <> k' -> get k (remove k' m) = get k m.
Proof.
  intros Hne. induction m as [|[k2 v2] r IH]; cbn; [reflexivity|].
  destruct (str_eqb_spec k' k2) as [->|Hne2]; cbn.
  - destruct (str_eqb_spec k k2); [congruence|exact IH].
  - destruct (str_eqb_spec k k2); [reflexivity|exact IH].
Qed.

Lemma get_remove_eq k m : get k (remove k m) = None.
Proof.
  induction m as [|[k2 v2] r IH]; cbn; [reflexivity|].
  destruct (str_eqb_spec k k2) as [->|Hne]; cbn; [exact IH|].
  destruct (str_eqb_spec k k2); [congruence|exact IH].
Qed.

Lemma keys_remove x k m : In x (keys (remove k m)) <-> In x (keys m) /\ x <> k.
Proof.
  induction m as [|[k2 v2] r IH]; cbn; [tauto|].
  destruct (str_eqb_spec k k2) as [->|Hne]; cbn.
  - rewrite IH. split; [tauto|]. intros [[E|H] Hx]; [congruence|tauto].
  - rewrite IH. split.
    + intros [E|[H Hx]]; [subst; split; [now left|congruence]|tauto].
    + intros [[E|H] Hx]; [now left|right; tauto].
Qed.

Lemma remove_absent k m : ~ In k (keys m) -> remove k m = m.
Proof.
  induction m as [|[k2 v2] r IH]; cbn; [reflexivity|].
  intros H. destruct (str_eqb_spec k k2) as [->|Hne]; cbn.
  - exfalso. apply H. now left.
  - f_equal. apply IH. tauto.
Qed.

Lemma only_keys_spec ks m : only_keys ks m = true <-> (forall k, In k (keys m) -> In k ks).
Proof.
  unfold only_keys, keys. rewrite forallb_forall. split.
  - intros H k Hk. apply in_map_iff in Hk. destruct Hk as [[k' v] [E Hin]]. cbn in E. subst.
    apply mem_In. exact (H _ Hin).
  - intros H [k v] Hin. apply mem_In. apply H. apply (in_map fst) in Hin. exact Hin.
Qed.

(* a section `m` carries a key outside the field set `ks` *)
Definition has_unknown (ks : list str) (m : dmap) : Prop := exists k, In k (keys m) /\ ~ In k ks.

Lemma unknown_only_keys ks m : has_unknown ks m -> only_keys ks m = false.
Proof.
  intros [k [Hk Hn]]. destruct (only_keys ks m) eqn:E; [|reflexivity].
  exfalso. apply Hn. rewrite only_keys_spec in E. now apply E.
Qed.

(* ================= results ================= *)

Lemma bind_ok {A B} (r : res A) (f : A -> res B) b :
  bind r f = Ok b -> exists a, r = Ok a /\ f a = Ok b.
Proof. destruct r; cbn; [eauto|discriminate|discriminate]. Qed.

Lemma bind_np {A B} (r : res A) (f : A -> res B) :
  r <> Panic -> (forall a, f a <> Panic) -> bind r f <> Panic.
Proof. intros H1 H2. destruct r; cbn; [apply H2|discriminate|exfalso; now apply H1]. Qed.

Lemma guard_np b : guard b <> Panic. Proof. destruct b; discriminate. Qed.
Lemma of_opt_np {A} (o : option A) : of_opt o <> Panic. Proof. destruct o; discriminate. Qed.
Lemma guard_false_bind {B} (f : unit -> res B) : bind (guard false) f = Err. Proof. reflexivity. Qed.

Lemma all_res_np {A B} (f : A -> res B) l : (forall x, f x <> Panic) -> all_res f l <> Panic.
Proof.
  intros Hf. induction l as [|x r IH]; cbn; [discriminate|].
  apply bind_np; [apply Hf|]. intros y. apply bind_np; [exact IH|]. discriminate.
Qed.

Lemma all_res_ok {A B} (f : A -> res B) l ys :
  all_res f l = Ok ys -> forall x, In x l -> exists y, f x = Ok y.
Proof.
  revert ys. induction l as [|x r IH]; cbn; intros ys H z Hz; [tauto|].
  apply bind_ok in H. destruct H as [y [Hy H]]. apply bind_ok in H. destruct H as [ys' [Hys _]].
  destruct Hz as [<-|Hz]; [eauto|]. eapply IH; eauto.
Qed.

Ltac np_field := match goal with |- ?f _ <> Panic => unfold f | |- ?f _ _ <> Panic => unfold f
                                 | |- ?f _ _ _ <> Panic => unfold f end.

Lemma f_opt_bool_np o d : f_opt_bool o d <> Panic.
Proof. destruct o as [[]|]; discriminate. Qed.
Lemma f_def_bool_np o d : f_def_bool o d <> Panic.
Proof. destruct o as [[]|]; discriminate. Qed.
Lemma f_req_str_np o : f_req_str o <> Panic.
Proof. destruct o as [[]|]; discriminate. Qed.
Lemma f_opt_str_np o d : f_opt_str o d <> Panic.
Proof. destruct o as [[]|]; discriminate. Qed.
Lemma uint_np b v : uint b v <> Panic.
Proof. destruct v; cbn; try discriminate. destruct (_ && _); discriminate. Qed.
Lemma f_req_uint_np b o : f_req_uint b o <> Panic.
Proof. destruct o; cbn; [apply uint_np|discriminate]. Qed.
Lemma f_def_uint_np b o d : f_def_uint b o d <> Panic.
Proof. destruct o; cbn; [apply uint_np|discriminate]. Qed.
Lemma f_opt_uint_np b o d : f_opt_uint b o d <> Panic.
Proof. destruct o as [v|]; cbn; [|discriminate]. destruct v; try apply uint_np; discriminate. Qed.
Lemma f_level_np o : f_level o <> Panic.
Proof. destruct o as [[]|]; cbn; try discriminate. apply of_opt_np. Qed.
Lemma f_def_level_np o d : f_def_level o d <> Panic.
Proof. destruct o; cbn -[f_level]; [apply f_level_np|discriminate]. Qed.
Lemma as_str_np v : as_str v <> Panic. Proof. destruct v; discriminate. Qed.
Lemma f_strs_np o : f_strs o <> Panic.
Proof. destruct o as [[]|]; cbn; try discriminate. apply all_res_np, as_str_np. Qed.
Lemma split_kind_np d v : split_kind d v <> Panic.
Proof.
  destruct v; cbn; try discriminate. destruct (get k_kind m) as [[]|]; try discriminate.
  destruct d; discriminate.
Qed.
Lemma split_opt_np d o : split_opt d o <> Panic.
Proof.
  destruct o as [v|]; cbn; [|discriminate].
  destruct v; try discriminate; (apply bind_np; [apply split_kind_np|discriminate]).
Qed.
Lemma f_target_np o : f_target o <> Panic.
Proof.
  destruct o as [[]|]; cbn; try discriminate.
  destruct (str_eqb s s_stdout); [discriminate|]. destruct (str_eqb s s_stderr); discriminate.
Qed.

Ltac np :=
  repeat first
    [ apply bind_np; [|intros ?]
    | apply guard_np | apply of_opt_np | apply f_opt_bool_np | apply f_def_bool_np | apply f_req_str_np
    | apply f_opt_str_np | apply f_req_uint_np | apply f_def_uint_np | apply f_opt_uint_np
    | apply f_level_np | apply f_def_level_np | apply f_strs_np | apply split_kind_np | apply split_opt_np
    | apply f_target_np | discriminate ].

Lemma interp_encoder_np k m : interp_encoder_cfg k m <> Panic.
Proof.
  unfold interp_encoder_cfg. destruct (str_eqb k s_pattern); [np|]. destruct (str_eqb k s_json); np.
Qed.
Lemma build_encoder_np o : build_encoder o <> Panic.
Proof. destruct o as [[k m]|]; cbn; [apply interp_encoder_np|discriminate]. Qed.
Lemma interp_roller_np k m : interp_roller_cfg k m <> Panic.
Proof.
  unfold interp_roller_cfg. destruct (str_eqb k s_delete); [np|]. destruct (str_eqb k s_fixed_window); np.
Qed.
Lemma interp_filter_np k m : interp_filter_cfg k m <> Panic.
Proof. unfold interp_filter_cfg. destruct (str_eqb k s_threshold); np. Qed.

(* the only panic source of the model is the time-trigger constructor oracle *)
Definition never_panics (E : env) : Prop := forall u n md dl, e_time E u n md dl <> Panic.

Section NoPanic.
  Variable E : env.
  Hypothesis HE : never_panics E.

  Lemma interp_trigger_np k m : interp_trigger_cfg E k m <> Panic.
  Proof.
    unfold interp_trigger_cfg. destruct (str_eqb k s_size); [np|].
    destruct (str_eqb k s_time); [|destruct (str_eqb k s_onstartup); np].
    np. apply HE.
  Qed.
  Lemma interp_policy_np k m : interp_policy_cfg E k m <> Panic.
  Proof.
    unfold interp_policy_cfg. destruct (str_eqb k s_compound); np.
    - apply interp_trigger_np.
    - apply interp_roller_np.
  Qed.
  Lemma interp_appender_np k m : interp_appender_cfg E k m <> Panic.
  Proof.
    unfold interp_appender_cfg.
    destruct (str_eqb k s_console); [np; apply build_encoder_np|].
    destruct (str_eqb k s_file); [np; apply build_encoder_np|].
    destruct (str_eqb k s_rolling_file); np.
    - apply build_encoder_np.
    - apply interp_policy_np.
  Qed.
  Lemma run_appender_np x : run_appender E x <> Panic.
  Proof.
    unfold run_appender. destruct (run_filters _ _).
    pose proof (interp_appender_np (ar_kind (snd x)) (ar_cfg (snd x))).
    destruct (interp_appender_cfg _ _ _); congruence.
  Qed.
  Lemma appenders_lossy_np l : appenders_lossy E l <> Panic.
  Proof.
    induction l as [|x r IH]; cbn; [discriminate|].
    apply bind_np; [apply run_appender_np|]. intros ?. apply bind_np; [exact IH|]. discriminate.
  Qed.
End NoPanic.

Lemma parse_appender_np v : parse_appender v <> Panic.
Proof.
  destruct v; cbn; try discriminate. np.
  destruct (get k_filters m) as [[]|]; try discriminate.
  apply all_res_np. intros x. apply split_kind_np.
Qed.
Lemma parse_logger_np nv : parse_logger nv <> Panic.
Proof. unfold parse_logger. destruct (snd nv); try discriminate. np. Qed.
Lemma parse_named_np {A} (f : str * value -> res A) o : (forall x, f x <> Panic) -> parse_named f o <> Panic.
Proof. intros Hf. destruct o as [[]|]; cbn; try discriminate. now apply all_res_np. Qed.
Lemma parse_root_np o : parse_root o <> Panic.
Proof. destruct o as [[]|]; cbn; try discriminate. np. Qed.
Lemma parse_refresh_np E o : parse_refresh E o <> Panic.
Proof. destruct o as [[]|]; cbn; try discriminate. destruct (e_dur E s); discriminate. Qed.

(* the serde phase has no panic source at all *)
Lemma interp_raw_np E v : interp_raw E v <> Panic.
Proof.
  destruct v; cbn; try discriminate. np.
  - apply parse_refresh_np.
  - apply parse_root_np.
  - apply parse_named_np. intros x. np. apply parse_appender_np.
  - apply parse_named_np. apply parse_logger_np.
Qed.

Theorem load_no_panic E v :
  never_panics E -> load_lossy E v <> Panic /\ load_strict E v <> Panic.
Proof.
  intros HE. unfold load_lossy, load_strict. split.
  - apply bind_np; [apply interp_raw_np|]. intros r. apply bind_np; [now apply appenders_lossy_np|].
    intros ae. discriminate.
  - apply bind_np; [apply interp_raw_np|]. intros r. apply bind_np; [now apply appenders_lossy_np|].
    intros ae. destruct (snd ae); [|discriminate]. destruct (build _ _ _ _); discriminate.
Qed.

(* the recorded class is reachable: a constructor oracle that panics on `interval 0 + modulate`
   makes loading panic *)
Definition degenerate_env : env :=
  {| e_time := fun _ n md _ => if (n =? 0) && md then Panic else Ok tt;
     e_fs := fun _ => true; e_dur := fun _ => None |}.

Definition degenerate_doc : value :=
  DMap [(k_appenders, DMap [([116], DMap [
    (k_kind, DStr s_rolling_file); (k_path, DStr [112]);
    (k_policy, DMap [(k_trigger, DMap [(k_kind, DStr s_time); (k_interval, DInt 0); (k_modulate, DBool true)]);
                     (k_roller, DMap [(k_kind, DStr s_delete)])])])])].

Lemma degenerate_panics :
  load_lossy degenerate_env degenerate_doc = Panic /\ load_strict degenerate_env degenerate_doc = Panic.
Proof. split; vm_compute; reflexivity. Qed.

(* ================= unknown keys ================= *)

Definition doc_keys := [k_refresh_rate; k_root; k_appenders; k_loggers].
Definition root_keys := [k_level; k_appenders].
Definition logger_keys := [k_level; k_appenders; k_additive].

Definition appender_keys (kind : str) : list str :=
  if str_eqb kind s_console then [k_target; k_encoder; k_tty_only]
  else if str_eqb kind s_file then [k_path; k_encoder; k_append]
  else if str_eqb kind s_rolling_file then [k_path; k_append; k_encoder; k_policy]
  else [].
Definition encoder_keys (kind : str) : list str :=
  if str_eqb kind s_pattern then [k_pattern] else [].
Definition policy_keys (kind : str) : list str :=
  if str_eqb kind s_compound then [k_trigger; k_roller] else [].
Definition trigger_keys (kind : str) : list str :=
  if str_eqb kind s_size then [k_limit]
  else if str_eqb kind s_time then [k_interval; k_modulate; k_max_random_delay]
  else if str_eqb kind s_onstartup then [k_min_size] else [].
Definition roller_keys (kind : str) : list str :=
  if str_eqb kind s_delete then [] else if str_eqb kind s_fixed_window then [k_pattern; k_base; k_count] else [].

(* the kind a kind-tagged section selects (None: no usable `kind`) *)
Definition kind_of (dflt : option str) (m : dmap) : option str :=
  match get k_kind m with Some (DStr s) => Some s | Some _ => None | None => dflt end.

Lemma split_kind_ok d v k rest :
  split_kind d v = Ok (k, rest) -> exists m, v = DMap m /\ kind_of d m = Some k /\ rest = remove k_kind m.
Proof.
  destruct v; cbn; try discriminate. unfold kind_of.
  destruct (get k_kind m) as [[]|] eqn:G; try discriminate.
  - intros H. injection H as <- <-. exists m. rewrite G. auto.
  - destruct d; [|discriminate]. intros H. injection H as <- <-. exists m. rewrite G. auto.
Qed.

Lemma unknown_encoder k m e : has_unknown (encoder_keys k) m -> interp_encoder_cfg k m <> Ok e.
Proof.
  intros Hu. unfold interp_encoder_cfg, encoder_keys in *.
  destruct (str_eqb k s_pattern).
  - rewrite (unknown_only_keys _ _ Hu). discriminate.
  - destruct (str_eqb k s_json); [|discriminate]. rewrite (unknown_only_keys _ _ Hu). discriminate.
Qed.

Lemma unknown_trigger E k m : has_unknown (trigger_keys k) m -> interp_trigger_cfg E k m = Err.
Proof.
  intros Hu. unfold interp_trigger_cfg, trigger_keys in *.
  destruct (str_eqb k s_size); [now rewrite (unknown_only_keys _ _ Hu)|].
  destruct (str_eqb k s_time); [now rewrite (unknown_only_keys _ _ Hu)|].
  destruct (str_eqb k s_onstartup); [now rewrite (unknown_only_keys _ _ Hu)|reflexivity].
Qed.

Lemma unknown_roller k m r : has_unknown (roller_keys k) m -> interp_roller_cfg k m <> Ok r.
Proof.
  intros Hu. unfold interp_roller_cfg, roller_keys in *.
  destruct (str_eqb k s_delete); [rewrite (unknown_only_keys _ _ Hu); discriminate|].
  destruct (str_eqb k s_fixed_window); [rewrite (unknown_only_keys _ _ Hu); discriminate|discriminate].
Qed.

(* 1. document *)
Theorem unknown_key_document E m : has_unknown doc_keys m -> interp_raw E (DMap m) = Err.
Proof. intros Hu. cbn. fold doc_keys. now rewrite (unknown_only_keys _ _ Hu). Qed.

Lemma interp_raw_not_ok_err E v : (forall r, interp_raw E v <> Ok r) -> interp_raw E v = Err.
Proof.
  intros H. pose proof (interp_raw_np E v). destruct (interp_raw E v); [exfalso; eapply H; eauto|reflexivity|congruence].
Qed.

(* 2. root *)
Theorem unknown_key_root E m rm :
  get k_root m = Some (DMap rm) -> has_unknown root_keys rm -> interp_raw E (DMap m) = Err.
Proof.
  intros Hg Hu. apply interp_raw_not_ok_err. intros r H. cbn in H.
  apply bind_ok in H. destruct H as [? [_ H]]. apply bind_ok in H. destruct H as [? [_ H]].
  apply bind_ok in H. destruct H as [rt [Hrt _]].
  rewrite Hg in Hrt. cbn in Hrt. fold root_keys in Hrt. rewrite (unknown_only_keys _ _ Hu) in Hrt. discriminate.
Qed.

(* 3. a logger *)
Theorem unknown_key_logger E m lm n l :
  get k_loggers m = Some (DMap lm) -> In (n, DMap l) lm -> has_unknown logger_keys l ->
  interp_raw E (DMap m) = Err.
Proof.
  intros Hg Hin Hu. apply interp_raw_not_ok_err. intros r H. cbn in H.
  apply bind_ok in H. destruct H as [? [_ H]]. apply bind_ok in H. destruct H as [? [_ H]].
  apply bind_ok in H. destruct H as [? [_ H]]. apply bind_ok in H. destruct H as [? [_ H]].
  apply bind_ok in H. destruct H as [lgs [Hl _]].
  rewrite Hg in Hl. cbn in Hl. destruct (all_res_ok _ _ _ Hl _ Hin) as [y Hy].
  unfold parse_logger in Hy. cbn in Hy. fold logger_keys in Hy.
  rewrite (unknown_only_keys _ _ Hu) in Hy. discriminate.
Qed.

(* 4.-8. inside an appender: the component is not built *)
Section UnknownInAppender.
  Variable E : env.

  (* 4. the appender's own section *)
  Theorem unknown_key_appender kind cfg c :
    has_unknown (appender_keys kind) cfg -> interp_appender_cfg E kind cfg <> Ok c.
  Proof.
    intros Hu. unfold interp_appender_cfg, appender_keys in *.
    destruct (str_eqb kind s_console); [rewrite (unknown_only_keys _ _ Hu); discriminate|].
    destruct (str_eqb kind s_file); [rewrite (unknown_only_keys _ _ Hu); discriminate|].
    destruct (str_eqb kind s_rolling_file); [rewrite (unknown_only_keys _ _ Hu); discriminate|discriminate].
  Qed.

  Lemma split_opt_some d em o :
    split_opt d (Some (DMap em)) = Ok o ->
    exists k, o = Some (k, remove k_kind em) /\ kind_of d em = Some k.
  Proof.
    cbn -[split_kind]. intros H. apply bind_ok in H. destruct H as [[k rest] [Hs H]]. injection H as <-.
    apply split_kind_ok in Hs. destruct Hs as [m' [Em [Hk ->]]]. injection Em as <-. eauto.
  Qed.

  (* 5. the encoder section (every appender kind has one) *)
  Theorem unknown_key_encoder kind cfg em ek c :
    get k_encoder cfg = Some (DMap em) -> kind_of (Some s_pattern) em = Some ek ->
    has_unknown (encoder_keys ek) (remove k_kind em) ->
    interp_appender_cfg E kind cfg <> Ok c.
  Proof.
    intros Hg Hk Hu H. unfold interp_appender_cfg in H.
    destruct (str_eqb kind s_console).
    { apply bind_ok in H. destruct H as [? [_ H]]. apply bind_ok in H. destruct H as [? [_ H]].
      apply bind_ok in H. destruct H as [o [Ho H]]. apply bind_ok in H. destruct H as [? [_ H]].
      apply bind_ok in H. destruct H as [enc [He _]].
      rewrite Hg in Ho. apply split_opt_some in Ho. destruct Ho as [k [-> Hk']].
      rewrite Hk in Hk'. injection Hk' as <-. cbn in He. now apply unknown_encoder in He. }
    destruct (str_eqb kind s_file).
    { apply bind_ok in H. destruct H as [? [_ H]]. apply bind_ok in H. destruct H as [? [_ H]].
      apply bind_ok in H. destruct H as [o [Ho H]]. apply bind_ok in H. destruct H as [? [_ H]].
      apply bind_ok in H. destruct H as [enc [He _]].
      rewrite Hg in Ho. apply split_opt_some in Ho. destruct Ho as [k [-> Hk']].
      rewrite Hk in Hk'. injection Hk' as <-. cbn in He. now apply unknown_encoder in He. }
    destruct (str_eqb kind s_rolling_file); [|discriminate].
    apply bind_ok in H. destruct H as [? [_ H]]. apply bind_ok in H. destruct H as [? [_ H]].
    apply bind_ok in H. destruct H as [? [_ H]].
    apply bind_ok in H. destruct H as [o [Ho H]]. apply bind_ok in H. destruct H as [? [_ H]].
    apply bind_ok in H. destruct H as [? [_ H]].
    apply bind_ok in H. destruct H as [enc [He _]].
    rewrite Hg in Ho. apply split_opt_some in Ho. destruct Ho as [k [-> Hk']].
    rewrite Hk in Hk'. injection Hk' as <-. cbn in He. now apply unknown_encoder in He.
  Qed.

  (* what a rolling_file appender does with its policy section *)
  Lemma rolling_policy cfg c :
    interp_appender_cfg E s_rolling_file cfg = Ok c ->
    exists pv pk prest po, get k_policy cfg = Some pv /\ split_kind (Some s_compound) pv = Ok (pk, prest) /\
                           interp_policy_cfg E pk prest = Ok po.
  Proof.
    intros H. unfold interp_appender_cfg in H.
    change (str_eqb s_rolling_file s_console) with false in H.
    change (str_eqb s_rolling_file s_file) with false in H.
    change (str_eqb s_rolling_file s_rolling_file) with true in H. cbv iota in H.
    apply bind_ok in H. destruct H as [? [_ H]]. apply bind_ok in H. destruct H as [? [_ H]].
    apply bind_ok in H. destruct H as [? [_ H]]. apply bind_ok in H. destruct H as [? [_ H]].
    apply bind_ok in H. destruct H as [pv [Hpv H]]. apply bind_ok in H. destruct H as [[pk prest] [Hs H]].
    apply bind_ok in H. destruct H as [? [_ H]]. apply bind_ok in H. destruct H as [po [Hpo _]].
    destruct (get k_policy cfg); [|discriminate]. injection Hpv as ->. cbn in Hpo. eauto 10.
  Qed.

  (* 6. the policy section *)
  Theorem unknown_key_policy cfg pm pk c :
    get k_policy cfg = Some (DMap pm) -> kind_of (Some s_compound) pm = Some pk ->
    has_unknown (policy_keys pk) (remove k_kind pm) ->
    interp_appender_cfg E s_rolling_file cfg <> Ok c.
  Proof.
    intros Hg Hk Hu H. apply rolling_policy in H.
    destruct H as [pv [pk' [prest [po [Hpv [Hs Hpo]]]]]]. rewrite Hg in Hpv. injection Hpv as <-.
    apply split_kind_ok in Hs. destruct Hs as [m' [Em [Hk' ->]]]. injection Em as <-.
    rewrite Hk in Hk'. injection Hk' as <-.
    unfold interp_policy_cfg, policy_keys in *. destruct (str_eqb pk s_compound); [|discriminate].
    rewrite (unknown_only_keys _ _ Hu) in Hpo. discriminate.
  Qed.

  Lemma compound_parts m po :
    interp_policy_cfg E s_compound m = Ok po ->
    exists tv rv tk trest rk rrest tr ro,
      get k_trigger m = Some tv /\ get k_roller m = Some rv /\
      split_kind None tv = Ok (tk, trest) /\ split_kind None rv = Ok (rk, rrest) /\
      interp_trigger_cfg E tk trest = Ok tr /\ interp_roller_cfg rk rrest = Ok ro.
  Proof.
    intros H. unfold interp_policy_cfg in H.
    change (str_eqb s_compound s_compound) with true in H. cbv iota in H.
    apply bind_ok in H. destruct H as [? [_ H]].
    apply bind_ok in H. destruct H as [tv [Htv H]]. apply bind_ok in H. destruct H as [rv [Hrv H]].
    apply bind_ok in H. destruct H as [[tk trest] [Ht H]]. apply bind_ok in H. destruct H as [[rk rrest] [Hr H]].
    apply bind_ok in H. destruct H as [tr [Htr H]]. apply bind_ok in H. destruct H as [ro [Hro _]].
    destruct (get k_trigger m); [|discriminate]. destruct (get k_roller m); [|discriminate].
    injection Htv as ->. injection Hrv as ->. cbn in Htr, Hro. eauto 20.
  Qed.

  (* the compound policy is the only registered policy kind *)
  Lemma policy_is_compound pk prest po : interp_policy_cfg E pk prest = Ok po -> pk = s_compound.
  Proof.
    unfold interp_policy_cfg. destruct (str_eqb_spec pk s_compound); [auto|discriminate].
  Qed.

  (* 7. the trigger section *)
  Theorem unknown_key_trigger cfg pm tm tk c :
    get k_policy cfg = Some (DMap pm) -> get k_trigger (remove k_kind pm) = Some (DMap tm) ->
    kind_of None tm = Some tk -> has_unknown (trigger_keys tk) (remove k_kind tm) ->
    interp_appender_cfg E s_rolling_file cfg <> Ok c.
  Proof.
    intros Hg Hgt Hk Hu H. apply rolling_policy in H.
    destruct H as [pv [pk' [prest [po [Hpv [Hs Hpo]]]]]]. rewrite Hg in Hpv. injection Hpv as <-.
    apply split_kind_ok in Hs. destruct Hs as [m' [Em [_ ->]]]. injection Em as <-.
    pose proof (policy_is_compound _ _ _ Hpo) as ->. apply compound_parts in Hpo.
    destruct Hpo as [tv [rv [tk' [trest [rk [rrest [tr [ro [Htv [_ [Ht [_ [Htr _]]]]]]]]]]]]].
    rewrite Hgt in Htv. injection Htv as <-.
    apply split_kind_ok in Ht. destruct Ht as [m' [Em [Hk' ->]]]. injection Em as <-.
    rewrite Hk in Hk'. injection Hk' as <-.
    rewrite (unknown_trigger E tk _ Hu) in Htr. discriminate.
  Qed.

  (* 8. the roller section *)
  Theorem unknown_key_roller cfg pm rm rk c :
    get k_policy cfg = Some (DMap pm) -> get k_roller (remove k_kind pm) = Some (DMap rm) ->
    kind_of None rm = Some rk -> has_unknown (roller_keys rk) (remove k_kind rm) ->
    interp_appender_cfg E s_rolling_file cfg <> Ok c.
  Proof.
    intros Hg Hgr Hk Hu H. apply rolling_policy in H.
    destruct H as [pv [pk' [prest [po [Hpv [Hs Hpo]]]]]]. rewrite Hg in Hpv. injection Hpv as <-.
    apply split_kind_ok in Hs. destruct Hs as [m' [Em [_ ->]]]. injection Em as <-.
    pose proof (policy_is_compound _ _ _ Hpo) as ->. apply compound_parts in Hpo.
    destruct Hpo as [tv [rv [tk [trest [rk' [rrest [tr [ro [_ [Hrv [_ [Hr [_ Hro]]]]]]]]]]]]].
    rewrite Hgr in Hrv. injection Hrv as <-.
    apply split_kind_ok in Hr. destruct Hr as [m' [Em [Hk' ->]]]. injection Em as <-.
    rewrite Hk in Hk'. injection Hk' as <-.
    now apply unknown_roller in Hro.
  Qed.
End UnknownInAppender.

(* ================= the lossy pipeline ================= *)

Lemma appenders_lossy_app E l1 l2 k1 e1 k2 e2 :
  appenders_lossy E l1 = Ok (k1, e1) -> appenders_lossy E l2 = Ok (k2, e2) ->
  appenders_lossy E (l1 ++ l2) = Ok (k1 ++ k2, e1 ++ e2).
Proof.
  revert k1 e1. induction l1 as [|x r IH]; cbn; intros k1 e1 H1 H2.
  - injection H1 as <- <-. exact H2.
  - apply bind_ok in H1. destruct H1 as [oe [Hoe H1]]. apply bind_ok in H1. destruct H1 as [rest [Hr H1]].
    injection H1 as <- <-. rewrite Hoe. cbn. rewrite (IH (fst rest) (snd rest)); [|destruct rest; exact Hr|exact H2].
    cbn. destruct (fst oe); cbn; now rewrite app_assoc.
Qed.

(* A broken appender (its component is not built) is dropped with exactly one appender error
   (after the errors of its own filters); the appenders before and after it are processed as
   if it were not there. *)
Theorem lossy_drops_exactly E l1 x l2 k1 e1 k2 e2 :
  appenders_lossy E l1 = Ok (k1, e1) -> appenders_lossy E l2 = Ok (k2, e2) ->
  interp_appender_cfg E (ar_kind (snd x)) (ar_cfg (snd x)) = Err ->
  appenders_lossy E (l1 ++ x :: l2)
    = Ok (k1 ++ k2, e1 ++ (snd (run_filters (fst x) (ar_filters (snd x))) ++ [EAppender (fst x)]) ++ e2)
  /\ appenders_lossy E (l1 ++ l2) = Ok (k1 ++ k2, e1 ++ e2).
Proof.
  intros H1 H2 Hx. split; [|now apply appenders_lossy_app].
  apply appenders_lossy_app; [exact H1|]. cbn. unfold run_appender. rewrite Hx.
  destruct (run_filters (fst x) (ar_filters (snd x))) as [ok ferrs]. cbn. rewrite H2. reflexivity.
Qed.

(* ... and an appender whose component is built is kept, with exactly the filters that could be built *)
Theorem lossy_keeps E l1 x l2 k1 e1 k2 e2 c :
  appenders_lossy E l1 = Ok (k1, e1) -> appenders_lossy E l2 = Ok (k2, e2) ->
  interp_appender_cfg E (ar_kind (snd x)) (ar_cfg (snd x)) = Ok c ->
  appenders_lossy E (l1 ++ x :: l2)
    = Ok (k1 ++ {| a_name := fst x; a_filters := fst (run_filters (fst x) (ar_filters (snd x))); a_comp := c |} :: k2,
          e1 ++ snd (run_filters (fst x) (ar_filters (snd x))) ++ e2).
Proof.
  intros H1 H2 Hx. apply appenders_lossy_app; [exact H1|]. cbn. unfold run_appender. rewrite Hx.
  destruct (run_filters (fst x) (ar_filters (snd x))) as [ok ferrs]. cbn. rewrite H2. reflexivity.
Qed.

(* a broken filter is dropped with one filter error; the other filters of the appender are kept *)
Theorem filters_lossy name fs1 k m fs2 :
  run_filters name (fs1 ++ (k, m) :: fs2) =
  (fst (run_filters name fs1) ++
     match interp_filter_cfg k m with Ok l => [l] | _ => [] end ++ fst (run_filters name fs2),
   snd (run_filters name fs1) ++
     match interp_filter_cfg k m with Ok _ => [] | _ => [EFilter name] end ++ snd (run_filters name fs2)).
Proof.
  induction fs1 as [|[k1 m1] r IH]; cbn.
  - destruct (run_filters name fs2). destruct (interp_filter_cfg k m); reflexivity.
  - rewrite IH. destruct (run_filters name r). cbn. destruct (interp_filter_cfg k1 m1); reflexivity.
Qed.

(* names of the appenders the lossy pass keeps: the declared names whose component builds, in order *)
Lemma kept_names E l kept errs :
  appenders_lossy E l = Ok (kept, errs) ->
  map a_name kept =
  map fst (filter (fun x => match interp_appender_cfg E (ar_kind (snd x)) (ar_cfg (snd x)) with Ok _ => true | _ => false end) l).
Proof.
  revert kept errs. induction l as [|x r IH]; cbn; intros kept errs H.
  - injection H as <- <-. reflexivity.
  - apply bind_ok in H. destruct H as [oe [Hoe H]]. apply bind_ok in H. destruct H as [[k2 e2] [Hr H]].
    injection H as <- <-. specialize (IH _ _ Hr). unfold run_appender in Hoe.
    destruct (run_filters _ _). destruct (interp_appender_cfg _ _ _); [|injection Hoe as <-; exact IH|discriminate].
    injection Hoe as <-. cbn. now rewrite IH.
Qed.

(* composition with C13: what the lossy load returns *)
Theorem load_lossy_exact E v r kept derrs :
  interp_raw E v = Ok r -> appenders_lossy E (rw_appenders r) = Ok (kept, derrs) ->
  load_lossy E v =
  let names := firsts [] (map a_name kept) in
  Ok {| ld_refresh := rw_refresh r; ld_appenders := kept; ld_derrs := derrs;
        ld_config := {| c_appenders := names; c_root_level := rw_root_level r;
                        c_root_apps := filter (resolves names) (rw_root_apps r);
                        c_loggers := fst (spec_loggers names [] (rw_loggers r)) |};
        ld_berrs := map DuplicateAppenderName (repeats [] (map a_name kept))
                    ++ map NonexistentAppender (filter (fun x => negb (resolves names x)) (rw_root_apps r))
                    ++ snd (spec_loggers names [] (rw_loggers r)) |}.
Proof.
  intros Hr Ha. unfold load_lossy. rewrite Hr. cbn. rewrite Ha. cbn. rewrite build_lossy_spec. reflexivity.
Qed.

(* strict loading succeeds exactly when lossy loading reports nothing, and returns the same thing *)
Theorem strict_iff_lossy_clean E v apps c :
  load_strict E v = Ok (apps, c) <->
  exists ld, load_lossy E v = Ok ld /\ ld_derrs ld = [] /\ ld_berrs ld = [] /\
             ld_appenders ld = apps /\ ld_config ld = c.
Proof.
  unfold load_strict, load_lossy, build.
  destruct (interp_raw E v) as [r| |]; cbn; [|split; [discriminate|intros [? [? _]]; discriminate]..].
  destruct (appenders_lossy E (rw_appenders r)) as [[kept derrs]| |]; cbn;
    [|split; [discriminate|intros [? [? _]]; discriminate]..].
  destruct (build_lossy (map a_name kept) (rw_root_level r) (rw_root_apps r) (rw_loggers r)) as [cfg berrs] eqn:Hb.
  cbn. split.
  - destruct derrs; [|discriminate]. destruct berrs; [|discriminate]. intros H. injection H as <- <-.
    eexists. split; [reflexivity|]. cbn. auto.
  - intros [ld [H [Hd [Hbe [Ha Hc]]]]]. injection H as <-. cbn in *. subst. reflexivity.
Qed.

(* ================= consequences at the level of the two loaders ================= *)

Lemma raw_err_loads E v : interp_raw E v = Err -> load_lossy E v = Err /\ load_strict E v = Err.
Proof. intros H. unfold load_lossy, load_strict. now rewrite H. Qed.

Lemma appender_not_ok_err E kind cfg :
  never_panics E -> (forall c, interp_appender_cfg E kind cfg <> Ok c) -> interp_appender_cfg E kind cfg = Err.
Proof.
  intros HE H. pose proof (interp_appender_np E HE kind cfg).
  destruct (interp_appender_cfg E kind cfg); [exfalso; eapply H; eauto|reflexivity|congruence].
Qed.

(* every broken appender is reported *)
Lemma lossy_reports E l kept errs x :
  appenders_lossy E l = Ok (kept, errs) -> In x l ->
  interp_appender_cfg E (ar_kind (snd x)) (ar_cfg (snd x)) = Err ->
  In (EAppender (fst x)) errs /\ (NoDup (map fst l) -> ~ In (fst x) (map a_name kept)).
Proof.
  revert kept errs. induction l as [|y r IH]; cbn; intros kept errs H Hin Hx; [tauto|].
  apply bind_ok in H. destruct H as [oe [Hoe H]]. apply bind_ok in H. destruct H as [[k2 e2] [Hr H]].
  injection H as <- <-. cbn [fst snd]. destruct Hin as [->|Hin].
  - unfold run_appender in Hoe. rewrite Hx in Hoe. destruct (run_filters _ _) as [ok fe]. injection Hoe as <-.
    cbn [fst snd]. split.
    + apply in_or_app. left. apply in_or_app. right. now left.
    + intros Hnd. inversion Hnd as [|? ? Hni _]; subst. rewrite (kept_names _ _ _ _ Hr).
      intros Hc. apply Hni. apply in_map_iff in Hc. destruct Hc as [z [Ez Hz]]. apply filter_In in Hz.
      rewrite <- Ez. apply in_map. tauto.
  - destruct (IH _ _ Hr Hin Hx) as [H1 H2]. split.
    + apply in_or_app. now right.
    + intros Hnd. inversion Hnd as [|? ? Hni Hnd']; subst. specialize (H2 Hnd').
      unfold run_appender in Hoe. destruct (run_filters _ _) as [ok fe].
      destruct (interp_appender_cfg E (ar_kind (snd y)) (ar_cfg (snd y))); [|injection Hoe as <-; exact H2|discriminate].
      injection Hoe as <-. cbn. intros [Hc|Hc]; [|tauto].
      apply Hni. rewrite Hc. apply in_map. exact Hin.
Qed.

(* a document with a broken appender: strict loading fails; lossy loading succeeds, reports it, and does
   not install an appender of that name *)
Theorem broken_appender_loads E v r x :
  never_panics E -> interp_raw E v = Ok r -> In x (rw_appenders r) ->
  interp_appender_cfg E (ar_kind (snd x)) (ar_cfg (snd x)) = Err ->
  load_strict E v = Err /\
  exists ld, load_lossy E v = Ok ld /\ In (EAppender (fst x)) (ld_derrs ld) /\
             (NoDup (map fst (rw_appenders r)) ->
              ~ In (fst x) (map a_name (ld_appenders ld)) /\ ~ In (fst x) (c_appenders (ld_config ld))).
Proof.
  intros HE Hr Hin Hx.
  pose proof (appenders_lossy_np E HE (rw_appenders r)) as Hnp.
  destruct (appenders_lossy E (rw_appenders r)) as [[kept errs]| |] eqn:Ha; [| |congruence].
  - destruct (lossy_reports _ _ _ _ _ Ha Hin Hx) as [H1 H2]. split.
    + unfold load_strict. rewrite Hr. cbn. rewrite Ha. cbn. destruct errs; [destruct H1|reflexivity].
    + eexists. split; [unfold load_lossy; rewrite Hr; cbn; rewrite Ha; reflexivity|].
      cbn. split; [exact H1|]. intros Hnd. split; [now apply H2|].
      rewrite build_lossy_spec. cbn. intros Hc. apply firsts_In in Hc. destruct Hc as [Hc _]. now apply H2.
  - (* appenders_lossy never returns Err *)
    exfalso. clear -Ha. revert Ha. generalize (rw_appenders r). intros l. induction l as [|y l IH]; cbn; [discriminate|].
    unfold run_appender at 1. destruct (run_filters _ _).
    destruct (interp_appender_cfg E (ar_kind (snd y)) (ar_cfg (snd y))); cbn; try discriminate;
      destruct (appenders_lossy E l); cbn; try discriminate; now apply IH.
Qed.

(* ---- the statements pinned in Props/C14.v ---- *)
Lemma unknown_key_document_loads E m :
  has_unknown [k_refresh_rate; k_root; k_appenders; k_loggers] m ->
  load_lossy E (DMap m) = Err /\ load_strict E (DMap m) = Err.
Proof. intros H. apply raw_err_loads. now apply unknown_key_document. Qed.

Lemma unknown_key_root_loads E m rm :
  get k_root m = Some (DMap rm) -> has_unknown [k_level; k_appenders] rm ->
  load_lossy E (DMap m) = Err /\ load_strict E (DMap m) = Err.
Proof. intros H1 H2. apply raw_err_loads. now apply (unknown_key_root E m rm). Qed.

Lemma unknown_key_logger_loads E m lm n l :
  get k_loggers m = Some (DMap lm) -> In (n, DMap l) lm ->
  has_unknown [k_level; k_appenders; k_additive] l ->
  load_lossy E (DMap m) = Err /\ load_strict E (DMap m) = Err.
Proof. intros H1 H2 H3. apply raw_err_loads. now apply (unknown_key_logger E m lm n l). Qed.

Lemma unknown_key_appender_sections E :
  (forall kind cfg c, has_unknown (appender_keys kind) cfg -> interp_appender_cfg E kind cfg <> Ok c) /\
  (forall kind cfg em ek c,
      get k_encoder cfg = Some (DMap em) -> kind_of (Some s_pattern) em = Some ek ->
      has_unknown (encoder_keys ek) (remove k_kind em) -> interp_appender_cfg E kind cfg <> Ok c) /\
  (forall cfg pm pk c,
      get k_policy cfg = Some (DMap pm) -> kind_of (Some s_compound) pm = Some pk ->
      has_unknown (policy_keys pk) (remove k_kind pm) -> interp_appender_cfg E s_rolling_file cfg <> Ok c) /\
  (forall cfg pm tm tk c,
      get k_policy cfg = Some (DMap pm) -> get k_trigger (remove k_kind pm) = Some (DMap tm) ->
      kind_of None tm = Some tk -> has_unknown (trigger_keys tk) (remove k_kind tm) ->
      interp_appender_cfg E s_rolling_file cfg <> Ok c) /\
  (forall cfg pm rm rk c,
      get k_policy cfg = Some (DMap pm) -> get k_roller (remove k_kind pm) = Some (DMap rm) ->
      kind_of None rm = Some rk -> has_unknown (roller_keys rk) (remove k_kind rm) ->
      interp_appender_cfg E s_rolling_file cfg <> Ok c).
Proof.
  repeat split.
  - exact (unknown_key_appender E).
  - exact (unknown_key_encoder E).
  - exact (unknown_key_policy E).
  - exact (unknown_key_trigger E).
  - exact (unknown_key_roller E).
Qed.

Lemma broken_appender_loads' E v r x :
  never_panics E -> interp_raw E v = Ok r -> In x (rw_appenders r) ->
  (forall c, interp_appender_cfg E (ar_kind (snd x)) (ar_cfg (snd x)) <> Ok c) ->
  load_strict E v = Err /\
  exists ld, load_lossy E v = Ok ld /\ In (EAppender (fst x)) (ld_derrs ld) /\
             (NoDup (map fst (rw_appenders r)) ->
              ~ In (fst x) (map a_name (ld_appenders ld)) /\ ~ In (fst x) (c_appenders (ld_config ld))).
Proof.
  intros HE Hr Hin Hx. apply (broken_appender_loads E v r x HE Hr Hin). now apply appender_not_ok_err.
Qed.

Lemma lossy_keeps_rest E v r kept derrs :
  interp_raw E v = Ok r -> appenders_lossy E (rw_appenders r) = Ok (kept, derrs) ->
  map a_name kept =
    map fst (filter (fun x => match interp_appender_cfg E (ar_kind (snd x)) (ar_cfg (snd x)) with
                              | Ok _ => true | _ => false end) (rw_appenders r)) /\
  load_lossy E v =
  let names := firsts [] (map a_name kept) in
  Ok {| ld_refresh := rw_refresh r; ld_appenders := kept; ld_derrs := derrs;
        ld_config := {| c_appenders := names; c_root_level := rw_root_level r;
                        c_root_apps := filter (resolves names) (rw_root_apps r);
                        c_loggers := fst (spec_loggers names [] (rw_loggers r)) |};
        ld_berrs := map DuplicateAppenderName (repeats [] (map a_name kept))
                    ++ map NonexistentAppender (filter (fun x => negb (resolves names x)) (rw_root_apps r))
                    ++ snd (spec_loggers names [] (rw_loggers r)) |}.
Proof.
  intros Hr Ha. split; [exact (kept_names E _ _ _ Ha)|exact (load_lossy_exact E v r kept derrs Hr Ha)].
Qed.
