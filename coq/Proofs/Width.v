(* C10 — spec and proofs for Model/Width.v.

   Part 1 (byte level, no precondition): for EVERY acceptance oracle, every
   writer stack and every pattern, `encode` is the same as feeding the stack
   below with a list of chunks computed by a pure function (`chunks_of`):
   MaxWidthWriter = `cut` (stop before the (r+1)-th lead byte), LeftAlign =
   append the fills, RightAlign = fills first, then the buffered blob.
   Part 2 (character level): when the text pieces are sequences of whole
   characters, those chunks are again sequences of whole characters and their
   concatenation is `fit m M fill align` of the characters.
   Part 3 (end of file): the unconditional law (pad, THEN truncate = `fit_code`,
   equal to `fit` when min <= max), at most M characters emitted, and
   preservation of any per-character predicate, in particular well-formed
   UTF-8 scalar values (`utf8_scalar`). *)
From Coq Require Import List NArith Bool Arith Lia.
Import ListNotations.
From L4 Require Import Model.Width.

(* ------------------------------------------------------------------ *)
(* spec vocabulary, byte level                                          *)

(* the longest prefix of x containing at most r lead bytes and not ending
   just before... : everything before the (r+1)-th lead byte *)
Fixpoint cut (r : nat) (x : bytes) : bytes :=
  match x with
  | [] => []
  | b :: t =>
    if is_boundary b then
      match r with 0 => [] | S r' => b :: cut r' t end
    else b :: cut r t
  end.

Fixpoint cut_chunks (r : nat) (cs : list bytes) : list bytes :=
  match cs with
  | [] => []
  | c :: t => cut r c :: cut_chunks (r - char_starts (cut r c)) t
  end.

(* write_all of each chunk in turn *)
Fixpoint feed (acc : oracle) (ls : list layer) (s : sink) (cs : list bytes)
  : option (list layer * sink) :=
  match cs with
  | [] => Some (ls, s)
  | c :: t => bind (write_all acc ls s c) (fun st => feed acc (fst st) (snd st) t)
  end.

Definition pad_chunks (p : params) (cs : list bytes) : list bytes :=
  match p_min p with
  | None => cs
  | Some m =>
    if p_right p then repeat (p_fill p) (m - char_starts (concat cs)) ++ [concat cs]
    else cs ++ repeat (p_fill p) (m - char_starts (concat cs))
  end.

Definition fit_chunks (p : params) (cs : list bytes) : list bytes :=
  match p_max p with
  | None => pad_chunks p cs
  | Some M => cut_chunks M (pad_chunks p cs)
  end.

Fixpoint chunks_of (q : pat) : list bytes :=
  match q with
  | PNil => []
  | PChunk c rest => c :: chunks_of rest
  | PGroup p body rest => fit_chunks p (chunks_of body) ++ chunks_of rest
  end.

Definition push (L : layer) (r : option (list layer * sink)) : option (list layer * sink) :=
  match r with
  | Some (l, s) => Some (L :: l, s)
  | None => None
  end.

(* ------------------------------------------------------------------ *)
(* char_starts / cut / mw_scan                                          *)

Lemma cs_app : forall a b, char_starts (a ++ b) = char_starts a + char_starts b.
Proof.
  induction a as [|x a IH]; intros b; cbn [char_starts app]; [reflexivity|].
  destruct (is_boundary x); rewrite IH; reflexivity.
Qed.

Lemma cs_firstn_skipn : forall k x, char_starts (firstn k x) + char_starts (skipn k x) = char_starts x.
Proof. intros k x. rewrite <- cs_app, firstn_skipn. reflexivity. Qed.

Lemma mw_scan_spec : forall buf r idx,
  mw_scan r buf idx = (idx + length (cut r buf), r - char_starts (cut r buf)).
Proof.
  induction buf as [|b t IH]; intros r idx; cbn [mw_scan cut].
  - cbn. f_equal; lia.
  - destruct (is_boundary b) eqn:Hb.
    + destruct r as [|r'].
      * cbn. f_equal; lia.
      * rewrite IH. cbn [length char_starts]. rewrite Hb. f_equal; lia.
    + rewrite IH. cbn [length char_starts]. rewrite Hb. f_equal; lia.
Qed.

Lemma cut_prefix : forall x r, firstn (length (cut r x)) x = cut r x.
Proof.
  induction x as [|b t IH]; intros r; cbn [cut]; [reflexivity|].
  destruct (is_boundary b).
  - destruct r; cbn [length firstn]; [reflexivity|]. rewrite IH. reflexivity.
  - cbn [length firstn]. rewrite IH. reflexivity.
Qed.

Lemma cut_length_le : forall x r, length (cut r x) <= length x.
Proof.
  induction x as [|b t IH]; intros r; cbn [cut]; [lia|].
  destruct (is_boundary b); [destruct r|]; cbn [length]; try lia;
    match goal with |- context [cut ?q t] => specialize (IH q) end; lia.
Qed.

Lemma cut_cs_le : forall x r, char_starts (cut r x) <= r.
Proof.
  induction x as [|b t IH]; intros r; cbn [cut]; [cbn; lia|].
  destruct (is_boundary b) eqn:Hb.
  - destruct r; cbn [char_starts]; [lia|]. rewrite Hb. specialize (IH r). lia.
  - cbn [char_starts]. rewrite Hb. apply IH.
Qed.

Lemma cut_all : forall x r, char_starts x <= r -> cut r x = x.
Proof.
  induction x as [|b t IH]; intros r H; cbn [cut]; [reflexivity|].
  cbn [char_starts] in H. destruct (is_boundary b).
  - destruct r; [lia|]. rewrite IH by lia. reflexivity.
  - rewrite IH by lia. reflexivity.
Qed.

Lemma cut_firstn : forall x r k, k <= length (cut r x) -> firstn k (cut r x) = firstn k x.
Proof.
  intros x r k H. rewrite <- (cut_prefix x r) at 1.
  rewrite firstn_firstn. f_equal. lia.
Qed.

(* the key lemma for short writes: after a prefix inside the cut has been
   accepted, scanning the rest with the reduced budget finds the same cut *)
Lemma cut_split : forall x r k, k <= length (cut r x) ->
  cut (r - char_starts (firstn k x)) (skipn k x) = skipn k (cut r x).
Proof.
  induction x as [|b t IH]; intros r k H.
  - destruct k; reflexivity.
  - destruct k as [|k].
    + cbn [firstn skipn char_starts]. rewrite Nat.sub_0_r. reflexivity.
    + cbn [cut] in *. cbn [firstn skipn char_starts].
      destruct (is_boundary b).
      * destruct r as [|r']; cbn [length] in H; [lia|].
        cbn [skipn]. rewrite <- IH by lia. f_equal.
      * cbn [length] in H. cbn [skipn]. rewrite <- IH by lia. reflexivity.
Qed.

Lemma cut_cut_chunks_cs : forall cs r, char_starts (concat (cut_chunks r cs)) <= r.
Proof.
  induction cs as [|c t IH]; intros r; cbn [cut_chunks concat]; [cbn; lia|].
  rewrite cs_app. pose proof (cut_cs_le c r). specialize (IH (r - char_starts (cut r c))). lia.
Qed.

(* ------------------------------------------------------------------ *)
(* write: progress; write_all: fuel                                     *)

Section Oracle.
Variable acc : oracle.

Lemma clamp_bounds : forall n k, 1 <= n -> 1 <= clamp n k <= n.
Proof. intros n k H. unfold clamp. lia. Qed.

Lemma write_progress : forall ls s buf k ls' s',
  write acc ls s buf = (k, ls', s') -> buf <> [] -> 1 <= k <= length buf.
Proof.
  induction ls as [|L inner IH]; intros s buf k ls' s' H Hne.
  - cbn [write sink_write] in H. inversion H; subst. apply clamp_bounds.
    destruct buf; [congruence|cbn; lia].
  - assert (Hlen : 1 <= length buf) by (destruct buf; [congruence|cbn; lia]).
    destruct L as [r|n f|n f b]; cbn [write] in H.
    + rewrite mw_scan_spec in H. cbn [Nat.add] in H.
      destruct (length (cut r buf) =? 0) eqn:E.
      * inversion H; subst. lia.
      * apply Nat.eqb_neq in E.
        destruct (write acc inner s (firstn (length (cut r buf)) buf)) as [[len inner'] s''] eqn:W.
        inversion H; subst.
        apply IH in W.
        -- rewrite firstn_length in W. pose proof (cut_length_le buf r). lia.
        -- intro Hnil. apply (f_equal (@length byte)) in Hnil.
           rewrite firstn_length in Hnil. pose proof (cut_length_le buf r). cbn in Hnil. lia.
    + destruct (write acc inner s buf) as [[len inner'] s''] eqn:W.
      inversion H; subst. eapply IH; eauto.
    + inversion H; subst. lia.
Qed.

Lemma wa_fuel : forall n buf, length buf <= n -> forall f ls s, length buf <= f ->
  wa_loop f acc ls s buf = wa_loop (length buf) acc ls s buf.
Proof.
  induction n as [|n IH]; intros buf Hn f ls s Hf.
  - destruct buf; [|cbn in Hn; lia]. destruct f; reflexivity.
  - destruct buf as [|b t]; [destruct f; reflexivity|].
    destruct f as [|f]; [cbn in Hf; lia|].
    cbn [length wa_loop].
    destruct (write acc ls s (b :: t)) as [[k ls'] s'] eqn:W.
    pose proof (write_progress _ _ _ _ _ _ W ltac:(congruence)) as P. cbn [length] in P, Hn, Hf.
    destruct (k =? 0) eqn:E; [reflexivity|].
    assert (Hs : length (skipn k (b :: t)) <= length t)
      by (rewrite skipn_length; cbn [length]; lia).
    rewrite (IH (skipn k (b :: t)) ltac:(lia) f) by lia.
    rewrite (IH (skipn k (b :: t)) ltac:(lia) (length t)) by lia. reflexivity.
Qed.

Lemma write_all_nil : forall ls s, write_all acc ls s [] = Some (ls, s).
Proof. reflexivity. Qed.

Lemma write_all_step : forall ls s buf k ls' s',
  buf <> [] -> write acc ls s buf = (k, ls', s') ->
  write_all acc ls s buf = write_all acc ls' s' (skipn k buf).
Proof.
  intros ls s buf k ls' s' Hne W. unfold write_all.
  pose proof (write_progress _ _ _ _ _ _ W Hne) as P.
  destruct buf as [|b t]; [congruence|]. cbn [length wa_loop]. rewrite W.
  replace (k =? 0) with false by (symmetry; apply Nat.eqb_neq; lia).
  apply (wa_fuel (length t)); rewrite skipn_length; cbn [length] in *; lia.
Qed.

(* induction principle: on the length of the offered buffer *)
Lemma buf_ind : forall P : bytes -> Prop,
  (forall buf, (forall buf', length buf' < length buf -> P buf') -> P buf) -> forall buf, P buf.
Proof.
  intros P H buf. remember (length buf) as n eqn:E. revert buf E.
  induction n as [n IH] using lt_wf_ind. intros buf E. apply H. intros buf' L.
  apply (IH (length buf')); [lia|reflexivity].
Qed.

Lemma skipn_shorter : forall (buf : bytes) k, 1 <= k -> buf <> [] -> length (skipn k buf) < length buf.
Proof.
  intros buf k Hk Hne. rewrite skipn_length. destruct buf; [congruence|cbn [length]; lia].
Qed.

(* write_all on any stack over any sink never fails and never runs out of fuel *)
Lemma write_all_total : forall buf ls s, exists st, write_all acc ls s buf = Some st.
Proof.
  induction buf as [buf IH] using buf_ind. intros ls s.
  destruct buf as [|b t] eqn:Eb; [eexists; reflexivity|]. rewrite <- Eb in *.
  assert (Hne : buf <> []) by (subst; congruence).
  destruct (write acc ls s buf) as [[k ls'] s'] eqn:W.
  pose proof (write_progress _ _ _ _ _ _ W Hne) as P.
  rewrite (write_all_step _ _ _ _ _ _ Hne W).
  apply IH. apply skipn_shorter; [lia|assumption].
Qed.

(* ---- one layer at a time ---- *)

Lemma base_write_all : forall buf s, exists s',
  write_all acc [] s buf = Some ([], s') /\ out s' = out s ++ buf.
Proof.
  induction buf as [buf IH] using buf_ind. intros s.
  destruct buf as [|b t] eqn:Eb.
  - exists s. split; [reflexivity|]. rewrite app_nil_r. reflexivity.
  - rewrite <- Eb in *. assert (Hne : buf <> []) by (subst; congruence).
    destruct (write acc [] s buf) as [[k ls'] s'] eqn:W.
    pose proof (write_progress _ _ _ _ _ _ W Hne) as P.
    rewrite (write_all_step _ _ _ _ _ _ Hne W).
    cbn [write sink_write] in W. inversion W; subst ls' s'. clear W.
    destruct (IH (skipn k buf) ltac:(apply skipn_shorter; [lia|assumption])
                 {| calls := S (calls s); out := out s ++ firstn k buf |}) as [s2 [E O]].
    exists s2. subst k. split; [exact E|]. rewrite O. cbn [out].
    rewrite <- app_assoc, firstn_skipn. reflexivity.
Qed.

Lemma left_write_all : forall buf n f ls s,
  write_all acc (LLeft n f :: ls) s buf =
  push (LLeft (n - char_starts buf) f) (write_all acc ls s buf).
Proof.
  induction buf as [buf IH] using buf_ind. intros n f ls s.
  destruct buf as [|b t] eqn:Eb.
  - cbn. rewrite Nat.sub_0_r. reflexivity.
  - rewrite <- Eb in *. assert (Hne : buf <> []) by (subst; congruence).
    destruct (write acc ls s buf) as [[k ls'] s'] eqn:W.
    pose proof (write_progress _ _ _ _ _ _ W Hne) as P.
    assert (W2 : write acc (LLeft n f :: ls) s buf =
                 (k, LLeft (n - char_starts (firstn k buf)) f :: ls', s'))
      by (cbn [write]; rewrite W; reflexivity).
    rewrite (write_all_step _ _ _ _ _ _ Hne W2), (write_all_step _ _ _ _ _ _ Hne W).
    rewrite IH by (apply skipn_shorter; [lia|assumption]).
    replace (n - char_starts (firstn k buf) - char_starts (skipn k buf)) with (n - char_starts buf)
      by (pose proof (cs_firstn_skipn k buf); lia).
    reflexivity.
Qed.

Lemma right_write_all : forall buf n f b ls s,
  write_all acc (LRight n f b :: ls) s buf =
  Some (LRight (n - char_starts buf) f (b ++ buf) :: ls, s).
Proof.
  intros buf n f b ls s. destruct buf as [|x t] eqn:Eb.
  - cbn. rewrite Nat.sub_0_r, app_nil_r. reflexivity.
  - rewrite <- Eb. assert (Hne : buf <> []) by (subst; congruence).
    rewrite (write_all_step _ _ _ (length buf) (LRight (n - char_starts buf) f (b ++ buf) :: ls) s Hne)
      by reflexivity.
    rewrite skipn_all. reflexivity.
Qed.

Lemma max_write_all : forall buf r ls s,
  write_all acc (LMax r :: ls) s buf =
  push (LMax (r - char_starts (cut r buf))) (write_all acc ls s (cut r buf)).
Proof.
  induction buf as [buf IH] using buf_ind. intros r ls s.
  destruct buf as [|b0 t0] eqn:Eb.
  - cbn. rewrite Nat.sub_0_r. reflexivity.
  - rewrite <- Eb in *. assert (Hne : buf <> []) by (subst; congruence).
    destruct (length (cut r buf) =? 0) eqn:E0.
    + (* the writer is a sink: everything is swallowed *)
      apply Nat.eqb_eq in E0.
      assert (W : write acc (LMax r :: ls) s buf = (length buf, LMax r :: ls, s))
        by (cbn [write]; rewrite mw_scan_spec; cbn [Nat.add]; rewrite E0; reflexivity).
      rewrite (write_all_step _ _ _ _ _ _ Hne W), skipn_all.
      apply length_zero_iff_nil in E0. rewrite E0. cbn. rewrite Nat.sub_0_r. reflexivity.
    + apply Nat.eqb_neq in E0.
      remember (cut r buf) as c eqn:Ec.
      assert (Hc : c <> []) by (intro Hn; rewrite Hn in E0; cbn in E0; lia).
      assert (Hpre : firstn (length c) buf = c) by (subst c; apply cut_prefix).
      destruct (write acc ls s c) as [[k ls'] s'] eqn:Wi.
      pose proof (write_progress _ _ _ _ _ _ Wi Hc) as P.
      assert (Hfk : firstn k c = firstn k buf) by (subst c; apply cut_firstn; lia).
      assert (W : write acc (LMax r :: ls) s buf =
                  (k, LMax (r - char_starts (firstn k buf)) :: ls', s')).
      { cbn [write]. rewrite mw_scan_spec. cbn [Nat.add]. rewrite <- Ec.
        replace (length c =? 0) with false by (symmetry; apply Nat.eqb_neq; lia).
        rewrite Hpre, Wi, Hfk.
        destruct (k =? length c) eqn:Ek; [|reflexivity].
        apply Nat.eqb_eq in Ek. rewrite <- Hfk, Ek, firstn_all. reflexivity. }
      rewrite (write_all_step _ _ _ _ _ _ Hne W), (write_all_step _ _ _ _ _ _ Hc Wi).
      rewrite IH by (apply skipn_shorter; [lia|assumption]).
      rewrite cut_split by (rewrite <- Ec; lia). rewrite <- Ec.
      replace (r - char_starts (firstn k buf) - char_starts (skipn k c)) with (r - char_starts c).
      * reflexivity.
      * pose proof (cs_firstn_skipn k c) as H. rewrite Hfk in H. lia.
Qed.

(* the subtraction `self.remaining -= char_starts(&buf[..len])` cannot underflow:
   whatever prefix of the forwarded slice the writer below accepts *)
Lemma max_sub_no_underflow : forall r buf len,
  len <= length (cut r buf) -> char_starts (firstn len (cut r buf)) <= r.
Proof.
  intros r buf len H. pose proof (cs_firstn_skipn len (cut r buf)). pose proof (cut_cs_le buf r). lia.
Qed.

(* ---- chunk lists ---- *)

Lemma feed_app : forall a b ls s,
  feed acc ls s (a ++ b) = bind (feed acc ls s a) (fun st => feed acc (fst st) (snd st) b).
Proof.
  induction a as [|c a IH]; intros b ls s; cbn [app feed]; [reflexivity|].
  destruct (write_all acc ls s c) as [[l1 s1]|]; cbn [bind fst snd]; [apply IH|reflexivity].
Qed.

Lemma feed_total : forall cs ls s, exists st, feed acc ls s cs = Some st.
Proof.
  induction cs as [|c t IH]; intros ls s; cbn [feed]; [eexists; reflexivity|].
  destruct (write_all_total c ls s) as [[l1 s1] E]. rewrite E. cbn [bind fst snd]. apply IH.
Qed.

Lemma base_feed : forall cs s, exists s',
  feed acc [] s cs = Some ([], s') /\ out s' = out s ++ concat cs.
Proof.
  induction cs as [|c t IH]; intros s; cbn [feed concat].
  - exists s. rewrite app_nil_r. split; reflexivity.
  - destruct (base_write_all c s) as [s1 [E O]]. rewrite E. cbn [bind fst snd].
    destruct (IH s1) as [s2 [E2 O2]]. exists s2. split; [exact E2|].
    rewrite O2, O, app_assoc. reflexivity.
Qed.

Lemma left_feed : forall cs n f ls s,
  feed acc (LLeft n f :: ls) s cs =
  push (LLeft (n - char_starts (concat cs)) f) (feed acc ls s cs).
Proof.
  induction cs as [|c t IH]; intros n f ls s; cbn [feed concat].
  - cbn. rewrite Nat.sub_0_r. reflexivity.
  - rewrite left_write_all.
    destruct (write_all acc ls s c) as [[l1 s1]|]; cbn [push bind fst snd]; [|reflexivity].
    rewrite IH, cs_app. replace (n - char_starts c - char_starts (concat t))
      with (n - (char_starts c + char_starts (concat t))) by lia. reflexivity.
Qed.

Lemma right_feed : forall cs n f b ls s,
  feed acc (LRight n f b :: ls) s cs =
  Some (LRight (n - char_starts (concat cs)) f (b ++ concat cs) :: ls, s).
Proof.
  induction cs as [|c t IH]; intros n f b ls s; cbn [feed concat].
  - cbn. rewrite Nat.sub_0_r, app_nil_r. reflexivity.
  - rewrite right_write_all. cbn [bind fst snd]. rewrite IH, cs_app, app_assoc.
    replace (n - char_starts c - char_starts (concat t))
      with (n - (char_starts c + char_starts (concat t))) by lia. reflexivity.
Qed.

Lemma max_feed : forall cs r ls s,
  feed acc (LMax r :: ls) s cs =
  push (LMax (r - char_starts (concat (cut_chunks r cs)))) (feed acc ls s (cut_chunks r cs)).
Proof.
  induction cs as [|c t IH]; intros r ls s; cbn [feed concat cut_chunks].
  - cbn. rewrite Nat.sub_0_r. reflexivity.
  - rewrite max_write_all.
    destruct (write_all acc ls s (cut r c)) as [[l1 s1]|]; cbn [push bind fst snd]; [|reflexivity].
    rewrite IH, cs_app.
    replace (r - char_starts (cut r c) - char_starts (concat (cut_chunks (r - char_starts (cut r c)) t)))
      with (r - (char_starts (cut r c) + char_starts (concat (cut_chunks (r - char_starts (cut r c)) t))))
      by lia.
    reflexivity.
Qed.

Lemma pad_loop_feed : forall n ls s f, pad_loop n acc ls s f = feed acc ls s (repeat f n).
Proof.
  induction n as [|n IH]; intros ls s f; cbn [pad_loop repeat feed]; [reflexivity|].
  destruct (write_all acc ls s f) as [[l1 s1]|]; cbn [bind fst snd]; [apply IH|reflexivity].
Qed.

Lemma bind_push_drop_max : forall L r,
  (exists k, L = LMax k) -> bind (push L r) drop_max = r.
Proof.
  intros L r [k ->]. destruct r as [[l s]|]; reflexivity.
Qed.

Lemma finish_left : forall n f r,
  bind (push (LLeft n f) r) (fun st => finish acc (fst st) (snd st)) =
  bind r (fun st => feed acc (fst st) (snd st) (repeat f n)).
Proof.
  intros n f r. destruct r as [[l s]|]; cbn [push bind fst snd finish]; [|reflexivity].
  apply pad_loop_feed.
Qed.

Lemma finish_right : forall n f b ls s,
  finish acc (LRight n f b :: ls) s = feed acc ls s (repeat f n ++ [b]).
Proof.
  intros n f b ls s. cbn [finish]. rewrite pad_loop_feed, feed_app.
  destruct (feed acc ls s (repeat f n)) as [[l1 s1]|]; cbn [bind fst snd feed]; [|reflexivity].
  destruct (write_all acc l1 s1 b) as [[l2 s2]|]; reflexivity.
Qed.

(* ---- patterns: encode = feed the chunks of the pattern ---- *)

Lemma group_feed : forall p cs ls s,
  (match p_min p, p_max p, p_right p with
   | None, None, _ => feed acc ls s cs
   | None, Some M, _ => bind (feed acc (LMax M :: ls) s cs) drop_max
   | Some m, None, false =>
     bind (feed acc (LLeft m (p_fill p) :: ls) s cs) (fun st => finish acc (fst st) (snd st))
   | Some m, None, true =>
     bind (feed acc (LRight m (p_fill p) [] :: ls) s cs) (fun st => finish acc (fst st) (snd st))
   | Some m, Some M, false =>
     bind (bind (feed acc (LLeft m (p_fill p) :: LMax M :: ls) s cs)
                (fun st => finish acc (fst st) (snd st))) drop_max
   | Some m, Some M, true =>
     bind (bind (feed acc (LRight m (p_fill p) [] :: LMax M :: ls) s cs)
                (fun st => finish acc (fst st) (snd st))) drop_max
   end) = feed acc ls s (fit_chunks p cs).
Proof.
  intros p cs ls s. unfold fit_chunks, pad_chunks.
  destruct (p_min p) as [m|], (p_max p) as [M|], (p_right p).
  - (* right, both *)
    rewrite right_feed. cbn [bind fst snd app]. rewrite finish_right, max_feed.
    apply bind_push_drop_max. eexists; reflexivity.
  - (* left, both *)
    rewrite left_feed, finish_left, <- feed_app, max_feed.
    apply bind_push_drop_max. eexists; reflexivity.
  - rewrite right_feed. cbn [bind fst snd app]. apply finish_right.
  - rewrite left_feed, finish_left, <- feed_app. reflexivity.
  - rewrite max_feed. apply bind_push_drop_max. eexists; reflexivity.
  - rewrite max_feed. apply bind_push_drop_max. eexists; reflexivity.
  - reflexivity.
  - reflexivity.
Qed.

Theorem encode_feed : forall q ls s, encode acc q ls s = feed acc ls s (chunks_of q).
Proof.
  induction q as [|c rest IH|p body IHb rest IHr]; intros ls s; cbn [encode chunks_of feed].
  - reflexivity.
  - destruct (write_all acc ls s c) as [[l1 s1]|]; cbn [bind fst snd]; [apply IH|reflexivity].
  - rewrite feed_app, <- group_feed.
    destruct (p_min p) as [m|], (p_max p) as [M|], (p_right p); rewrite IHb;
      (match goal with |- bind ?a _ = bind _ _ => destruct a as [[l1 s1]|] end;
       cbn [bind fst snd]; [apply IHr|reflexivity]).
Qed.

Theorem run_pattern_bytes : forall q, run_pattern acc q = Some (concat (chunks_of q)).
Proof.
  intros q. unfold run_pattern. rewrite encode_feed.
  destruct (base_feed (chunks_of q) {| calls := 0; out := [] |}) as [s' [E O]].
  rewrite E, O. reflexivity.
Qed.

End Oracle.

(* ------------------------------------------------------------------ *)
(* character level                                                      *)

(* A character is given by its UTF-8 byte sequence: one lead (boundary) byte
   followed by continuation (non-boundary) bytes.  Text = list of characters;
   its encoding is the concatenation. *)
Definition uchar := bytes.
Definition text := list uchar.
Definition encs : text -> bytes := @concat byte.

Definition uchar_ok (u : uchar) : Prop :=
  match u with
  | [] => False
  | b :: t => is_boundary b = true /\ Forall (fun c => is_boundary c = false) t
  end.

(* the law of the property: cut to the first M characters, then pad with the
   fill character on the chosen side up to m characters *)
Definition pad (m : option nat) (fill : uchar) (right : bool) (l : text) : text :=
  match m with
  | None => l
  | Some m =>
    if right then repeat fill (m - length l) ++ l else l ++ repeat fill (m - length l)
  end.

Definition trunc (M : option nat) (l : text) : text :=
  match M with None => l | Some M => firstn M l end.

Definition fit (m M : option nat) (fill : uchar) (right : bool) (l : text) : text :=
  pad m fill right (trunc M l).

Definition fitp (p : params) (l : text) : text := fit (p_min p) (p_max p) (p_fill p) (p_right p) l.

Definition widths_ok (p : params) : Prop :=
  match p_min p, p_max p with Some m, Some M => m <= M | _, _ => True end.

(* patterns whose chunks are sequences of whole characters *)
Inductive cpat :=
| CNil
| CChunk (l : text) (rest : cpat)
| CGroup (p : params) (body : cpat) (rest : cpat).

Fixpoint bytes_of (t : cpat) : pat :=
  match t with
  | CNil => PNil
  | CChunk l rest => PChunk (encs l) (bytes_of rest)
  | CGroup p body rest => PGroup p (bytes_of body) (bytes_of rest)
  end.

(* the meaning of a pattern on characters: the law applied at every group *)
Fixpoint meaning (t : cpat) : text :=
  match t with
  | CNil => []
  | CChunk l rest => l ++ meaning rest
  | CGroup p body rest => fitp p (meaning body) ++ meaning rest
  end.

Fixpoint chars_ok (t : cpat) : Prop :=
  match t with
  | CNil => True
  | CChunk l rest => Forall uchar_ok l /\ chars_ok rest
  | CGroup p body rest => uchar_ok (p_fill p) /\ chars_ok body /\ chars_ok rest
  end.

Fixpoint all_widths_ok (t : cpat) : Prop :=
  match t with
  | CNil => True
  | CChunk _ rest => all_widths_ok rest
  | CGroup p body rest => widths_ok p /\ all_widths_ok body /\ all_widths_ok rest
  end.

Fixpoint cchunks (css : list text) : cpat :=
  match css with
  | [] => CNil
  | l :: t => CChunk l (cchunks t)
  end.

(* character-level counterparts of cut_chunks / fit_chunks / chunks_of *)
Fixpoint cutc (r : nat) (css : list text) : list text :=
  match css with
  | [] => []
  | l :: t => firstn r l :: cutc (r - length (firstn r l)) t
  end.

Definition cpad_chunks (p : params) (css : list text) : list text :=
  match p_min p with
  | None => css
  | Some m =>
    if p_right p then repeat [p_fill p] (m - length (concat css)) ++ [concat css]
    else css ++ repeat [p_fill p] (m - length (concat css))
  end.

Definition cfit_chunks (p : params) (css : list text) : list text :=
  match p_max p with
  | None => cpad_chunks p css
  | Some M => cutc M (cpad_chunks p css)
  end.

Fixpoint cchunks_of (t : cpat) : list text :=
  match t with
  | CNil => []
  | CChunk l rest => l :: cchunks_of rest
  | CGroup p body rest => cfit_chunks p (cchunks_of body) ++ cchunks_of rest
  end.

(* ---- generic list facts ---- *)

Lemma Forall_firstn_ : forall {A} (P : A -> Prop) n l, Forall P l -> Forall P (firstn n l).
Proof.
  intros A P n l H. revert n. induction H as [|x l Hx Hl IH]; intros [|n]; cbn [firstn]; auto.
Qed.

Lemma Forall_concat_ : forall {A} (P : A -> Prop) ll, Forall (Forall P) ll -> Forall P (concat ll).
Proof.
  intros A P ll H. induction H as [|l ll Hl Hll IH]; cbn [concat]; [constructor|].
  apply Forall_app. split; assumption.
Qed.

Lemma Forall_repeat_ : forall {A} (P : A -> Prop) x n, P x -> Forall P (repeat x n).
Proof. intros A P x n H. induction n; cbn [repeat]; constructor; assumption. Qed.

Lemma map_repeat_ : forall {A B} (f : A -> B) x n, map f (repeat x n) = repeat (f x) n.
Proof. intros A B f x n. induction n; cbn [repeat map]; [reflexivity|]. rewrite IHn. reflexivity. Qed.

Lemma concat_concat_map : forall {A} (lll : list (list (list A))),
  concat (map (@concat A) lll) = concat (concat lll).
Proof.
  intros A lll. induction lll as [|ll t IH]; cbn [map concat]; [reflexivity|].
  rewrite concat_app, IH. reflexivity.
Qed.

(* stated on `text`/`encs` so that rewriting does not depend on how the
   implicit type arguments of map/concat are displayed (uchar = bytes = list N) *)
Lemma encs_concat : forall css : list text, concat (map encs css) = encs (concat css).
Proof.
  induction css as [|l t IH]; cbn [map concat]; [reflexivity|].
  unfold encs in *. rewrite concat_app, IH. reflexivity.
Qed.

Lemma concat_repeat_single : forall {A} (x : A) n, concat (repeat [x] n) = repeat x n.
Proof. intros A x n. induction n; cbn [repeat concat]; [reflexivity|]. rewrite IHn. reflexivity. Qed.

(* ---- lead bytes count characters; cut cuts between characters ---- *)

Lemma cs_conts_app : forall t x, Forall (fun c => is_boundary c = false) t ->
  char_starts (t ++ x) = char_starts x.
Proof.
  intros t x H. induction H as [|b t Hb Ht IH]; cbn [app char_starts]; [reflexivity|].
  rewrite Hb. exact IH.
Qed.

Lemma cut_conts_app : forall t x r, Forall (fun c => is_boundary c = false) t ->
  cut r (t ++ x) = t ++ cut r x.
Proof.
  intros t x r H. induction H as [|b t Hb Ht IH]; cbn [app cut]; [reflexivity|].
  rewrite Hb, IH. reflexivity.
Qed.

Lemma cs_uchar_app : forall u x, uchar_ok u -> char_starts (u ++ x) = S (char_starts x).
Proof.
  intros [|b t] x H; [destruct H|]. destruct H as [Hb Ht].
  cbn [app char_starts]. rewrite Hb, cs_conts_app by assumption. reflexivity.
Qed.

Lemma cut_uchar_S : forall u x r, uchar_ok u -> cut (S r) (u ++ x) = u ++ cut r x.
Proof.
  intros [|b t] x r H; [destruct H|]. destruct H as [Hb Ht].
  cbn [app cut]. rewrite Hb, cut_conts_app by assumption. reflexivity.
Qed.

Lemma cut_uchar_0 : forall u x, uchar_ok u -> cut 0 (u ++ x) = [].
Proof.
  intros [|b t] x H; [destruct H|]. destruct H as [Hb Ht]. cbn [app cut]. rewrite Hb. reflexivity.
Qed.

(* char_starts counts Unicode scalar values, not bytes *)
Lemma cs_encs : forall l, Forall uchar_ok l -> char_starts (encs l) = length l.
Proof.
  intros l H. induction H as [|u l Hu Hl IH]; [reflexivity|].
  unfold encs in *. cbn [concat length]. rewrite cs_uchar_app, IH by assumption. reflexivity.
Qed.

Lemma cut_encs : forall l r, Forall uchar_ok l -> cut r (encs l) = encs (firstn r l).
Proof.
  intros l r H. revert r. induction H as [|u l Hu Hl IH]; intros r.
  - destruct r; reflexivity.
  - unfold encs in *. destruct r as [|r]; cbn [concat firstn].
    + apply cut_uchar_0. assumption.
    + rewrite cut_uchar_S, IH by assumption. reflexivity.
Qed.

Lemma cut_chunks_aligned : forall css r, Forall (Forall uchar_ok) css ->
  cut_chunks r (map encs css) = map encs (cutc r css).
Proof.
  intros css r H. revert r. induction H as [|l css Hl Hcss IH]; intros r; cbn [map cut_chunks cutc].
  - reflexivity.
  - rewrite cut_encs by assumption. rewrite cs_encs by (apply Forall_firstn_; assumption).
    rewrite IH. reflexivity.
Qed.

Lemma Forall_cutc : forall css r, Forall (Forall uchar_ok) css -> Forall (Forall uchar_ok) (cutc r css).
Proof.
  intros css r H. revert r. induction H as [|l css Hl Hcss IH]; intros r; cbn [cutc]; constructor.
  - apply Forall_firstn_. assumption.
  - apply IH.
Qed.

Lemma concat_cutc : forall css r, concat (cutc r css) = firstn r (concat css).
Proof.
  induction css as [|l t IH]; intros r; cbn [cutc concat].
  - rewrite firstn_nil. reflexivity.
  - rewrite firstn_app, IH. f_equal. f_equal. rewrite firstn_length. lia.
Qed.

(* truncation and padding commute when m <= M *)
Lemma firstn_pad : forall m M f right (l : text), m <= M ->
  firstn M (pad (Some m) f right l) = pad (Some m) f right (firstn M l).
Proof.
  intros m M f right l H. unfold pad. destruct right.
  - destruct (Nat.le_gt_cases m (length l)) as [C|C].
    + replace (m - length l) with 0 by lia. cbn [repeat app].
      rewrite firstn_length. replace (m - Nat.min M (length l)) with 0 by lia. reflexivity.
    + rewrite (firstn_all2 l) by lia.
      apply firstn_all2. rewrite app_length, repeat_length. lia.
  - destruct (Nat.le_gt_cases M (length l)) as [C|C].
    + rewrite firstn_app. replace (M - length l) with 0 by lia. cbn [firstn].
      rewrite firstn_length. replace (m - Nat.min M (length l)) with 0 by lia. reflexivity.
    + rewrite (firstn_all2 l) by lia.
      apply firstn_all2. rewrite app_length, repeat_length. lia.
Qed.

Lemma pad_chunks_aligned : forall p css,
  uchar_ok (p_fill p) -> Forall (Forall uchar_ok) css ->
  pad_chunks p (map encs css) = map encs (cpad_chunks p css)
  /\ Forall (Forall uchar_ok) (cpad_chunks p css).
Proof.
  intros p css Hf H. unfold pad_chunks, cpad_chunks.
  assert (Hcc : Forall uchar_ok (concat css)) by (apply Forall_concat_; assumption).
  assert (Hn : char_starts (concat (map encs css)) = length (concat css)).
  { rewrite encs_concat. apply cs_encs. assumption. }
  assert (Hfill : forall k, repeat (p_fill p) k = map encs (repeat [p_fill p] k)).
  { intros k. rewrite map_repeat_. unfold encs. cbn [concat]. rewrite app_nil_r. reflexivity. }
  assert (Hpad : forall k, Forall (Forall uchar_ok) (repeat [p_fill p] k)).
  { intros k. apply Forall_repeat_. constructor; [assumption|constructor]. }
  destruct (p_min p) as [m|]; [|split; [reflexivity|assumption]].
  rewrite Hn. destruct (p_right p).
  - split.
    + rewrite map_app, <- Hfill. cbn [map]. rewrite encs_concat. reflexivity.
    + apply Forall_app. split; [apply Hpad|]. constructor; [assumption|constructor].
  - split.
    + rewrite map_app, <- Hfill. reflexivity.
    + apply Forall_app. split; [assumption|apply Hpad].
Qed.

Lemma fit_chunks_aligned : forall p css,
  uchar_ok (p_fill p) -> Forall (Forall uchar_ok) css ->
  fit_chunks p (map encs css) = map encs (cfit_chunks p css)
  /\ Forall (Forall uchar_ok) (cfit_chunks p css).
Proof.
  intros p css Hf H. unfold fit_chunks, cfit_chunks.
  destruct (pad_chunks_aligned p css Hf H) as [Hp1 Hp2]. rewrite Hp1.
  destruct (p_max p) as [M|].
  - split; [apply cut_chunks_aligned; assumption|apply Forall_cutc; assumption].
  - split; [reflexivity|assumption].
Qed.

Lemma concat_cpad_chunks : forall p css,
  concat (cpad_chunks p css) = pad (p_min p) (p_fill p) (p_right p) (concat css).
Proof.
  intros p css. unfold cpad_chunks, pad. destruct (p_min p) as [m|]; [|reflexivity].
  destruct (p_right p); rewrite concat_app, concat_repeat_single; [|reflexivity].
  cbn [concat]. rewrite app_nil_r. reflexivity.
Qed.

Lemma concat_cfit_chunks : forall p css, widths_ok p ->
  concat (cfit_chunks p css) = fitp p (concat css).
Proof.
  intros p css Hw. unfold cfit_chunks, fitp, fit, widths_ok in *.
  destruct (p_max p) as [M|]; cbn [trunc].
  - rewrite concat_cutc, concat_cpad_chunks. destruct (p_min p) as [m|]; [|reflexivity].
    apply firstn_pad. assumption.
  - apply concat_cpad_chunks.
Qed.

Lemma chunks_aligned : forall t, chars_ok t ->
  chunks_of (bytes_of t) = map encs (cchunks_of t) /\ Forall (Forall uchar_ok) (cchunks_of t).
Proof.
  induction t as [|l rest IH|p body IHb rest IHr]; intros H; cbn [chars_ok] in H;
    cbn [bytes_of chunks_of cchunks_of map].
  - split; [reflexivity|constructor].
  - destruct H as [Hl Hr]. destruct (IH Hr) as [E F]. split.
    + rewrite E. reflexivity.
    + constructor; assumption.
  - destruct H as [Hf [Hb Hr]]. destruct (IHb Hb) as [Eb Fb]. destruct (IHr Hr) as [Er Fr].
    destruct (fit_chunks_aligned p (cchunks_of body) Hf Fb) as [E F]. split.
    + rewrite Eb, Er, E, map_app. reflexivity.
    + apply Forall_app. split; assumption.
Qed.

Lemma concat_cchunks_of : forall t, all_widths_ok t -> concat (cchunks_of t) = meaning t.
Proof.
  induction t as [|l rest IH|p body IHb rest IHr]; intros H; cbn [all_widths_ok] in H;
    cbn [cchunks_of meaning concat].
  - reflexivity.
  - rewrite IH by assumption. reflexivity.
  - destruct H as [Hp [Hb Hr]].
    rewrite concat_app, concat_cfit_chunks, IHb, IHr by assumption. reflexivity.
Qed.

Lemma pad_ok : forall m f right l, uchar_ok f -> Forall uchar_ok l -> Forall uchar_ok (pad m f right l).
Proof.
  intros m f right l Hf Hl. unfold pad. destruct m as [m|]; [|assumption].
  destruct right; apply Forall_app; split; try assumption; apply Forall_repeat_; assumption.
Qed.

Lemma meaning_ok : forall t, chars_ok t -> Forall uchar_ok (meaning t).
Proof.
  induction t as [|l rest IH|p body IHb rest IHr]; intros H; cbn [chars_ok] in H; cbn [meaning].
  - constructor.
  - destruct H as [Hl Hr]. apply Forall_app. split; [assumption|apply IH; assumption].
  - destruct H as [Hf [Hb Hr]]. apply Forall_app. split; [|apply IHr; assumption].
    unfold fitp, fit. apply pad_ok; [assumption|].
    unfold trunc. destruct (p_max p); [apply Forall_firstn_|]; apply IHb; assumption.
Qed.

(* ------------------------------------------------------------------ *)
(* headline theorems                                                    *)

(* the law composes: under ANY stack of outer writers, over any sink, a
   character-aligned pattern behaves as a sequence of write_all calls whose
   arguments are sequences of whole characters — exactly the precondition it
   needed itself — and which concatenate to its meaning *)
Theorem fit_nested : forall acc t ls s, chars_ok t ->
  encode acc (bytes_of t) ls s = feed acc ls s (map encs (cchunks_of t))
  /\ Forall (Forall uchar_ok) (cchunks_of t)
  /\ (all_widths_ok t -> concat (cchunks_of t) = meaning t).
Proof.
  intros acc t ls s H. destruct (chunks_aligned t H) as [E F].
  rewrite encode_feed, E. split; [reflexivity|]. split; [assumption|apply concat_cchunks_of].
Qed.

Theorem pattern_meaning : forall acc t, chars_ok t -> all_widths_ok t ->
  run_pattern acc (bytes_of t) = Some (encs (meaning t)).
Proof.
  intros acc t H W. rewrite run_pattern_bytes. destruct (chunks_aligned t H) as [E F].
  rewrite E, encs_concat, concat_cchunks_of by assumption. reflexivity.
Qed.

(* valid UTF-8 is preserved even when some group has min > max *)
Theorem never_splits_a_char : forall acc t, chars_ok t ->
  exists l, Forall uchar_ok l /\ run_pattern acc (bytes_of t) = Some (encs l).
Proof.
  intros acc t H. destruct (chunks_aligned t H) as [E F].
  exists (concat (cchunks_of t)). split; [apply Forall_concat_; assumption|].
  rewrite run_pattern_bytes, E, encs_concat. reflexivity.
Qed.

Lemma meaning_cchunks : forall css, meaning (cchunks css) = concat css.
Proof. induction css as [|l t IH]; cbn [cchunks meaning concat]; [reflexivity|]. rewrite IH. reflexivity. Qed.

Lemma chars_ok_cchunks : forall css, Forall (Forall uchar_ok) css -> chars_ok (cchunks css).
Proof. intros css H. induction H; cbn [cchunks chars_ok]; auto. Qed.

Lemma widths_ok_cchunks : forall css, all_widths_ok (cchunks css).
Proof. induction css; cbn [cchunks all_widths_ok]; auto. Qed.

(* one formatted chunk {m:SPEC} whose formatter writes the pieces css *)
Theorem single_spec_correct : forall acc p css,
  Forall (Forall uchar_ok) css -> uchar_ok (p_fill p) -> widths_ok p ->
  run_pattern acc (bytes_of (CGroup p (cchunks css) CNil)) = Some (encs (fitp p (concat css))).
Proof.
  intros acc p css H Hf Hw. rewrite pattern_meaning.
  - cbn [meaning]. rewrite meaning_cchunks, app_nil_r. reflexivity.
  - cbn [chars_ok]. auto using chars_ok_cchunks.
  - cbn [all_widths_ok]. auto using widths_ok_cchunks.
Qed.

Lemma fit_length_le : forall m M f right (l : text), (match m with Some m => m <= M | None => True end) ->
  length (fit m (Some M) f right l) <= M.
Proof.
  intros m M f right l H. unfold fit, pad, trunc.
  pose proof (firstn_le_length M l) as L.
  destruct m as [m|]; [|assumption].
  destruct right; rewrite app_length, repeat_length; lia.
Qed.

(* byte level, no hypothesis at all (not even min <= max, nor aligned chunks):
   what a group with max width M hands to the writer below has at most M lead bytes *)
Lemma fit_chunks_at_most : forall p M cs, p_max p = Some M ->
  char_starts (concat (fit_chunks p cs)) <= M.
Proof.
  intros p M cs H. unfold fit_chunks. rewrite H. apply cut_cut_chunks_cs.
Qed.

(* the three writers, one at a time (instances of single_spec_correct) *)
Theorem maxwidth_correct : forall acc M f right css,
  Forall (Forall uchar_ok) css -> uchar_ok f ->
  run_pattern acc (bytes_of (CGroup {| p_min := None; p_max := Some M; p_right := right; p_fill := f |}
                                    (cchunks css) CNil))
  = Some (encs (firstn M (concat css))).
Proof.
  intros acc M f right css H Hf. rewrite single_spec_correct; auto. exact I.
Qed.

Theorem left_align_correct : forall acc m oM f css,
  Forall (Forall uchar_ok) css -> uchar_ok f ->
  (match oM with Some M => m <= M | None => True end) ->
  run_pattern acc (bytes_of (CGroup {| p_min := Some m; p_max := oM; p_right := false; p_fill := f |}
                                    (cchunks css) CNil))
  = Some (encs (fit (Some m) oM f false (concat css))).
Proof.
  intros acc m oM f css H Hf Hw. rewrite single_spec_correct; auto.
Qed.

Theorem right_align_correct : forall acc m oM f css,
  Forall (Forall uchar_ok) css -> uchar_ok f ->
  (match oM with Some M => m <= M | None => True end) ->
  run_pattern acc (bytes_of (CGroup {| p_min := Some m; p_max := oM; p_right := true; p_fill := f |}
                                    (cchunks css) CNil))
  = Some (encs (fit (Some m) oM f true (concat css))).
Proof.
  intros acc m oM f css H Hf Hw. rewrite single_spec_correct; auto.
Qed.

(* ------------------------------------------------------------------ *)
(* no hypothesis on the widths: what the code does in general is PAD, THEN
   TRUNCATE (the padding goes through the max-width layer); for min <= max this
   is the law `fit` (firstn_pad), for min > max it is not (Props: example).     *)

Definition fit_code (p : params) (l : text) : text :=
  trunc (p_max p) (pad (p_min p) (p_fill p) (p_right p) l).

Lemma concat_cfit_chunks_gen : forall p css, concat (cfit_chunks p css) = fit_code p (concat css).
Proof.
  intros p css. unfold cfit_chunks, fit_code.
  destruct (p_max p) as [M|]; cbn [trunc].
  - rewrite concat_cutc, concat_cpad_chunks. reflexivity.
  - apply concat_cpad_chunks.
Qed.

Lemma fit_code_fitp : forall p l, widths_ok p -> fit_code p l = fitp p l.
Proof.
  intros p l H. unfold fit_code, fitp, fit, widths_ok in *.
  destruct (p_max p) as [M|]; cbn [trunc]; [|reflexivity].
  destruct (p_min p) as [m|]; [|reflexivity]. apply firstn_pad. assumption.
Qed.

Fixpoint meaning_code (t : cpat) : text :=
  match t with
  | CNil => []
  | CChunk l rest => l ++ meaning_code rest
  | CGroup p body rest => fit_code p (meaning_code body) ++ meaning_code rest
  end.

Lemma concat_cchunks_of_gen : forall t, concat (cchunks_of t) = meaning_code t.
Proof.
  induction t as [|l rest IH|p body IHb rest IHr]; cbn [cchunks_of meaning_code concat].
  - reflexivity.
  - rewrite IH. reflexivity.
  - rewrite concat_app, concat_cfit_chunks_gen, IHb, IHr. reflexivity.
Qed.

Theorem pattern_meaning_code : forall acc t, chars_ok t ->
  run_pattern acc (bytes_of t) = Some (encs (meaning_code t)).
Proof.
  intros acc t H. rewrite run_pattern_bytes. destruct (chunks_aligned t H) as [E F].
  rewrite E, encs_concat, concat_cchunks_of_gen. reflexivity.
Qed.

Lemma fit_code_length_le : forall p M l, p_max p = Some M -> length (fit_code p l) <= M.
Proof.
  intros p M l H. unfold fit_code. rewrite H. cbn [trunc]. apply firstn_le_length.
Qed.

(* a group with max width M emits the encoding of at most M whole characters,
   whatever its body (nested groups included), whatever min / alignment / fill *)
Theorem at_most_M_chars_emitted : forall acc p M body,
  chars_ok (CGroup p body CNil) -> p_max p = Some M ->
  exists l, Forall uchar_ok l /\ length l <= M
            /\ run_pattern acc (bytes_of (CGroup p body CNil)) = Some (encs l).
Proof.
  intros acc p M body H HM. exists (fit_code p (meaning_code body)). split; [|split].
  - destruct (chunks_aligned _ H) as [_ F]. apply Forall_concat_ in F.
    rewrite concat_cchunks_of_gen in F. cbn [meaning_code] in F. rewrite app_nil_r in F. exact F.
  - apply fit_code_length_le. assumption.
  - rewrite pattern_meaning_code by assumption. cbn [meaning_code]. rewrite app_nil_r. reflexivity.
Qed.

(* ------------------------------------------------------------------ *)
(* the characters of the output are characters of the pieces or fills: any
   per-character predicate V (e.g. "is a well-formed UTF-8 scalar value") that
   holds of all pieces and fills holds of the output                           *)

Fixpoint chars_sat (V : uchar -> Prop) (t : cpat) : Prop :=
  match t with
  | CNil => True
  | CChunk l rest => Forall V l /\ chars_sat V rest
  | CGroup p body rest => V (p_fill p) /\ chars_sat V body /\ chars_sat V rest
  end.

Lemma chars_sat_ok : forall (V : uchar -> Prop) t, (forall u, V u -> uchar_ok u) ->
  chars_sat V t -> chars_ok t.
Proof.
  intros V t HV. induction t as [|l rest IH|p body IHb rest IHr]; cbn [chars_sat chars_ok]; intros H.
  - exact I.
  - destruct H as [Hl Hr]. split; [|apply IH; assumption].
    eapply Forall_impl; [|exact Hl]. exact HV.
  - destruct H as [Hf [Hb Hr]]. auto.
Qed.

Lemma Forall_trunc : forall (V : uchar -> Prop) M l, Forall V l -> Forall V (trunc M l).
Proof. intros V [M|] l H; cbn [trunc]; [apply Forall_firstn_|]; assumption. Qed.

Lemma Forall_pad : forall (V : uchar -> Prop) m f right l, V f -> Forall V l -> Forall V (pad m f right l).
Proof.
  intros V m f right l Hf Hl. unfold pad. destruct m as [m|]; [|assumption].
  destruct right; apply Forall_app; split; try assumption; apply Forall_repeat_; assumption.
Qed.

Lemma meaning_code_sat : forall (V : uchar -> Prop) t, chars_sat V t -> Forall V (meaning_code t).
Proof.
  intros V. induction t as [|l rest IH|p body IHb rest IHr]; cbn [chars_sat meaning_code]; intros H.
  - constructor.
  - destruct H as [Hl Hr]. apply Forall_app. split; [assumption|apply IH; assumption].
  - destruct H as [Hf [Hb Hr]]. apply Forall_app. split; [|apply IHr; assumption].
    unfold fit_code. apply Forall_trunc, Forall_pad; [assumption|apply IHb; assumption].
Qed.

Theorem output_chars_sat : forall (V : uchar -> Prop) acc t,
  (forall u, V u -> uchar_ok u) -> chars_sat V t ->
  exists l, Forall V l /\ run_pattern acc (bytes_of t) = Some (encs l).
Proof.
  intros V acc t HV H. exists (meaning_code t). split; [apply meaning_code_sat; assumption|].
  apply pattern_meaning_code. eapply chars_sat_ok; eassumption.
Qed.

(* well-formed UTF-8 encoding of one Unicode scalar value (RFC 3629 / Unicode
   table 3-7: no overlongs, no surrogates, nothing above U+10FFFF) *)
Definition cont (b : byte) : bool := ((128 <=? b) && (b <=? 191))%N.
Definition between (lo b hi : N) : bool := ((lo <=? b) && (b <=? hi))%N.

Definition utf8_scalar (u : uchar) : bool :=
  match u with
  | [a] => (a <? 128)%N
  | [a; b] => between 194 a 223 && cont b
  | [a; b; c] =>
    ((a =? 224)%N && between 160 b 191
     || between 225 a 236 && cont b
     || (a =? 237)%N && between 128 b 159
     || between 238 a 239 && cont b) && cont c
  | [a; b; c; d] =>
    ((a =? 240)%N && between 144 b 191
     || between 241 a 243 && cont b
     || (a =? 244)%N && between 128 b 143) && cont c && cont d
  | _ => false
  end.

Lemma cont_not_boundary : forall b, cont b = true -> is_boundary b = false.
Proof.
  intros b H. unfold cont in H. apply andb_true_iff in H. destruct H as [H1 H2].
  apply N.leb_le in H1. apply N.leb_le in H2. unfold is_boundary.
  apply orb_false_iff. split; [apply N.ltb_ge|apply N.leb_gt]; lia.
Qed.

Lemma between_cont : forall lo b hi, (128 <= lo)%N -> (hi <= 191)%N -> between lo b hi = true -> cont b = true.
Proof.
  intros lo b hi Hlo Hhi H. unfold between in H. apply andb_true_iff in H. destruct H as [H1 H2].
  apply N.leb_le in H1. apply N.leb_le in H2. unfold cont. apply andb_true_iff.
  split; apply N.leb_le; lia.
Qed.

Lemma between_lead : forall lo b hi, (192 <= lo)%N -> between lo b hi = true -> is_boundary b = true.
Proof.
  intros lo b hi Hlo H. unfold between in H. apply andb_true_iff in H. destruct H as [H1 _].
  apply N.leb_le in H1. unfold is_boundary. apply orb_true_iff. right. apply N.leb_le. lia.
Qed.

Lemma eqb_lead : forall a k, (192 <= k)%N -> (a =? k)%N = true -> is_boundary a = true.
Proof.
  intros a k Hk H. apply N.eqb_eq in H. subst a. unfold is_boundary. apply orb_true_iff. right.
  apply N.leb_le. assumption.
Qed.

Lemma utf8_scalar_ok : forall u, utf8_scalar u = true -> uchar_ok u.
Proof.
  intros u H. destruct u as [|a [|b [|c [|d [|e u]]]]]; cbn [utf8_scalar] in H; try discriminate.
  - split; [|constructor]. unfold is_boundary. rewrite H. reflexivity.
  - apply andb_true_iff in H. destruct H as [Ha Hb]. split.
    + eapply between_lead; [|exact Ha]. lia.
    + repeat constructor. apply cont_not_boundary. assumption.
  - apply andb_true_iff in H. destruct H as [Hab Hc].
    assert (Hb : is_boundary a = true /\ cont b = true).
    { repeat (apply orb_true_iff in Hab; destruct Hab as [Hab|Hab]);
        apply andb_true_iff in Hab; destruct Hab as [Ha Hb]; split;
        first [ eapply eqb_lead; [|exact Ha]; lia | eapply between_lead; [|exact Ha]; lia
              | eapply between_cont; [| |exact Hb]; lia | exact Hb ]. }
    destruct Hb as [Ha Hb]. split; [assumption|].
    repeat constructor; apply cont_not_boundary; assumption.
  - apply andb_true_iff in H. destruct H as [H Hd]. apply andb_true_iff in H. destruct H as [Hab Hc].
    assert (Hb : is_boundary a = true /\ cont b = true).
    { repeat (apply orb_true_iff in Hab; destruct Hab as [Hab|Hab]);
        apply andb_true_iff in Hab; destruct Hab as [Ha Hb]; split;
        first [ eapply eqb_lead; [|exact Ha]; lia | eapply between_lead; [|exact Ha]; lia
              | eapply between_cont; [| |exact Hb]; lia | exact Hb ]. }
    destruct Hb as [Ha Hb]. split; [assumption|].
    repeat constructor; apply cont_not_boundary; assumption.
Qed.

(* the output is valid UTF-8 whenever all pieces and fills are: it is the
   concatenation of well-formed scalar-value encodings — even with min > max *)
Theorem output_valid_utf8 : forall acc t,
  chars_sat (fun u => utf8_scalar u = true) t ->
  exists l, Forall (fun u => utf8_scalar u = true) l /\ run_pattern acc (bytes_of t) = Some (encs l).
Proof.
  intros acc t H. apply output_chars_sat; [exact utf8_scalar_ok|assumption].
Qed.
