(* C08 — proofs about Model/RollFault.v and the small-step roller of Model/Window.v.

   Spec vocabulary (independent of the model's control flow):
     window n f          contents of the n managed archive names, read from the highest
                         index down to the base (= oldest to newest), absent names skipped
     stream_st / stream  the record stream defined by the events of a history
     InvW / Inv          "archives ++ active file = a suffix of the stream, cut at a file
                         boundary, every file a whole number of records"
   Main results:
     shifts_window        any prefix of the shift loop only ever drops the TOP archive
     rotation_prefixes    every prefix state of rotate() retains what the completed one retains
     images_fault         the k-th hook image = the directory a fault at step k leaves
     step_inv / run_inv   the invariant holds along every history with faults and restarts
     resume_*             an un-faulted append succeeds and completes a due rotation *)
From Coq Require Import List NArith Bool Lia Arith.
Import ListNotations.
From L4 Require Import Common.FSModel Model.Window Model.RollFault Proofs.Window.

(* ---------------------------------------------------------------- lists *)

Definition olist {A} (o : option A) : list A :=
  match o with Some x => [x] | None => [] end.

Lemma skipn_app_le : forall {A} k (l1 l2 : list A), k <= length l1 ->
  skipn k (l1 ++ l2) = skipn k l1 ++ l2.
Proof.
  intros A k. induction k as [|k IH]; intros l1 l2 H; [reflexivity|].
  destruct l1 as [|x l1]; cbn [length] in H; [lia|].
  cbn [app skipn]. apply IH. lia.
Qed.

Lemma skipn_more : forall {A} k (l s r : list A), k <= length l ->
  skipn k l = s ++ r -> skipn (k + length s) l = r /\ k + length s <= length l.
Proof.
  intros A k. induction k as [|k IH]; intros l s r Hk H.
  - cbn [skipn plus] in *. subst l. clear Hk. split.
    + induction s as [|x s IHs]; [reflexivity|exact IHs].
    + rewrite app_length. lia.
  - destruct l as [|x l]; cbn [length] in Hk; [lia|].
    cbn [skipn] in H. destruct (IH l s r ltac:(lia) H) as [H1 H2]. split.
    + exact H1.
    + cbn [length]. lia.
Qed.

Lemma concat_map_concat : forall {A} (ls : list (list (list A))),
  concat (map (@concat A) ls) = concat (concat ls).
Proof.
  intros A ls. induction ls as [|x ls IH]; [reflexivity|].
  cbn [map concat]. rewrite concat_app, IH. reflexivity.
Qed.

Lemma concat_snoc : forall {A} (l : list (list A)) (x : list A),
  concat (l ++ [x]) = concat l ++ x.
Proof. intros. rewrite concat_app. cbn [concat]. rewrite app_nil_r. reflexivity. Qed.

(* ---------------------------------------------------------------- the window *)

Section WindowView.
  Variable name : N -> path.
  Variable b : N.

  Notation nm := (nm name b).

  (* contents of the slots lo+len-1, ..., lo (in this order), absent ones skipped *)
  Fixpoint wrange (lo len : nat) (f : fs) : list bytes :=
    match len with
    | O => []
    | S l => olist (lookup (nm (lo + l)) f) ++ wrange lo l f
    end.

  Definition window (n : nat) (f : fs) : list bytes := wrange 0 n f.

  Lemma wrange_ext : forall lo len f g,
    (forall j, lo <= j -> j < lo + len -> lookup (nm j) f = lookup (nm j) g) ->
    wrange lo len f = wrange lo len g.
  Proof.
    intros lo len f g. induction len as [|l IH]; intro H; [reflexivity|].
    cbn [wrange]. rewrite (H (lo + l)) by lia. rewrite IH; [reflexivity|].
    intros j H1 H2. apply H; lia.
  Qed.

  Lemma wrange_split : forall lo a r f,
    wrange lo (a + r) f = wrange (lo + a) r f ++ wrange lo a f.
  Proof.
    intros lo a r f. induction r as [|r IH].
    - rewrite Nat.add_0_r. reflexivity.
    - rewrite Nat.add_succ_r. cbn [wrange]. rewrite IH.
      rewrite <- app_assoc. f_equal. f_equal. f_equal. f_equal. lia.
  Qed.

  Definition inj_upto' (m : nat) : Prop := inj_upto name b m.

  Lemma nm_neq : forall m i j, inj_upto name b m -> i <= m -> j <= m -> i <> j -> nm i <> nm j.
  Proof. intros m i j Hinj Hi Hj Hne E. apply Hne. apply (Hinj i j Hi Hj E). Qed.

  (* a move into a vacant neighbour slot does not change the reading *)
  Lemma move_into_vacant : forall m i f,
    inj_upto name b m -> S i <= m ->
    lookup (nm (S i)) f = None ->
    wrange 0 (S m) (move_file (nm i) (nm (S i)) f) = wrange 0 (S m) f.
  Proof.
    intros m i f Hinj Hi Hv.
    set (f1 := move_file (nm i) (nm (S i)) f).
    assert (Hother : forall j, j <= m -> j <> i -> j <> S i -> lookup (nm j) f1 = lookup (nm j) f).
    { intros j Hj H1 H2. unfold f1. rewrite lookup_move_file.
      replace (path_eqb (nm j) (nm (S i))) with false
        by (symmetry; apply path_eqb_neq; apply (nm_neq m); auto; lia).
      replace (path_eqb (nm j) (nm i)) with false
        by (symmetry; apply path_eqb_neq; apply (nm_neq m); auto; lia).
      reflexivity. }
    assert (Hdst : lookup (nm (S i)) f1 = lookup (nm i) f).
    { unfold f1. rewrite lookup_move_file, path_eqb_refl, Hv.
      destruct (lookup (nm i) f); reflexivity. }
    assert (Hsrc : lookup (nm i) f1 = None).
    { unfold f1. rewrite lookup_move_file.
      replace (path_eqb (nm i) (nm (S i))) with false
        by (symmetry; apply path_eqb_neq; apply (nm_neq m); auto; lia).
      rewrite path_eqb_refl. reflexivity. }
    replace (S m) with (i + (2 + (m - S i))) by lia.
    rewrite !(wrange_split 0 i). rewrite !(wrange_split (0 + i) 2).
    f_equal; [f_equal|].
    - apply wrange_ext. intros j H1 H2. apply Hother; lia.
    - cbn [wrange]. rewrite !Nat.add_0_l, Nat.add_0_r.
      replace (i + 1) with (S i) by lia.
      rewrite Hdst, Hsrc, Hv. destruct (lookup (nm i) f); reflexivity.
    - apply wrange_ext. intros j H1 H2. apply Hother; lia.
  Qed.

  (* the first shift (onto the top slot) drops at most the top archive *)
  Lemma move_onto_top : forall m f,
    inj_upto name b (S m) ->
    exists l, wrange 0 (S (S m)) f = l ++ wrange 0 (S (S m)) (move_file (nm m) (nm (S m)) f)
              /\ length l <= 1.
  Proof.
    intros m f Hinj.
    set (f1 := move_file (nm m) (nm (S m)) f).
    assert (Hother : forall j, j < m -> lookup (nm j) f1 = lookup (nm j) f).
    { intros j Hj. unfold f1. rewrite lookup_move_file.
      replace (path_eqb (nm j) (nm (S m))) with false
        by (symmetry; apply path_eqb_neq; apply (nm_neq (S m)); auto; lia).
      replace (path_eqb (nm j) (nm m)) with false
        by (symmetry; apply path_eqb_neq; apply (nm_neq (S m)); auto; lia).
      reflexivity. }
    assert (Hdst : lookup (nm (S m)) f1 =
                   match lookup (nm m) f with Some y => Some y | None => lookup (nm (S m)) f end).
    { unfold f1. rewrite lookup_move_file, path_eqb_refl. reflexivity. }
    assert (Hsrc : lookup (nm m) f1 = None).
    { unfold f1. rewrite lookup_move_file.
      replace (path_eqb (nm m) (nm (S m))) with false
        by (symmetry; apply path_eqb_neq; apply (nm_neq (S m)); auto; lia).
      rewrite path_eqb_refl. reflexivity. }
    cbn [wrange]. rewrite !Nat.add_0_l. rewrite Hdst, Hsrc.
    rewrite (wrange_ext 0 m f1 f) by (intros j _ Hj; apply Hother; lia).
    destruct (lookup (nm m) f) as [y|]; destruct (lookup (nm (S m)) f) as [z|]; cbn [olist app].
    - exists [z]. split; [reflexivity|cbn; lia].
    - exists []. split; [reflexivity|cbn; lia].
    - exists []. split; [reflexivity|cbn; lia].
    - exists []. split; [reflexivity|cbn; lia].
  Qed.

  Lemma do_shifts_other : forall m k f p, k <= m -> inj_upto name b m ->
    (forall j, j <= m -> p <> nm j) -> lookup p (do_shifts name b k m f) = lookup p f.
  Proof.
    intros m k f p Hk Hinj Hp.
    destruct (do_shifts_spec name b m k f Hk Hinj) as (_ & _ & _ & Hd). apply Hd. exact Hp.
  Qed.

  Lemma inj_upto_S : forall m, inj_upto name b (S m) -> inj_upto name b m.
  Proof. intros m H i j Hi Hj E. apply H; try lia. exact E. Qed.

  (* below a vacant top slot the shift loop loses nothing, at every prefix *)
  Lemma shifts_vacant : forall m k f, k <= m -> inj_upto name b m ->
    lookup (nm m) f = None ->
    wrange 0 (S m) (do_shifts name b k m f) = wrange 0 (S m) f.
  Proof.
    induction m as [|m IH]; intros k f Hk Hinj Hv.
    - assert (k = 0) by lia. subst k. reflexivity.
    - destruct k as [|k]; [reflexivity|].
      cbn [do_shifts]. set (f1 := move_file (nm m) (nm (S m)) f).
      assert (Hsrc : lookup (nm m) f1 = None).
      { unfold f1. rewrite lookup_move_file.
        replace (path_eqb (nm m) (nm (S m))) with false
          by (symmetry; apply path_eqb_neq; apply (nm_neq (S m)); auto; lia).
        rewrite path_eqb_refl. reflexivity. }
      rewrite <- (move_into_vacant (S m) m f Hinj (le_n _) Hv). fold f1.
      change (wrange 0 (S (S m)) (do_shifts name b k m f1))
        with (olist (lookup (nm (0 + S m)) (do_shifts name b k m f1)) ++ wrange 0 (S m) (do_shifts name b k m f1)).
      change (wrange 0 (S (S m)) f1)
        with (olist (lookup (nm (0 + S m)) f1) ++ wrange 0 (S m) f1).
      rewrite IH; [|lia|apply inj_upto_S; exact Hinj|exact Hsrc].
      rewrite do_shifts_other; [reflexivity|lia|apply inj_upto_S; exact Hinj|].
      intros j Hj. apply (nm_neq (S m)); auto; lia.
  Qed.

  (* every prefix of the shift loop: the reading loses at most its first (oldest, top) element *)
  Lemma shifts_window : forall m k f, k <= m -> inj_upto name b m ->
    exists l, wrange 0 (S m) f = l ++ wrange 0 (S m) (do_shifts name b k m f) /\ length l <= 1.
  Proof.
    intros m k f Hk Hinj. destruct k as [|k].
    - exists []. split; [destruct m; reflexivity|cbn; lia].
    - destruct m as [|m]; [lia|].
      cbn [do_shifts]. set (f1 := move_file (nm m) (nm (S m)) f).
      destruct (move_onto_top m f Hinj) as (l & Hl & Hlen). fold f1 in Hl.
      exists l. split; [|exact Hlen]. rewrite Hl. f_equal.
      assert (Hsrc : lookup (nm m) f1 = None).
      { unfold f1. rewrite lookup_move_file.
        replace (path_eqb (nm m) (nm (S m))) with false
          by (symmetry; apply path_eqb_neq; apply (nm_neq (S m)); auto; lia).
        rewrite path_eqb_refl. reflexivity. }
      change (wrange 0 (S (S m)) (do_shifts name b k m f1))
        with (olist (lookup (nm (0 + S m)) (do_shifts name b k m f1)) ++ wrange 0 (S m) (do_shifts name b k m f1)).
      change (wrange 0 (S (S m)) f1)
        with (olist (lookup (nm (0 + S m)) f1) ++ wrange 0 (S m) f1).
      rewrite shifts_vacant; [|lia|apply inj_upto_S; exact Hinj|exact Hsrc].
      rewrite do_shifts_other; [reflexivity|lia|apply inj_upto_S; exact Hinj|].
      intros j Hj. apply (nm_neq (S m)); auto; lia.
  Qed.

  (* after all m >= 1 shifts the base slot is vacant *)
  Lemma shifts_base_vacant : forall m f, 0 < m -> inj_upto name b m ->
    lookup (nm 0) (do_shifts name b m m f) = None.
  Proof.
    intros m f Hm Hinj.
    destruct (do_shifts_spec name b m m f (le_n m) Hinj) as (_ & Hb & _ & _).
    specialize (Hb Hm). rewrite Nat.sub_diag in Hb. exact Hb.
  Qed.
End WindowView.

(* ---------------------------------------------------------------- one rotation, every prefix *)

Section ShiftFacts.
  Variable name : N -> path.
  Variable b : N.
  Notation nm := (nm name b).

  (* after its first step the shift loop no longer changes the reading *)
  Lemma shifts_after_first : forall m k f, k <= m -> inj_upto name b (S m) ->
    wrange name b 0 (S (S m)) (do_shifts name b (S k) (S m) f)
    = wrange name b 0 (S (S m)) (move_file (nm m) (nm (S m)) f).
  Proof.
    intros m k f Hk Hinj. cbn [do_shifts]. set (f1 := move_file (nm m) (nm (S m)) f).
    assert (Hsrc : lookup (nm m) f1 = None).
    { unfold f1. rewrite lookup_move_file.
      replace (path_eqb (nm m) (nm (S m))) with false
        by (symmetry; apply path_eqb_neq; apply (nm_neq name b (S m)); auto; lia).
      rewrite path_eqb_refl. reflexivity. }
    change (wrange name b 0 (S (S m)) (do_shifts name b k m f1))
      with (olist (lookup (nm (0 + S m)) (do_shifts name b k m f1)) ++ wrange name b 0 (S m) (do_shifts name b k m f1)).
    change (wrange name b 0 (S (S m)) f1)
      with (olist (lookup (nm (0 + S m)) f1) ++ wrange name b 0 (S m) f1).
    rewrite shifts_vacant; [|lia|apply inj_upto_S; exact Hinj|exact Hsrc].
    rewrite do_shifts_other; [reflexivity|lia|apply inj_upto_S; exact Hinj|].
    intros j Hj. apply (nm_neq name b (S m)); auto; lia.
  Qed.

  Lemma exec_prefix_shifts_all : forall cm m j rest f,
    exec_prefix cm (m + j) (shift_steps name b m ++ rest) f
    = exec_prefix cm j rest (do_shifts name b m m f).
  Proof.
    induction m as [|m IH]; intros j rest f; [reflexivity|].
    cbn [plus shift_steps app exec_prefix exec_step do_shifts]. rewrite nm_succ. apply IH.
  Qed.
End ShiftFacts.

Section Rotation.
  Variable name : N -> path.
  Variable b c : N.
  Variable cm : cmode.
  Variable file : path.
  Hypothesis Hc : (1 <= c)%N.
  Hypothesis Hfit : (b + c <= 4294967296)%N.
  Hypothesis Hinj : names_injective name b c.
  Hypothesis Hout : file_outside name b c file.

  Notation nm := (nm name b).
  Notation m := (N.to_nat (c - 1)).
  Notation win := (window name b (N.to_nat c)).
  Notation stp := (steps name b c file).

  Lemma slots_S : N.to_nat c = S m.
  Proof. lia. Qed.

  Lemma inj_m : inj_upto name b m.
  Proof. apply hyp_inj; assumption. Qed.

  Lemma file_m : forall j, j <= m -> file <> nm j.
  Proof. apply hyp_file; assumption. Qed.

  Lemma win_ext : forall f g,
    (forall j, j <= m -> lookup (nm j) g = lookup (nm j) f) -> win g = win f.
  Proof.
    intros f g H. unfold window. rewrite slots_S. apply wrange_ext. intros j _ Hj. apply H. lia.
  Qed.

  (* changing only the active file leaves the window alone *)
  Lemma win_file_only : forall f g,
    (forall p, p <> file -> lookup p g = lookup p f) -> win g = win f.
  Proof using Hc Hfit Hinj Hout.
    intros f g H. apply win_ext. intros j Hj. apply H. intro E. apply (file_m j Hj). symmetry. exact E.
  Qed.

  Lemma rotate_is_steps : forall fault f,
    roll name cm fault b c file f = run_steps cm fault stp f.
  Proof using Hc Hfit Hinj Hout.
    intros fault f. unfold roll.
    replace (c =? 0)%N with false by (symmetry; apply N.eqb_neq; lia).
    apply rotate_no_panic; assumption.
  Qed.

  (* what a rotation of a directory whose active file holds x does, at every prefix and
     under every fault position *)
  Definition partial (x : bytes) (R : list bytes) (p : fs) : Prop :=
    lookup file p = Some x /\ exists l, win p = l ++ R /\ length l <= 1.

  Lemma rotation_all : forall f x, lookup file f = Some x ->
    exists g R,
      run_steps cm None stp f = Done g /\
      win g = R ++ [arch cm x] /\ lookup file g = None /\
      (forall p, p <> file -> (forall j, j <= m -> p <> nm j) -> lookup p g = lookup p f) /\
      (forall k, exec_prefix cm k stp f = g \/ partial x R (exec_prefix cm k stp f)) /\
      (forall k, k <= m -> partial x R (exec_prefix cm k stp f)) /\
      (forall k, k <= m -> exists l, win f = l ++ win (exec_prefix cm k stp f) /\ length l <= 1) /\
      lookup (name b) g = Some (arch cm x) /\
      (forall k, run_steps cm (Some k) stp f = Done g \/
                 (k <= m /\ run_steps cm (Some k) stp f = Failed (exec_prefix cm k stp f))).
  Proof using Hc Hfit Hinj Hout.
    intros f x Hx.
    pose proof inj_m as Hi. pose proof file_m as Hf.
    set (pm := do_shifts name b m m f).
    assert (Hxm : forall k, k <= m -> lookup file (do_shifts name b k m f) = Some x).
    { intros k Hk. rewrite do_shifts_other; [exact Hx|exact Hk|exact Hi|exact Hf]. }
    destruct (compress_spec cm file (nm 0) x pm (Hf 0 ltac:(lia)) (Hxm m (le_n _)))
      as (g & Hg & Hlk).
    set (R := wrange name b 1 m pm).
    (* the completed rotation *)
    assert (Hfileg : lookup file g = None).
    { rewrite Hlk, path_eqb_refl. reflexivity. }
    assert (Hbaseg : lookup (nm 0) g = Some (arch cm x)).
    { rewrite Hlk, path_eqb_refl.
      replace (path_eqb (nm 0) file) with false; [reflexivity|].
      symmetry. apply path_eqb_neq. intro E. apply (Hf 0 ltac:(lia)). symmetry. exact E. }
    assert (Hupg : forall j, 1 <= j -> j <= m -> lookup (nm j) g = lookup (nm j) pm).
    { intros j H1 H2. rewrite Hlk.
      replace (path_eqb (nm j) file) with false.
      2:{ symmetry. apply path_eqb_neq. intro E. apply (Hf j H2). symmetry. exact E. }
      replace (path_eqb (nm j) (nm 0)) with false; [reflexivity|].
      symmetry. apply path_eqb_neq. apply (nm_neq name b m); auto; lia. }
    assert (Hwing : win g = R ++ [arch cm x]).
    { unfold window. rewrite slots_S. replace (S m) with (1 + m) by lia.
      rewrite wrange_split. f_equal.
      - apply wrange_ext. intros j H1 H2. apply Hupg; lia.
      - cbn [wrange olist plus app]. rewrite Hbaseg. reflexivity. }
    (* prefixes inside the shift loop *)
    assert (Hpart : forall k, k <= m -> partial x R (do_shifts name b k m f)).
    { intros k Hk. split; [apply Hxm; exact Hk|].
      unfold window. rewrite slots_S. unfold R, pm.
      destruct m as [|m'] eqn:Em.
      - assert (k = 0) by lia. subst k. cbn [do_shifts wrange plus].
        exists (olist (lookup (nm 0) f)). split; [reflexivity|].
        destruct (lookup (nm 0) f); cbn; lia.
      - assert (Hpmw : wrange name b 0 (S (S m')) (do_shifts name b (S m') (S m') f)
                       = wrange name b 1 (S m') (do_shifts name b (S m') (S m') f)).
        { replace (S (S m')) with (1 + S m') by lia. rewrite wrange_split.
          cbn [wrange plus olist]. rewrite (shifts_base_vacant name b (S m') f); [|lia|exact Hi].
          cbn [olist app]. rewrite app_nil_r. reflexivity. }
        rewrite <- Hpmw. rewrite (shifts_after_first name b m' m' f (le_n _) Hi).
        destruct k as [|k].
        + cbn [do_shifts]. destruct (move_onto_top name b m' f Hi) as (l & Hl & Hlen).
          exists l. split; assumption.
        + rewrite (shifts_after_first name b m' k f ltac:(lia) Hi).
          exists []. split; [reflexivity|cbn; lia]. }
    assert (Hpre : forall k, k <= m -> exec_prefix cm k stp f = do_shifts name b k m f).
    { intros k Hk. unfold steps. apply exec_prefix_shifts. exact Hk. }
    assert (Hpost : forall j, exec_prefix cm (m + S j) stp f = g).
    { intro j. unfold steps. rewrite exec_prefix_shifts_all. fold pm.
      cbn [exec_prefix exec_step]. rewrite <- (nm_0 name b). rewrite Hg. destruct j; reflexivity. }
    exists g, R. split; [|split; [exact Hwing|split; [exact Hfileg|split; [|split; [|split; [|split; [|split]]]]]]].
    - unfold steps. rewrite run_steps_shifts. fold pm.
      cbn [run_steps exec_step dec_fault]. rewrite <- (nm_0 name b). rewrite Hg. reflexivity.
    - intros p Hpf Hp. rewrite Hlk.
      replace (path_eqb p file) with false by (symmetry; apply path_eqb_neq; exact Hpf).
      replace (path_eqb p (nm 0)) with false by (symmetry; apply path_eqb_neq; apply Hp; lia).
      unfold pm. apply do_shifts_other; [lia|exact Hi|exact Hp].
    - intro k. destruct (le_lt_dec k m) as [Hk|Hk].
      + right. rewrite Hpre by exact Hk. apply Hpart. exact Hk.
      + left. replace k with (m + S (k - m - 1)) by lia. apply Hpost.
    - intros k Hk. rewrite Hpre by exact Hk. apply Hpart. exact Hk.
    - intros k Hk. rewrite Hpre by exact Hk. unfold window. rewrite slots_S.
      apply shifts_window; assumption.
    - rewrite <- (nm_0 name b). exact Hbaseg.
    - intro k. unfold steps at 1 2. rewrite run_steps_shifts_fault.
      destruct (k <? m) eqn:Ek.
      + apply Nat.ltb_lt in Ek. right. split; [lia|]. rewrite Hpre by lia. reflexivity.
      + apply Nat.ltb_ge in Ek. fold pm. destruct (k - m) as [|j] eqn:Ej.
        * right. split; [lia|]. assert (k = m) by lia. subst k.
          rewrite Hpre by lia. reflexivity.
        * left. cbn [run_steps exec_step dec_fault]. rewrite <- (nm_0 name b). rewrite Hg.
          reflexivity.
  Qed.
End Rotation.

(* ---------------------------------------------------------------- crash images = fault states *)

Lemma images_fault : forall cm ss f k img,
  nth_error (images cm None ss f) k = Some img ->
  run_steps cm (Some k) ss f = Failed img.
Proof.
  intros cm ss. induction ss as [|s ss IH]; intros f k img H.
  - destruct k; discriminate H.
  - cbn [images dec_fault] in H. destruct k as [|k].
    + cbn [nth_error] in H. inversion H; subst. reflexivity.
    + cbn [nth_error] in H. cbn [run_steps dec_fault].
      destruct (exec_step cm s f) as [f'|].
      * apply IH. exact H.
      * destruct k; discriminate H.
Qed.

Lemma images_prefix : forall cm ss f k img,
  nth_error (images cm None ss f) k = Some img -> img = exec_prefix cm k ss f.
Proof.
  intros cm ss. induction ss as [|s ss IH]; intros f k img H.
  - destruct k; discriminate H.
  - cbn [images dec_fault] in H. destruct k as [|k].
    + cbn [nth_error] in H. inversion H; subst. reflexivity.
    + cbn [nth_error] in H. cbn [exec_prefix].
      destruct (exec_step cm s f) as [f'|].
      * apply IH. exact H.
      * destruct k; discriminate H.
Qed.

(* ---------------------------------------------------------------- the record stream *)

(* (archived-or-evicted records, records of the active file) *)
Definition sst := (list bytes * list bytes)%type.

Definition ev_step (st : sst) (e : ev) : sst :=
  match e with
  | EvWrite r => (fst st, snd st ++ [r])
  | EvRolled => (fst st ++ snd st, [])
  | EvTrunc => (fst st, [])
  end.

Definition stream_st (evs : list ev) (st : sst) : sst := fold_left ev_step evs st.

Definition stream_of (st : sst) : list bytes := fst st ++ snd st.

Lemma stream_st_app : forall e1 e2 st, stream_st (e1 ++ e2) st = stream_st e2 (stream_st e1 st).
Proof. intros. unfold stream_st. apply fold_left_app. Qed.

(* ---------------------------------------------------------------- the invariant, on lists *)

Section Invariant.
  Variable cm : cmode.

  Definition seg_bytes (s : list bytes) : bytes := arch cm (concat s).

  (* w = the window reading, a = the active file *)
  Definition InvW (w : list bytes) (a : option bytes) (st : sst) : Prop :=
    exists k segs,
      k <= length (fst st) /\ skipn k (fst st) = concat segs /\
      w = map seg_bytes segs /\
      (a = Some (concat (snd st)) \/ (a = None /\ snd st = [])).

  Lemma InvW_drop : forall l w a st, length l <= 1 -> InvW (l ++ w) a st -> InvW w a st.
  Proof.
    intros l w a st Hl (k & segs & Hk & Hs & Hw & Ha).
    destruct l as [|y l]; [exists k, segs; auto|].
    destruct l; [|cbn in Hl; lia].
    destruct segs as [|s0 segs]; [discriminate Hw|].
    cbn [map app] in Hw. inversion Hw; subst.
    cbn [concat] in Hs. destruct (skipn_more k (fst st) s0 (concat segs) Hk Hs) as [H1 H2].
    exists (k + length s0), segs. auto.
  Qed.

  Lemma InvW_active : forall w a st, InvW w a st ->
    a = Some (concat (snd st)) \/ (a = None /\ snd st = []).
  Proof. intros w a st (k & segs & _ & _ & _ & Ha). exact Ha. Qed.

  Lemma InvW_create : forall w a st, InvW w a st ->
    InvW w (Some (match a with Some x => x | None => [] end)) st.
  Proof.
    intros w a st (k & segs & Hk & Hs & Hw & Ha). exists k, segs.
    repeat split; auto. left. destruct Ha as [Ha|[Ha Hn]]; subst a; [reflexivity|].
    rewrite Hn. reflexivity.
  Qed.

  Lemma InvW_write : forall w st r, InvW w (Some (concat (snd st))) st ->
    InvW w (Some (concat (snd st) ++ r)) (ev_step st (EvWrite r)).
  Proof.
    intros w st r (k & segs & Hk & Hs & Hw & _). exists k, segs. cbn [ev_step fst snd].
    repeat split; auto. left. f_equal. symmetry. apply (@concat_snoc N).
  Qed.

  Lemma InvW_rolled : forall w st, InvW w (Some (concat (snd st))) st ->
    InvW (w ++ [arch cm (concat (snd st))]) None (ev_step st EvRolled).
  Proof.
    intros w st (k & segs & Hk & Hs & Hw & _). exists k, (segs ++ [snd st]). cbn [ev_step fst snd].
    split; [rewrite app_length; lia|]. split; [|split].
    - rewrite skipn_app_le by exact Hk. rewrite Hs. symmetry. apply (@concat_snoc bytes).
    - rewrite map_app. cbn [map]. rewrite Hw. reflexivity.
    - right. split; reflexivity.
  Qed.

  Lemma InvW_trunc : forall w a st, InvW w a st -> InvW w (Some []) (ev_step st EvTrunc).
  Proof.
    intros w a st (k & segs & Hk & Hs & Hw & _). exists k, segs. cbn [ev_step fst snd].
    repeat split; auto.
  Qed.

  (* the reading in bytes: a suffix of the stream *)
  Lemma InvW_read : forall (un : bytes -> bytes) w a st,
    (forall y, un (arch cm y) = y) -> InvW w a st ->
    exists k, concat (map un w) ++ (match a with Some x => x | None => [] end)
              = concat (skipn k (stream_of st)).
  Proof.
    intros un w a st Hun (k & segs & Hk & Hs & Hw & Ha). exists k.
    unfold stream_of. rewrite skipn_app_le by exact Hk. rewrite Hs, concat_app. f_equal.
    - subst w. rewrite map_map.
      etransitivity; [|apply (@concat_map_concat N segs)]. f_equal.
      apply map_ext. intro s. unfold seg_bytes. apply Hun.
    - destruct Ha as [Ha|[Ha Hn]]; subst a; [reflexivity|]. rewrite Hn. reflexivity.
  Qed.
End Invariant.

(* ---------------------------------------------------------------- the appender *)

Section AppenderProofs.
  Variable name : N -> path.
  Variable b c : N.
  Variable cm : cmode.
  Variable file : path.
  Hypothesis Hc : (1 <= c)%N.
  Hypothesis Hfit : (b + c <= 4294967296)%N.
  Hypothesis Hinj : names_injective name b c.
  Hypothesis Hout : file_outside name b c file.

  Notation win := (window name b (N.to_nat c)).
  Notation m := (N.to_nat (c - 1)).

  Definition Inv (f : fs) (st : sst) : Prop := InvW cm (win f) (lookup file f) st.

  Definition SInv (s : ast) (st : sst) : Prop :=
    Inv (afs s) st /\ (wopen s = true -> lookup file (afs s) <> None).

  Lemma win_same : forall f g, (forall p, p <> file -> lookup p g = lookup p f) -> win g = win f.
  Proof. apply (win_file_only name b c file Hc Hfit Hinj Hout). Qed.

  Lemma inv_active : forall f st, Inv f st -> lookup file f <> None ->
    lookup file f = Some (concat (snd st)).
  Proof.
    intros f st H Hn. destruct (InvW_active cm _ _ _ H) as [Ha|[Ha _]]; [exact Ha|contradiction].
  Qed.

  Lemma inv_ensure : forall f st, Inv f st ->
    Inv (ensure file f) st /\ lookup file (ensure file f) = Some (concat (snd st)).
  Proof.
    intros f st H. unfold ensure. destruct (lookup file f) as [x|] eqn:E.
    - assert (Hx : lookup file f = Some (concat (snd st))) by (apply inv_active; [exact H|congruence]).
      split; [exact H|]. congruence.
    - assert (Hact : snd st = []).
      { destruct (InvW_active cm _ _ _ H) as [Ha|[_ Ha]]; [congruence|exact Ha]. }
      unfold Inv. rewrite lookup_write_eq.
      rewrite (win_same f) by (intros p Hp; apply lookup_write_neq; exact Hp).
      rewrite Hact. split; [|reflexivity].
      pose proof (InvW_create cm _ _ _ H) as H'. rewrite E in H'. exact H'.
  Qed.

  Lemma inv_get_writer : forall s st, SInv s st ->
    SInv (get_writer file s) st /\
    lookup file (afs (get_writer file s)) = Some (concat (snd st)) /\
    wopen (get_writer file s) = true.
  Proof.
    intros s st [H Hw]. unfold get_writer. destruct (wopen s) eqn:Eo.
    - split; [split; [exact H|intros _; apply Hw; reflexivity]|]. split; [|exact Eo].
      apply inv_active; [exact H|apply Hw; reflexivity].
    - destruct (inv_ensure _ _ H) as [H1 H2]. cbn [afs wopen].
      split; [split; [exact H1|intros _; cbn [afs]; rewrite H2; discriminate]|].
      split; [exact H2|reflexivity].
  Qed.

  Lemma inv_write_rec : forall s st r, SInv s st ->
    lookup file (afs s) = Some (concat (snd st)) ->
    SInv (write_rec file r s) (ev_step st (EvWrite r)) /\
    lookup file (afs (write_rec file r s)) = Some (concat (snd (ev_step st (EvWrite r)))) /\
    wopen (write_rec file r s) = wopen s.
  Proof.
    intros s st r [H Hw] Hx. unfold SInv, write_rec. cbn [afs wopen].
    assert (Hl : lookup file (append file r (afs s)) = Some (concat (snd st) ++ r)).
    { rewrite lookup_append_eq, Hx. reflexivity. }
    assert (Hcc : concat (snd (ev_step st (EvWrite r))) = concat (snd st) ++ r).
    { cbn [ev_step snd]. apply (@concat_snoc N). }
    split; [split|split].
    - unfold Inv. rewrite Hl.
      rewrite (win_same (afs s)) by (intros p Hp; apply lookup_append_neq; exact Hp).
      apply InvW_write. unfold Inv in H. rewrite Hx in H. exact H.
    - intros _. rewrite Hl. discriminate.
    - rewrite Hl, Hcc. reflexivity.
    - reflexivity.
  Qed.

  Lemma inv_roll : forall f st fault, Inv f st ->
    lookup file f = Some (concat (snd st)) ->
    match roll name cm fault b c file f with
    | Done g => Inv g (ev_step st EvRolled) /\ lookup file g = None /\
                lookup (name b) g = Some (arch cm (concat (snd st)))
    | Failed g => Inv g st /\ lookup file g = Some (concat (snd st))
    | Panicked => False
    end.
  Proof.
    intros f st fault H Hx.
    rewrite (rotate_is_steps name b c cm file Hc Hfit Hinj Hout).
    destruct (rotation_all name b c cm file Hc Hfit Hinj Hout f _ Hx)
      as (g & R & Hdone & Hwing & Hfileg & _ & _ & Hpart & Hpref & Hbase & Hfault).
    assert (HR : InvW cm R (Some (concat (snd st))) st).
    { destruct (Hpart 0 (Nat.le_0_l _)) as (_ & l & Hl & Hlen).
      cbn [exec_prefix] in Hl. unfold Inv in H. rewrite Hx, Hl in H.
      apply (InvW_drop cm l); assumption. }
    assert (HD : Inv g (ev_step st EvRolled) /\ lookup file g = None /\
                 lookup (name b) g = Some (arch cm (concat (snd st)))).
    { split; [|split; assumption]. unfold Inv. rewrite Hwing, Hfileg. apply InvW_rolled. exact HR. }
    destruct fault as [k|].
    - destruct (Hfault k) as [Hk|[Hk1 Hk2]].
      + rewrite Hk. exact HD.
      + rewrite Hk2. destruct (Hpart k Hk1) as (Hxp & _).
        destruct (Hpref k Hk1) as (l & Hl & Hlen).
        split; [|exact Hxp]. unfold Inv. rewrite Hxp.
        unfold Inv in H. rewrite Hx, Hl in H. apply (InvW_drop cm l); assumption.
    - rewrite Hdone. exact HD.
  Qed.

  Lemma inv_build : forall f st mode, Inv f st ->
    SInv (build file mode f) (stream_st (if mode then [] else [EvTrunc]) st).
  Proof.
    intros f st mode H. unfold build. destruct mode; cbn [stream_st fold_left].
    - destruct (inv_ensure _ _ H) as [H1 H2]. split; [exact H1|]. cbn [afs]. intros _.
      rewrite H2. discriminate.
    - split; cbn [afs].
      + unfold Inv. rewrite lookup_write_eq.
        rewrite (win_same f) by (intros p Hp; apply lookup_write_neq; exact Hp).
        apply (InvW_trunc cm _ _ _ H).
      + intros _. rewrite lookup_write_eq. discriminate.
  Qed.

  Lemma roll_none_done : forall f x, lookup file f = Some x ->
    exists g, roll name cm None b c file f = Done g.
  Proof.
    intros f x Hx. rewrite (rotate_is_steps name b c cm file Hc Hfit Hinj Hout).
    destruct (rotation_all name b c cm file Hc Hfit Hinj Hout f _ Hx) as (g & R & Hdone & _).
    exists g. exact Hdone.
  Qed.

  (* CompoundPolicy::process on a state whose writer is open *)
  Lemma inv_process : forall pre fire fault s st s2 a rolled imgs,
    SInv s st -> lookup file (afs s) = Some (concat (snd st)) ->
    process name cm file {| c_base := b; c_count := c; c_pre := pre |} fire fault s = (s2, a, rolled, imgs) ->
    a <> APanic /\
    SInv s2 (stream_st (rolled_ev rolled) st) /\
    (a = AErr -> rolled = false) /\
    (rolled = true -> a = AOk /\ lookup file (afs s2) = None /\
                      lookup (name b) (afs s2) = Some (arch cm (concat (snd st)))) /\
    (fault = None -> a = AOk /\ rolled = fire (flen file (afs s))) /\
    (rolled = false -> a = AOk -> s2 = s).
  Proof.
    intros pre fire fault s st s2 a rolled imgs [H Hw] Hx Hp. unfold process in Hp.
    cbn [c_base c_count] in Hp.
    destruct (fire (flen file (afs s))) eqn:Ef.
    - pose proof (inv_roll (afs s) st fault H Hx) as Hr.
      destruct (roll name cm fault b c file (afs s)) as [g|g|] eqn:Er; [| |contradiction].
      + inversion Hp; subst. destruct Hr as (H1 & H2 & H3).
        unfold SInv. cbn [rolled_ev stream_st fold_left afs wopen].
        split; [discriminate|]. split; [split; [exact H1|intro Hf; discriminate Hf]|].
        split; [discriminate|]. split; [intros _; repeat split; assumption|].
        split; [intros _; split; reflexivity|]. intro Hf; discriminate Hf.
      + inversion Hp; subst. destruct Hr as (H1 & H2).
        unfold SInv. cbn [rolled_ev stream_st fold_left afs wopen].
        split; [discriminate|]. split; [split; [exact H1|intro Hf; discriminate Hf]|].
        split; [reflexivity|]. split; [intro Hf; discriminate Hf|].
        split; [|intros _ Hf; discriminate Hf].
        intros ->. destruct (roll_none_done (afs s) _ Hx) as (g' & Hg'). congruence.
    - inversion Hp; subst. cbn [rolled_ev stream_st fold_left].
      split; [discriminate|]. split; [split; assumption|].
      split; [discriminate|]. split; [intro Hf; discriminate Hf|].
      split; [intros _; split; reflexivity|]. reflexivity.
  Qed.

  (* one append, any fault: no panic, the invariant moves along the events *)
  Lemma append_inv : forall pre fire fault r s st s' a e imgs,
    SInv s st ->
    append_rec name cm file {| c_base := b; c_count := c; c_pre := pre |} fire fault r s = (s', a, e, imgs) ->
    a <> APanic /\ SInv s' (stream_st e st) /\ (a = AOk -> In (EvWrite r) e).
  Proof.
    intros pre fire fault r s st s' a e imgs HS Ha. unfold append_rec in Ha. cbn [c_pre] in Ha.
    destruct (inv_get_writer s st HS) as (HS1 & Hx1 & Ho1).
    destruct pre.
    - destruct (process name cm file _ fire fault (get_writer file s)) as [[[s2 a2] rolled] imgs2] eqn:Hp.
      destruct (inv_process _ _ _ _ _ _ _ _ _ HS1 Hx1 Hp) as (Hnp & HS2 & _).
      cbv iota beta in Ha. destruct a2.
      + inversion Ha; subst. split; [discriminate|].
        destruct (inv_get_writer s2 _ HS2) as (HS3 & Hx3 & Ho3).
        destruct (inv_write_rec _ _ r HS3 Hx3) as (HS4 & _).
        rewrite stream_st_app. split; [exact HS4|].
        intros _. apply in_or_app. right. left. reflexivity.
      + inversion Ha; subst. split; [discriminate|]. split; [|discriminate].
        destruct rolled; [|exact HS2].
        destruct (inv_process _ _ _ _ _ _ _ _ _ HS1 Hx1 Hp) as (_ & _ & Hf & _).
        specialize (Hf eq_refl). discriminate Hf.
      + contradiction Hnp; reflexivity.
    - destruct (inv_write_rec _ _ r HS1 Hx1) as (HS2 & Hx2 & Ho2).
      destruct (process name cm file _ fire fault (write_rec file r (get_writer file s)))
        as [[[s2 a2] rolled] imgs2] eqn:Hp.
      destruct (inv_process _ _ _ _ _ _ _ _ _ HS2 Hx2 Hp) as (Hnp & HS3 & _).
      cbv iota beta in Ha. inversion Ha; subst. split; [exact Hnp|]. split; [exact HS3|].
      intros _. left. reflexivity.
  Qed.

  Lemma step_inv : forall pre o s st s' a e imgs,
    SInv s st ->
    step_hist name cm file {| c_base := b; c_count := c; c_pre := pre |} o s = (s', a, e, imgs) ->
    a <> APanic /\ SInv s' (stream_st e st).
  Proof.
    intros pre o s st s' a e imgs HS Hs. destruct o as [r fire fault|mode]; cbn [step_hist] in Hs.
    - destruct (append_inv _ _ _ _ _ _ _ _ _ _ HS Hs) as (H1 & H2 & _). split; assumption.
    - inversion Hs; subst. split; [discriminate|]. apply inv_build. exact (proj1 HS).
  Qed.

  Lemma run_inv : forall pre ops s st s' tr,
    SInv s st ->
    run_hist name cm file {| c_base := b; c_count := c; c_pre := pre |} ops s = (s', tr) ->
    Forall (fun ae => fst ae <> APanic) tr /\ length tr = length ops /\
    SInv s' (stream_st (concat (map snd tr)) st).
  Proof.
    intros pre. induction ops as [|o ops IH]; intros s st s' tr HS Hr; cbn [run_hist] in Hr.
    - inversion Hr; subst. split; [constructor|]. split; [reflexivity|exact HS].
    - destruct (step_hist name cm file {| c_base := b; c_count := c; c_pre := pre |} o s) as [[[s1 a] e] imgs] eqn:Hs.
      destruct (step_inv _ _ _ _ _ _ _ _ HS Hs) as (Hnp & HS1).
      destruct a; [| |contradiction Hnp; reflexivity].
      + destruct (run_hist name cm file {| c_base := b; c_count := c; c_pre := pre |} ops s1) as [s2 l] eqn:Hr2.
        inversion Hr; subst. destruct (IH _ _ _ _ HS1 Hr2) as (H1 & H2 & H3).
        split; [constructor; [discriminate|exact H1]|]. split; [cbn [length]; lia|].
        cbn [map concat snd]. rewrite stream_st_app. exact H3.
      + destruct (run_hist name cm file {| c_base := b; c_count := c; c_pre := pre |} ops s1) as [s2 l] eqn:Hr2.
        inversion Hr; subst. destruct (IH _ _ _ _ HS1 Hr2) as (H1 & H2 & H3).
        split; [constructor; [discriminate|exact H1]|]. split; [cbn [length]; lia|].
        cbn [map concat snd]. rewrite stream_st_app. exact H3.
  Qed.

  (* an un-faulted append on any state satisfying the invariant: Ok, the record is written,
     and when the trigger fires the rotation runs to completion *)
  Lemma resume_append : forall pre fire r s st s' a e imgs,
    SInv s st ->
    append_rec name cm file {| c_base := b; c_count := c; c_pre := pre |} fire None r s = (s', a, e, imgs) ->
    let shown := if pre then concat (snd st) else concat (snd st) ++ r in
    let due := fire (N.of_nat (length shown)) in
    a = AOk /\
    e = (if pre then rolled_ev due ++ [EvWrite r] else EvWrite r :: rolled_ev due) /\
    (due = true ->
       lookup (name b) (afs s') = Some (arch cm shown) /\
       lookup file (afs s') = if pre then Some r else None) /\
    (due = false -> lookup file (afs s') = Some (concat (snd st) ++ r)).
  Proof.
    intros pre fire r s st s' a e imgs HS Ha. cbn zeta. unfold append_rec in Ha. cbn [c_pre] in Ha.
    destruct (inv_get_writer s st HS) as (HS1 & Hx1 & Ho1).
    assert (Hfl : forall t x, lookup file (afs t) = Some x -> flen file (afs t) = N.of_nat (length x)).
    { intros t x Hx. unfold flen. rewrite Hx. reflexivity. }
    destruct pre.
    - destruct (process name cm file _ fire None (get_writer file s)) as [[[s2 a2] rolled] imgs2] eqn:Hp.
      destruct (inv_process _ _ _ _ _ _ _ _ _ HS1 Hx1 Hp) as (Hnp & HS2 & _ & Hrolled & Hnone & Hsame).
      destruct (Hnone eq_refl) as [-> Hr]. rewrite (Hfl _ _ Hx1) in Hr.
      cbv iota beta in Ha. inversion Ha; subst. split; [reflexivity|]. split; [reflexivity|].
      destruct (inv_get_writer s2 _ HS2) as (HS3 & Hx3 & Ho3).
      assert (Hl : lookup file (afs (write_rec file r (get_writer file s2)))
                   = Some (concat (snd (stream_st (rolled_ev (fire (N.of_nat (length (concat (snd st)))))) st)) ++ r)).
      { unfold write_rec. cbn [afs]. rewrite lookup_append_eq, Hx3. reflexivity. }
      split.
      + intro Hd. rewrite Hd in *. destruct (Hrolled eq_refl) as (_ & Hf2 & Hb2). split.
        * unfold write_rec, get_writer. cbn [afs].
          assert (Hne : name b <> file).
          { rewrite <- (nm_0 name b). intro E.
            apply (file_m name b c file Hc Hout 0 (Nat.le_0_l _)). symmetry. exact E. }
          rewrite lookup_append_neq by exact Hne.
          destruct (wopen s2); [exact Hb2|]. cbn [afs]. unfold ensure. rewrite Hf2.
          rewrite lookup_write_neq by exact Hne. exact Hb2.
        * rewrite Hl. cbn [rolled_ev stream_st fold_left ev_step snd concat app]. reflexivity.
      + intro Hd. rewrite Hd in *. rewrite Hl. cbn [rolled_ev stream_st fold_left]. reflexivity.
    - destruct (inv_write_rec _ _ r HS1 Hx1) as (HS2 & Hx2 & Ho2).
      assert (Hcc : concat (snd (ev_step st (EvWrite r))) = concat (snd st) ++ r).
      { cbn [ev_step snd]. apply (@concat_snoc N). }
      destruct (process name cm file _ fire None (write_rec file r (get_writer file s)))
        as [[[s2 a2] rolled] imgs2] eqn:Hp.
      destruct (inv_process _ _ _ _ _ _ _ _ _ HS2 Hx2 Hp) as (Hnp & HS3 & _ & Hrolled & Hnone & Hsame).
      destruct (Hnone eq_refl) as [-> Hr]. rewrite (Hfl _ _ Hx2), Hcc in Hr.
      cbv iota beta in Ha. inversion Ha; subst. split; [reflexivity|]. split; [reflexivity|]. split.
      + intro Hd. rewrite Hd in *. destruct (Hrolled eq_refl) as (_ & Hf2 & Hb2).
        rewrite Hcc in Hb2. split; assumption.
      + intro Hd. rewrite Hd in *. rewrite (Hsame eq_refl eq_refl). rewrite Hx2, Hcc. reflexivity.
  Qed.

  (* the k-th hook image of an append = the directory the same append leaves when the
     hook fails at call k (and that append returns Err) *)
  Lemma crash_image_fault : forall pre fire r s k img s1 a1 e1 imgs1,
    append_rec name cm file {| c_base := b; c_count := c; c_pre := pre |} fire None r s = (s1, a1, e1, imgs1) ->
    nth_error imgs1 k = Some img ->
    exists s2 e2 imgs2,
      append_rec name cm file {| c_base := b; c_count := c; c_pre := pre |} fire (Some k) r s = (s2, AErr, e2, imgs2) /\ afs s2 = img /\
      img = exec_prefix cm k (steps name b c file)
              (afs (if pre then get_writer file s else write_rec file r (get_writer file s))).
  Proof.
    intros pre fire r s k img s1 a1 e1 imgs1 Ha Hn.
    assert (Hproc : forall t s1' a1' r1' imgs1',
              process name cm file {| c_base := b; c_count := c; c_pre := pre |} fire None t = (s1', a1', r1', imgs1') ->
              nth_error imgs1' k = Some img ->
              exists imgs2, process name cm file {| c_base := b; c_count := c; c_pre := pre |} fire (Some k) t
                            = ({| afs := img; wopen := false |}, AErr, false, imgs2)
                            /\ img = exec_prefix cm k (steps name b c file) (afs t)).
    { intros t s1' a1' r1' imgs1' Hp Hk. unfold process in *. cbn [c_base c_count] in *.
      destruct (fire (flen file (afs t))).
      - assert (Him : imgs1' = (if (c =? 0)%N then []
                               else if (u32_max1 <=? b + (c - 1))%N then []
                               else images cm None (steps name b c file) (afs t))).
        { destruct (roll name cm None b c file (afs t)); inversion Hp; reflexivity. }
        subst imgs1'. unfold roll, rotate.
        destruct (c =? 0)%N; [destruct k; discriminate Hk|].
        destruct (u32_max1 <=? b + (c - 1))%N; [destruct k; discriminate Hk|].
        rewrite (images_fault _ _ _ _ _ Hk). eexists. split; [reflexivity|].
        apply images_prefix. exact Hk.
      - inversion Hp; subst. destruct k; discriminate Hk. }
    unfold append_rec in *. cbn [c_pre] in *. destruct pre.
    - destruct (process name cm file _ fire None (get_writer file s)) as [[[s2 a2] r2] imgs2] eqn:Hp.
      assert (imgs2 = imgs1) by (cbv iota beta in Ha; destruct a2; inversion Ha; reflexivity). subst imgs2.
      destruct (Hproc _ _ _ _ _ Hp Hn) as (imgs3 & Hp3 & Hi). rewrite Hp3.
      eexists _, _, _. split; [reflexivity|]. split; [reflexivity|exact Hi].
    - destruct (process name cm file _ fire None (write_rec file r (get_writer file s)))
        as [[[s2 a2] r2] imgs2] eqn:Hp.
      assert (imgs2 = imgs1) by (cbv iota beta in Ha; inversion Ha; reflexivity). subst imgs2.
      destruct (Hproc _ _ _ _ _ Hp Hn) as (imgs3 & Hp3 & Hi). rewrite Hp3.
      eexists _, _, _. split; [reflexivity|]. split; [reflexivity|exact Hi].
  Qed.

  (* how much one append can take away: at most the top archive; what it can add: the
     archive of a completed rotation *)
  Definition win_step (f f' : fs) (rolled : bool) : Prop :=
    exists l R new,
      win f = l ++ R /\ win f' = R ++ new /\ length l <= 1 /\ length new <= 1 /\
      (new <> [] -> rolled = true).

  Lemma win_step_refl : forall f f', win f' = win f -> win_step f f' false.
  Proof.
    intros f f' H. exists [], (win f), []. rewrite H, app_nil_r. cbn [app length].
    repeat split; try lia. intro Hn. contradiction Hn; reflexivity.
  Qed.

  Lemma process_win_step : forall pre fire fault s x s2 a rolled imgs,
    lookup file (afs s) = Some x ->
    process name cm file {| c_base := b; c_count := c; c_pre := pre |} fire fault s = (s2, a, rolled, imgs) ->
    win_step (afs s) (afs s2) rolled.
  Proof.
    intros pre fire fault s x s2 a rolled imgs Hx Hp. unfold process in Hp. cbn [c_base c_count] in Hp.
    destruct (fire (flen file (afs s))).
    - rewrite (rotate_is_steps name b c cm file Hc Hfit Hinj Hout) in Hp.
      destruct (rotation_all name b c cm file Hc Hfit Hinj Hout (afs s) x Hx)
        as (g & R & Hdone & Hwing & _ & _ & _ & Hpart & Hpref & _ & Hfault).
      assert (HD : win_step (afs s) g true).
      { destruct (Hpart 0 (Nat.le_0_l _)) as (_ & l & Hl & Hlen). cbn [exec_prefix] in Hl.
        exists l, R, [arch cm x]. cbn [length]. repeat split; auto. }
      destruct fault as [k|].
      + destruct (Hfault k) as [Hk|[Hk1 Hk2]].
        * rewrite Hk in Hp. inversion Hp; subst. exact HD.
        * rewrite Hk2 in Hp. inversion Hp; subst. cbn [afs].
          destruct (Hpref k Hk1) as (l & Hl & Hlen).
          exists l, (win (exec_prefix cm k (steps name b c file) (afs s))), [].
          rewrite app_nil_r. cbn [length].
          repeat split; auto; try lia; try (intro Hn; contradiction Hn; reflexivity).
      + rewrite Hdone in Hp. inversion Hp; subst. exact HD.
    - inversion Hp; subst. apply win_step_refl. reflexivity.
  Qed.

  Lemma append_window_step : forall pre fire fault r s st s' a e imgs,
    SInv s st ->
    append_rec name cm file {| c_base := b; c_count := c; c_pre := pre |} fire fault r s = (s', a, e, imgs) ->
    exists l R new,
      win (afs s) = l ++ R /\ win (afs s') = R ++ new /\ length l <= 1 /\ length new <= 1 /\
      (new <> [] -> In EvRolled e).
  Proof.
    intros pre fire fault r s st s' a e imgs HS Ha. unfold append_rec in Ha. cbn [c_pre] in Ha.
    destruct (inv_get_writer s st HS) as (HS1 & Hx1 & Ho1).
    assert (Hgw : forall t, win (afs (get_writer file t)) = win (afs t)).
    { intro t. unfold get_writer. destruct (wopen t); [reflexivity|]. cbn [afs]. unfold ensure.
      destruct (lookup file (afs t)); [reflexivity|].
      apply win_same. intros p Hp. apply lookup_write_neq. exact Hp. }
    assert (Hwr : forall t, win (afs (write_rec file r t)) = win (afs t)).
    { intro t. unfold write_rec. cbn [afs]. apply win_same. intros p Hp. apply lookup_append_neq. exact Hp. }
    assert (Hev : forall rolled (l : list ev), rolled = true -> In EvRolled (rolled_ev rolled ++ l)).
    { intros rolled l ->. left. reflexivity. }
    destruct pre.
    - destruct (process name cm file _ fire fault (get_writer file s)) as [[[s2 a2] rolled] imgs2] eqn:Hp.
      destruct (process_win_step _ _ _ _ _ _ _ _ _ Hx1 Hp) as (l & R & new & H1 & H2 & H3 & H4 & H5).
      rewrite Hgw in H1. cbv iota beta in Ha.
      exists l, R, new. destruct a2; inversion Ha; subst.
      + rewrite Hwr, Hgw. repeat split; auto; try (intro Hn; apply Hev; apply H5; exact Hn).
      + repeat split; auto.
        all: try (intro Hn; specialize (H5 Hn); subst rolled;
                  destruct (inv_process _ _ _ _ _ _ _ _ _ HS1 Hx1 Hp) as (_ & _ & Hf & _);
                  specialize (Hf eq_refl); discriminate Hf).
      + destruct (inv_process _ _ _ _ _ _ _ _ _ HS1 Hx1 Hp) as (Hnp & _). contradiction Hnp; reflexivity.
    - destruct (inv_write_rec _ _ r HS1 Hx1) as (HS2 & Hx2 & Ho2).
      destruct (process name cm file _ fire fault (write_rec file r (get_writer file s)))
        as [[[s2 a2] rolled] imgs2] eqn:Hp.
      destruct (process_win_step _ _ _ _ _ _ _ _ _ Hx2 Hp) as (l & R & new & H1 & H2 & H3 & H4 & H5).
      rewrite Hwr, Hgw in H1. cbv iota beta in Ha. inversion Ha; subst.
      exists l, R, new. repeat split; auto; try (intro Hn; right; rewrite (H5 Hn); left; reflexivity).
  Qed.
End AppenderProofs.

(* ---------------------------------------------------------------- headline statements, fully
   explicit (pinned in Props/C08.v) *)

(* events of the initial build: a pre-existing active file counts as one written record *)
Definition init_evs (file : path) (mode0 : bool) (f0 : fs) : list ev :=
  match lookup file f0 with Some x => [EvWrite x] | None => [] end
  ++ (if mode0 then [] else [EvTrunc]).

(* oldest-to-newest reading of the managed files, in bytes (un = decompression) *)
Definition read (name : N -> path) (b c : N) (file : path) (un : bytes -> bytes) (f : fs) : bytes :=
  concat (map un (window name b (N.to_nat c) f))
  ++ match lookup file f with Some x => x | None => [] end.

Theorem retained_chunks_survive_every_prefix_x :
  forall (name : N -> path) (b c : N) (cm : cmode) (file : path) (f : fs) (x : bytes),
    (1 <= c)%N -> (b + c <= 4294967296)%N ->
    names_injective name b c -> file_outside name b c file ->
    lookup file f = Some x ->
    exists g R,
      roll name cm None b c file f = Done g /\
      window name b (N.to_nat c) g = R ++ [arch cm x] /\ lookup file g = None /\
      forall k, let p := exec_prefix cm k (steps name b c file) f in
        p = g \/
        (lookup file p = Some x /\
         exists l, window name b (N.to_nat c) p = l ++ R /\ length l <= 1).
Proof.
  intros name b c cm file f x Hc Hfit Hinj Hout Hx.
  destruct (rotation_all name b c cm file Hc Hfit Hinj Hout f x Hx)
    as (g & R & Hdone & Hwing & Hfileg & _ & Hall & _).
  exists g, R. rewrite (rotate_is_steps name b c cm file Hc Hfit Hinj Hout).
  split; [exact Hdone|]. split; [exact Hwing|]. split; [exact Hfileg|].
  intro k. cbn zeta. destruct (Hall k) as [H|H]; [left; exact H|right; exact H].
Qed.

Theorem fault_leaves_prefix_state_x :
  forall (name : N -> path) (b c : N) (cm : cmode) (file : path) (f : fs) (x : bytes) (k : nat),
    (1 <= c)%N -> (b + c <= 4294967296)%N ->
    names_injective name b c -> file_outside name b c file ->
    lookup file f = Some x ->
    roll name cm (Some k) b c file f = roll name cm None b c file f \/
    (k < N.to_nat c /\
     roll name cm (Some k) b c file f = Failed (exec_prefix cm k (steps name b c file) f)).
Proof.
  intros name b c cm file f x k Hc Hfit Hinj Hout Hx.
  destruct (rotation_all name b c cm file Hc Hfit Hinj Hout f x Hx)
    as (g & R & Hdone & _ & _ & _ & _ & _ & _ & _ & Hfault).
  rewrite !(rotate_is_steps name b c cm file Hc Hfit Hinj Hout). rewrite Hdone.
  destruct (Hfault k) as [H|[H1 H2]]; [left; exact H|right]. split; [lia|exact H2].
Qed.

Theorem suffix_invariant_under_faults_x :
  forall (name : N -> path) (b c : N) (cm : cmode) (file : path) (pre : bool),
    (1 <= c)%N -> (b + c <= 4294967296)%N ->
    names_injective name b c -> file_outside name b c file ->
    forall (segs0 : list (list bytes)) (f0 : fs) (mode0 : bool) (ops : list hop) (s : ast)
           (tr : list (ack * list ev)),
      window name b (N.to_nat c) f0 = map (seg_bytes cm) segs0 ->
      run_hist name cm file {| c_base := b; c_count := c; c_pre := pre |} ops (build file mode0 f0) = (s, tr) ->
      let st := stream_st (init_evs file mode0 f0 ++ concat (map snd tr)) (concat segs0, []) in
      Forall (fun ae => fst ae <> APanic) tr /\ length tr = length ops /\
      exists k segs,
        k <= length (fst st) /\ skipn k (fst st) = concat segs /\
        window name b (N.to_nat c) (afs s) = map (seg_bytes cm) segs /\
        (lookup file (afs s) = Some (concat (snd st)) \/
         (lookup file (afs s) = None /\ snd st = [])).
Proof.
  intros name b c cm file pre Hc Hfit Hinj Hout segs0 f0 mode0 ops s tr Hw0 Hr. cbn zeta.
  set (st0 := (concat segs0, @nil bytes)).
  set (e0 := match lookup file f0 with Some x => [EvWrite x] | None => [] end).
  assert (H0 : Inv name b c cm file f0 (stream_st e0 st0)).
  { unfold Inv, InvW. exists 0, segs0. unfold e0.
    destruct (lookup file f0) as [x|]; cbn [stream_st fold_left ev_step st0 fst snd length skipn app concat].
    - repeat split; auto; try lia. left. rewrite app_nil_r. reflexivity.
    - repeat split; auto; try lia. }
  pose proof (inv_build name b c cm file Hc Hfit Hinj Hout f0 _ mode0 H0) as H1.
  rewrite <- stream_st_app in H1. fold (init_evs file mode0 f0) in H1.
  destruct (run_inv name b c cm file Hc Hfit Hinj Hout pre ops _ _ _ _ H1 Hr) as (Ha & Hb & [Hc' _]).
  rewrite <- stream_st_app in Hc'.
  split; [exact Ha|]. split; [exact Hb|]. exact Hc'.
Qed.

Theorem read_is_stream_suffix_x :
  forall (name : N -> path) (b c : N) (cm : cmode) (un : bytes -> bytes) (file : path) (pre : bool),
    (1 <= c)%N -> (b + c <= 4294967296)%N ->
    names_injective name b c -> file_outside name b c file ->
    (forall y, un (arch cm y) = y) ->
    forall (segs0 : list (list bytes)) (f0 : fs) (mode0 : bool) (ops : list hop) (s : ast)
           (tr : list (ack * list ev)),
      window name b (N.to_nat c) f0 = map (seg_bytes cm) segs0 ->
      run_hist name cm file {| c_base := b; c_count := c; c_pre := pre |} ops (build file mode0 f0) = (s, tr) ->
      exists k,
        read name b c file un (afs s) =
        concat (skipn k (stream_of (stream_st (init_evs file mode0 f0 ++ concat (map snd tr))
                                              (concat segs0, [])))).
Proof.
  intros name b c cm un file pre Hc Hfit Hinj Hout Hun segs0 f0 mode0 ops s tr Hw0 Hr.
  destruct (suffix_invariant_under_faults_x name b c cm file pre Hc Hfit Hinj Hout
              segs0 f0 mode0 ops s tr Hw0 Hr) as (_ & _ & HI).
  unfold read. apply (InvW_read cm un _ _ _ Hun). exact HI.
Qed.

Theorem acknowledged_are_written_x :
  forall (name : N -> path) (cm : cmode) (file : path) (cf : cfg) (fire : N -> bool)
         (fault : option nat) (r : bytes) (s s' : ast) (e : list ev) (imgs : list fs),
    append_rec name cm file cf fire fault r s = (s', AOk, e, imgs) -> In (EvWrite r) e.
Proof.
  intros name cm file cf fire fault r s s' e imgs H. unfold append_rec in H.
  destruct (c_pre cf).
  - destruct (process name cm file cf fire fault (get_writer file s)) as [[[s2 a2] rolled] imgs2].
    cbv iota beta in H. destruct a2; inversion H; subst.
    apply in_or_app. right. left. reflexivity.
  - destruct (process name cm file cf fire fault (write_rec file r (get_writer file s)))
      as [[[s2 a2] rolled] imgs2].
    cbv iota beta in H. inversion H; subst. left. reflexivity.
Qed.

Theorem resumes_x :
  forall (name : N -> path) (b c : N) (cm : cmode) (file : path) (pre : bool),
    (1 <= c)%N -> (b + c <= 4294967296)%N ->
    names_injective name b c -> file_outside name b c file ->
    forall (segs0 : list (list bytes)) (f0 : fs) (mode0 : bool) (ops : list hop) (s : ast)
           (tr : list (ack * list ev)),
      window name b (N.to_nat c) f0 = map (seg_bytes cm) segs0 ->
      run_hist name cm file {| c_base := b; c_count := c; c_pre := pre |} ops (build file mode0 f0) = (s, tr) ->
      forall (fire : N -> bool) (r : bytes) (s' : ast) (a : ack) (e : list ev) (imgs : list fs),
        append_rec name cm file {| c_base := b; c_count := c; c_pre := pre |} fire None r s = (s', a, e, imgs) ->
        let act := snd (stream_st (init_evs file mode0 f0 ++ concat (map snd tr)) (concat segs0, [])) in
        let shown := if pre then concat act else concat act ++ r in
        let due := fire (N.of_nat (length shown)) in
        a = AOk /\
        e = (if pre then rolled_ev due ++ [EvWrite r] else EvWrite r :: rolled_ev due) /\
        (due = true ->
           lookup (name b) (afs s') = Some (arch cm shown) /\
           lookup file (afs s') = if pre then Some r else None) /\
        (due = false -> lookup file (afs s') = Some (concat act ++ r)).
Proof.
  intros name b c cm file pre Hc Hfit Hinj Hout segs0 f0 mode0 ops s tr Hw0 Hr fire r s' a e imgs Ha.
  set (st0 := (concat segs0, @nil bytes)).
  set (e0 := match lookup file f0 with Some x => [EvWrite x] | None => [] end).
  assert (H0 : Inv name b c cm file f0 (stream_st e0 st0)).
  { unfold Inv, InvW. exists 0, segs0. unfold e0.
    destruct (lookup file f0) as [x|]; cbn [stream_st fold_left ev_step st0 fst snd length skipn app concat].
    - repeat split; auto; try lia. left. rewrite app_nil_r. reflexivity.
    - repeat split; auto; try lia. }
  pose proof (inv_build name b c cm file Hc Hfit Hinj Hout f0 _ mode0 H0) as H1.
  rewrite <- stream_st_app in H1. fold (init_evs file mode0 f0) in H1.
  destruct (run_inv name b c cm file Hc Hfit Hinj Hout pre ops _ _ _ _ H1 Hr) as (_ & _ & HS).
  rewrite <- stream_st_app in HS.
  exact (resume_append name b c cm file Hc Hfit Hinj Hout pre fire r s _ s' a e imgs HS Ha).
Qed.

Theorem crash_image_is_fault_state_x :
  forall (name : N -> path) (b c : N) (cm : cmode) (file : path) (pre : bool) (fire : N -> bool)
         (r : bytes) (s : ast) (k : nat) (img : fs) (s1 : ast) (a1 : ack) (e1 : list ev) (imgs1 : list fs),
    append_rec name cm file {| c_base := b; c_count := c; c_pre := pre |} fire None r s = (s1, a1, e1, imgs1) ->
    nth_error imgs1 k = Some img ->
    exists s2 e2 imgs2,
      append_rec name cm file {| c_base := b; c_count := c; c_pre := pre |} fire (Some k) r s
        = (s2, AErr, e2, imgs2) /\
      afs s2 = img /\
      img = exec_prefix cm k (steps name b c file)
              (afs (if pre then get_writer file s else write_rec file r (get_writer file s))).
Proof. intros. eapply crash_image_fault; eassumption. Qed.

Theorem append_evicts_at_most_top_x :
  forall (name : N -> path) (b c : N) (cm : cmode) (file : path) (pre : bool),
    (1 <= c)%N -> (b + c <= 4294967296)%N ->
    names_injective name b c -> file_outside name b c file ->
    forall (segs0 : list (list bytes)) (f0 : fs) (mode0 : bool) (ops : list hop) (s : ast)
           (tr : list (ack * list ev)),
      window name b (N.to_nat c) f0 = map (seg_bytes cm) segs0 ->
      run_hist name cm file {| c_base := b; c_count := c; c_pre := pre |} ops (build file mode0 f0) = (s, tr) ->
      forall (fire : N -> bool) (fault : option nat) (r : bytes) (s' : ast) (a : ack) (e : list ev) (imgs : list fs),
        append_rec name cm file {| c_base := b; c_count := c; c_pre := pre |} fire fault r s = (s', a, e, imgs) ->
        exists l R new,
          window name b (N.to_nat c) (afs s) = l ++ R /\
          window name b (N.to_nat c) (afs s') = R ++ new /\
          length l <= 1 /\ length new <= 1 /\ (new <> [] -> In EvRolled e).
Proof.
  intros name b c cm file pre Hc Hfit Hinj Hout segs0 f0 mode0 ops s tr Hw0 Hr fire fault r s' a e imgs Ha.
  set (st0 := (concat segs0, @nil bytes)).
  set (e0 := match lookup file f0 with Some x => [EvWrite x] | None => [] end).
  assert (H0 : Inv name b c cm file f0 (stream_st e0 st0)).
  { unfold Inv, InvW. exists 0, segs0. unfold e0.
    destruct (lookup file f0) as [x|]; cbn [stream_st fold_left ev_step st0 fst snd length skipn app concat].
    - repeat split; auto; try lia. left. rewrite app_nil_r. reflexivity.
    - repeat split; auto; try lia. }
  pose proof (inv_build name b c cm file Hc Hfit Hinj Hout f0 _ mode0 H0) as H1.
  destruct (run_inv name b c cm file Hc Hfit Hinj Hout pre ops _ _ _ _ H1 Hr) as (_ & _ & HS).
  exact (append_window_step name b c cm file Hc Hfit Hinj Hout pre fire fault r s _ s' a e imgs HS Ha).
Qed.
