From Coq Require Import List NArith Bool Lia Arith.
Import ListNotations.
From L4 Require Import Model.Filters.
Local Open Scope N_scope.

(* ---------- declarative spec ---------- *)

Definition decisive (f : filt) (L : N) : bool :=
  match filt_resp f L with Neutral => false | _ => true end.

(* number of filters consulted: the prefix up to and including the first
   decisive one, or all of them *)
Fixpoint consulted (fs : list filt) (L : N) : nat :=
  match fs with
  | [] => 0
  | f :: rest => if decisive f L then 1 else S (consulted rest L)
  end%nat.

(* delivered iff the first decisive filter says Accept, or there is none *)
Definition delivered (fs : list filt) (L : N) : bool :=
  match find (fun f => decisive f L) fs with
  | Some f => match filt_resp f L with Accept => true | _ => false end
  | None => true
  end.

Definition about (a : nat) (e : event) : bool :=
  match e with
  | Consult b _ | Deliver b | Handler b => Nat.eqb a b
  end.

Definition single_events (a : nat) (ap : appender) (L : N) : list event :=
  map (Consult a) (seq 0 (consulted (filters ap) L))
  ++ (if delivered (filters ap) L then [Deliver a] else []).

(* ---------- lemmas ---------- *)

Lemma delivered_cons f rest L :
  delivered (f :: rest) L =
  match filt_resp f L with Accept => true | Reject => false | Neutral => delivered rest L end.
Proof. unfold delivered. cbn [find]. unfold decisive at 1. destruct (filt_resp f L) eqn:E; rewrite ?E; reflexivity. Qed.

Lemma consulted_cons f rest L :
  consulted (f :: rest) L =
  match filt_resp f L with Neutral => S (consulted rest L) | _ => 1%nat end.
Proof. cbn [consulted]. unfold decisive. destruct (filt_resp f L); reflexivity. Qed.

Lemma chain_spec a k fs L :
  chain a k fs L = (map (Consult a) (seq k (consulted fs L)), delivered fs L).
Proof.
  revert k; induction fs as [|f rest IH]; intros k; [reflexivity|].
  cbn [chain]. rewrite delivered_cons, consulted_cons.
  destruct (filt_resp f L); cbn [map seq]; try reflexivity.
  rewrite IH. reflexivity.
Qed.

Lemma app_append_spec a ap L :
  app_append a ap L =
  (single_events a ap L, delivered (filters ap) L && fails ap).
Proof.
  unfold app_append, single_events. rewrite chain_spec.
  destruct (delivered (filters ap) L); cbn; [reflexivity|].
  now rewrite app_nil_r.
Qed.

Lemma threshold_spec t L :
  filt_resp (Threshold t) L = if t <? L then Reject else Neutral.
Proof. reflexivity. Qed.

Lemma threshold_reject_iff t L : filt_resp (Threshold t) L = Reject <-> t < L.
Proof.
  cbn. destruct (N.ltb_spec t L); split; intro H0; try easy; lia.
Qed.

Lemma threshold_neutral_iff t L : filt_resp (Threshold t) L = Neutral <-> L <= t.
Proof.
  cbn. destruct (N.ltb_spec t L); split; intro H0; try easy; lia.
Qed.

Lemma fan_spec apps attached L :
  fan apps attached L =
  (concat (map (fun i => single_events i (nth i apps dummy_app) L) attached),
   filter (fun i => delivered (filters (nth i apps dummy_app)) L
                    && fails (nth i apps dummy_app)) attached).
Proof.
  induction attached as [|i rest IH]; cbn [fan map concat filter]; [reflexivity|].
  rewrite app_append_spec, IH.
  destruct (delivered _ L && fails _); reflexivity.
Qed.

Lemma about_single_same a ap L :
  filter (about a) (single_events a ap L) = single_events a ap L.
Proof.
  unfold single_events. rewrite filter_app.
  f_equal.
  - induction (seq 0 (consulted (filters ap) L)) as [|x xs IH]; cbn; [reflexivity|].
    rewrite Nat.eqb_refl, IH; reflexivity.
  - destruct (delivered (filters ap) L); cbn; [|reflexivity].
    now rewrite Nat.eqb_refl.
Qed.

Lemma about_single_other a b ap L :
  a <> b -> filter (about a) (single_events b ap L) = [].
Proof.
  intros Hab. unfold single_events. rewrite filter_app.
  assert (Hf : Nat.eqb a b = false) by now apply Nat.eqb_neq.
  replace (filter (about a) (map (Consult b) (seq 0 (consulted (filters ap) L)))) with (@nil event).
  - destruct (delivered (filters ap) L); cbn; [|reflexivity]. now rewrite Hf.
  - induction (seq 0 (consulted (filters ap) L)) as [|x xs IH]; cbn; [reflexivity|].
    now rewrite Hf.
Qed.

Lemma filter_concat_map {A B} (p : B -> bool) (f : A -> list B) (l : list A) :
  filter p (concat (map f l)) = concat (map (fun x => filter p (f x)) l).
Proof.
  induction l as [|x xs IH]; cbn; [reflexivity|]. now rewrite filter_app, IH.
Qed.

(* what appender a sees, in a fan-out over any attachment list and any other
   appenders: one copy of its own single-appender events per attachment *)
Lemma fan_isolated apps attached L a :
  filter (about a) (fst (fan apps attached L)) =
  concat (map (fun i => if Nat.eqb a i
                        then single_events a (nth a apps dummy_app) L else [])
              attached).
Proof.
  rewrite fan_spec; cbn [fst]. rewrite filter_concat_map.
  f_equal. apply map_ext. intros i.
  destruct (Nat.eqb_spec a i) as [->|Hne].
  - apply about_single_same.
  - now apply about_single_other.
Qed.

Lemma fan_isolated_indep apps apps' attached L a :
  nth a apps dummy_app = nth a apps' dummy_app ->
  filter (about a) (fst (fan apps attached L)) =
  filter (about a) (fst (fan apps' attached L)).
Proof. intros H. rewrite !fan_isolated, H. reflexivity. Qed.

Lemma log_record_spec lvl apps attached L :
  log_record lvl apps attached L =
  if L <=? lvl then
    concat (map (fun i => single_events i (nth i apps dummy_app) L) attached)
    ++ map Handler
         (filter (fun i => delivered (filters (nth i apps dummy_app)) L
                           && fails (nth i apps dummy_app)) attached)
  else [].
Proof. unfold log_record. rewrite fan_spec. reflexivity. Qed.

Definition is_handler (e : event) : bool :=
  match e with Handler _ => true | _ => false end.

Lemma single_no_handler a ap L : filter is_handler (single_events a ap L) = [].
Proof.
  unfold single_events. rewrite filter_app.
  replace (filter is_handler (map (Consult a) (seq 0 (consulted (filters ap) L)))) with (@nil event).
  - now destruct (delivered (filters ap) L).
  - induction (seq 0 (consulted (filters ap) L)); cbn; auto.
Qed.

Lemma handlers_exact lvl apps attached L :
  filter is_handler (log_record lvl apps attached L) =
  if L <=? lvl then
    map Handler (filter (fun i => delivered (filters (nth i apps dummy_app)) L
                                  && fails (nth i apps dummy_app)) attached)
  else [].
Proof.
  rewrite log_record_spec. destruct (L <=? lvl); [|reflexivity].
  rewrite filter_app, filter_concat_map.
  replace (concat _) with (@nil event).
  - cbn. induction (filter _ attached) as [|x xs IH]; cbn; [reflexivity|]. now rewrite IH.
  - symmetry. induction attached as [|i rest IH]; cbn [map concat]; [reflexivity|].
    rewrite single_no_handler, IH. reflexivity.
Qed.

(* all-Neutral chains deliver and consult everything *)
Lemma all_neutral_delivers fs L :
  (forall f, In f fs -> filt_resp f L = Neutral) ->
  delivered fs L = true /\ consulted fs L = length fs.
Proof.
  induction fs as [|f rest IH]; intros H; [split; reflexivity|].
  rewrite delivered_cons, consulted_cons, (H f (or_introl eq_refl)).
  destruct IH as [IH1 IH2]; [intros g Hg; apply H; now right|].
  split; [exact IH1|]. cbn [length]. now rewrite IH2.
Qed.

(* first decisive filter at position n decides, later ones are not consulted *)
Lemma first_decisive fs1 f fs2 L :
  (forall g, In g fs1 -> filt_resp g L = Neutral) ->
  filt_resp f L <> Neutral ->
  delivered (fs1 ++ f :: fs2) L = (match filt_resp f L with Accept => true | _ => false end)
  /\ consulted (fs1 ++ f :: fs2) L = S (length fs1).
Proof.
  induction fs1 as [|g rest IH]; intros Hn Hf; cbn [app length].
  - rewrite delivered_cons, consulted_cons.
    destruct (filt_resp f L); [split; reflexivity|now elim Hf|split; reflexivity].
  - destruct IH as [IH1 IH2]; [intros h Hh; apply Hn; now right|exact Hf|].
    rewrite delivered_cons, consulted_cons, (Hn g (or_introl eq_refl)).
    split; [exact IH1|now rewrite IH2].
Qed.

(* ---------- re-entrant histories: declarative spec ---------- *)

(* the events of ONE call, each followed by whatever user code does at that
   point: after a delivery to appender a, `ia a`; after a handler call for
   appender a's error, `ih a`; nothing after a filter consultation *)
Definition expand (id : nat) (ia ih : nat -> list rev) (e : event) : list rev :=
  Ev id e :: match e with
             | Consult _ _ => []
             | Deliver a => ia a
             | Handler a => ih a
             end.

Definition nest (id : nat) (ia ih : nat -> list rev) (evs : list event) : list rev :=
  concat (map (expand id ia ih) evs).

Definition cid (c : call) : nat := match c with Call id _ _ _ _ _ _ => id end.
Definition ckids (c : call) : list call := match c with Call _ _ _ _ _ _ kids => kids end.

Section Re.
  Variable apps : list appender.
  Variable nodes : list (N * list nat).

  Definition node_level (nd : nat) : N := fst (nth nd nodes (0, [])).
  Definition node_att (nd : nat) : list nat := snd (nth nd nodes (0, [])).

  (* the nesting of the single-call event lists (log_record) of all calls of the tree *)
  Fixpoint weave (c : call) : list rev :=
    match c with
    | Call id _ _ nd L panics kids =>
      let issued (h : bool) (a : nat) :=
          concat (map (fun k => if triggered k h a then weave k else []) kids) in
      nest id
        (fun a => (if existsb (Nat.eqb a) panics then [Unwind id] else []) ++ issued false a)
        (issued true)
        (log_record (node_level nd) apps (node_att nd) L)
    end.

  Lemma nest_app id ia ih l1 l2 :
    nest id ia ih (l1 ++ l2) = nest id ia ih l1 ++ nest id ia ih l2.
  Proof. unfold nest. now rewrite map_app, concat_app. Qed.

  Lemma nest_consults id ia ih a l :
    nest id ia ih (map (Consult a) l) = map (Ev id) (map (Consult a) l).
  Proof. induction l as [|x xs IH]; [reflexivity|]. unfold nest in *. cbn. now rewrite IH. Qed.

  Lemma app_append_r_spec id ia ih a ap L :
    app_append_r id ia a ap L =
    (nest id ia ih (fst (app_append a ap L)), snd (app_append a ap L)).
  Proof.
    unfold app_append_r. rewrite app_append_spec. cbn [fst snd].
    rewrite chain_spec. unfold single_events.
    destruct (delivered (filters ap) L); cbn [andb].
    - rewrite nest_app, nest_consults. unfold nest. cbn. now rewrite app_nil_r.
    - now rewrite app_nil_r, nest_consults.
  Qed.

  Lemma fan_r_spec id ia ih attached L :
    fan_r apps id ia attached L =
    (nest id ia ih (fst (fan apps attached L)), snd (fan apps attached L)).
  Proof.
    induction attached as [|i rest IH]; [reflexivity|].
    cbn [fan_r fan]. rewrite (app_append_r_spec id ia ih), IH.
    destruct (app_append i (nth i apps dummy_app) L) as [ev err].
    destruct (fan apps rest L) as [evs errs]. cbn [fst snd].
    now rewrite nest_app.
  Qed.

  Lemma nest_handlers id ia ih errs :
    nest id ia ih (map Handler errs) = concat (map (fun i => Ev id (Handler i) :: ih i) errs).
  Proof. unfold nest. now rewrite map_map. Qed.

  (* composition law, one level: a call whose user code does ia/ih produces the
     single-call events of log_record with ia/ih spliced in *)
  Lemma log_record_r_nest id ia ih lvl attached L :
    log_record_r apps id ia ih lvl attached L = nest id ia ih (log_record lvl apps attached L).
  Proof.
    unfold log_record_r, log_record. destruct (L <=? lvl); [|reflexivity].
    rewrite (fan_r_spec id ia ih). destruct (fan apps attached L) as [ev errs]. cbn [fst snd].
    now rewrite nest_app, nest_handlers.
  Qed.

  Lemma nest_ext id ia ia' ih ih' evs :
    (forall a, ia a = ia' a) -> (forall a, ih a = ih' a) ->
    nest id ia ih evs = nest id ia' ih' evs.
  Proof.
    intros Ha Hh. unfold nest. f_equal. apply map_ext. intros [a k|a|a]; unfold expand; rewrite ?Ha, ?Hh; reflexivity.
  Qed.

  (* rose-tree induction *)
  Lemma call_ind' (P : call -> Prop) :
    (forall id bh ba nd L panics kids, Forall P kids -> P (Call id bh ba nd L panics kids)) ->
    forall c, P c.
  Proof.
    intros H. fix IH 1. intros [id bh ba nd L panics kids]. apply H.
    induction kids as [|k ks IHk]; constructor; [apply IH|exact IHk].
  Qed.

  Lemma issued_ext (f g : call -> list rev) kids h a :
    Forall (fun k => f k = g k) kids ->
    concat (map (fun k => if triggered k h a then f k else []) kids) =
    concat (map (fun k => if triggered k h a then g k else []) kids).
  Proof.
    induction 1 as [|k ks Hk _ IH]; [reflexivity|]. cbn. now rewrite Hk, IH.
  Qed.

  Theorem run_weave c : run apps nodes c = weave c.
  Proof.
    induction c as [id bh ba nd L panics kids IH] using call_ind'.
    cbn [run weave]. rewrite log_record_r_nest. unfold node_level, node_att.
    apply nest_ext; intros a; now rewrite (issued_ext _ _ kids _ a IH).
  Qed.

  (* ---------- ids ---------- *)
  Fixpoint ids (c : call) : list nat :=
    match c with Call id _ _ _ _ _ kids => id :: concat (map ids kids) end.

  Definition rid (r : rev) : nat := match r with Ev i _ | Unwind i => i end.

  (* the events observed on record id, in order *)
  Definition events_of (id : nat) (l : list rev) : list event :=
    flat_map (fun r => match r with
                       | Ev i e => if Nat.eqb i id then [e] else []
                       | Unwind _ => []
                       end) l.

  Lemma events_of_app id l1 l2 : events_of id (l1 ++ l2) = events_of id l1 ++ events_of id l2.
  Proof. unfold events_of. now rewrite flat_map_app. Qed.

  Lemma events_of_foreign id l :
    (forall r, In r l -> rid r <> id) -> events_of id l = [].
  Proof.
    induction l as [|r rs IH]; intros H; [reflexivity|].
    unfold events_of in *. cbn [flat_map]. rewrite IH by (intros r' Hr'; apply H; now right).
    destruct r as [i e|i]; [|reflexivity].
    destruct (Nat.eqb_spec i id) as [->|]; [|reflexivity].
    exfalso. now apply (H (Ev id e) (or_introl eq_refl)).
  Qed.

  Lemma in_nest id ia ih evs r :
    In r (nest id ia ih evs) -> (exists e, r = Ev id e) \/ exists a, In r (ia a) \/ In r (ih a).
  Proof.
    unfold nest. rewrite in_concat. intros (l & Hl & Hr). rewrite in_map_iff in Hl.
    destruct Hl as (e & <- & _). destruct Hr as [<-|Hr]; [left; now exists e|].
    destruct e as [a k|a|a]; [easy| |]; right; exists a; auto.
  Qed.

  Lemma in_issued (f : call -> list rev) kids h a r :
    In r (concat (map (fun k => if triggered k h a then f k else []) kids)) ->
    exists k, In k kids /\ In r (f k).
  Proof.
    rewrite in_concat. intros (l & Hl & Hr). rewrite in_map_iff in Hl.
    destruct Hl as (k & <- & Hk). exists k. split; [exact Hk|].
    now destruct (triggered k h a).
  Qed.

  Lemma run_ids c : forall r, In r (run apps nodes c) -> In (rid r) (ids c).
  Proof.
    induction c as [id bh ba nd L panics kids IH] using call_ind'.
    intros r Hr. cbn [run] in Hr. rewrite log_record_r_nest in Hr.
    apply in_nest in Hr. cbn [ids]. destruct Hr as [(e & ->)|(a & [Hr|Hr])]; [now left| |].
    - apply in_app_or in Hr. destruct Hr as [Hr|Hr].
      + destruct (existsb _ panics); [|easy]. destruct Hr as [<-|[]]. now left.
      + right. apply in_issued in Hr. destruct Hr as (k & Hk & Hr).
        rewrite in_concat. exists (ids k). split; [now apply in_map|].
        rewrite Forall_forall in IH. now apply IH.
    - right. apply in_issued in Hr. destruct Hr as (k & Hk & Hr).
      rewrite in_concat. exists (ids k). split; [now apply in_map|].
      rewrite Forall_forall in IH. now apply IH.
  Qed.

  Lemma events_of_nest id ia ih evs :
    (forall a, events_of id (ia a) = []) -> (forall a, events_of id (ih a) = []) ->
    events_of id (nest id ia ih evs) = evs.
  Proof.
    intros Ha Hh. induction evs as [|e es IH]; [reflexivity|].
    change (nest id ia ih (e :: es)) with (expand id ia ih e ++ nest id ia ih es).
    rewrite events_of_app, IH. unfold expand.
    change (events_of id (Ev id e :: ?l)) with ((if Nat.eqb id id then [e] else []) ++ events_of id l).
    rewrite Nat.eqb_refl. destruct e as [a k|a|a]; cbn; now rewrite ?Ha, ?Hh.
  Qed.

  (* erasure: in the trace of a re-entrant call tree, the events observed on the
     top record are exactly those of the single, non-re-entrant call *)
  Theorem reentrant_erasure id bh ba nd L panics kids :
    ~ In id (concat (map ids kids)) ->
    events_of id (run apps nodes (Call id bh ba nd L panics kids)) =
    log_record (node_level nd) apps (node_att nd) L.
  Proof.
    intros Hid. cbn [run]. rewrite log_record_r_nest.
    assert (Hiss : forall h a, events_of id (concat (map (fun k => if triggered k h a
                              then run apps nodes k else []) kids)) = []).
    { intros h a. apply events_of_foreign. intros r Hr Heq.
      apply in_issued in Hr. destruct Hr as (k & Hk & Hr). apply Hid. rewrite <- Heq.
      rewrite in_concat. exists (ids k). split; [now apply in_map|now apply run_ids]. }
    apply events_of_nest; intros a; [|apply Hiss].
    rewrite events_of_app, Hiss, app_nil_r. now destruct (existsb _ panics).
  Qed.

  Lemma in_events_of id l e : In e (events_of id l) <-> In (Ev id e) l.
  Proof.
    unfold events_of. rewrite in_flat_map. split.
    - intros ([i e'|i] & Hr & He); [|easy].
      destruct (Nat.eqb_spec i id) as [->|]; [|easy]. now destruct He as [<-|[]].
    - intros H. exists (Ev id e). split; [exact H|]. rewrite Nat.eqb_refl. now left.
  Qed.

  Lemma in_single_deliver a b ap L :
    In (Deliver b) (single_events a ap L) <-> a = b /\ delivered (filters ap) L = true.
  Proof.
    unfold single_events. rewrite in_app_iff, in_map_iff. split.
    - intros [(x & Hx & _)|H]; [easy|]. destruct (delivered (filters ap) L); [|easy].
      destruct H as [[= ->]|[]]. now split.
    - intros [-> ->]. right. now left.
  Qed.

  Lemma in_log_record_deliver lvl attached L b :
    In (Deliver b) (log_record lvl apps attached L) <->
    (L <=? lvl) = true /\ In b attached /\ delivered (filters (nth b apps dummy_app)) L = true.
  Proof.
    rewrite log_record_spec. destruct (L <=? lvl); [|split; [easy|intros [? _]; easy]].
    rewrite in_app_iff, in_concat. split.
    - intros [(l & Hl & Hin)|H].
      + rewrite in_map_iff in Hl. destruct Hl as (i & <- & Hi).
        apply in_single_deliver in Hin. destruct Hin as [-> Hd]. auto.
      + rewrite in_map_iff in H. now destruct H as (x & Hx & _).
    - intros (_ & Hb & Hd). left. exists (single_events b (nth b apps dummy_app) L).
      split; [now apply (in_map (fun i => single_events i (nth i apps dummy_app) L))|].
      now apply in_single_deliver.
  Qed.

  (* receipt in a re-entrant history is decided by the appender's own chain *)
  Theorem reentrant_receipt id bh ba nd L panics kids b :
    ~ In id (concat (map ids kids)) ->
    (In (Ev id (Deliver b)) (run apps nodes (Call id bh ba nd L panics kids)) <->
     (L <=? node_level nd) = true /\ In b (node_att nd) /\
     delivered (filters (nth b apps dummy_app)) L = true).
  Proof.
    intros Hid. rewrite <- in_events_of, (reentrant_erasure _ _ _ _ _ _ _ Hid).
    apply in_log_record_deliver.
  Qed.

  Theorem reentrant_errors_once id bh ba nd L panics kids :
    ~ In id (concat (map ids kids)) ->
    filter is_handler (events_of id (run apps nodes (Call id bh ba nd L panics kids))) =
    if L <=? node_level nd then
      map Handler (filter (fun i => delivered (filters (nth i apps dummy_app)) L
                                    && fails (nth i apps dummy_app)) (node_att nd))
    else [].
  Proof. intros Hid. rewrite (reentrant_erasure _ _ _ _ _ _ _ Hid). apply handlers_exact. Qed.

  (* ---------- unwinding ---------- *)
  Lemma cut_prefix l : exists r, l = cut l ++ r.
  Proof.
    induction l as [|e es [r IH]]; [now exists []|].
    destruct e as [i e|i]; cbn [cut].
    - exists r. cbn. now rewrite <- IH.
    - now exists es.
  Qed.

  Lemma cut_in l r : In r (cut l) -> In r l.
  Proof.
    induction l as [|e es IH]; [easy|]. destruct e as [i e|i]; cbn [cut].
    - intros [<-|H]; [now left|right; now apply IH].
    - intros [<-|[]]. now left.
  Qed.

  Lemma cut_no_unwind l : (forall i, ~ In (Unwind i) l) -> cut l = l.
  Proof.
    induction l as [|e es IH]; intros H; [reflexivity|]. destruct e as [i e|i].
    - cbn [cut]. f_equal. apply IH. intros j Hj. apply (H j). now right.
    - exfalso. apply (H i). now left.
  Qed.

  (* nothing runs after the panic: the cut trace ends at its only Unwind *)
  Lemma cut_unwind_last l i : In (Unwind i) (cut l) -> exists p, cut l = p ++ [Unwind i] /\ forall j, ~ In (Unwind j) p.
  Proof.
    induction l as [|e es IH]; [easy|]. destruct e as [j e|j]; cbn [cut].
    - intros [H|H]; [easy|]. destruct (IH H) as (p & Hp & Hn). exists (Ev j e :: p). split.
      + cbn. now rewrite Hp.
      + intros k [Hk|Hk]; [easy|]. now apply (Hn k).
    - intros [[= ->]|[]]. exists []. split; [reflexivity|easy].
  Qed.

  Fixpoint pfree (c : call) : bool :=
    match c with
    | Call _ _ _ _ _ panics kids =>
      match panics with [] => forallb pfree kids | _ => false end
    end.

  Lemma run_pfree c : pfree c = true -> forall i, ~ In (Unwind i) (run apps nodes c).
  Proof.
    induction c as [id bh ba nd L panics kids IH] using call_ind'.
    cbn [pfree]. destruct panics; [|easy]. intros Hk i Hr.
    cbn [run] in Hr. rewrite log_record_r_nest in Hr.
    rewrite forallb_forall in Hk. rewrite Forall_forall in IH.
    apply in_nest in Hr. destruct Hr as [(e & He)|(a & [Hr|Hr])]; [easy| |].
    - cbn in Hr. apply in_issued in Hr. destruct Hr as (k & Hk' & Hr). now apply (IH k Hk' (Hk k Hk') i).
    - apply in_issued in Hr. destruct Hr as (k & Hk' & Hr). now apply (IH k Hk' (Hk k Hk') i).
  Qed.

  Theorem run_top_pfree c : pfree c = true -> run_top apps nodes c = run apps nodes c.
  Proof. intros H. apply cut_no_unwind. now apply run_pfree. Qed.

  (* a caught panic leaves nothing behind: the next top-level call is an ordinary call *)
  Lemma run_seq_cons c cs : run_seq apps nodes (c :: cs) = run_top apps nodes c ++ run_seq apps nodes cs.
  Proof. reflexivity. Qed.

  Lemma run_seq_ids cs r :
    In r (run_seq apps nodes cs) -> In (rid r) (concat (map ids cs)).
  Proof.
    unfold run_seq. rewrite !in_concat. intros (l & Hl & Hr). rewrite in_map_iff in Hl.
    destruct Hl as (c & <- & Hc). exists (ids c). split; [now apply in_map|].
    apply run_ids. now apply cut_in.
  Qed.

  (* ---------- threads ---------- *)
  (* lib.rs shares nothing mutable between log calls, so a concurrent trace is
     some interleaving of the threads' own traces *)
  Inductive merge : list rev -> list rev -> list rev -> Prop :=
  | merge_nil : merge [] [] []
  | merge_l x l1 l2 m : merge l1 l2 m -> merge (x :: l1) l2 (x :: m)
  | merge_r x l1 l2 m : merge l1 l2 m -> merge l1 (x :: l2) (x :: m).

  Lemma merge_left l : merge l [] l.
  Proof. induction l; constructor; auto. Qed.
  Lemma merge_right l : merge [] l l.
  Proof. induction l; constructor; auto. Qed.

  Lemma merge_app_r l1 l2 : merge l1 l2 (l2 ++ l1).
  Proof. induction l2; cbn; [apply merge_left|now constructor]. Qed.

  Lemma sched_merge ev1 ev2 : merge ev1 ev2 (sched ev1 ev2).
  Proof.
    induction ev1 as [|e es IH]; [apply merge_right|].
    destruct e as [i [a k|a|a]|i]; cbn [sched]; constructor; auto.
    apply merge_app_r.
  Qed.

  Lemma merge_filter_r p l1 l2 m :
    merge l1 l2 m ->
    (forall x, In x l1 -> p x = false) -> (forall x, In x l2 -> p x = true) ->
    filter p m = l2.
  Proof.
    induction 1 as [|x l1 l2 m _ IH|x l1 l2 m _ IH]; intros H1 H2; [reflexivity| |]; cbn [filter].
    - rewrite (H1 x (or_introl eq_refl)). apply IH; auto. intros y Hy. apply H1. now right.
    - rewrite (H2 x (or_introl eq_refl)). f_equal. apply IH; auto. intros y Hy. apply H2. now right.
  Qed.

  Lemma merge_sym l1 l2 m : merge l1 l2 m -> merge l2 l1 m.
  Proof. induction 1; constructor; auto. Qed.

  Definition mem (l : list nat) (r : rev) : bool := existsb (Nat.eqb (rid r)) l.

  Lemma mem_in l r : mem l r = true <-> In (rid r) l.
  Proof.
    unfold mem. rewrite existsb_exists. split.
    - intros (x & Hx & He). apply Nat.eqb_eq in He. now rewrite He.
    - intros H. exists (rid r). split; [exact H|apply Nat.eqb_refl].
  Qed.

  (* whatever another thread does meanwhile, and however the two traces are
     interleaved, a thread's own events are those of its own sequential run *)
  Theorem concurrent_isolated cs1 cs2 m :
    (forall i, In i (concat (map ids cs1)) -> ~ In i (concat (map ids cs2))) ->
    merge (run_seq apps nodes cs1) (run_seq apps nodes cs2) m ->
    filter (mem (concat (map ids cs2))) m = run_seq apps nodes cs2 /\
    filter (mem (concat (map ids cs1))) m = run_seq apps nodes cs1.
  Proof.
    intros Hd Hm. split.
    - apply (merge_filter_r _ _ _ _ Hm).
      + intros x Hx. apply run_seq_ids in Hx. destruct (mem _ x) eqn:E; [|reflexivity].
        apply mem_in in E. now elim (Hd _ Hx).
      + intros x Hx. apply mem_in. now apply run_seq_ids.
    - apply (merge_filter_r _ _ _ _ (merge_sym _ _ _ Hm)).
      + intros x Hx. apply run_seq_ids in Hx. destruct (mem _ x) eqn:E; [|reflexivity].
        apply mem_in in E. now elim (Hd _ E).
      + intros x Hx. apply mem_in. now apply run_seq_ids.
  Qed.
End Re.
