From Coq Require Import List NArith Bool Lia Arith.
Import ListNotations.
From L4 Require Import Model.Filters.
Local Open Scope N_scope.

(* ---------- declarative spec ---------- *)

Definition decisive (f : filt) (L : N) : bool :=
  match filt_resp f L with Neutral => false | _ => true end.

(* number of filters consulted: the prefix up to and including the first
   decisive one, or all of them *)
Fixpoint consulted (fs : list filt) (L : N) : nat :=
  match fs with
  | [] => 0
  | f :: rest => if decisive f L then 1 else S (consulted rest L)
  end%nat.

(* delivered iff the first decisive filter says Accept, or there is none *)
Definition delivered (fs : list filt) (L : N) : bool :=
  match find (fun f => decisive f L) fs with
  | Some f => match filt_resp f L with Accept => true | _ => false end
  | None => true
  end.

Definition about (a : nat) (e : event) : bool :=
  match e with
  | Consult b _ | Deliver b | Handler b => Nat.eqb a b
  end.

Definition single_events (a : nat) (ap : appender) (L : N) : list event :=
  map (Consult a) (seq 0 (consulted (filters ap) L))
  ++ (if delivered (filters ap) L then [Deliver a] else []).

(* ---------- lemmas ---------- *)

Lemma delivered_cons f rest L :
  delivered (f :: rest) L =
  match filt_resp f L with Accept => true | Reject => false | Neutral => delivered rest L end.
Proof. unfold delivered. cbn [find]. unfold decisive at 1. destruct (filt_resp f L) eqn:E; rewrite ?E; reflexivity. Qed.

Lemma consulted_cons f rest L :
  consulted (f :: rest) L =
  match filt_resp f L with Neutral => S (consulted rest L) | _ => 1%nat end.
Proof. cbn [consulted]. unfold decisive. destruct (filt_resp f L); reflexivity. Qed.

Lemma chain_spec a k fs L :
  chain a k fs L = (map (Consult a) (seq k (consulted fs L)), delivered fs L).
Proof.
  revert k; induction fs as [|f rest IH]; intros k; [reflexivity|].
  cbn [chain]. rewrite delivered_cons, consulted_cons.
  destruct (filt_resp f L); cbn [map seq]; try reflexivity.
  rewrite IH. reflexivity.
Qed.

Lemma app_append_spec a ap L :
  app_append a ap L =
  (single_events a ap L, delivered (filters ap) L && fails ap).
Proof.
  unfold app_append, single_events. rewrite chain_spec.
  destruct (delivered (filters ap) L); cbn; [reflexivity|].
  now rewrite app_nil_r.
Qed.

Lemma threshold_spec t L :
  filt_resp (Threshold t) L = if t <? L then Reject else Neutral.
Proof. reflexivity. Qed.

Lemma threshold_reject_iff t L : filt_resp (Threshold t) L = Reject <-> t < L.
Proof.
  cbn. destruct (N.ltb_spec t L); split; intro H0; try easy; lia.
Qed.

Lemma threshold_neutral_iff t L : filt_resp (Threshold t) L = Neutral <-> L <= t.
Proof.
  cbn. destruct (N.ltb_spec t L); split; intro H0; try easy; lia.
Qed.

Lemma fan_spec apps attached L :
  fan apps attached L =
  (concat (map (fun i => single_events i (nth i apps dummy_app) L) attached),
   filter (fun i => delivered (filters (nth i apps dummy_app)) L
                    && fails (nth i apps dummy_app)) attached).
Proof.
  induction attached as [|i rest IH]; cbn [fan map concat filter]; [reflexivity|].
  rewrite app_append_spec, IH.
  destruct (delivered _ L && fails _); reflexivity.
Qed.

Lemma about_single_same a ap L :
  filter (about a) (single_events a ap L) = single_events a ap L.
Proof.
  unfold single_events. rewrite filter_app.
  f_equal.
  - induction (seq 0 (consulted (filters ap) L)) as [|x xs IH]; cbn; [reflexivity|].
    rewrite Nat.eqb_refl, IH; reflexivity.
  - destruct (delivered (filters ap) L); cbn; [|reflexivity].
    now rewrite Nat.eqb_refl.
Qed.

Lemma about_single_other a b ap L :
  a <> b -> filter (about a) (single_events b ap L) = [].
Proof.
  intros Hab. unfold single_events. rewrite filter_app.
  assert (Hf : Nat.eqb a b = false) by now apply Nat.eqb_neq.
  replace (filter (about a) (map (Consult b) (seq 0 (consulted (filters ap) L)))) with (@nil event).
  - destruct (delivered (filters ap) L); cbn; [|reflexivity]. now rewrite Hf.
  - induction (seq 0 (consulted (filters ap) L)) as [|x xs IH]; cbn; [reflexivity|].
    now rewrite Hf.
Qed.

Lemma filter_concat_map {A B} (p : B -> bool) (f : A -> list B) (l : list A) :
  filter p (concat (map f l)) = concat (map (fun x => filter p (f x)) l).
Proof.
  induction l as [|x xs IH]; cbn; [reflexivity|]. now rewrite filter_app, IH.
Qed.

(* what appender a sees, in a fan-out over any attachment list and any other
   appenders: one copy of its own single-appender events per attachment *)
Lemma fan_isolated apps attached L a :
  filter (about a) (fst (fan apps attached L)) =
  concat (map (fun i => if Nat.eqb a i
                        then single_events a (nth a apps dummy_app) L else [])
              attached).
Proof.
  rewrite fan_spec; cbn [fst]. rewrite filter_concat_map.
  f_equal. apply map_ext. intros i.
  destruct (Nat.eqb_spec a i) as [->|Hne].
  - apply about_single_same.
  - now apply about_single_other.
Qed.

Lemma fan_isolated_indep apps apps' attached L a :
  nth a apps dummy_app = nth a apps' dummy_app ->
  filter (about a) (fst (fan apps attached L)) =
  filter (about a) (fst (fan apps' attached L)).
Proof. intros H. rewrite !fan_isolated, H. reflexivity. Qed.

Lemma log_record_spec lvl apps attached L :
  log_record lvl apps attached L =
  if L <=? lvl then
    concat (map (fun i => single_events i (nth i apps dummy_app) L) attached)
    ++ map Handler
         (filter (fun i => delivered (filters (nth i apps dummy_app)) L
                           && fails (nth i apps dummy_app)) attached)
  else [].
Proof. unfold log_record. rewrite fan_spec. reflexivity. Qed.

Definition is_handler (e : event) : bool :=
  match e with Handler _ => true | _ => false end.

Lemma single_no_handler a ap L : filter is_handler (single_events a ap L) = [].
Proof.
  unfold single_events. rewrite filter_app.
  replace (filter is_handler (map (Consult a) (seq 0 (consulted (filters ap) L)))) with (@nil event).
  - now destruct (delivered (filters ap) L).
  - induction (seq 0 (consulted (filters ap) L)); cbn; auto.
Qed.

Lemma handlers_exact lvl apps attached L :
  filter is_handler (log_record lvl apps attached L) =
  if L <=? lvl then
    map Handler (filter (fun i => delivered (filters (nth i apps dummy_app)) L
                                  && fails (nth i apps dummy_app)) attached)
  else [].
Proof.
  rewrite log_record_spec. destruct (L <=? lvl); [|reflexivity].
  rewrite filter_app, filter_concat_map.
  replace (concat _) with (@nil event).
  - cbn. induction (filter _ attached) as [|x xs IH]; cbn; [reflexivity|]. now rewrite IH.
  - symmetry. induction attached as [|i rest IH]; cbn [map concat]; [reflexivity|].
    rewrite single_no_handler, IH. reflexivity.
Qed.

(* all-Neutral chains deliver and consult everything *)
Lemma all_neutral_delivers fs L :
  (forall f, In f fs -> filt_resp f L = Neutral) ->
  delivered fs L = true /\ consulted fs L = length fs.
Proof.
  induction fs as [|f rest IH]; intros H; [split; reflexivity|].
  rewrite delivered_cons, consulted_cons, (H f (or_introl eq_refl)).
  destruct IH as [IH1 IH2]; [intros g Hg; apply H; now right|].
  split; [exact IH1|]. cbn [length]. now rewrite IH2.
Qed.

(* first decisive filter at position n decides, later ones are not consulted *)
Lemma first_decisive fs1 f fs2 L :
  (forall g, In g fs1 -> filt_resp g L = Neutral) ->
  filt_resp f L <> Neutral ->
  delivered (fs1 ++ f :: fs2) L = (match filt_resp f L with Accept => true | _ => false end)
  /\ consulted (fs1 ++ f :: fs2) L = S (length fs1).
Proof.
  induction fs1 as [|g rest IH]; intros Hn Hf; cbn [app length].
  - rewrite delivered_cons, consulted_cons.
    destruct (filt_resp f L); [split; reflexivity|now elim Hf|split; reflexivity].
  - destruct IH as [IH1 IH2]; [intros h Hh; apply Hn; now right|exact Hf|].
    rewrite delivered_cons, consulted_cons, (Hn g (or_introl eq_refl)).
    split; [exact IH1|now rewrite IH2].
Qed.
