(* Size accounting across records whose encoder fails (Model/RollingEnc.v): with a post-processing
   trigger the length shown to the policy equals the on-disk size of the active file at EVERY
   consultation of EVERY history of appends, failed-encoder appends and restarts. *)
From Coq Require Import List NArith Bool Lia.
Import ListNotations.
From L4 Require Import Common.FSRoll Model.Rolling Model.RollingEnc Proofs.Rolling.

(* invariant between operations: append mode, and an open writer counts disk + pending *)
Definition EGood (e : est) : Prop :=
  app (est_s e) = true /\
  (forall len, writer (est_s e) = Some len ->
     exists v, lookup (files (est_s e)) Active = Some v /\ len = blen (v ++ est_pend e)) /\
  (writer (est_s e) = None -> est_pend e = []).

Lemma blen_app' : forall a b, blen (a ++ b) = (blen a + blen b)%N.
Proof. exact blen_app. Qed.

Lemma get_writer_egood : forall e, EGood e ->
  EGood {| est_s := get_writer (est_s e); est_pend := est_pend e |}
  /\ exists v, lookup (files (get_writer (est_s e))) Active = Some v
               /\ writer (get_writer (est_s e)) = Some (blen (v ++ est_pend e)).
Proof.
  intros [s p] (Ha & Hw & Hn); cbn [est_s est_pend] in *.
  unfold get_writer. destruct (writer s) as [len|] eqn:E.
  - destruct (Hw len eq_refl) as (v & Hv & Hl). split.
    + split; [exact Ha|]. cbn [est_s est_pend]. split.
      * intros l H. rewrite E in H. apply Hw. exact H.
      * intros H. rewrite E in H. discriminate.
    + exists v. subst len. auto.
  - specialize (Hn eq_refl). subst p. rewrite Ha.
    destruct (lookup (files s) Active) as [v|] eqn:L; cbn [files writer app].
    + split.
      * split; [reflexivity|]. cbn [est_s est_pend writer files]. split; [|intros H; discriminate].
        intros len H. injection H as <-. exists v. unfold disk_len. rewrite L, app_nil_r. auto.
      * exists v. unfold disk_len. rewrite L, app_nil_r. auto.
    + split.
      * split; [reflexivity|]. cbn [est_s est_pend writer files]. split; [|intros H; discriminate].
        intros len H. injection H as <-. exists []. rewrite lookup_write, fname_eqb_refl.
        unfold disk_len. rewrite lookup_write, fname_eqb_refl. auto.
      * exists []. rewrite lookup_write, fname_eqb_refl. unfold disk_len.
        rewrite lookup_write, fname_eqb_refl. auto.
Qed.

Lemma enc_fail_egood : forall chunks e, EGood e -> EGood (enc_fail chunks e).
Proof.
  intros chunks e HG. destruct (get_writer_egood e HG) as ((Ha & Hw & Hn) & v & Hv & Hlen).
  cbn [est_s est_pend] in *. unfold enc_fail. rewrite Hlen.
  split; [exact Ha|]. cbn [est_s est_pend with_writer files writer app]. split.
  - intros len H. injection H as <-. exists v. split; [exact Hv|].
    rewrite app_assoc, (blen_app (v ++ est_pend e)). reflexivity.
  - intros H; discriminate.
Qed.

(* the heart: at its consultation a successful append shows exactly the size of the file *)
Theorem eappend_shown_is_disk : forall c chunks e,
  is_pre (trig c) = false -> EGood e ->
  let e' := fst (eappend c chunks e) in
  let ev := snd (eappend c chunks e) in
  EGood e' /\ est_pend e' = [] /\
  exists v fire,
    lookup (files (get_writer (est_s e))) Active = Some v /\
    ev = [EWrote (concat chunks);
          EConsult (blen (v ++ est_pend e ++ concat chunks)) (blen (v ++ est_pend e ++ concat chunks)) fire].
Proof.
  intros c chunks e Hpost HG.
  destruct (get_writer_egood e HG) as ((Ha & Hw & Hn) & v & Hv & Hlen).
  cbn [est_s est_pend] in *.
  unfold eappend.
  set (s0 := get_writer (est_s e)) in *.
  (* after the pending bytes are flushed: file = v ++ pend, writer = its length *)
  set (s1 := flush_pending {| est_s := s0; est_pend := est_pend e |}).
  assert (H1 : lookup (files s1) Active = Some (v ++ est_pend e) /\ writer s1 = Some (blen (v ++ est_pend e))
               /\ app s1 = true /\ fired s1 = fired s0 /\ consults s1 = consults s0).
  { unfold s1, flush_pending; cbn [est_s est_pend].
    destruct (est_pend e) as [|b p] eqn:Ep.
    - rewrite app_nil_r in *. auto.
    - cbn [with_files files writer app fired consults]. rewrite Hv, lookup_write, fname_eqb_refl. auto. }
  destruct H1 as (L1 & W1 & A1 & F1 & C1).
  destruct (encode_flush_spec chunks s1 _ L1 W1) as (E1 & E2 & E3 & E4 & E5 & E6).
  rewrite <- app_assoc in E1, E2.
  destruct (process_spec c _ _ E1 E2) as (P1 & P2 & P3 & P4 & P5 & P6).
  destruct (process c (encode_flush chunks s1)) as [s3 ev3]; cbn [fst snd] in *.
  set (fire := trigger_fire (trig c) (encode_flush chunks s1) (blen (v ++ est_pend e ++ concat chunks))) in *.
  split; [|split; [reflexivity|]].
  - split; [cbn [est_s]; rewrite P4, E4; exact A1|]. cbn [est_s est_pend]. split.
    + intros len H. rewrite P3 in H. destruct fire; [discriminate|]. injection H as <-.
      exists (v ++ est_pend e ++ concat chunks). rewrite P2, app_nil_r. auto.
    + intros _. reflexivity.
  - exists v, fire. split; [exact Hv|]. rewrite P1. reflexivity.
Qed.

Lemma erestart_egood : forall a e, EGood e -> EGood (fst (erestart a e)) /\ snd (erestart a e) = (if a then [] else [ETrunc]).
Proof.
  intros a e HG. unfold erestart.
  pose proof (build_spec a (files (flush_pending e)) (consults (flush_pending e))) as B.
  destruct (build a (files (flush_pending e)) (consults (flush_pending e))) as [s' ev] eqn:Eb.
  cbn [fst snd] in *. destruct B as (G & _). split; [|].
  - destruct G as [Ga Gw]. split; [exact Ga|]. cbn [est_s est_pend]. split.
    + intros len H. destruct (Gw len H) as (v & Hv & Hl). exists v. rewrite app_nil_r. auto.
    + intros _. reflexivity.
  - unfold build in Eb. injection Eb as _ <-. reflexivity.
Qed.

Definition econsult_exact (ev : event) : Prop :=
  match ev with EConsult shown disk _ => shown = disk | _ => True end.

Lemma estep_exact : forall c o e, is_pre (trig c) = false -> EGood e ->
  EGood (fst (estep c o e)) /\ Forall econsult_exact (snd (estep c o e)).
Proof.
  intros c [chunks|chunks|a] e Hpost HG; cbn [estep fst snd].
  - destruct (eappend_shown_is_disk c chunks e Hpost HG) as (G & _ & v & fire & _ & Hev).
    split; [exact G|]. rewrite Hev. repeat constructor.
  - split; [apply enc_fail_egood; exact HG|constructor].
  - destruct (erestart_egood a e HG) as [G Hev]. split; [exact G|]. rewrite Hev.
    destruct a; repeat constructor.
Qed.

(* every history *)
Theorem len_is_disk_size_with_failed_encoders : forall c ops e,
  is_pre (trig c) = false -> EGood e ->
  Forall econsult_exact (snd (erun c ops e)).
Proof.
  intros c ops; induction ops as [|o ops IH]; intros e Hpost HG; cbn [erun]; [constructor|].
  destruct (estep_exact c o e Hpost HG) as [G1 F1].
  destruct (estep c o e) as [e1 ev]; cbn [fst snd] in *.
  specialize (IH e1 Hpost G1). destruct (erun c ops e1) as [e2 evs]; cbn [snd] in *.
  apply Forall_app; split; assumption.
Qed.

Lemma einit_egood : forall a0 pre, EGood (einit a0 pre).
Proof.
  intros a0 pre. unfold einit. destruct (build_spec a0 (init_fs pre) 0) as ((Ga & Gw) & _).
  split; [exact Ga|]. cbn [est_s est_pend]. split.
  - intros len H. destruct (Gw len H) as (v & Hv & Hl). exists v. rewrite app_nil_r. auto.
  - intros _. reflexivity.
Qed.

(* a failed record's bytes are counted once and written once: with no failure in between, the machine IS the
   plain appender model *)
Theorem eappend_without_pending_is_append : forall c chunks s,
  is_pre (trig c) = false ->
  let r := eappend c chunks {| est_s := s; est_pend := [] |} in
  est_s (fst r) = fst (append_op c chunks s) /\ snd r = snd (append_op c chunks s).
Proof.
  intros c chunks s Hpost. unfold eappend, append_op. rewrite Hpost.
  cbn [est_s est_pend flush_pending].
  destruct (process c (encode_flush chunks (get_writer s))) as [s3 ev]. cbn. auto.
Qed.
