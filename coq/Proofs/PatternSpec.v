(* C09 / C11 — declarative side: the abstract syntax of the DOCUMENTED pattern
   grammar (module docs of src/encode/pattern/mod.rs), its printer, the
   well-formedness predicates and the meaning of a pattern for a record.
   Definitions only; shares with the model only elementary vocabulary
   (characters, params, trunc/pad, decimal, level names, MDC lookup).

     format_string := <text> [ format <text> ] *
     format        := '{' formatter [ ':' format_spec ] '}'
     formatter     := [ name ] [ '(' argument ')' ] *
     argument      := format_string
     format_spec   := [ [ fill ] align ] [ min_width ] [ '.' max_width ]
     text: any characters; `{ } ( ) \` doubled or preceded by '\'.            *)
From Coq Require Import String Ascii.
From Coq Require Import List NArith Bool.
Import ListNotations.
From L4 Require Import Model.Pattern.
Local Open Scope N_scope.

Inductive esc := Doubled | Backslash.

Record spec := mkSpec {
  sp_colon : bool;                       (* ':' written although no part follows *)
  sp_fa : option (option N * align);     (* [[fill] align] *)
  sp_min : option (list N);              (* digits as written *)
  sp_max : option (list N) }.

Inductive ast :=
| ALit (t : str)                          (* a run of ordinary characters *)
| AEsc (c : N) (st : esc)                 (* an escaped special character *)
| AFmt (name : str) (args : list (list ast)) (sp : spec).

Definition no_spec : spec := mkSpec false None None None.

Definition achar (a : align) : N := match a with ALeft => 60 | ARight => 62 end.

Definition opt_digits (o : option (list N)) : str := match o with Some ds => ds | None => [] end.

(* every part of the spec is optional; with no part at all the ':' itself is
   optional (sp_colon) *)
Definition print_spec (sp : spec) : str :=
  match sp with
  | mkSpec colon None None None => if colon then [58] else []
  | mkSpec _ fa mn mx =>
    58 :: match fa with
          | Some (Some f, a) => [f; achar a]
          | Some (None, a) => [achar a]
          | None => []
          end
       ++ opt_digits mn
       ++ match mx with Some ds => 46 :: ds | None => [] end
  end.

Fixpoint print (a : ast) : str :=
  match a with
  | ALit t => t
  | AEsc c Doubled => [c; c]
  | AEsc c Backslash => [92; c]
  | AFmt nm args sp =>
    123 :: nm ++ flat_map (fun arg => 40 :: flat_map print arg ++ [41]) args
        ++ print_spec sp ++ [125]
  end.

Definition print_seq (l : list ast) : str := flat_map print l.
Definition print_arg (arg : list ast) : str := 40 :: print_seq arg ++ [41].

(* value of a decimal digit string *)
Definition digits_val (ds : list N) : N := fold_left (fun v c => v * 10 + (c - 48)) ds 0.

Definition params_of (sp : spec) : params :=
  mkParams (match sp_fa sp with Some (Some f, _) => f | _ => 32 end)
           (match sp_fa sp with Some (_, a) => a | None => ALeft end)
           (option_map digits_val (sp_min sp))
           (option_map digits_val (sp_max sp)).

(* the pieces a pattern denotes syntactically *)
Fixpoint piece_of (a : ast) : piece :=
  match a with
  | ALit t => PText t
  | AEsc c _ => PText [c]
  | AFmt nm args sp => PArg nm (map (map piece_of) args) (params_of sp)
  end.

(* ---------- syntactic well-formedness (decidable) ---------- *)

Definition is_lit (a : ast) : bool := match a with ALit _ => true | _ => false end.

(* the open finding F-C09-empty-spec-lookahead: a format whose spec is a bare
   ':' directly followed by text starting with '<' or '>' *)
Definition colon_only (a : ast) : bool :=
  match a with
  | AFmt _ _ (mkSpec true None None None) => true
  | _ => false
  end.
Definition starts_angle (a : ast) : bool :=
  match a with
  | ALit (c :: _) => (c =? 60) || (c =? 62)
  | _ => false
  end.

(* neighbours in a sequence: text runs are maximal (no two adjacent literals);
   strict: additionally outside the look-ahead finding class *)
Definition adj_ok (strict : bool) (a b : ast) : bool :=
  negb (is_lit a && is_lit b) && negb (strict && colon_only a && starts_angle b).

Fixpoint chain_ok (strict : bool) (l : list ast) : bool :=
  match l with
  | a :: r => match r with
              | b :: _ => adj_ok strict a b && chain_ok strict r
              | [] => true
              end
  | [] => true
  end.

Definition is_digit (c : N) : bool := (48 <=? c) && (c <=? 57).
Definition is_nil {A} (l : list A) : bool := match l with [] => true | _ => false end.

Definition digits_ok (ds : list N) : bool :=
  negb (is_nil ds) && forallb is_digit ds && (digits_val ds <=? usize_max).
Definition opt_digits_ok (o : option (list N)) : bool :=
  match o with Some ds => digits_ok ds | None => true end.
Definition spec_ok (sp : spec) : bool := opt_digits_ok (sp_min sp) && opt_digits_ok (sp_max sp).

Section Syntax.
  Variable alpha alnum : N -> bool.

  Definition name_ok (nm : str) : bool :=
    match nm with
    | [] => true
    | c :: r => alpha c && forallb (fun c => alnum c || (c =? 95)) r
    end.

  (* inarg: inside a parenthesised argument the doubled escape "))" is not
     available (')' always closes the argument) — use "\)" there *)
  Fixpoint wf (strict inarg : bool) (a : ast) : bool :=
    match a with
    | ALit t => negb (is_nil t) && forallb (fun c => negb (is_special c)) t
    | AEsc c st =>
      is_special c &&
      negb (inarg && (c =? 41) && match st with Doubled => true | Backslash => false end)
    | AFmt nm args sp =>
      name_ok nm && spec_ok sp &&
      forallb (fun arg => forallb (wf strict true) arg && chain_ok strict arg) args
    end.

  Definition wf_seq (strict inarg : bool) (l : list ast) : bool :=
    forallb (wf strict inarg) l && chain_ok strict l.

  (* what the theorems need to know about the two Unicode oracles: '{' and
     the three ASCII characters that can follow a formatter name ( '(' ':' '}' )
     are not name characters *)
  Definition oracle_ok : Prop :=
    alpha 123 = false /\
    alpha 40 = false /\ alpha 58 = false /\ alpha 125 = false /\
    alnum 40 = false /\ alnum 58 = false /\ alnum 125 = false.
End Syntax.

(* ---------- meaning ---------- *)

(* C10's law on characters: cut to the first M characters, then pad to m
   (set_style calls are not characters and always pass) *)
Definition fit (p : params) (l : list item) : list item :=
  let t := match p_max p with Some M => trunc M l | None => l end in
  match p_min p with
  | Some m => pad_side (p_align p) (p_fill p) (m - nchars t) t
  | None => t
  end.

Definition widths_ok (sp : spec) : bool :=
  match sp_min sp, sp_max sp with
  | Some a, Some b => digits_val a <=? digits_val b
  | _, _ => true
  end.

(* the text an argument made of literals and escapes stands for *)
Definition text_of_arg (arg : list ast) : str :=
  flat_map (fun a => match a with ALit t => t | AEsc c _ => [c] | AFmt _ _ _ => [] end) arg.

Definition plain (arg : list ast) : bool :=
  forallb (fun a => match a with AFmt _ _ _ => false | _ => true end) arg.
Definition single (arg : list ast) : bool :=
  match arg with [ALit _] => true | [AEsc _ _] => true | _ => false end.

Definition is_name (nm a b : str) : bool := one_of nm a b.

Definition leaf_name (nm : str) : bool :=
  is_name nm (LIT "l") (LIT "level") || is_name nm (LIT "m") (LIT "message") || is_name nm (LIT "M") (LIT "module") ||
  is_name nm (LIT "n") (LIT "n") || is_name nm (LIT "f") (LIT "file") || is_name nm (LIT "L") (LIT "line") ||
  is_name nm (LIT "T") (LIT "thread") || is_name nm (LIT "I") (LIT "thread_id") || is_name nm (LIT "P") (LIT "pid") ||
  is_name nm (LIT "i") (LIT "tid") || is_name nm (LIT "t") (LIT "target").

Definition group_name (nm : str) : bool :=
  is_name nm (LIT "h") (LIT "highlight") || is_name nm (LIT "D") (LIT "debug") || is_name nm (LIT "R") (LIT "release") ||
  str_eqb nm [].

Section Meaning.
  Variable strftime_ok : str -> bool.
  Variable time_str : str -> tz -> str.
  Variable e : env.

  Definition leaf_value (nm : str) : str :=
    if is_name nm (LIT "l") (LIT "level") then level_str (e_level e)
    else if is_name nm (LIT "m") (LIT "message") then e_msg e
    else if is_name nm (LIT "M") (LIT "module") then opt_or (e_module e) (LIT "???")
    else if is_name nm (LIT "n") (LIT "n") then [10]
    else if is_name nm (LIT "f") (LIT "file") then opt_or (e_file e) (LIT "???")
    else if is_name nm (LIT "L") (LIT "line") then match e_line e with Some n => dec n | None => (LIT "???") end
    else if is_name nm (LIT "T") (LIT "thread") then opt_or (e_thread e) (LIT "unnamed")
    else if is_name nm (LIT "I") (LIT "thread_id") then dec (e_tid e)
    else if is_name nm (LIT "P") (LIT "pid") then dec (e_pid e)
    else if is_name nm (LIT "i") (LIT "tid") then dec (e_systid e)
    else e_target e.

  Definition group_value (nm : str) (body : list item) : list item :=
    if is_name nm (LIT "h") (LIT "highlight") then
      match level_style (e_level e) with
      | Some s => [St s] ++ body ++ [St 0]
      | None => body
      end
    else if is_name nm (LIT "D") (LIT "debug") then (if e_debug e then body else [])
    else if is_name nm (LIT "R") (LIT "release") then (if e_debug e then [] else body)
    else body.

  Definition date_value (args : list (list ast)) : str :=
    let fmt := match args with f :: _ => text_of_arg f | [] => (LIT "%+") end in
    let zone := match args with
                | [_; z] => if str_eqb (text_of_arg z) (LIT "utc") then Utc else Local
                | _ => Local
                end in
    time_str fmt zone.

  Definition mdc_value (args : list (list ast)) : str :=
    match args with
    | k :: rest =>
      opt_or (mdc_get (e_mdc e) (text_of_arg k))
             (match rest with d :: _ => text_of_arg d | [] => [] end)
    | [] => []
    end.

  Fixpoint meaning (a : ast) : list item :=
    match a with
    | ALit t => chars t
    | AEsc c _ => [Ch c]
    | AFmt nm args sp =>
      fit (params_of sp)
        (if leaf_name nm then chars (leaf_value nm)
         else if group_name nm then
           group_value nm (match args with
                           | arg :: _ => flat_map meaning arg
                           | [] => []
                           end)
         else if is_name nm (LIT "d") (LIT "date") then chars (date_value args)
         else chars (mdc_value args))
    end.

  Definition meaning_seq (l : list ast) : list item := flat_map meaning l.

  (* ---------- semantic well-formedness: known formatter, right arguments ---------- *)

  (* the format is accepted by chrono (parses and renders) *)
  Definition fmt_ok (f : str) : bool := strftime_ok f.

  Definition date_args_ok (args : list (list ast)) : bool :=
    match args with
    | [] => fmt_ok (LIT "%+")
    | [f] => plain f && fmt_ok (text_of_arg f)
    | [f; z] =>
      plain f && fmt_ok (text_of_arg f) && plain z && negb (is_nil z)
      && (str_eqb (text_of_arg z) (LIT "utc") || str_eqb (text_of_arg z) (LIT "local"))
    | _ => false
    end.

  (* MDC arguments: a non-empty literal key and, if given, a non-empty literal default
     (any number of text and escape pieces: the whole argument counts, fix c13258d) *)
  Definition mdc_args_ok (args : list (list ast)) : bool :=
    match args with
    | [k] => plain k && negb (is_nil k)
    | [k; d] => plain k && plain d && negb (is_nil k) && negb (is_nil d)
    | _ => false
    end.

  Fixpoint sem_ok (a : ast) : bool :=
    match a with
    | ALit _ => true
    | AEsc _ _ => true
    | AFmt nm args sp =>
      widths_ok sp &&
      (if leaf_name nm then is_nil args
       else if group_name nm then
         match args with
         | [arg] => forallb sem_ok arg
         | _ => false
         end
       else if is_name nm (LIT "d") (LIT "date") then date_args_ok args
       else if is_name nm (LIT "X") (LIT "mdc") then mdc_args_ok args
       else false)
    end.

End Meaning.

(* highlight groups replaced by plain groups *)
Fixpoint unhighlight (a : ast) : ast :=
  match a with
  | AFmt nm args sp =>
    AFmt (if is_name nm (LIT "h") (LIT "highlight") then [] else nm)
         (map (map unhighlight) args) sp
  | other => other
  end.

Definition strip (l : list item) : list item :=
  filter (fun i => match i with St _ => false | _ => true end) l.
