(* C19 — proofs about the model of expand_env_vars (one-pass code, fix cc9466f) against the
   one-pass spec.  The analysis of the pre-fix algorithm is in Proofs/EnvExpandOld.v. *)
From Coq Require Import List NArith Bool Lia PeanoNat.
Import ListNotations.
From L4 Require Import Common.Str Model.EnvExpand Proofs.EnvExpandSpec.
Local Open Scope N_scope.

(* ================= elementary string lemmas ================= *)

Lemma starts_with_app p s : starts_with p (p ++ s) = true.
Proof. induction p as [|x p IH]; cbn; [reflexivity|]. now rewrite N.eqb_refl, IH. Qed.

Lemma starts_with_split p s : starts_with p s = true -> exists r, s = p ++ r.
Proof.
  revert s; induction p as [|x p IH]; intros s H; cbn in *.
  - now exists s.
  - destruct s as [|c s]; [discriminate|]. apply andb_true_iff in H. destruct H as [H1 H2].
    apply N.eqb_eq in H1. subst c. destruct (IH s H2) as (r & ->). now exists r.
Qed.

Lemma strip_prefix_app p t : strip_prefix p (p ++ t) = Some t.
Proof. induction p as [|x p IH]; cbn; [reflexivity|]. now rewrite N.eqb_refl. Qed.

Lemma strip_prefix_none p s : starts_with p s = false -> strip_prefix p s = None.
Proof.
  revert s; induction p as [|x p IH]; intros s H; cbn in *; [discriminate|].
  destruct s as [|c s]; [reflexivity|]. destruct (x =? c); cbn in H; [now apply IH|reflexivity].
Qed.

(* ================= byte offsets ================= *)

Lemma len_utf8_pos c : 1 <= len_utf8 c.
Proof. unfold len_utf8. destruct (c <? 128), (c <? 2048), (c <? 65536); lia. Qed.

Lemma blen_app a b : blen (a ++ b) = blen a + blen b.
Proof. induction a as [|c a IH]; cbn [blen app]; lia. Qed.

Lemma bdrop_0 s : bdrop s 0 = Some s.
Proof. destruct s; reflexivity. Qed.

Lemma bdrop_app pre s : bdrop (pre ++ s) (blen pre) = Some s.
Proof.
  induction pre as [|c pre IH]; cbn [app blen]; [apply bdrop_0|].
  pose proof (len_utf8_pos c) as Hp. cbn [bdrop].
  replace (len_utf8 c + blen pre =? 0) with false by (symmetry; apply N.eqb_neq; lia).
  replace (len_utf8 c <=? len_utf8 c + blen pre) with true by (symmetry; apply N.leb_le; lia).
  replace (len_utf8 c + blen pre - len_utf8 c) with (blen pre) by lia. exact IH.
Qed.

Lemma btake_0 s : btake s 0 = Some [].
Proof. destruct s; reflexivity. Qed.

Lemma btake_app a s : btake (a ++ s) (blen a) = Some a.
Proof.
  induction a as [|c a IH]; cbn [app blen]; [apply btake_0|].
  pose proof (len_utf8_pos c) as Hp. cbn [btake].
  replace (len_utf8 c + blen a =? 0) with false by (symmetry; apply N.eqb_neq; lia).
  replace (len_utf8 c <=? len_utf8 c + blen a) with true by (symmetry; apply N.leb_le; lia).
  replace (len_utf8 c + blen a - len_utf8 c) with (blen a) by lia. now rewrite IH.
Qed.

Lemma bslice_app pre a s : bslice (pre ++ a ++ s) (blen pre) (blen pre + blen a) = Some a.
Proof.
  unfold bslice. replace (blen pre <=? blen pre + blen a) with true by (symmetry; apply N.leb_le; lia).
  rewrite bdrop_app. replace (blen pre + blen a - blen pre) with (blen a) by lia. apply btake_app.
Qed.

(* ================= match_indices / replace: unfolding equations ================= *)

Lemma mi_skip pat a s off :
  match_indices_from pat (a ++ s) off (length a) = match_indices_from pat s (off + blen a) 0.
Proof.
  revert off; induction a as [|c a IH]; intros off; cbn [app length blen match_indices_from].
  - now rewrite N.add_0_r.
  - rewrite IH. f_equal. lia.
Qed.

Lemma mi_hit pat s off :
  pat <> [] ->
  match_indices_from pat (pat ++ s) off 0 = off :: match_indices_from pat s (off + blen pat) 0.
Proof.
  destruct pat as [|p pat]; [congruence|]. intros _.
  change ((p :: pat) ++ s) with (p :: (pat ++ s)). cbn [match_indices_from].
  change (p :: pat ++ s) with ((p :: pat) ++ s). rewrite starts_with_app.
  cbn [length]. rewrite Nat.sub_succ, Nat.sub_0_r, mi_skip. cbn [blen]. f_equal. f_equal. lia.
Qed.

Lemma mi_miss pat c r off :
  starts_with pat (c :: r) = false ->
  match_indices_from pat (c :: r) off 0 = match_indices_from pat r (off + len_utf8 c) 0.
Proof. intros H. cbn [match_indices_from]. now rewrite H. Qed.

Lemma repl_skip f t a s : replace_from f t (a ++ s) (length a) = replace_from f t s 0.
Proof. induction a as [|c a IH]; cbn [app length replace_from]; [reflexivity|exact IH]. Qed.

Lemma repl_hit f t s : f <> [] -> replace_from f t (f ++ s) 0 = t ++ replace_from f t s 0.
Proof.
  destruct f as [|p f]; [congruence|]. intros _.
  change ((p :: f) ++ s) with (p :: (f ++ s)). cbn [replace_from].
  change (p :: f ++ s) with ((p :: f) ++ s). rewrite starts_with_app.
  cbn [length]. now rewrite Nat.sub_succ, Nat.sub_0_r, repl_skip.
Qed.

Lemma repl_miss f t c r :
  starts_with f (c :: r) = false -> replace_from f t (c :: r) 0 = c :: replace_from f t r 0.
Proof. intros H. cbn [replace_from]. now rewrite H. Qed.

(* nothing that begins with '$' can match inside '$'-free text *)
Definition dollar_free (s : ustr) : Prop := Forall (fun c => c <> 36) s.

Lemma starts_with_dollar pat c r : c <> 36 -> starts_with (36 :: pat) (c :: r) = false.
Proof.
  intros H. cbn [starts_with]. destruct (N.eqb_spec 36 c) as [E|_]; [congruence|reflexivity].
Qed.

Lemma repl_no_dollar pat t a s :
  dollar_free a -> replace_from (36 :: pat) t (a ++ s) 0 = a ++ replace_from (36 :: pat) t s 0.
Proof.
  induction 1 as [|c a Hc _ IH]; [reflexivity|].
  change ((c :: a) ++ s) with (c :: (a ++ s)).
  rewrite repl_miss by (apply starts_with_dollar; exact Hc). cbn [app]. f_equal. exact IH.
Qed.

Lemma mi_no_dollar pat a s off :
  dollar_free a ->
  match_indices_from (36 :: pat) (a ++ s) off 0 = match_indices_from (36 :: pat) s (off + blen a) 0.
Proof.
  intros H; revert off; induction H as [|c a Hc _ IH]; intros off; cbn [app blen].
  - now rewrite N.add_0_r.
  - rewrite mi_miss by (apply starts_with_dollar; exact Hc).
    etransitivity; [exact (IH _)|]. f_equal. lia.
Qed.

Section Proofs.
  Variable uni_alnum : chr -> bool.
  Variable env : ustr -> option ustr.

  Notation is_start := (is_env_var_start uni_alnum).
  Notation is_part := (is_env_var_part uni_alnum).
  Notation ref_at := (ref_at uni_alnum).
  Notation segments := (segments uni_alnum).
  Notation segs := (segs uni_alnum).
  Notation name_loop := (name_loop uni_alnum).

  (* ================= name characters ================= *)

  Lemma part_not_dollar c : is_part c = true -> c <> 36.
  Proof. intros H ->. cbv in H. discriminate. Qed.

  Lemma start_is_part c : is_start c = true -> is_part c = true.
  Proof. unfold is_env_var_start, is_env_var_part. intros ->. reflexivity. Qed.

  Lemma span_spec (f : chr -> bool) s a b :
    span f s = (a, b) -> s = a ++ b /\ Forall (fun c => f c = true) a.
  Proof.
    revert a b; induction s as [|c r IH]; intros a b H; cbn in H.
    - injection H as <- <-. split; [reflexivity|constructor].
    - destruct (f c) eqn:Hc.
      + destruct (span f r) as (a', b') eqn:E. injection H as <- <-.
        destruct (IH a' b' eq_refl) as (-> & HF). split; [reflexivity|]. constructor; assumption.
      + injection H as <- <-. split; [reflexivity|constructor].
  Qed.

  (* the model's character loop = "maximal run of name characters, then '}'" *)
  Lemma name_loop_span cs :
    name_loop cs =
    match span is_part cs with
    | (nm, b :: _) => if b =? env_suffix then Some nm else None
    | (_, []) => None
    end.
  Proof.
    induction cs as [|c r IH]; cbn [EnvExpand.name_loop span]; [reflexivity|].
    destruct (is_part c) eqn:Hc.
    - rewrite IH. destruct (span is_part r) as (a, b). destruct b as [|b0 b']; [reflexivity|].
      destruct (b0 =? env_suffix); reflexivity.
    - reflexivity.
  Qed.

  (* the model's validity test of the text after "$ENV{" *)
  Definition valid_name (t : ustr) : option ustr :=
    match t with
    | [] => None
    | ch :: cs => if is_start ch
                  then match name_loop cs with Some nm => Some (ch :: nm) | None => None end
                  else None
    end.

  Lemma valid_name_some t n :
    valid_name t = Some n ->
    exists rest, t = n ++ env_suffix :: rest /\ ref_at (env_prefix ++ t) = Some (n, rest) /\
                 Forall (fun c => is_part c = true) n.
  Proof.
    unfold valid_name, EnvExpandSpec.ref_at. rewrite strip_prefix_app.
    destruct t as [|ch cs]; [discriminate|].
    destruct (is_start ch) eqn:Hs; [|discriminate].
    rewrite name_loop_span. cbn [span]. rewrite (start_is_part _ Hs).
    destruct (span is_part cs) as (a, b) eqn:E. destruct (span_spec _ _ _ _ E) as (-> & HF).
    destruct b as [|b0 b']; [discriminate|].
    destruct (N.eqb_spec b0 env_suffix) as [->|Hne]; [|discriminate].
    intros H. injection H as <-. exists b'. rewrite Hs. cbn [andb].
    repeat split. constructor; [exact (start_is_part _ Hs)|exact HF].
  Qed.

  Lemma valid_name_none t : valid_name t = None -> ref_at (env_prefix ++ t) = None.
  Proof.
    unfold valid_name, EnvExpandSpec.ref_at. rewrite strip_prefix_app.
    destruct t as [|ch cs]; [reflexivity|]. cbn [span].
    destruct (is_start ch) eqn:Hs.
    - rewrite (start_is_part _ Hs), name_loop_span.
      destruct (span is_part cs) as (a, b). destruct b as [|b0 b']; [reflexivity|].
      rewrite Hs. cbn [andb]. destruct (b0 =? env_suffix); [discriminate|reflexivity].
    - intros _. destruct (is_part ch).
      + destruct (span is_part cs) as (a, b). destruct b; [reflexivity|]. rewrite Hs. reflexivity.
      + reflexivity.
  Qed.

  (* what ref_at recognises is the text of a reference *)
  Lemma ref_at_some s n rest :
    ref_at s = Some (n, rest) ->
    s = raw n ++ rest /\ Forall (fun c => is_part c = true) n.
  Proof.
    unfold EnvExpandSpec.ref_at. destruct (strip_prefix env_prefix s) as [t|] eqn:Es; [|discriminate].
    assert (Hs : s = env_prefix ++ t).
    { destruct (starts_with env_prefix s) eqn:Hw.
      - destruct (starts_with_split _ _ Hw) as (r & ->). rewrite strip_prefix_app in Es. congruence.
      - rewrite (strip_prefix_none _ _ Hw) in Es. discriminate. }
    destruct (span is_part t) as (a, b) eqn:E. destruct (span_spec _ _ _ _ E) as (-> & HF).
    destruct a as [|c a']; [discriminate|]. destruct b as [|b0 b']; [discriminate|].
    destruct (is_start c); [|discriminate]. cbn [andb].
    destruct (N.eqb_spec b0 env_suffix) as [->|]; [|discriminate].
    intros H. injection H as <- <-. split; [|exact HF].
    rewrite Hs. unfold raw. now rewrite <- !app_assoc.
  Qed.

  Lemma ref_at_not_prefix s : starts_with env_prefix s = false -> ref_at s = None.
  Proof. intros H. unfold EnvExpandSpec.ref_at. now rewrite (strip_prefix_none _ _ H). Qed.

  Lemma ref_at_shorter s n rest : ref_at s = Some (n, rest) -> (length rest < length s)%nat.
  Proof.
    intros H. destruct (ref_at_some _ _ _ H) as (-> & _). unfold raw. rewrite !app_length. cbn. lia.
  Qed.

  (* ================= segments: unfolding ================= *)

  Lemma segs_fuel f : forall s f', (length s <= f)%nat -> (length s <= f')%nat -> segs f s = segs f' s.
  Proof.
    induction f as [|f IH]; intros s f' H1 H2.
    - destruct s; [|cbn in H1; lia]. destruct f'; reflexivity.
    - destruct s as [|c r]; [destruct f'; reflexivity|].
      destruct f' as [|f']; [cbn in H2; lia|]. cbn [EnvExpandSpec.segs].
      destruct (ref_at (c :: r)) as [[n rest]|] eqn:E.
      + pose proof (ref_at_shorter _ _ _ E) as Hl. f_equal. apply IH; cbn in *; lia.
      + f_equal. apply IH; cbn in *; lia.
  Qed.

  Lemma segments_cons c r :
    segments (c :: r) =
    match ref_at (c :: r) with
    | Some (n, rest) => Ref n :: segments rest
    | None => Lit c :: segments r
    end.
  Proof.
    unfold EnvExpandSpec.segments. cbn [length EnvExpandSpec.segs].
    destruct (ref_at (c :: r)) as [[n rest]|] eqn:E.
    - pose proof (ref_at_shorter _ _ _ E) as Hl. f_equal. apply segs_fuel; cbn in *; lia.
    - reflexivity.
  Qed.

  Lemma segments_lit c r : c <> 36 -> segments (c :: r) = Lit c :: segments r.
  Proof.
    intros H. rewrite segments_cons, ref_at_not_prefix; [reflexivity|].
    apply starts_with_dollar. exact H.
  Qed.

  (* ================= the loop of expand, segment by segment ================= *)

  Notation step := (step uni_alnum env).
  Notation sem := (sem env).

  Lemma step_eq path out copied ms :
    step path (Some (out, copied)) ms =
    match bdrop path (ms + env_prefix_len) with
    | None => None
    | Some tail =>
      match valid_name tail with
      | None => Some (out, copied)
      | Some name =>
        match env name with
        | None => Some (out, copied)
        | Some v =>
          match bslice path copied ms with
          | None => None
          | Some lit => Some (out ++ lit ++ v, ms + env_prefix_len + blen name + 1)
          end
        end
      end
    end.
  Proof.
    unfold EnvExpand.step, valid_name. destruct (bdrop path (ms + env_prefix_len)) as [tail|]; [|reflexivity].
    destruct tail as [|ch cs]; [reflexivity|]. destruct (is_start ch); [|reflexivity].
    destruct (name_loop cs); reflexivity.
  Qed.

  (* the tail of the function, after the loop *)
  Definition finish (path : ustr) (st : option (ustr * N)) : res :=
    match st with
    | None => Panic
    | Some (outpath, copied) =>
      if copied =? 0 then Ok path
      else match bdrop path copied with None => Panic | Some t => Ok (outpath ++ t) end
    end.

  Lemma blen_prefix : blen env_prefix = env_prefix_len.
  Proof. reflexivity. Qed.

  Lemma blen_raw n : blen (raw n) = 5 + blen n + 1.
  Proof.
    unfold raw. rewrite !blen_app. change (blen env_prefix) with 5. change (blen [env_suffix]) with 1. lia.
  Qed.

  Lemma blen_0 s : blen s = 0 -> s = [].
  Proof. destruct s as [|c r]; [reflexivity|]. cbn [blen]. pose proof (len_utf8_pos c). lia. Qed.

  (* Invariant of the loop: the path is pc ++ pl ++ s where pc (blen pc = copied) has been
     emitted into `out` in expanded form, pl is literal text seen but not yet copied, s is still
     to be scanned.  The final result is out ++ pl ++ (one-pass expansion of s). *)
  Lemma scan_segments k : forall s, (length s <= k)%nat -> forall pc pl out,
    (pc = [] -> out = []) ->
    finish (pc ++ pl ++ s)
           (fold_left (step (pc ++ pl ++ s))
                      (match_indices_from env_prefix s (blen pc + blen pl) 0) (Some (out, blen pc)))
    = Ok (out ++ pl ++ concat (map sem (segments s))).
  Proof.
    induction k as [|k IH]; intros s Hl pc pl out Hinv.
    { destruct s; [|cbn in Hl; lia]. cbn [match_indices_from fold_left finish map concat].
      rewrite !app_nil_r. destruct (N.eqb_spec (blen pc) 0) as [E|E].
      - apply blen_0 in E. subst pc. rewrite (Hinv eq_refl). reflexivity.
      - now rewrite bdrop_app. }
    destruct s as [|c r].
    { cbn [match_indices_from fold_left finish map concat].
      rewrite !app_nil_r. destruct (N.eqb_spec (blen pc) 0) as [E|E].
      - apply blen_0 in E. subst pc. rewrite (Hinv eq_refl). reflexivity.
      - now rewrite bdrop_app. }
    destruct (starts_with env_prefix (c :: r)) eqn:Hw.
    - (* an occurrence of "$ENV{" *)
      destruct (starts_with_split _ _ Hw) as (t & Es). rewrite Es.
      assert (Hlt : (length t <= k)%nat).
      { apply (f_equal (@length _)) in Es. rewrite app_length in Es. cbn in Es, Hl. lia. }
      rewrite mi_hit by discriminate. cbn [fold_left]. rewrite step_eq.
      assert (Hbd : bdrop (pc ++ pl ++ env_prefix ++ t) (blen pc + blen pl + env_prefix_len) = Some t).
      { replace (pc ++ pl ++ env_prefix ++ t) with ((pc ++ pl ++ env_prefix) ++ t)
          by now rewrite <- !app_assoc.
        replace (blen pc + blen pl + env_prefix_len) with (blen (pc ++ pl ++ env_prefix))
          by (rewrite !blen_app, blen_prefix; lia).
        apply bdrop_app. }
      rewrite Hbd.
      destruct (valid_name t) as [name|] eqn:Ev.
      + (* well-formed reference *)
        destruct (valid_name_some _ _ Ev) as (rest & Et & Er & Hp).
        assert (Hdf : dollar_free (name ++ [env_suffix])).
        { apply Forall_app. split.
          - eapply Forall_impl; [|exact Hp]. intros a Ha. now apply part_not_dollar.
          - constructor; [discriminate|constructor]. }
        assert (Hrest : (length rest <= k)%nat).
        { rewrite Et, app_length in Hlt. cbn in Hlt. lia. }
        assert (Hsg : segments (env_prefix ++ t) = Ref name :: segments rest).
        { change (env_prefix ++ t) with (36 :: ([69;78;86;123] ++ t)). rewrite segments_cons.
          change (36 :: ([69;78;86;123] ++ t)) with (env_prefix ++ t). now rewrite Er. }
        rewrite Hsg. cbn [map concat EnvExpandSpec.sem].
        assert (Hmi : forall off, match_indices_from env_prefix t off 0
                      = match_indices_from env_prefix rest (off + (blen name + 1)) 0).
        { intros off. rewrite Et. change (name ++ env_suffix :: rest) with (name ++ [env_suffix] ++ rest).
          rewrite app_assoc. unfold env_prefix.
          rewrite (mi_no_dollar _ _ _ _ Hdf). f_equal. rewrite blen_app. reflexivity. }
        rewrite Hmi.
        destruct (env name) as [v|] eqn:Ee.
        * assert (Hsl : bslice (pc ++ pl ++ env_prefix ++ t) (blen pc) (blen pc + blen pl) = Some pl)
            by apply bslice_app.
          rewrite Hsl.
          (* new state: everything up to the end of the reference has been emitted *)
          replace (pc ++ pl ++ env_prefix ++ t) with ((pc ++ pl ++ raw name) ++ [] ++ rest)
            by (rewrite Et; unfold raw; cbn [app]; rewrite <- !app_assoc; reflexivity).
          replace (blen pc + blen pl + env_prefix_len + blen name + 1) with (blen (pc ++ pl ++ raw name))
            by (rewrite !blen_app, blen_raw; unfold env_prefix_len; lia).
          replace (blen pc + blen pl + blen env_prefix + (blen name + 1))
            with (blen (pc ++ pl ++ raw name) + blen [])
            by (rewrite !blen_app, blen_raw, blen_prefix; unfold env_prefix_len; cbn [blen]; lia).
          rewrite IH; [|exact Hrest|].
          -- cbn [app]. now rewrite <- !app_assoc.
          -- intros E. exfalso. apply app_eq_nil in E. destruct E as [_ E].
             apply app_eq_nil in E. destruct E as [_ E]. discriminate.
        * (* unset variable: the reference is literal text *)
          replace (pc ++ pl ++ env_prefix ++ t) with (pc ++ (pl ++ raw name) ++ rest)
            by (rewrite Et; unfold raw; rewrite <- !app_assoc; reflexivity).
          replace (blen pc + blen pl + blen env_prefix + (blen name + 1))
            with (blen pc + blen (pl ++ raw name))
            by (rewrite !blen_app, blen_raw, blen_prefix; unfold env_prefix_len; lia).
          rewrite IH; [|exact Hrest|exact Hinv]. now rewrite <- !app_assoc.
      + (* malformed: "$ENV{" stays literal, scanning resumes after it *)
        pose proof (valid_name_none _ Ev) as Er.
        assert (Hsg : segments (env_prefix ++ t) = map Lit env_prefix ++ segments t).
        { change (env_prefix ++ t) with (36 :: ([69;78;86;123] ++ t)). rewrite segments_cons.
          change (36 :: ([69;78;86;123] ++ t)) with (env_prefix ++ t). rewrite Er.
          cbn [app]. rewrite !segments_lit by discriminate. reflexivity. }
        rewrite Hsg.
        replace (pc ++ pl ++ env_prefix ++ t) with (pc ++ (pl ++ env_prefix) ++ t)
          by now rewrite <- !app_assoc.
        replace (blen pc + blen pl + blen env_prefix) with (blen pc + blen (pl ++ env_prefix))
          by (rewrite !blen_app; lia).
        rewrite IH; [|exact Hlt|exact Hinv]. rewrite map_app, concat_app. cbn [map concat EnvExpandSpec.sem app].
        now rewrite <- !app_assoc.
    - (* no occurrence here *)
      rewrite mi_miss by exact Hw. rewrite segments_cons, (ref_at_not_prefix _ Hw).
      replace (pc ++ pl ++ c :: r) with (pc ++ (pl ++ [c]) ++ r) by now rewrite <- !app_assoc.
      replace (blen pc + blen pl + len_utf8 c) with (blen pc + blen (pl ++ [c]))
        by (rewrite blen_app; cbn [blen]; lia).
      rewrite IH; [|cbn in Hl; lia|exact Hinv]. cbn [map concat EnvExpandSpec.sem]. now rewrite <- !app_assoc.
  Qed.

  (* THE PROPERTY: for every path and every environment the code computes the one-pass
     expansion; in particular it never panics (every byte offset it slices at is a character
     boundary, and `copied` never overtakes a later match). *)
  Theorem expand_is_one_pass p :
    expand uni_alnum env p = Ok (expand_spec uni_alnum env p).
  Proof.
    unfold expand, match_indices.
    exact (scan_segments (length p) p (le_n _) [] [] [] (fun _ => eq_refl)).
  Qed.

  Theorem expand_total p : expand uni_alnum env p <> Panic.
  Proof. rewrite expand_is_one_pass. discriminate. Qed.

  (* ================= facts about the spec ================= *)

  (* the segments partition the path: "left unchanged" is byte-for-byte *)
  Lemma segments_text k : forall s, (length s <= k)%nat -> concat (map seg_text (segments s)) = s.
  Proof.
    induction k as [|k IH]; intros s Hl.
    { destruct s; [reflexivity|cbn in Hl; lia]. }
    destruct s as [|c r]; [reflexivity|].
    rewrite segments_cons. destruct (ref_at (c :: r)) as [[n rest]|] eqn:E.
    - pose proof (ref_at_shorter _ _ _ E) as Hs. destruct (ref_at_some _ _ _ E) as (Hr & _).
      cbn [map concat seg_text]. rewrite IH by (cbn in Hl, Hs; lia). now rewrite Hr.
    - cbn [map concat seg_text app]. rewrite IH by (cbn in Hl; lia). reflexivity.
  Qed.

  Theorem segments_partition p : concat (map seg_text (segments p)) = p.
  Proof. exact (segments_text (length p) p (le_n _)). Qed.

  (* no reference to a set variable: nothing changes *)
  Theorem spec_unset_identity p :
    (forall n, In (Ref n) (segments p) -> env n = None) -> expand_spec uni_alnum env p = p.
  Proof.
    intros H. unfold expand_spec. rewrite <- (segments_partition p) at 2. f_equal.
    apply map_ext_in. intros sg Hin. destruct sg as [c|n]; [reflexivity|].
    cbn [EnvExpandSpec.sem seg_text]. now rewrite (H n Hin).
  Qed.

  (* a '$'-free prefix (the directory the harness puts in front) takes no part *)
  Theorem spec_prefix pre p :
    dollar_free pre -> expand_spec uni_alnum env (pre ++ p) = pre ++ expand_spec uni_alnum env p.
  Proof.
    intros Hpre. unfold expand_spec.
    induction Hpre as [|c a Hc _ IH]; [reflexivity|].
    cbn [app]. rewrite segments_lit by exact Hc. cbn [map concat EnvExpandSpec.sem app]. now rewrite IH.
  Qed.
End Proofs.
