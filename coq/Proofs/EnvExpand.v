(* C19 — proofs about the model of expand_env_vars against the one-pass spec. *)
From Coq Require Import List NArith Bool Lia PeanoNat.
Import ListNotations.
From L4 Require Import Common.Str Model.EnvExpand Proofs.EnvExpandSpec.
Local Open Scope N_scope.

Definition values_dollar_free (env : ustr -> option ustr) : Prop :=
  forall n v, env n = Some v -> ~ In 36 v.

(* ================= the forged-reference defect ================= *)
(* A = "ENV{B}", B = "vb", path "x$$ENV{A}-$ENV{B}" *)
Definition wit_tbl : list (ustr * ustr) := [([65], [69;78;86;123;66;125]); ([66], [118;98])].
Definition wit_path : ustr := [120;36;36;69;78;86;123;65;125;45;36;69;78;86;123;66;125].

Lemma lookup_dollar_free tbl :
  forallb (fun kv => negb (existsb (N.eqb 36) (snd kv))) tbl = true -> values_dollar_free (lookup tbl).
Proof.
  induction tbl as [|[k v] r IH]; cbn; intros H n w E; [discriminate|].
  apply andb_true_iff in H. destruct H as [H1 H2].
  destruct (str_eqb n k).
  - injection E as <-. intros Hin. apply negb_true_iff in H1.
    assert (existsb (N.eqb 36) v = true) by (apply existsb_exists; exists 36; split; [exact Hin|apply N.eqb_refl]).
    congruence.
  - exact (IH H2 n w E).
Qed.

Theorem expand_refuted :
  exists ua env p,
    values_dollar_free env /\
    expand ua env p = Ok [120;118;98;45;118;98] /\                      (* "xvb-vb" *)
    expand_spec ua env p = [120;36;69;78;86;123;66;125;45;118;98] /\    (* "x$ENV{B}-vb" *)
    NoForgedRef ua env p = false.
Proof.
  exists (fun _ => false), (lookup wit_tbl), wit_path.
  split; [apply lookup_dollar_free; vm_compute; reflexivity|].
  vm_compute. repeat split; reflexivity.
Qed.

(* ================= elementary string lemmas ================= *)

Lemma starts_with_app p s : starts_with p (p ++ s) = true.
Proof. induction p as [|x p IH]; cbn; [reflexivity|]. now rewrite N.eqb_refl, IH. Qed.

Lemma starts_with_split p s : starts_with p s = true -> exists r, s = p ++ r.
Proof.
  revert s; induction p as [|x p IH]; intros s H; cbn in *.
  - now exists s.
  - destruct s as [|c s]; [discriminate|]. apply andb_true_iff in H. destruct H as [H1 H2].
    apply N.eqb_eq in H1. subst c. destruct (IH s H2) as (r & ->). now exists r.
Qed.

Lemma strip_prefix_app p t : strip_prefix p (p ++ t) = Some t.
Proof. induction p as [|x p IH]; cbn; [reflexivity|]. now rewrite N.eqb_refl. Qed.

Lemma strip_prefix_none p s : starts_with p s = false -> strip_prefix p s = None.
Proof.
  revert s; induction p as [|x p IH]; intros s H; cbn in *; [discriminate|].
  destruct s as [|c s]; [reflexivity|]. destruct (x =? c); cbn in H; [now apply IH|reflexivity].
Qed.

(* ================= byte offsets ================= *)

Lemma len_utf8_pos c : 1 <= len_utf8 c.
Proof. unfold len_utf8. destruct (c <? 128), (c <? 2048), (c <? 65536); lia. Qed.

Lemma blen_app a b : blen (a ++ b) = blen a + blen b.
Proof. induction a as [|c a IH]; cbn [blen app]; lia. Qed.

Lemma bdrop_0 s : bdrop s 0 = Some s.
Proof. destruct s; reflexivity. Qed.

Lemma bdrop_app pre s : bdrop (pre ++ s) (blen pre) = Some s.
Proof.
  induction pre as [|c pre IH]; cbn [app blen]; [apply bdrop_0|].
  pose proof (len_utf8_pos c) as Hp. cbn [bdrop].
  replace (len_utf8 c + blen pre =? 0) with false by (symmetry; apply N.eqb_neq; lia).
  replace (len_utf8 c <=? len_utf8 c + blen pre) with true by (symmetry; apply N.leb_le; lia).
  replace (len_utf8 c + blen pre - len_utf8 c) with (blen pre) by lia. exact IH.
Qed.

Lemma btake_0 s : btake s 0 = Some [].
Proof. destruct s; reflexivity. Qed.

Lemma btake_app a s : btake (a ++ s) (blen a) = Some a.
Proof.
  induction a as [|c a IH]; cbn [app blen]; [apply btake_0|].
  pose proof (len_utf8_pos c) as Hp. cbn [btake].
  replace (len_utf8 c + blen a =? 0) with false by (symmetry; apply N.eqb_neq; lia).
  replace (len_utf8 c <=? len_utf8 c + blen a) with true by (symmetry; apply N.leb_le; lia).
  replace (len_utf8 c + blen a - len_utf8 c) with (blen a) by lia. now rewrite IH.
Qed.

Lemma bslice_app pre a s : bslice (pre ++ a ++ s) (blen pre) (blen pre + blen a) = Some a.
Proof.
  unfold bslice. replace (blen pre <=? blen pre + blen a) with true by (symmetry; apply N.leb_le; lia).
  rewrite bdrop_app. replace (blen pre + blen a - blen pre) with (blen a) by lia. apply btake_app.
Qed.

(* ================= match_indices / replace: unfolding equations ================= *)

Lemma mi_skip pat a s off :
  match_indices_from pat (a ++ s) off (length a) = match_indices_from pat s (off + blen a) 0.
Proof.
  revert off; induction a as [|c a IH]; intros off; cbn [app length blen match_indices_from].
  - now rewrite N.add_0_r.
  - rewrite IH. f_equal. lia.
Qed.

Lemma mi_hit pat s off :
  pat <> [] ->
  match_indices_from pat (pat ++ s) off 0 = off :: match_indices_from pat s (off + blen pat) 0.
Proof.
  destruct pat as [|p pat]; [congruence|]. intros _.
  change ((p :: pat) ++ s) with (p :: (pat ++ s)). cbn [match_indices_from].
  change (p :: pat ++ s) with ((p :: pat) ++ s). rewrite starts_with_app.
  cbn [length]. rewrite Nat.sub_succ, Nat.sub_0_r, mi_skip. cbn [blen]. f_equal. f_equal. lia.
Qed.

Lemma mi_miss pat c r off :
  starts_with pat (c :: r) = false ->
  match_indices_from pat (c :: r) off 0 = match_indices_from pat r (off + len_utf8 c) 0.
Proof. intros H. cbn [match_indices_from]. now rewrite H. Qed.

Lemma repl_skip f t a s : replace_from f t (a ++ s) (length a) = replace_from f t s 0.
Proof. induction a as [|c a IH]; cbn [app length replace_from]; [reflexivity|exact IH]. Qed.

Lemma repl_hit f t s : f <> [] -> replace_from f t (f ++ s) 0 = t ++ replace_from f t s 0.
Proof.
  destruct f as [|p f]; [congruence|]. intros _.
  change ((p :: f) ++ s) with (p :: (f ++ s)). cbn [replace_from].
  change (p :: f ++ s) with ((p :: f) ++ s). rewrite starts_with_app.
  cbn [length]. now rewrite Nat.sub_succ, Nat.sub_0_r, repl_skip.
Qed.

Lemma repl_miss f t c r :
  starts_with f (c :: r) = false -> replace_from f t (c :: r) 0 = c :: replace_from f t r 0.
Proof. intros H. cbn [replace_from]. now rewrite H. Qed.

(* nothing that begins with '$' can match inside '$'-free text *)
Definition dollar_free (s : ustr) : Prop := Forall (fun c => c <> 36) s.

Lemma starts_with_dollar pat c r : c <> 36 -> starts_with (36 :: pat) (c :: r) = false.
Proof.
  intros H. cbn [starts_with]. destruct (N.eqb_spec 36 c) as [E|_]; [congruence|reflexivity].
Qed.

Lemma repl_no_dollar pat t a s :
  dollar_free a -> replace_from (36 :: pat) t (a ++ s) 0 = a ++ replace_from (36 :: pat) t s 0.
Proof.
  induction 1 as [|c a Hc _ IH]; [reflexivity|].
  change ((c :: a) ++ s) with (c :: (a ++ s)).
  rewrite repl_miss by (apply starts_with_dollar; exact Hc). cbn [app]. f_equal. exact IH.
Qed.

Lemma mi_no_dollar pat a s off :
  dollar_free a ->
  match_indices_from (36 :: pat) (a ++ s) off 0 = match_indices_from (36 :: pat) s (off + blen a) 0.
Proof.
  intros H; revert off; induction H as [|c a Hc _ IH]; intros off; cbn [app blen].
  - now rewrite N.add_0_r.
  - rewrite mi_miss by (apply starts_with_dollar; exact Hc).
    etransitivity; [exact (IH _)|]. f_equal. lia.
Qed.

Section Proofs.
  Variable uni_alnum : chr -> bool.
  Variable env : ustr -> option ustr.

  Notation is_start := (is_env_var_start uni_alnum).
  Notation is_part := (is_env_var_part uni_alnum).
  Notation ref_at := (ref_at uni_alnum).
  Notation segments := (segments uni_alnum).
  Notation segs := (segs uni_alnum).
  Notation name_loop := (name_loop uni_alnum).

  (* ================= name characters ================= *)

  Lemma part_not_dollar c : is_part c = true -> c <> 36.
  Proof. intros H ->. cbv in H. discriminate. Qed.

  Lemma start_is_part c : is_start c = true -> is_part c = true.
  Proof. unfold is_env_var_start, is_env_var_part. intros ->. reflexivity. Qed.

  Lemma span_spec (f : chr -> bool) s a b :
    span f s = (a, b) -> s = a ++ b /\ Forall (fun c => f c = true) a.
  Proof.
    revert a b; induction s as [|c r IH]; intros a b H; cbn in H.
    - injection H as <- <-. split; [reflexivity|constructor].
    - destruct (f c) eqn:Hc.
      + destruct (span f r) as (a', b') eqn:E. injection H as <- <-.
        destruct (IH a' b' eq_refl) as (-> & HF). split; [reflexivity|]. constructor; assumption.
      + injection H as <- <-. split; [reflexivity|constructor].
  Qed.

  (* the model's character loop = "maximal run of name characters, then '}'" *)
  Lemma name_loop_span cs :
    name_loop cs =
    match span is_part cs with
    | (nm, b :: _) => if b =? env_suffix then Some nm else None
    | (_, []) => None
    end.
  Proof.
    induction cs as [|c r IH]; cbn [EnvExpand.name_loop span]; [reflexivity|].
    destruct (is_part c) eqn:Hc.
    - rewrite IH. destruct (span is_part r) as (a, b). destruct b as [|b0 b']; [reflexivity|].
      destruct (b0 =? env_suffix); reflexivity.
    - reflexivity.
  Qed.

  (* the model's validity test of the text after "$ENV{" *)
  Definition valid_name (t : ustr) : option ustr :=
    match t with
    | [] => None
    | ch :: cs => if is_start ch
                  then match name_loop cs with Some nm => Some (ch :: nm) | None => None end
                  else None
    end.

  Lemma valid_name_some t n :
    valid_name t = Some n ->
    exists rest, t = n ++ env_suffix :: rest /\ ref_at (env_prefix ++ t) = Some (n, rest) /\
                 Forall (fun c => is_part c = true) n.
  Proof.
    unfold valid_name, EnvExpandSpec.ref_at. rewrite strip_prefix_app.
    destruct t as [|ch cs]; [discriminate|].
    destruct (is_start ch) eqn:Hs; [|discriminate].
    rewrite name_loop_span. cbn [span]. rewrite (start_is_part _ Hs).
    destruct (span is_part cs) as (a, b) eqn:E. destruct (span_spec _ _ _ _ E) as (-> & HF).
    destruct b as [|b0 b']; [discriminate|].
    destruct (N.eqb_spec b0 env_suffix) as [->|Hne]; [|discriminate].
    intros H. injection H as <-. exists b'. rewrite Hs. cbn [andb].
    repeat split. constructor; [exact (start_is_part _ Hs)|exact HF].
  Qed.

  Lemma valid_name_none t : valid_name t = None -> ref_at (env_prefix ++ t) = None.
  Proof.
    unfold valid_name, EnvExpandSpec.ref_at. rewrite strip_prefix_app.
    destruct t as [|ch cs]; [reflexivity|]. cbn [span].
    destruct (is_start ch) eqn:Hs.
    - rewrite (start_is_part _ Hs), name_loop_span.
      destruct (span is_part cs) as (a, b). destruct b as [|b0 b']; [reflexivity|].
      rewrite Hs. cbn [andb]. destruct (b0 =? env_suffix); [discriminate|reflexivity].
    - intros _. destruct (is_part ch).
      + destruct (span is_part cs) as (a, b). destruct b; [reflexivity|]. rewrite Hs. reflexivity.
      + reflexivity.
  Qed.

  (* what ref_at recognises is the text of a reference *)
  Lemma ref_at_some s n rest :
    ref_at s = Some (n, rest) ->
    s = raw n ++ rest /\ Forall (fun c => is_part c = true) n.
  Proof.
    unfold EnvExpandSpec.ref_at. destruct (strip_prefix env_prefix s) as [t|] eqn:Es; [|discriminate].
    assert (Hs : s = env_prefix ++ t).
    { destruct (starts_with env_prefix s) eqn:Hw.
      - destruct (starts_with_split _ _ Hw) as (r & ->). rewrite strip_prefix_app in Es. congruence.
      - rewrite (strip_prefix_none _ _ Hw) in Es. discriminate. }
    destruct (span is_part t) as (a, b) eqn:E. destruct (span_spec _ _ _ _ E) as (-> & HF).
    destruct a as [|c a']; [discriminate|]. destruct b as [|b0 b']; [discriminate|].
    destruct (is_start c); [|discriminate]. cbn [andb].
    destruct (N.eqb_spec b0 env_suffix) as [->|]; [|discriminate].
    intros H. injection H as <- <-. split; [|exact HF].
    rewrite Hs. unfold raw. now rewrite <- !app_assoc.
  Qed.

  Lemma ref_at_not_prefix s : starts_with env_prefix s = false -> ref_at s = None.
  Proof. intros H. unfold EnvExpandSpec.ref_at. now rewrite (strip_prefix_none _ _ H). Qed.

  Lemma ref_at_shorter s n rest : ref_at s = Some (n, rest) -> (length rest < length s)%nat.
  Proof.
    intros H. destruct (ref_at_some _ _ _ H) as (-> & _). unfold raw. rewrite !app_length. cbn. lia.
  Qed.

  (* ================= segments: unfolding ================= *)

  Lemma segs_fuel f : forall s f', (length s <= f)%nat -> (length s <= f')%nat -> segs f s = segs f' s.
  Proof.
    induction f as [|f IH]; intros s f' H1 H2.
    - destruct s; [|cbn in H1; lia]. destruct f'; reflexivity.
    - destruct s as [|c r]; [destruct f'; reflexivity|].
      destruct f' as [|f']; [cbn in H2; lia|]. cbn [EnvExpandSpec.segs].
      destruct (ref_at (c :: r)) as [[n rest]|] eqn:E.
      + pose proof (ref_at_shorter _ _ _ E) as Hl. f_equal. apply IH; cbn in *; lia.
      + f_equal. apply IH; cbn in *; lia.
  Qed.

  Lemma segments_cons c r :
    segments (c :: r) =
    match ref_at (c :: r) with
    | Some (n, rest) => Ref n :: segments rest
    | None => Lit c :: segments r
    end.
  Proof.
    unfold EnvExpandSpec.segments. cbn [length EnvExpandSpec.segs].
    destruct (ref_at (c :: r)) as [[n rest]|] eqn:E.
    - pose proof (ref_at_shorter _ _ _ E) as Hl. f_equal. apply segs_fuel; cbn in *; lia.
    - reflexivity.
  Qed.

  Lemma segments_lit c r : c <> 36 -> segments (c :: r) = Lit c :: segments r.
  Proof.
    intros H. rewrite segments_cons, ref_at_not_prefix; [reflexivity|].
    apply starts_with_dollar. exact H.
  Qed.

  (* ================= the loop of expand, segment by segment ================= *)

  Notation step := (step uni_alnum env).

  Lemma step_eq path out ms :
    step path (Ok out) ms =
    match bdrop path (ms + env_prefix_len) with
    | None => Panic
    | Some tail =>
      match valid_name tail with
      | None => Ok out
      | Some name =>
        match env name with
        | None => Ok out
        | Some v =>
          match bslice path ms (ms + env_prefix_len + blen name + 1) with
          | None => Panic
          | Some needle => Ok (replace_all out needle v)
          end
        end
      end
    end.
  Proof.
    unfold EnvExpand.step, valid_name. destruct (bdrop path (ms + env_prefix_len)) as [tail|]; [|reflexivity].
    destruct tail as [|ch cs]; [reflexivity|]. destruct (is_start ch); [|reflexivity].
    destruct (name_loop cs); reflexivity.
  Qed.

  (* what one processed segment does to the output *)
  Definition seg_step (out : ustr) (sg : seg) : ustr :=
    match sg with
    | Ref n => match env n with Some v => replace_all out (raw n) v | None => out end
    | Lit _ => out
    end.
  Definition run_segs (sgs : list seg) (out : ustr) : ustr := fold_left seg_step sgs out.

  Lemma blen_prefix : blen env_prefix = env_prefix_len.
  Proof. reflexivity. Qed.

  Lemma blen_raw n : blen (raw n) = 5 + blen n + 1.
  Proof.
    unfold raw. rewrite !blen_app. change (blen env_prefix) with 5. change (blen [env_suffix]) with 1. lia.
  Qed.

  Lemma scan_segments k : forall s, (length s <= k)%nat -> forall pre out,
    fold_left (step (pre ++ s)) (match_indices_from env_prefix s (blen pre) 0) (Ok out)
    = Ok (run_segs (segments s) out).
  Proof.
    induction k as [|k IH]; intros s Hl pre out.
    { destruct s; [reflexivity|cbn in Hl; lia]. }
    destruct s as [|c r]; [reflexivity|].
    destruct (starts_with env_prefix (c :: r)) eqn:Hw.
    - (* an occurrence of "$ENV{" *)
      destruct (starts_with_split _ _ Hw) as (t & Es). rewrite Es.
      assert (Hlt : (length t <= k)%nat).
      { apply (f_equal (@length _)) in Es. rewrite app_length in Es. cbn in Es, Hl. lia. }
      rewrite mi_hit by discriminate. cbn [fold_left]. rewrite step_eq.
      assert (Hbd : bdrop (pre ++ env_prefix ++ t) (blen pre + env_prefix_len) = Some t).
      { rewrite app_assoc, <- blen_prefix, <- blen_app. apply bdrop_app. }
      rewrite Hbd.
      destruct (valid_name t) as [name|] eqn:Ev.
      + (* well-formed reference *)
        destruct (valid_name_some _ _ Ev) as (rest & Et & Er & Hp).
        assert (Hdf : dollar_free (name ++ [env_suffix])).
        { apply Forall_app. split.
          - eapply Forall_impl; [|exact Hp]. intros a Ha. now apply part_not_dollar.
          - constructor; [discriminate|constructor]. }
        assert (Hrest : (length rest <= k)%nat).
        { rewrite Et, app_length in Hlt. cbn in Hlt. lia. }
        assert (Hsg : segments (env_prefix ++ t) = Ref name :: segments rest).
        { change (env_prefix ++ t) with (36 :: ([69;78;86;123] ++ t)). rewrite segments_cons.
          change (36 :: ([69;78;86;123] ++ t)) with (env_prefix ++ t). now rewrite Er. }
        rewrite Hsg. unfold run_segs. cbn [fold_left seg_step].
        assert (Hmi : match_indices_from env_prefix t (blen pre + blen env_prefix) 0
                      = match_indices_from env_prefix rest (blen (pre ++ raw name)) 0).
        { rewrite Et. change (name ++ env_suffix :: rest) with (name ++ [env_suffix] ++ rest).
          rewrite app_assoc. unfold env_prefix at 1 3.
          rewrite (mi_no_dollar _ _ _ _ Hdf). f_equal.
          rewrite !blen_app, blen_raw. change (blen [env_suffix]) with 1. rewrite blen_prefix. unfold env_prefix_len. lia. }
        assert (Hpath : pre ++ env_prefix ++ t = (pre ++ raw name) ++ rest).
        { rewrite Et. unfold raw. rewrite <- !app_assoc. reflexivity. }
        destruct (env name) as [v|] eqn:Ee.
        * assert (Hsl : bslice (pre ++ env_prefix ++ t) (blen pre)
                               (blen pre + env_prefix_len + blen name + 1) = Some (raw name)).
          { replace (pre ++ env_prefix ++ t) with (pre ++ raw name ++ rest)
              by (rewrite Hpath; now rewrite <- app_assoc).
            replace (blen pre + env_prefix_len + blen name + 1) with (blen pre + blen (raw name))
              by (rewrite blen_raw; unfold env_prefix_len; lia).
            apply bslice_app. }
          rewrite Hsl, Hmi, Hpath. apply IH. exact Hrest.
        * rewrite Hmi, Hpath. apply IH. exact Hrest.
      + (* malformed: "$ENV{" stays literal, scanning resumes after it *)
        pose proof (valid_name_none _ Ev) as Er.
        assert (Hsg : run_segs (segments (env_prefix ++ t)) out = run_segs (segments t) out).
        { change (env_prefix ++ t) with (36 :: ([69;78;86;123] ++ t)). rewrite segments_cons.
          change (36 :: ([69;78;86;123] ++ t)) with (env_prefix ++ t). rewrite Er.
          cbn [app]. rewrite !segments_lit by discriminate. reflexivity. }
        rewrite Hsg, app_assoc, <- blen_app. apply IH. exact Hlt.
    - (* no occurrence here *)
      rewrite mi_miss by exact Hw. rewrite segments_cons, (ref_at_not_prefix _ Hw).
      unfold run_segs. cbn [fold_left seg_step].
      replace (pre ++ c :: r) with ((pre ++ [c]) ++ r) by now rewrite <- app_assoc.
      replace (blen pre + len_utf8 c) with (blen (pre ++ [c])) by (rewrite blen_app; cbn; lia).
      apply IH. cbn in Hl. lia.
  Qed.

  (* the whole function is the fold of the per-segment steps: in particular every byte
     offset it slices at is a character boundary *)
  Theorem expand_as_segments p :
    expand uni_alnum env p = Ok (run_segs (segments p) p).
  Proof.
    unfold expand, match_indices. exact (scan_segments (length p) p (le_n _) [] p).
  Qed.

  Theorem expand_total p : expand uni_alnum env p <> Panic.
  Proof. rewrite expand_as_segments. discriminate. Qed.

  (* ================= segments partition the path ================= *)

  Notation sem_d := (sem_d env).
  Notation sem := (sem env).
  Notation out_d := (out_d env).
  Notation clean := (clean env).
  Notation active := (active env).
  Notation no_forged := (no_forged env).

  Definition seg_ok (sg : seg) : Prop :=
    match sg with Ref n => dollar_free n | Lit _ => True end.

  Lemma segments_facts k : forall s, (length s <= k)%nat ->
    out_d [] (segments s) = s /\ Forall seg_ok (segments s).
  Proof.
    induction k as [|k IH]; intros s Hl.
    { destruct s; [split; [reflexivity|constructor]|cbn in Hl; lia]. }
    destruct s as [|c r]; [split; [reflexivity|constructor]|].
    rewrite segments_cons. destruct (ref_at (c :: r)) as [[n rest]|] eqn:E.
    - pose proof (ref_at_shorter _ _ _ E) as Hs. destruct (ref_at_some _ _ _ E) as (Hr & Hp).
      destruct (IH rest) as (H1 & H2); [cbn in Hl, Hs; lia|]. split.
      + unfold EnvExpandSpec.out_d in *. cbn [map concat EnvExpandSpec.sem_d mem existsb].
        rewrite H1, Hr. destruct (env n); reflexivity.
      + constructor; [|exact H2]. cbn. eapply Forall_impl; [|exact Hp].
        intros a Ha. now apply part_not_dollar.
    - destruct (IH r) as (H1 & H2); [cbn in Hl; lia|]. split.
      + unfold EnvExpandSpec.out_d in *. cbn [map concat EnvExpandSpec.sem_d app]. now rewrite H1.
      + constructor; [exact I|exact H2].
  Qed.

  (* all other text is left unchanged: the unsubstituted segments spell the path *)
  Lemma segments_print s : out_d [] (segments s) = s.
  Proof. exact (proj1 (segments_facts (length s) s (le_n _))). Qed.

  Lemma segments_ok s : Forall seg_ok (segments s).
  Proof. exact (proj2 (segments_facts (length s) s (le_n _))). Qed.

  (* ================= one substitution step on a clean path ================= *)

  Lemma raw_cons n : raw n = 36 :: ([69;78;86;123] ++ n ++ [env_suffix]).
  Proof. reflexivity. Qed.

  Lemma raw_tail_dollar_free n : dollar_free n -> dollar_free ([69;78;86;123] ++ n ++ [env_suffix]).
  Proof.
    intros H. apply Forall_app. split; [repeat constructor; discriminate|].
    apply Forall_app. split; [exact H|repeat constructor; discriminate].
  Qed.

  Lemma out_d_cons done sg r : out_d done (sg :: r) = sem_d done sg ++ out_d done r.
  Proof. reflexivity. Qed.

  Lemma mem_cons x y l : mem x (y :: l) = str_eqb x y || mem x l.
  Proof. reflexivity. Qed.

  Hypothesis Hvals : values_dollar_free env.

  Lemma value_dollar_free n v : env n = Some v -> dollar_free v.
  Proof.
    intros E. apply Forall_forall. intros c Hc ->. exact (Hvals n v E Hc).
  Qed.

  Lemma repl_raw_miss n v m rest :
    dollar_free m -> starts_with (raw n) (raw m ++ rest) = false ->
    replace_from (raw n) v (raw m ++ rest) 0 = raw m ++ replace_from (raw n) v rest 0.
  Proof.
    intros Hm H.
    change (raw m ++ rest) with (36 :: (([69;78;86;123] ++ m ++ [env_suffix]) ++ rest)) in *.
    change (raw m ++ replace_from (raw n) v rest 0)
      with (36 :: (([69;78;86;123] ++ m ++ [env_suffix]) ++ replace_from (raw n) v rest 0)).
    rewrite repl_miss by exact H. f_equal. rewrite raw_cons. apply repl_no_dollar.
    apply raw_tail_dollar_free. exact Hm.
  Qed.

  Lemma clean_step done n v sgs :
    env n = Some v -> Forall seg_ok sgs -> clean done n sgs = true ->
    replace_from (raw n) v (out_d done sgs) 0 = out_d (n :: done) sgs.
  Proof.
    intros En Hok. induction Hok as [|sg r Hsg _ IH]; intros Hc; [reflexivity|].
    cbn [EnvExpandSpec.clean] in Hc. apply andb_true_iff in Hc. destruct Hc as [Hhere Hr].
    specialize (IH Hr). rewrite !out_d_cons. rewrite out_d_cons in Hhere.
    destruct sg as [c|m]; cbn [EnvExpandSpec.sem_d EnvExpandSpec.genuine] in *.
    - (* literal character *)
      cbn [orb app] in Hhere. apply negb_true_iff in Hhere.
      cbn [app]. rewrite repl_miss by exact Hhere. f_equal. exact IH.
    - destruct (env m) as [vm|] eqn:Em.
      + rewrite mem_cons. destruct (mem m done) eqn:Hmd.
        * (* already substituted: '$'-free text *)
          rewrite orb_true_r, raw_cons, repl_no_dollar by (apply (value_dollar_free m); exact Em).
          rewrite <- raw_cons. f_equal. exact IH.
        * rewrite orb_false_r. destruct (str_eqb_spec m n) as [->|Hne].
          -- (* the reference being processed (first time: n not yet done) *)
             rewrite Em in En. injection En as ->.
             rewrite repl_hit by discriminate. f_equal. exact IH.
          -- (* an unsubstituted reference to another variable *)
             cbn [andb orb] in Hhere. apply negb_true_iff in Hhere.
             rewrite repl_raw_miss by assumption. f_equal. exact IH.
      + (* reference to an unset variable *)
        assert (Hg : str_eqb m n && negb (mem n done) = false).
        { destruct (str_eqb_spec m n) as [->|]; [congruence|reflexivity]. }
        rewrite Hg in Hhere. cbn [orb] in Hhere. apply negb_true_iff in Hhere.
        rewrite repl_raw_miss by assumption. f_equal. exact IH.
  Qed.

  (* ================= all steps ================= *)

  Definition name_step (out : ustr) (n : ustr) : ustr :=
    match env n with Some v => replace_all out (raw n) v | None => out end.

  Lemma run_segs_active sgs out : run_segs sgs out = fold_left name_step (active sgs) out.
  Proof.
    unfold run_segs. revert out; induction sgs as [|sg r IH]; intros out; [reflexivity|].
    cbn [fold_left EnvExpandSpec.active]. destruct sg as [c|n]; cbn [seg_step]; [apply IH|].
    destruct (env n) as [v|] eqn:E.
    - cbn [fold_left]. unfold name_step at 2. rewrite E. apply IH.
    - apply IH.
  Qed.

  Lemma active_set sgs n : In n (active sgs) -> env n <> None.
  Proof.
    induction sgs as [|sg r IH]; cbn [EnvExpandSpec.active]; [intros []|].
    destruct sg as [c|m]; [exact IH|]. destruct (env m) eqn:E; [|exact IH].
    intros [<-|H]; [congruence|exact (IH H)].
  Qed.

  Lemma active_complete sgs n v : In (Ref n) sgs -> env n = Some v -> In n (active sgs).
  Proof.
    induction sgs as [|sg r IH]; [intros []|]. intros [->|H] E; cbn [EnvExpandSpec.active].
    - rewrite E. now left.
    - destruct sg as [c|m]; [exact (IH H E)|]. destruct (env m); [right|]; exact (IH H E).
  Qed.

  Lemma steps_clean sgs : Forall seg_ok sgs -> forall todo done,
    (forall n, In n todo -> env n <> None) ->
    no_forged sgs todo done = true ->
    fold_left name_step todo (out_d done sgs) = out_d (rev todo ++ done) sgs.
  Proof.
    intros Hok. induction todo as [|n r IH]; intros done Hset Hnf; [reflexivity|].
    cbn [EnvExpandSpec.no_forged] in Hnf. apply andb_true_iff in Hnf. destruct Hnf as [Hc Hr].
    cbn [fold_left rev]. unfold name_step at 2.
    destruct (env n) as [v|] eqn:E; [|exfalso; exact (Hset n (or_introl eq_refl) E)].
    unfold replace_all. rewrite (clean_step done n v sgs E Hok Hc).
    rewrite IH; [|intros x Hx; apply Hset; now right|exact Hr].
    now rewrite <- app_assoc.
  Qed.

  Lemma out_d_all sgs done :
    (forall n, In n (active sgs) -> mem n done = true) -> out_d done sgs = concat (map sem sgs).
  Proof.
    unfold EnvExpandSpec.out_d. induction sgs as [|sg r IH]; intros H; [reflexivity|].
    cbn [map concat]. f_equal.
    - destruct sg as [c|n]; [reflexivity|]. cbn [EnvExpandSpec.sem_d EnvExpandSpec.sem].
      destruct (env n) as [v|] eqn:E; [|reflexivity].
      rewrite H; [reflexivity|]. cbn [EnvExpandSpec.active]. rewrite E. now left.
    - apply IH. intros n Hn. apply H. cbn [EnvExpandSpec.active].
      destruct sg as [c|m]; [exact Hn|]. destruct (env m); [now right|exact Hn].
  Qed.

  (* The property for every path outside the known-finding class: with '$'-free values and
     no forged reference, the code's sequential replace-all computes the one-pass expansion. *)
  Theorem expand_is_one_pass p :
    NoForgedRef uni_alnum env p = true ->
    expand uni_alnum env p = Ok (expand_spec uni_alnum env p).
  Proof.
    intros Hnf. rewrite expand_as_segments. f_equal. rewrite run_segs_active.
    unfold NoForgedRef in Hnf.
    rewrite <- (segments_print p) at 2.
    rewrite (steps_clean _ (segments_ok p) _ [] (active_set _) Hnf).
    unfold expand_spec. apply out_d_all. intros n Hn.
    apply mem_In. rewrite app_nil_r. now apply -> in_rev.
  Qed.
End Proofs.

(* a path none of whose references names a set variable comes back unchanged, whatever the
   values of the other variables *)
Theorem expand_unset_identity ua env p :
  (forall n, In (Ref n) (segments ua p) -> env n = None) -> expand ua env p = Ok p.
Proof.
  intros H. rewrite expand_as_segments. f_equal. unfold run_segs.
  assert (G : forall sgs out, (forall n, In (Ref n) sgs -> env n = None) ->
                              fold_left (seg_step env) sgs out = out).
  { induction sgs as [|sg r IH]; intros out Hs; [reflexivity|]. cbn [fold_left].
    destruct sg as [c|n]; cbn [seg_step].
    - apply IH. intros n Hn. apply Hs. now right.
    - rewrite (Hs n (or_introl eq_refl)). apply IH. intros m Hm. apply Hs. now right. }
  apply G. exact H.
Qed.

(* a '$'-free prefix (the directory the harness puts in front of the path) takes no part in
   the expansion *)
Theorem expand_prefix ua env pre p :
  dollar_free pre ->
  expand ua env (pre ++ p) =
  match expand ua env p with Ok s => Ok (pre ++ s) | Panic => Panic end.
Proof.
  intros Hpre. rewrite !expand_as_segments. f_equal.
  assert (Hs : segments ua (pre ++ p) = map Lit pre ++ segments ua p).
  { induction Hpre as [|c a Hc _ IH]; [reflexivity|].
    cbn [app map]. rewrite segments_lit by exact Hc. f_equal. exact IH. }
  rewrite Hs. unfold run_segs. rewrite fold_left_app.
  assert (Hl : forall (l : ustr) out, fold_left (seg_step env) (map Lit l) out = out).
  { induction l as [|c a IH]; intros out; [reflexivity|]. cbn [map fold_left seg_step]. apply IH. }
  rewrite Hl.
  assert (G : forall sgs out, fold_left (seg_step env) sgs (pre ++ out)
                              = pre ++ fold_left (seg_step env) sgs out).
  { induction sgs as [|sg r IH]; intros out; [reflexivity|].
    cbn [fold_left]. destruct sg as [c|n]; cbn [seg_step]; [apply IH|].
    destruct (env n) as [v|]; [|apply IH].
    unfold replace_all. rewrite raw_cons, repl_no_dollar by exact Hpre. apply IH. }
  apply G.
Qed.
