(* C12 — the JSON encoder over a HISTORY of records: what a line-oriented reader of
   the sink sees.  `stream rs` is what an appender's sink holds after the records
   rs were encoded one after the other (the encoder only ever appends to its
   writer); `split_lines` is the reader: it cuts at every byte 0x0A and returns
   the complete lines and the unterminated tail.

   Proved here, for every list of records with arbitrary bytes in every field:
   * the reader recovers exactly one line per record, in order, nothing left over,
     and every line parses (with the independent parser of Proofs/Json.v) to that
     record's fields - no field content can forge, merge or split a line;
   * EVERY byte prefix of the stream (a crash, a torn write, a full disk) reads
     as the lines of a prefix of the history plus a tail that is a proper prefix
     of the next record's line - a reader never sees a line that is not a whole
     record of the history. *)
From Coq Require Import List Arith NArith Bool Lia.
Import ListNotations.
From L4 Require Import Model.Json Proofs.Json.
Local Open Scope N_scope.

Definition stream (rs : list record) : bytes := flat_map encode_record rs.

(* complete lines (without their terminator), unterminated tail *)
Fixpoint split_lines (s : bytes) : list bytes * bytes :=
  match s with
  | [] => ([], [])
  | b :: rest =>
      let (ls, tail) := split_lines rest in
      if b =? 10 then ([] :: ls, tail)
      else match ls with
           | l :: ls' => ((b :: l) :: ls', tail)
           | [] => ([], b :: tail)
           end
  end.

(* a reader that parses every complete line and demands an empty tail *)
Fixpoint parse_all (ls : list bytes) : option (list (list (bytes * jval))) :=
  match ls with
  | [] => Some []
  | l :: rest =>
      match parse_line (l ++ [10]), parse_all rest with
      | Some o, Some os => Some (o :: os)
      | _, _ => None
      end
  end.

Definition read_stream (s : bytes) : option (list (list (bytes * jval))) :=
  match split_lines s with
  | (ls, []) => parse_all ls
  | (_, _ :: _) => None
  end.

Definition no_nl (s : bytes) : Prop := forall b, In b s -> b <> 10.

Lemma split_body body rest :
  no_nl body ->
  split_lines (body ++ 10 :: rest) =
  (body :: fst (split_lines rest), snd (split_lines rest)).
Proof.
  induction body as [|b body IH]; intros Hn.
  - cbn [app split_lines]. destruct (split_lines rest) as [ls t].
    replace (10 =? 10) with true by reflexivity. reflexivity.
  - cbn [app split_lines]. rewrite IH by (intros x Hx; apply Hn; right; exact Hx).
    assert (Hb : b <> 10) by (apply Hn; left; reflexivity).
    apply N.eqb_neq in Hb. rewrite Hb. reflexivity.
Qed.

Lemma split_no_nl s : no_nl s -> split_lines s = ([], s).
Proof.
  induction s as [|b s IH]; intros Hn; [reflexivity|].
  cbn [split_lines]. rewrite IH by (intros x Hx; apply Hn; right; exact Hx).
  assert (Hb : b <> 10) by (apply Hn; left; reflexivity).
  apply N.eqb_neq in Hb. rewrite Hb. reflexivity.
Qed.

Lemma message_object_no_nl r : no_nl (message_object r).
Proof.
  intros b Hb. pose proof (ge32_message_object r) as H.
  unfold ge32 in H. rewrite Forall_forall in H. apply H in Hb. lia.
Qed.

Lemma stream_cons r rs : stream (r :: rs) = message_object r ++ 10 :: stream rs.
Proof. unfold stream, encode_record. cbn [flat_map]. rewrite <- app_assoc. reflexivity. Qed.

Theorem stream_lines rs : split_lines (stream rs) = (map message_object rs, []).
Proof.
  induction rs as [|r rs IH]; [reflexivity|].
  rewrite stream_cons, split_body by apply message_object_no_nl.
  rewrite IH. reflexivity.
Qed.

Lemma parse_all_objects rs : parse_all (map message_object rs) = Some (map fields_of rs).
Proof.
  induction rs as [|r rs IH]; [reflexivity|].
  cbn [map parse_all]. fold (encode_record r). rewrite object_roundtrip, IH. reflexivity.
Qed.

Theorem stream_roundtrip rs : read_stream (stream rs) = Some (map fields_of rs).
Proof. unfold read_stream. rewrite stream_lines. apply parse_all_objects. Qed.

(* a is a proper prefix of b *)
Definition proper_prefix (a b : bytes) : Prop := exists c, c <> [] /\ b = a ++ c.

Lemma firstn_prefix {A} n (l : list A) : exists c, l = firstn n l ++ c.
Proof. exists (skipn n l). symmetry. apply firstn_skipn. Qed.

Lemma firstn_no_nl n s : no_nl s -> no_nl (firstn n s).
Proof.
  intros H b Hb. apply H. destruct (firstn_prefix n s) as [c Hc].
  rewrite Hc. apply in_or_app. left. exact Hb.
Qed.

(* Every byte prefix of the stream: the complete lines are exactly the lines of the
   first k records; the tail is empty with nothing more to come, or a proper prefix of
   record k's line. *)
Theorem stream_prefix rs : forall n,
  exists k,
    (k <= length rs)%nat /\
    fst (split_lines (firstn n (stream rs))) = map message_object (firstn k rs) /\
    match nth_error rs k with
    | Some r => proper_prefix (snd (split_lines (firstn n (stream rs)))) (encode_record r)
    | None => snd (split_lines (firstn n (stream rs))) = []
    end.
Proof.
  induction rs as [|r rs IH]; intros n.
  - exists 0%nat. unfold stream. cbn [flat_map]. rewrite firstn_nil. cbn. auto.
  - rewrite stream_cons.
    destruct (Nat.le_gt_cases n (length (message_object r))) as [Hle|Hgt].
    + (* the cut is inside (or right after) the body of the first record *)
      exists 0%nat. rewrite firstn_app.
      replace (n - length (message_object r))%nat with 0%nat by lia.
      cbn [firstn]. rewrite app_nil_r.
      rewrite split_no_nl by (apply firstn_no_nl, message_object_no_nl).
      cbn [fst snd firstn map nth_error length]. split; [lia|]. split; [reflexivity|].
      unfold proper_prefix, encode_record.
      exists (skipn n (message_object r) ++ [10]). split.
      * intros E. apply app_eq_nil in E. destruct E as [_ E]. discriminate.
      * rewrite app_assoc, firstn_skipn. reflexivity.
    + rewrite firstn_app, firstn_all2 by lia.
      remember (n - length (message_object r))%nat as m eqn:Em.
      destruct m as [|m]; [lia|]. cbn [firstn].
      rewrite split_body by apply message_object_no_nl.
      destruct (IH m) as [k [Hk [Hl Ht]]].
      exists (S k). cbn [fst snd firstn map nth_error length].
      split; [lia|]. split; [rewrite Hl; reflexivity|exact Ht].
Qed.

(* ... hence every complete line of every prefix of the sink parses to the fields of
   the record at that position of the history. *)
Theorem prefix_lines_parse rs n :
  exists k, parse_all (fst (split_lines (firstn n (stream rs)))) = Some (map fields_of (firstn k rs)).
Proof.
  destruct (stream_prefix rs n) as [k [_ [Hl _]]]. exists k.
  rewrite Hl. apply parse_all_objects.
Qed.

(* Non-vacuity: two records whose text fields contain newlines, quotes and a forged
   object; the stream reads back as those two records and a cut in the middle of the
   second shows only the first. *)
Definition inj_record (msg : bytes) : record :=
  {| r_time := [50; 48]; r_level := Info; r_message := msg;
     r_module := Some [10; 125; 10]; r_file := None; r_line := Some 7; r_target := [10];
     r_thread := Some [34; 10]; r_thread_id := 1; r_mdc := [([10], [34; 125; 10; 123])] |}.

Example stream_example :
  let rs := [inj_record [97; 10; 123; 34; 109; 34; 58; 49; 125; 10]; inj_record [10; 10]] in
  length (fst (split_lines (stream rs))) = 2%nat
  /\ read_stream (stream rs) = Some (map fields_of rs)
  /\ fst (split_lines (firstn (length (encode_record (hd (inj_record []) rs)) + 5) (stream rs)))
     = [message_object (hd (inj_record []) rs)].
Proof. vm_compute. repeat split. Qed.
