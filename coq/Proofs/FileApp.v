(* C04 — spec vocabulary and proofs about Model/BufW.v, Model/FileApp.v and their
   instantiation of the interleaving semantics Common/Sched.v. *)
From Coq Require Import List Arith NArith Bool Lia.
Import ListNotations.
From L4 Require Import Common.Sched Model.BufW Model.FileApp.

(* ---------------- spec vocabulary ---------------- *)

(* the OS never reports an error and never accepts 0 bytes; SHORT writes allowed *)
Definition resp_ok (r : resp) : bool := match r with Acc (S _) => true | _ => false end.
Definition orc_ok (o : list resp) : bool := forallb resp_ok o.

(* what the file holds right after opening *)
Definition open_content (a : bool) (pre : option bytes) : bytes :=
  match pre with
  | Some p => if a then p else []
  | None => []
  end.

Definition prefix (p l : bytes) : Prop := exists r, p ++ r = l.

Definition rec_bytes (r : record) : bytes := concat r.

Definition act_bytes (a : act) : bytes := match a with Write d => d | Flush => [] end.
Definition acts_bytes (l : list act) : bytes := concat (map act_bytes l).

(* st' extends st by (part of) the pending bytes buf st ++ d *)
Definition ext (d : bytes) (ok : bool) (st st' : fstate) : Prop :=
  exists w r, disk st' = disk st ++ w /\ w ++ r = buf st ++ d /\ (ok = true -> buf st' = r).

(* ---------------- list helpers ---------------- *)

Lemma firstn_map' : forall {X Y} (f : X -> Y) n l, firstn n (map f l) = map f (firstn n l).
Proof. induction n; destruct l; cbn [firstn map]; try reflexivity. rewrite IHn. reflexivity. Qed.

Lemma skipn_map' : forall {X Y} (f : X -> Y) n l, skipn n (map f l) = map f (skipn n l).
Proof. induction n; destruct l; cbn [skipn map]; try reflexivity. apply IHn. Qed.

Lemma acts_bytes_app : forall l1 l2, acts_bytes (l1 ++ l2) = acts_bytes l1 ++ acts_bytes l2.
Proof. intros. unfold acts_bytes. rewrite map_app, concat_app. reflexivity. Qed.

Lemma acts_bytes_block : forall r, acts_bytes (block_of r) = rec_bytes r.
Proof.
  intro r. unfold block_of. rewrite acts_bytes_app. unfold acts_bytes at 2. cbn [map act_bytes concat app].
  rewrite app_nil_r. unfold acts_bytes, rec_bytes. rewrite map_map. cbn [act_bytes].
  rewrite map_id. reflexivity.
Qed.

(* ---------------- the raw write loop ---------------- *)

Lemma drain_spec : forall o dk d ok dk' r o',
    drain o dk d = (ok, dk', r, o') ->
    exists w, dk' = dk ++ w /\ w ++ r = d /\ (ok = true -> r = []).
Proof.
  induction o as [|[k|] o IH]; intros dk d ok dk' r o' H; destruct d as [|x d]; cbn [drain] in H.
  - inversion H; subst. exists []. rewrite app_nil_r. auto.
  - inversion H; subst. exists (x :: d). rewrite app_nil_r. auto.
  - inversion H; subst. exists []. rewrite app_nil_r. auto.
  - destruct k as [|k].
    + inversion H; subst. exists []. rewrite app_nil_r. repeat split; auto. discriminate.
    + apply IH in H. destruct H as (w & Hd & Hw & Hok).
      exists (firstn (S k) (x :: d) ++ w). repeat split.
      * rewrite Hd, app_assoc. reflexivity.
      * rewrite <- app_assoc, Hw. apply firstn_skipn.
      * exact Hok.
  - inversion H; subst. exists []. rewrite app_nil_r. auto.
  - inversion H; subst. exists []. rewrite app_nil_r. repeat split; auto. discriminate.
Qed.

Lemma drain_ok : forall o dk d,
    orc_ok o = true ->
    exists o', drain o dk d = (true, dk ++ d, [], o') /\ orc_ok o' = true.
Proof.
  induction o as [|[k|] o IH]; intros dk d Hok; destruct d as [|x d]; cbn [drain].
  - exists []. rewrite app_nil_r. auto.
  - exists []. auto.
  - exists (Acc k :: o). rewrite app_nil_r. auto.
  - cbn [orc_ok forallb resp_ok] in Hok. destruct k as [|k]; [discriminate|].
    cbn [andb] in Hok.
    destruct (IH (dk ++ firstn (S k) (x :: d)) (skipn (S k) (x :: d)) Hok) as (o' & Hd & Ho').
    exists o'. split; [|exact Ho']. rewrite Hd. rewrite <- app_assoc, firstn_skipn. reflexivity.
  - exists (IoErr :: o). rewrite app_nil_r. auto.
  - cbn [orc_ok forallb resp_ok andb] in Hok. discriminate.
Qed.

(* ---------------- BufWriter operations ---------------- *)

Lemma flush_buf_spec : forall st ok st',
    flush_buf st = (ok, st') ->
    exists w, disk st' = disk st ++ w /\ w ++ buf st' = buf st /\ (ok = true -> buf st' = []).
Proof.
  intros st ok st' H. unfold flush_buf in H.
  destruct (drain (orc st) (disk st) (buf st)) as [[[ok0 dk] r] o] eqn:Hd.
  inversion H; subst. cbn [disk buf]. eapply drain_spec. exact Hd.
Qed.

Lemma flush_ext : forall st ok st', flush_buf st = (ok, st') -> ext [] ok st st'.
Proof.
  intros st ok st' H. apply flush_buf_spec in H. destruct H as (w & Hd & Hw & _).
  exists w, (buf st'). rewrite app_nil_r. auto.
Qed.

Lemma push_ext : forall d st, ext d true st (push d st).
Proof.
  intros d st. exists [], (buf st ++ d). cbn [push disk buf]. rewrite app_nil_r. auto.
Qed.

(* the optional flush in front of the cold paths *)
Lemma preflush_spec : forall (b : bool) st ok1 st1,
    (if b then flush_buf st else (true, st)) = (ok1, st1) ->
    exists w1, disk st1 = disk st ++ w1 /\ w1 ++ buf st1 = buf st /\
               (ok1 = true -> b = true -> buf st1 = []) /\ (b = false -> st1 = st /\ ok1 = true).
Proof.
  intros b st ok1 st1 H. destruct b.
  - apply flush_buf_spec in H. destruct H as (w & Hd & Hw & Hb).
    exists w. repeat split; auto; discriminate.
  - inversion H; subst. exists []. rewrite app_nil_r. repeat split; auto. discriminate.
Qed.

Lemma bw_write_all_ext : forall c d st ok st',
    bw_write_all c d st = (ok, st') -> ext d ok st st'.
Proof.
  intros c d st ok st' H. unfold bw_write_all in H.
  destruct (length d <? spare c st) eqn:Hfast.
  - inversion H; subst. apply push_ext.
  - destruct (if spare c st <? length d then flush_buf st else (true, st)) as [ok1 st1] eqn:Hpre.
    pose proof (preflush_spec _ _ _ _ Hpre) as (w1 & Hd1 & Hw1 & Hfl & Hnofl).
    destruct ok1; cbn [negb] in H.
    2:{ inversion H; subst. exists w1, (buf st' ++ d). repeat split.
        - exact Hd1.
        - rewrite app_assoc, Hw1. reflexivity.
        - discriminate. }
    destruct (c <=? length d) eqn:Hbig.
    + (* bypass *)
      destruct (drain (orc st1) (disk st1) d) as [[[ok0 dk] r2] o] eqn:Hdr.
      inversion H; subst ok0 st'. clear H. cbn [disk buf].
      assert (Hcase : buf st1 = [] \/ d = []).
      { destruct (spare c st <? length d) eqn:Hsp.
        - left. apply Hfl; reflexivity.
        - destruct (Hnofl eq_refl) as [-> _].
          apply Nat.ltb_ge in Hfast. apply Nat.ltb_ge in Hsp. apply Nat.leb_le in Hbig.
          unfold spare in *.
          destruct (buf st) as [|b0 bs]; [left; reflexivity|right].
          destruct d as [|x d]; [reflexivity|]. cbn [length] in *. lia. }
      destruct Hcase as [Hb | Hd0].
      * apply drain_spec in Hdr. destruct Hdr as (w2 & Hdk & Hw2 & Hr2).
        exists (w1 ++ w2), r2. repeat split.
        -- rewrite Hdk, Hd1, app_assoc. reflexivity.
        -- rewrite <- Hw1, Hb, app_nil_r, <- app_assoc, Hw2. reflexivity.
        -- intro Hok. rewrite Hb. symmetry. apply Hr2. exact Hok.
      * subst d. destruct (orc st1); cbn [drain] in Hdr; inversion Hdr; subst.
        -- exists w1, (buf st1). rewrite app_nil_r. auto.
        -- exists w1, (buf st1). rewrite app_nil_r. auto.
    + inversion H; subst. cbn [push disk buf].
      exists w1, (buf st1 ++ d). repeat split; auto.
      rewrite app_assoc, Hw1. reflexivity.
Qed.

(* BufWriter::write (a single, possibly short, write) *)
Lemma firstn_min : forall k (l : bytes), firstn (Nat.min k (length l)) l = firstn k l.
Proof.
  intros k l. destruct (Nat.le_ge_cases k (length l)) as [H|H].
  - rewrite Nat.min_l by exact H. reflexivity.
  - rewrite Nat.min_r by exact H. rewrite firstn_all, firstn_all2 by exact H. reflexivity.
Qed.

Lemma raw_write_spec : forall o dk d n dk' o',
    raw_write o dk d = (Some n, dk', o') -> n <= length d /\ dk' = dk ++ firstn n d.
Proof.
  intros o dk d n dk' o' H. unfold raw_write in H. destruct d as [|x d].
  - inversion H; subst. cbn. rewrite app_nil_r. auto.
  - destruct o as [|[k|] o].
    + inversion H; subst. split; [apply Nat.le_refl|]. f_equal. symmetry.
      exact (firstn_all (x :: d)).
    + inversion H; subst. split; [apply Nat.le_min_r|]. f_equal. symmetry.
      exact (firstn_min k (x :: d)).
    + discriminate.
Qed.

Lemma bw_write_spec : forall c d st r st',
    bw_write c d st = (r, st') ->
    match r with
    | Some n => n <= length d /\ ext (firstn n d) true st st'
    | None => ext [] false st st'
    end.
Proof.
  intros c d st r st' H. unfold bw_write in H.
  destruct (length d <? spare c st) eqn:Hfast.
  - inversion H; subst. rewrite firstn_all. split; [reflexivity|apply push_ext].
  - destruct (if spare c st <? length d then flush_buf st else (true, st)) as [ok1 st1] eqn:Hpre.
    pose proof (preflush_spec _ _ _ _ Hpre) as (w1 & Hd1 & Hw1 & Hfl & Hnofl).
    destruct ok1; cbn [negb] in H.
    2:{ inversion H; subst. exists w1, (buf st'). rewrite app_nil_r. repeat split; auto; discriminate. }
    destruct (c <=? length d) eqn:Hbig.
    + destruct (raw_write (orc st1) (disk st1) d) as [[r0 dk] o] eqn:Hrw.
      inversion H; subst r0 st'. clear H.
      assert (Hcase : buf st1 = [] \/ d = []).
      { destruct (spare c st <? length d) eqn:Hsp.
        - left. apply Hfl; reflexivity.
        - destruct (Hnofl eq_refl) as [-> _].
          apply Nat.ltb_ge in Hfast. apply Nat.ltb_ge in Hsp. apply Nat.leb_le in Hbig.
          unfold spare in *.
          destruct (buf st) as [|b0 bs]; [left; reflexivity|right].
          destruct d as [|x d]; [reflexivity|]. cbn [length] in *. lia. }
      destruct r as [n|].
      * apply raw_write_spec in Hrw. destruct Hrw as [Hn Hdk]. split; [exact Hn|].
        destruct Hcase as [Hb | Hd0].
        -- exists (w1 ++ firstn n d), []. cbn [disk buf]. repeat split.
           ++ rewrite Hdk, Hd1, app_assoc. reflexivity.
           ++ rewrite app_nil_r, <- Hw1, Hb, app_nil_r. reflexivity.
           ++ intros _. exact Hb.
        -- subst d. destruct n; [|cbn [length] in Hn; lia]. cbn [firstn] in *.
           rewrite app_nil_r in Hdk. exists w1, (buf st1). cbn [disk buf]. rewrite app_nil_r.
           repeat split; auto. rewrite Hdk. exact Hd1.
      * assert (Hdk : dk = disk st1).
        { unfold raw_write in Hrw. destruct d as [|x d]; [discriminate|].
          destruct (orc st1) as [|[k|] o1]; inversion Hrw; subst; reflexivity. }
        subst dk. exists w1, (buf st1). cbn [disk buf]. rewrite app_nil_r.
        repeat split; auto; discriminate.
    + inversion H; subst. rewrite firstn_all. split; [reflexivity|]. cbn [push disk buf].
      exists w1, (buf st1 ++ d). repeat split; auto. rewrite app_assoc, Hw1. reflexivity.
Qed.

Lemma act_res_ext : forall c a st ok st',
    act_res c a st = (ok, st') -> ext (act_bytes a) ok st st'.
Proof.
  intros c [d|] st ok st' H; cbn [act_res act_bytes] in *.
  - eapply bw_write_all_ext. exact H.
  - apply flush_ext. exact H.
Qed.

Lemma ext_trans : forall d1 d2 ok st st1 st2,
    ext d1 true st st1 -> ext d2 ok st1 st2 -> ext (d1 ++ d2) ok st st2.
Proof.
  intros d1 d2 ok st st1 st2 (w1 & r1 & Hd1 & Hw1 & Hb1) (w2 & r2 & Hd2 & Hw2 & Hb2).
  exists (w1 ++ w2), r2. repeat split.
  - rewrite Hd2, Hd1, app_assoc. reflexivity.
  - rewrite <- app_assoc, Hw2, (Hb1 eq_refl), app_assoc, Hw1, app_assoc. reflexivity.
  - exact Hb2.
Qed.

Lemma ext_weaken : forall d1 d2 st st', ext d1 false st st' -> ext (d1 ++ d2) false st st'.
Proof.
  intros d1 d2 st st' (w & r & Hd & Hw & _). exists w, (r ++ d2). repeat split.
  - exact Hd.
  - rewrite app_assoc, Hw, app_assoc. reflexivity.
  - discriminate.
Qed.

Lemma run_acts_ext : forall c l st ok st',
    run_acts c l st = (ok, st') -> ext (acts_bytes l) ok st st'.
Proof.
  induction l as [|a l IH]; intros st ok st' H; cbn [run_acts] in H.
  - inversion H; subst. exists [], (buf st'). unfold acts_bytes. cbn [map concat].
    rewrite !app_nil_r. auto.
  - destruct (act_res c a st) as [ok1 st1] eqn:Ha. apply act_res_ext in Ha.
    change (acts_bytes (a :: l)) with (act_bytes a ++ acts_bytes l).
    destruct ok1.
    + eapply ext_trans; [exact Ha|]. apply IH. exact H.
    + inversion H; subst. apply ext_weaken. exact Ha.
Qed.

Lemma ext_prefix : forall d ok st st',
    ext d ok st st' -> exists w, disk st' = disk st ++ w /\ prefix w (buf st ++ d).
Proof. intros d ok st st' (w & r & Hd & Hw & _). exists w. split; [exact Hd|]. exists r. exact Hw. Qed.

(* append = its micro-step program, stopped at the first error *)
Lemma run_acts_chunks : forall c cs l2 st,
    run_acts c (map Write cs ++ l2) st =
    match write_chunks c cs st with
    | Ok s1 => run_acts c l2 s1
    | Err s1 => (false, s1)
    end.
Proof.
  induction cs as [|x cs IH]; intros l2 st; cbn [map app run_acts write_chunks act_res].
  - reflexivity.
  - destruct (bw_write_all c x st) as [[|] st1]; [apply IH|reflexivity].
Qed.

Lemma append_run_acts : forall c st cs,
    append c st cs =
    match run_acts c (block_of cs) st with
    | (true, s) => Ok s
    | (false, s) => Err s
    end.
Proof.
  intros c st cs. unfold append, block_of. rewrite run_acts_chunks.
  destruct (write_chunks c cs st) as [s1|s1]; [|reflexivity].
  cbn [run_acts act_res]. destruct (bw_flush s1) as [[|] s2]; reflexivity.
Qed.

(* A record whose encoder fails half-way leaves (part of) its bytes pending; the next
   successful append puts its own record, whole and contiguous, right after them: on disk are
   the old content, the pending bytes of earlier calls, the failed record's bytes, the record. *)
Lemma write_chunks_ext : forall c cs st s1,
    write_chunks c cs st = Ok s1 -> ext (rec_bytes cs) true st s1.
Proof.
  intros c cs st s1 H.
  pose proof (run_acts_chunks c cs [] st) as R. rewrite H in R. cbn [run_acts] in R.
  rewrite app_nil_r in R. apply run_acts_ext in R.
  assert (E : acts_bytes (map Write cs) = rec_bytes cs).
  { unfold acts_bytes, rec_bytes. rewrite map_map. cbn [act_bytes]. rewrite map_id. reflexivity. }
  rewrite E in R. exact R.
Qed.

Lemma run_acts_flush_last : forall c l st st',
    run_acts c (l ++ [Flush]) st = (true, st') -> buf st' = [].
Proof.
  induction l as [|a l IH]; intros st st' H; cbn [app run_acts] in H.
  - cbn [act_res] in H. unfold bw_flush in H. destruct (flush_buf st) as [[|] s1] eqn:Hf.
    + inversion H; subst. apply flush_buf_spec in Hf. destruct Hf as (_ & _ & _ & Hb). auto.
    + discriminate.
  - destruct (act_res c a st) as [[|] s1]; [eapply IH; exact H|discriminate].
Qed.

(* ---- headline 1: a successful append puts the whole record on disk ---- *)
Lemma append_flushes_whole_record : forall c st cs st',
    append c st cs = Ok st' ->
    disk st' = disk st ++ buf st ++ rec_bytes cs /\ buf st' = [].
Proof.
  intros c st cs st' H. rewrite append_run_acts in H.
  destruct (run_acts c (block_of cs) st) as [[|] s] eqn:Hr; inversion H; subst s. clear H.
  pose proof (run_acts_flush_last _ _ _ _ Hr) as Hb.
  apply run_acts_ext in Hr. rewrite acts_bytes_block in Hr.
  destruct Hr as (w & r & Hd & Hw & Hbr). split; [|exact Hb].
  rewrite (Hbr eq_refl) in Hb. subst r. rewrite app_nil_r in Hw. subst w. exact Hd.
Qed.

(* ---- headline 2: at every point inside a call the disk is old ++ prefix ---- *)
Theorem failed_encode_then_append : forall c st cs r s1 st2,
    write_chunks c cs st = Ok s1 ->
    append_enc_fails c st cs = Err s1 /\
    (append c s1 r = Ok st2 ->
     disk st2 = disk st ++ buf st ++ rec_bytes cs ++ rec_bytes r /\ buf st2 = []).
Proof.
  intros c st cs r s1 st2 H. split; [unfold append_enc_fails; rewrite H; reflexivity|].
  intros Ha. destruct (write_chunks_ext c cs st s1 H) as (w & r' & Hd & Hw & Hb).
  destruct (append_flushes_whole_record c s1 r st2 Ha) as [D B]. split; [|exact B].
  rewrite D, Hd, (Hb eq_refl), <- !app_assoc. f_equal.
  rewrite app_assoc, Hw, <- app_assoc. reflexivity.
Qed.

Lemma prefix_at_all_times : forall c st cs j ok st',
    run_acts c (firstn j (block_of cs)) st = (ok, st') ->
    exists p, disk st' = disk st ++ p /\ prefix p (buf st ++ rec_bytes cs).
Proof.
  intros c st cs j ok st' H. apply run_acts_ext, ext_prefix in H.
  destruct H as (w & Hd & (r & Hw)). exists w. split; [exact Hd|].
  exists (r ++ acts_bytes (skipn j (block_of cs))).
  rewrite app_assoc, Hw, <- app_assoc, <- acts_bytes_app, firstn_skipn, acts_bytes_block.
  reflexivity.
Qed.

Lemma append_any_prefix : forall c st cs,
    exists p, disk (res_state (append c st cs)) = disk st ++ p /\ prefix p (buf st ++ rec_bytes cs).
Proof.
  intros c st cs. rewrite append_run_acts.
  destruct (run_acts c (block_of cs) st) as [ok s] eqn:Hr.
  assert (Hs : res_state (if ok then Ok s else Err s) = s) by (destruct ok; reflexivity).
  replace (match ok with true => Ok s | false => Err s end) with (if ok then Ok s else Err s)
    by (destruct ok; reflexivity).
  rewrite Hs. apply run_acts_ext, ext_prefix in Hr. rewrite acts_bytes_block in Hr. exact Hr.
Qed.

(* ---------------- no OS error => no append error ---------------- *)

Lemma flush_buf_ok : forall st,
    orc_ok (orc st) = true ->
    exists o', flush_buf st = (true, mkF (disk st ++ buf st) [] o') /\ orc_ok o' = true.
Proof.
  intros st H. unfold flush_buf.
  destruct (drain_ok (orc st) (disk st) (buf st) H) as (o' & Hd & Ho'). rewrite Hd. eauto.
Qed.

Lemma bw_write_all_ok : forall c d st,
    orc_ok (orc st) = true ->
    exists st', bw_write_all c d st = (true, st') /\ orc_ok (orc st') = true.
Proof.
  intros c d st H. unfold bw_write_all.
  destruct (length d <? spare c st); [eexists; split; [reflexivity|exact H]|].
  assert (Hpre : exists st1, (if spare c st <? length d then flush_buf st else (true, st)) = (true, st1)
                             /\ orc_ok (orc st1) = true).
  { destruct (spare c st <? length d).
    - destruct (flush_buf_ok st H) as (o' & Hf & Ho'). rewrite Hf. eexists; split; [reflexivity|exact Ho'].
    - eexists; split; [reflexivity|exact H]. }
  destruct Hpre as (st1 & -> & H1). cbn [negb].
  destruct (c <=? length d).
  - destruct (drain_ok (orc st1) (disk st1) d H1) as (o' & Hd & Ho'). rewrite Hd.
    eexists; split; [reflexivity|exact Ho'].
  - eexists; split; [reflexivity|exact H1].
Qed.

Lemma act_res_ok : forall c a st,
    orc_ok (orc st) = true ->
    exists st', act_res c a st = (true, st') /\ orc_ok (orc st') = true.
Proof.
  intros c [d|] st H; cbn [act_res].
  - apply bw_write_all_ok. exact H.
  - unfold bw_flush. destruct (flush_buf_ok st H) as (o' & Hf & Ho'). rewrite Hf. eauto.
Qed.

Lemma run_acts_ok : forall c l st,
    orc_ok (orc st) = true ->
    run_acts c l st = (true, exec_acts fstate act (fstep c) l st) /\
    orc_ok (orc (exec_acts fstate act (fstep c) l st)) = true.
Proof.
  induction l as [|a l IH]; intros st H; cbn [run_acts].
  - split; [reflexivity|exact H].
  - destruct (act_res_ok c a st H) as (st1 & Ha & H1). rewrite Ha.
    unfold exec_acts. cbn [fold_left]. unfold fstep at 2 4. rewrite Ha. cbn [snd].
    apply IH. exact H1.
Qed.

(* sequential execution of one critical section *)
Lemma exec_block : forall c r s,
    orc_ok (orc s) = true -> buf s = [] ->
    let s' := exec_acts fstate act (fstep c) (block_of r) s in
    disk s' = disk s ++ rec_bytes r /\ buf s' = [] /\ orc_ok (orc s') = true.
Proof.
  intros c r s Hok Hb s'. destruct (run_acts_ok c (block_of r) s Hok) as [Hr Hok'].
  fold s' in Hr, Hok'.
  assert (Ha : append c s r = Ok s') by (rewrite append_run_acts, Hr; reflexivity).
  apply append_flushes_whole_record in Ha. rewrite Hb in Ha. cbn [app] in Ha.
  destruct Ha as [Hd Hb']. auto.
Qed.

Lemma exec_blocks_records : forall c rs s,
    orc_ok (orc s) = true -> buf s = [] ->
    let s' := exec_blocks fstate act (fstep c) (map block_of rs) s in
    disk s' = disk s ++ concat (map rec_bytes rs) /\ buf s' = [] /\ orc_ok (orc s') = true.
Proof.
  induction rs as [|r rs IH]; intros s Hok Hb; cbn [map concat].
  - cbn. rewrite app_nil_r. auto.
  - unfold exec_blocks. cbn [fold_left].
    destruct (exec_block c r s Hok Hb) as (Hd & Hb1 & Hok1).
    specialize (IH _ Hok1 Hb1). cbv zeta in IH. unfold exec_blocks in IH.
    destruct IH as (Hd2 & Hb2 & Hok2). cbv zeta. rewrite Hd2, Hd, <- app_assoc. auto.
Qed.

Lemma append_ok : forall c st cs,
    orc_ok (orc st) = true ->
    exists st', append c st cs = Ok st' /\ orc_ok (orc st') = true.
Proof.
  intros c st cs H. destruct (run_acts_ok c (block_of cs) st H) as [Hr Hok'].
  eexists. rewrite append_run_acts, Hr. split; [reflexivity|exact Hok'].
Qed.

(* a sequential history of appends: what fs::read shows after every call *)
Lemma appends_history : forall c rs st,
    orc_ok (orc st) = true -> buf st = [] ->
    disk (appends c st rs) = disk st ++ concat (map rec_bytes rs) /\ buf (appends c st rs) = [].
Proof.
  induction rs as [|r rs IH]; intros st Hok Hb; cbn [appends map concat].
  - rewrite app_nil_r. auto.
  - destruct (append_ok c st r Hok) as (st1 & Ha & Hok1). rewrite Ha. cbn [res_state].
    apply append_flushes_whole_record in Ha. destruct Ha as [Hd Hb1].
    rewrite Hb in Hd. cbn [app] in Hd.
    destruct (IH st1 Hok1 Hb1) as [Hd2 Hb2]. rewrite Hd2, Hd, <- app_assoc. auto.
Qed.

(* the same history, one call at a time (snapshots after every call) *)
Lemma appends_snoc : forall c rs r st,
    appends c st (rs ++ [r]) = res_state (append c (appends c st rs) r).
Proof. induction rs as [|x rs IH]; intros r st; cbn [appends app]; [reflexivity|apply IH]. Qed.

(* the buffer capacity does not influence what ends up in the file *)
Lemma capacity_irrelevant : forall c1 c2 rs st,
    orc_ok (orc st) = true -> buf st = [] ->
    disk (appends c1 st rs) = disk (appends c2 st rs).
Proof.
  intros c1 c2 rs st Hok Hb.
  destruct (appends_history c1 rs st Hok Hb) as [-> _].
  destruct (appends_history c2 rs st Hok Hb) as [-> _]. reflexivity.
Qed.

Lemma open_modes_aux : forall content o,
    fa_open true (Some content) o = Some (mkF content [] o).
Proof. reflexivity. Qed.

(* ---------------- several O_APPEND writers on one file ---------------- *)

Definition hop_bytes (op : hop) : bytes :=
  match op with
  | HAppend _ cs => rec_bytes cs
  | HExternal d => d
  | HBuild _ => []
  end.

Lemma hop_step_spec : forall c m op,
    orc_ok (morc m) = true -> (forall h, mbufs m h = []) ->
    let m' := hop_step c m op in
    mdisk m' = mdisk m ++ hop_bytes op /\ orc_ok (morc m') = true /\ (forall h, mbufs m' h = []).
Proof.
  intros c m [h cs|d|h] Hok Hb; cbn [hop_step hop_bytes].
  - destruct (append_ok c (mkF (mdisk m) (mbufs m h) (morc m)) cs Hok) as (s & Ha & Hok').
    rewrite Ha. cbn [res_state mdisk mbufs morc].
    apply append_flushes_whole_record in Ha. cbn [disk buf] in Ha. rewrite Hb in Ha.
    destruct Ha as [Hd Hbs]. repeat split; auto.
    intro j. unfold set_buf. destruct (Nat.eqb j h); auto.
  - cbn [mdisk mbufs morc]. auto.
  - unfold bw_flush.
    destruct (flush_buf_ok (mkF (mdisk m) (mbufs m h) (morc m)) Hok) as (o' & Hf & Ho').
    rewrite Hf. cbn [snd disk buf orc]. rewrite open_modes_aux. cbn [mdisk mbufs morc disk buf orc].
    rewrite Hb, !app_nil_r. repeat split; auto.
    intro j. unfold set_buf. destruct (Nat.eqb j h); auto.
Qed.

(* the file is always everything written so far, in call order, whichever
   handle (or external writer) wrote it *)
Lemma shared_file_history : forall c ops m,
    orc_ok (morc m) = true -> (forall h, mbufs m h = []) ->
    mdisk (hops c m ops) = mdisk m ++ concat (map hop_bytes ops)
    /\ (forall h, mbufs (hops c m ops) h = []).
Proof.
  induction ops as [|op ops IH]; intros m Hok Hb; unfold hops; cbn [fold_left map concat].
  - rewrite app_nil_r. auto.
  - destruct (hop_step_spec c m op Hok Hb) as (Hd & Hok' & Hb').
    destruct (IH _ Hok' Hb') as [Hd2 Hb2]. unfold hops in Hd2, Hb2.
    rewrite Hd2, Hd, <- app_assoc. auto.
Qed.

(* ---------------- open modes ---------------- *)

Lemma open_modes : forall a pre o,
    fa_open a pre o = Some (mkF (open_content a pre) [] o).
Proof. intros [|] [p|] o; reflexivity. Qed.

(* after open nothing is ever discarded: any call, failing or not, only appends *)
Lemma disk_only_grows : forall c rs st, exists p, disk (appends c st rs) = disk st ++ p.
Proof.
  induction rs as [|r rs IH]; intros st; cbn [appends].
  - exists []. rewrite app_nil_r. reflexivity.
  - destruct (append_any_prefix c st r) as (p1 & Hp1 & _).
    destruct (IH (res_state (append c st r))) as (p2 & Hp2).
    exists (p1 ++ p2). rewrite Hp2, Hp1, app_assoc. reflexivity.
Qed.

(* ---------------- concurrency ---------------- *)

Definition unblock (b : list act) : record :=
  flat_map (fun a => match a with Write d => [d] | Flush => [] end) b.

Lemma unblock_block : forall r, unblock (block_of r) = r.
Proof.
  intro r. unfold unblock, block_of. rewrite flat_map_app. cbn [flat_map app]. rewrite app_nil_r.
  induction r as [|x r IH]; cbn [map flat_map app]; [reflexivity|]. rewrite IH. reflexivity.
Qed.

Lemma in_thread_prog_block : forall recs t b,
    In b (thread_progs recs t) -> block_of (unblock b) = b.
Proof.
  intros recs t b H. unfold thread_progs in H. apply in_map_iff in H.
  destruct H as (r & <- & _). rewrite unblock_block. reflexivity.
Qed.

Definition tag_unblock (d : nat * list act) : nat * record := (fst d, unblock (snd d)).

Lemma filter_tag_unblock : forall i done,
    map snd (filter (fun d : nat * record => Nat.eqb (fst d) i) (map tag_unblock done)) =
    map unblock (proj i done).
Proof.
  intros i done. unfold proj. induction done as [|[t b] done IH]; cbn [map filter tag_unblock fst snd].
  - reflexivity.
  - destruct (Nat.eqb t i); cbn [map snd]; rewrite IH; reflexivity.
Qed.

Lemma done_blocks : forall recs (done : list (nat * list act)) rem,
    (forall i, proj i done ++ rem i = thread_progs recs i) ->
    map snd done = map block_of (map (fun d => snd (tag_unblock d)) done).
Proof.
  intros recs done rem H.
  assert (Hall : forall t b, In (t, b) done -> block_of (unblock b) = b).
  { intros t b Hin. eapply in_thread_prog_block.
    eapply (in_done_in_prog act (thread_progs recs)); eauto. }
  clear H. induction done as [|[t b] done IH]; cbn [map snd tag_unblock fst]; [reflexivity|].
  rewrite (Hall t b) by (left; reflexivity). f_equal.
  apply IH. intros t' b' Hin. apply (Hall t' b'). right. exact Hin.
Qed.

Section Concurrent.
  Variable c : nat.
  Variable a : bool.
  Variable pre : option bytes.
  Variable o : list resp.
  Variable recs : nat -> list record.
  Variable sched : list nat.
  Hypothesis Hok : orc_ok o = true.
  Variable s0 : fstate.
  Hypothesis Hopen : fa_open a pre o = Some s0.

  Let st := run fstate act (fstep c) sched (init s0 (thread_progs recs)).

  Lemma s0_facts : disk s0 = open_content a pre /\ buf s0 = [] /\ orc_ok (orc s0) = true.
  Proof.
    rewrite open_modes in Hopen. inversion Hopen; subst s0. cbn [disk buf orc]. auto.
  Qed.

  (* ---- headline 3: the file is a concatenation of whole records ---- *)
  Lemma file_is_concat_of_records :
    lock st = None ->
    exists done : list (nat * record),
      disk (sh st) = open_content a pre ++ concat (map (fun d => rec_bytes (snd d)) done)
      /\ buf (sh st) = []
      /\ map fst done = acq st
      /\ forall i, exists k,
          map snd (filter (fun d => Nat.eqb (fst d) i) done) = firstn k (recs i)
          /\ thr st i = compile (map block_of (skipn k (recs i))).
  Proof.
    intro Hfree.
    destruct (atomic_block_reduction fstate act (fstep c) (thread_progs recs) s0 sched)
      as (done & rem & Hproj & Hst).
    fold st in Hst. rewrite Hfree in Hst. destruct Hst as (Hacq & Hsh & Hthr).
    destruct s0_facts as (Hd0 & Hb0 & Hok0).
    exists (map tag_unblock done).
    unfold block in Hsh. rewrite (done_blocks recs done rem Hproj) in Hsh.
    destruct (exec_blocks_records c (map (fun d => snd (tag_unblock d)) done) s0 Hok0 Hb0)
      as (Hd & Hb & _).
    rewrite <- Hsh in Hd, Hb.
    split; [|split; [exact Hb|split]].
    - rewrite Hd, Hd0, !map_map. reflexivity.
    - rewrite Hacq, map_map. reflexivity.
    - intro i.
      destruct (proj_prefix act (thread_progs recs) done (rem i) i (Hproj i)) as [Hp Hr].
      set (k := length (proj i done)) in *. exists k.
      split.
      + rewrite filter_tag_unblock, Hp. unfold thread_progs.
        rewrite firstn_map', map_map.
        erewrite map_ext; [apply map_id|]. intro r. apply unblock_block.
      + rewrite Hthr, Hr. unfold thread_progs. rewrite skipn_map'. reflexivity.
  Qed.

  (* ---- while a thread is inside its call: whole records ++ prefix of its record ---- *)
  Lemma reader_sees_whole_records_and_prefix : forall t,
    lock st = Some t ->
    exists (done : list (nat * record)) (cur : record) (p : bytes),
      disk (sh st) = open_content a pre ++ concat (map (fun d => rec_bytes (snd d)) done) ++ p
      /\ prefix p (rec_bytes cur)
      /\ nth_error (recs t) (length (filter (fun d => Nat.eqb (fst d) t) done)) = Some cur
      /\ map fst done ++ [t] = acq st
      /\ forall i, exists k,
          map snd (filter (fun d => Nat.eqb (fst d) i) done) = firstn k (recs i).
  Proof.
    intros t Hheld.
    destruct (atomic_block_reduction fstate act (fstep c) (thread_progs recs) s0 sched)
      as (done & rem & Hproj & Hst).
    fold st in Hst. rewrite Hheld in Hst.
    destruct Hst as (Hacq & pre0 & post & rest & Hrem & _ & Hsh & _).
    destruct s0_facts as (Hd0 & Hb0 & Hok0).
    unfold block in Hsh. rewrite (done_blocks recs done rem Hproj) in Hsh.
    destruct (exec_blocks_records c (map (fun d => snd (tag_unblock d)) done) s0 Hok0 Hb0)
      as (Hd & Hb & Hok1).
    set (s1 := exec_blocks fstate act (fstep c)
                 (map block_of (map (fun d => snd (tag_unblock d)) done)) s0) in *.
    destruct (run_acts_ok c pre0 s1 Hok1) as [Hr _]. rewrite <- Hsh in Hr.
    apply run_acts_ext, ext_prefix in Hr. destruct Hr as (w & Hw & (r & Hpw)).
    rewrite Hb in Hpw. cbn [app] in Hpw.
    destruct (proj_prefix act (thread_progs recs) done (rem t) t (Hproj t)) as [Hp Hr].
    (* the current block is block_of of the next record of t *)
    assert (Hcur : exists cur, nth_error (recs t) (length (proj t done)) = Some cur
                               /\ pre0 ++ post = block_of cur).
    { rewrite Hrem in Hr. unfold thread_progs in Hr. rewrite skipn_map' in Hr.
      destruct (skipn (length (proj t done)) (recs t)) as [|cur more] eqn:Hsk; [discriminate|].
      cbn [map] in Hr. injection Hr as Hblk _. exists cur. split; [|exact Hblk].
      rewrite <- (firstn_skipn (length (proj t done)) (recs t)), Hsk.
      assert (Hlen : length (firstn (length (proj t done)) (recs t)) = length (proj t done)).
      { rewrite Hp at 2. unfold thread_progs. rewrite firstn_map', map_length. reflexivity. }
      rewrite nth_error_app2 by lia. rewrite Hlen, Nat.sub_diag. reflexivity. }
    destruct Hcur as (cur & Hnth & Hblk).
    exists (map tag_unblock done), cur, w.
    split; [|split; [|split; [|split]]].
    - rewrite Hw, Hd, Hd0, !map_map, <- app_assoc. reflexivity.
    - exists (r ++ acts_bytes post). rewrite app_assoc, Hpw, <- acts_bytes_app, Hblk.
      apply acts_bytes_block.
    - replace (length (filter (fun d : nat * record => Nat.eqb (fst d) t) (map tag_unblock done)))
        with (length (proj t done)); [exact Hnth|].
      rewrite <- (map_length snd (filter _ (map tag_unblock done))), filter_tag_unblock, map_length.
      reflexivity.
    - rewrite Hacq, map_map. reflexivity.
    - intro i.
      destruct (proj_prefix act (thread_progs recs) done (rem i) i (Hproj i)) as [Hpi _].
      set (k := length (proj i done)) in *. exists k.
      rewrite filter_tag_unblock, Hpi. unfold thread_progs.
      rewrite firstn_map', map_map.
      erewrite map_ext; [apply map_id|]. intro r0. apply unblock_block.
  Qed.
End Concurrent.
