(* C19 — analysis of the PRE-FIX algorithm `old_expand` (what expand_env_vars did before commit
   cc9466f: sequential replace-all on the progressively rewritten output).  NOT the current
   code; kept as the record of known finding F-C19-forged-ref (status fixed):
   * old_expand_refuted: the witness on which the old code departs from the one-pass meaning;
   * old_expand_is_one_pass: the old code was right exactly outside the forged-reference class
     (values '$'-free and NoForgedRef). *)
From Coq Require Import List NArith Bool Lia PeanoNat.
Import ListNotations.
From L4 Require Import Common.Str Model.EnvExpand Proofs.EnvExpandSpec Proofs.EnvExpand.
Local Open Scope N_scope.

Definition values_dollar_free (env : ustr -> option ustr) : Prop :=
  forall n v, env n = Some v -> ~ In 36 v.

Lemma lookup_dollar_free tbl :
  forallb (fun kv => negb (existsb (N.eqb 36) (snd kv))) tbl = true -> values_dollar_free (lookup tbl).
Proof.
  induction tbl as [|[k v] r IH]; cbn; intros H n w E; [discriminate|].
  apply andb_true_iff in H. destruct H as [H1 H2].
  destruct (str_eqb n k).
  - injection E as <-. intros Hin. apply negb_true_iff in H1.
    assert (existsb (N.eqb 36) v = true) by (apply existsb_exists; exists 36; split; [exact Hin|apply N.eqb_refl]).
    congruence.
  - exact (IH H2 n w E).
Qed.

(* A = "ENV{B}", B = "vb", path "x$$ENV{A}-$ENV{B}" *)
Definition wit_tbl : list (ustr * ustr) := [([65], [69;78;86;123;66;125]); ([66], [118;98])].
Definition wit_path : ustr := [120;36;36;69;78;86;123;65;125;45;36;69;78;86;123;66;125].

Theorem old_expand_refuted :
  exists ua env p,
    values_dollar_free env /\
    old_expand ua env p = Ok [120;118;98;45;118;98] /\                  (* "xvb-vb" *)
    expand_spec ua env p = [120;36;69;78;86;123;66;125;45;118;98] /\    (* "x$ENV{B}-vb" *)
    NoForgedRef ua env p = false.
Proof.
  exists (fun _ => false), (lookup wit_tbl), wit_path.
  split; [apply lookup_dollar_free; vm_compute; reflexivity|].
  vm_compute. repeat split; reflexivity.
Qed.

Section Old.
  Variable uni_alnum : chr -> bool.
  Variable env : ustr -> option ustr.

  Notation is_start := (is_env_var_start uni_alnum).
  Notation is_part := (is_env_var_part uni_alnum).
  Notation ref_at := (ref_at uni_alnum).
  Notation segments := (segments uni_alnum).
  Notation name_loop := (name_loop uni_alnum).
  Notation valid_name := (valid_name uni_alnum).
  Notation valid_name_some := (valid_name_some uni_alnum).
  Notation valid_name_none := (valid_name_none uni_alnum).
  Notation part_not_dollar := (part_not_dollar uni_alnum).
  Notation ref_at_some := (ref_at_some uni_alnum).
  Notation ref_at_not_prefix := (ref_at_not_prefix uni_alnum).
  Notation ref_at_shorter := (ref_at_shorter uni_alnum).
  Notation segments_cons := (segments_cons uni_alnum).
  Notation segments_lit := (segments_lit uni_alnum).

  (* ================= the loop of expand, segment by segment ================= *)

  Notation step := (old_step uni_alnum env).

  Lemma step_eq path out ms :
    step path (Ok out) ms =
    match bdrop path (ms + env_prefix_len) with
    | None => Panic
    | Some tail =>
      match valid_name tail with
      | None => Ok out
      | Some name =>
        match env name with
        | None => Ok out
        | Some v =>
          match bslice path ms (ms + env_prefix_len + blen name + 1) with
          | None => Panic
          | Some needle => Ok (replace_all out needle v)
          end
        end
      end
    end.
  Proof.
    unfold EnvExpand.old_step, EnvExpand.valid_name. destruct (bdrop path (ms + env_prefix_len)) as [tail|]; [|reflexivity].
    destruct tail as [|ch cs]; [reflexivity|]. destruct (is_start ch); [|reflexivity].
    destruct (name_loop cs); reflexivity.
  Qed.

  (* what one processed segment does to the output *)
  Definition seg_step (out : ustr) (sg : seg) : ustr :=
    match sg with
    | Ref n => match env n with Some v => replace_all out (raw n) v | None => out end
    | Lit _ => out
    end.
  Definition run_segs (sgs : list seg) (out : ustr) : ustr := fold_left seg_step sgs out.

  Lemma old_scan_segments k : forall s, (length s <= k)%nat -> forall pre out,
    fold_left (step (pre ++ s)) (match_indices_from env_prefix s (blen pre) 0) (Ok out)
    = Ok (run_segs (segments s) out).
  Proof.
    induction k as [|k IH]; intros s Hl pre out.
    { destruct s; [reflexivity|cbn in Hl; lia]. }
    destruct s as [|c r]; [reflexivity|].
    destruct (starts_with env_prefix (c :: r)) eqn:Hw.
    - (* an occurrence of "$ENV{" *)
      destruct (starts_with_split _ _ Hw) as (t & Es). rewrite Es.
      assert (Hlt : (length t <= k)%nat).
      { apply (f_equal (@length _)) in Es. rewrite app_length in Es. cbn in Es, Hl. lia. }
      rewrite mi_hit by discriminate. cbn [fold_left]. rewrite step_eq.
      assert (Hbd : bdrop (pre ++ env_prefix ++ t) (blen pre + env_prefix_len) = Some t).
      { rewrite app_assoc, <- blen_prefix, <- blen_app. apply bdrop_app. }
      rewrite Hbd.
      destruct (valid_name t) as [name|] eqn:Ev.
      + (* well-formed reference *)
        destruct (valid_name_some _ _ Ev) as (rest & Et & Er & Hp).
        assert (Hdf : dollar_free (name ++ [env_suffix])).
        { apply Forall_app. split.
          - eapply Forall_impl; [|exact Hp]. intros a Ha. now apply part_not_dollar.
          - constructor; [discriminate|constructor]. }
        assert (Hrest : (length rest <= k)%nat).
        { rewrite Et, app_length in Hlt. cbn in Hlt. lia. }
        assert (Hsg : segments (env_prefix ++ t) = Ref name :: segments rest).
        { change (env_prefix ++ t) with (36 :: ([69;78;86;123] ++ t)). rewrite segments_cons.
          change (36 :: ([69;78;86;123] ++ t)) with (env_prefix ++ t). now rewrite Er. }
        rewrite Hsg. unfold run_segs. cbn [fold_left seg_step].
        assert (Hmi : match_indices_from env_prefix t (blen pre + blen env_prefix) 0
                      = match_indices_from env_prefix rest (blen (pre ++ raw name)) 0).
        { rewrite Et. change (name ++ env_suffix :: rest) with (name ++ [env_suffix] ++ rest).
          rewrite app_assoc. unfold env_prefix at 1 3.
          rewrite (mi_no_dollar _ _ _ _ Hdf). f_equal.
          rewrite !blen_app, blen_raw. change (blen [env_suffix]) with 1. rewrite blen_prefix. unfold env_prefix_len. lia. }
        assert (Hpath : pre ++ env_prefix ++ t = (pre ++ raw name) ++ rest).
        { rewrite Et. unfold raw. rewrite <- !app_assoc. reflexivity. }
        destruct (env name) as [v|] eqn:Ee.
        * assert (Hsl : bslice (pre ++ env_prefix ++ t) (blen pre)
                               (blen pre + env_prefix_len + blen name + 1) = Some (raw name)).
          { replace (pre ++ env_prefix ++ t) with (pre ++ raw name ++ rest)
              by (rewrite Hpath; now rewrite <- app_assoc).
            replace (blen pre + env_prefix_len + blen name + 1) with (blen pre + blen (raw name))
              by (rewrite blen_raw; unfold env_prefix_len; lia).
            apply bslice_app. }
          rewrite Hsl, Hmi, Hpath. apply IH. exact Hrest.
        * rewrite Hmi, Hpath. apply IH. exact Hrest.
      + (* malformed: "$ENV{" stays literal, scanning resumes after it *)
        pose proof (valid_name_none _ Ev) as Er.
        assert (Hsg : run_segs (segments (env_prefix ++ t)) out = run_segs (segments t) out).
        { change (env_prefix ++ t) with (36 :: ([69;78;86;123] ++ t)). rewrite segments_cons.
          change (36 :: ([69;78;86;123] ++ t)) with (env_prefix ++ t). rewrite Er.
          cbn [app]. rewrite !segments_lit by discriminate. reflexivity. }
        rewrite Hsg, app_assoc, <- blen_app. apply IH. exact Hlt.
    - (* no occurrence here *)
      rewrite mi_miss by exact Hw. rewrite segments_cons, (ref_at_not_prefix _ Hw).
      unfold run_segs. cbn [fold_left seg_step].
      replace (pre ++ c :: r) with ((pre ++ [c]) ++ r) by now rewrite <- app_assoc.
      replace (blen pre + len_utf8 c) with (blen (pre ++ [c])) by (rewrite blen_app; cbn; lia).
      apply IH. cbn in Hl. lia.
  Qed.

  (* the whole function is the fold of the per-segment steps: in particular every byte
     offset it slices at is a character boundary *)
  Theorem old_expand_as_segments p :
    old_expand uni_alnum env p = Ok (run_segs (segments p) p).
  Proof.
    unfold old_expand, match_indices. exact (old_scan_segments (length p) p (le_n _) [] p).
  Qed.

  Theorem old_expand_total p : old_expand uni_alnum env p <> Panic.
  Proof. rewrite old_expand_as_segments. discriminate. Qed.

  (* ================= segments partition the path ================= *)

  Notation sem_d := (sem_d env).
  Notation sem := (sem env).
  Notation out_d := (out_d env).
  Notation clean := (clean env).
  Notation active := (active env).
  Notation no_forged := (no_forged env).

  Definition seg_ok (sg : seg) : Prop :=
    match sg with Ref n => dollar_free n | Lit _ => True end.

  Lemma old_segments_facts k : forall s, (length s <= k)%nat ->
    out_d [] (segments s) = s /\ Forall seg_ok (segments s).
  Proof.
    induction k as [|k IH]; intros s Hl.
    { destruct s; [split; [reflexivity|constructor]|cbn in Hl; lia]. }
    destruct s as [|c r]; [split; [reflexivity|constructor]|].
    rewrite segments_cons. destruct (ref_at (c :: r)) as [[n rest]|] eqn:E.
    - pose proof (ref_at_shorter _ _ _ E) as Hs. destruct (ref_at_some _ _ _ E) as (Hr & Hp).
      destruct (IH rest) as (H1 & H2); [cbn in Hl, Hs; lia|]. split.
      + unfold EnvExpandSpec.out_d in *. cbn [map concat EnvExpandSpec.sem_d mem existsb].
        rewrite H1, Hr. destruct (env n); reflexivity.
      + constructor; [|exact H2]. cbn. eapply Forall_impl; [|exact Hp].
        intros a Ha. now apply part_not_dollar.
    - destruct (IH r) as (H1 & H2); [cbn in Hl; lia|]. split.
      + unfold EnvExpandSpec.out_d in *. cbn [map concat EnvExpandSpec.sem_d app]. now rewrite H1.
      + constructor; [exact I|exact H2].
  Qed.

  (* all other text is left unchanged: the unsubstituted segments spell the path *)
  Lemma old_segments_print s : out_d [] (segments s) = s.
  Proof. exact (proj1 (old_segments_facts (length s) s (le_n _))). Qed.

  Lemma old_segments_ok s : Forall seg_ok (segments s).
  Proof. exact (proj2 (old_segments_facts (length s) s (le_n _))). Qed.

  (* ================= one substitution step on a clean path ================= *)

  Lemma raw_cons n : raw n = 36 :: ([69;78;86;123] ++ n ++ [env_suffix]).
  Proof. reflexivity. Qed.

  Lemma raw_tail_dollar_free n : dollar_free n -> dollar_free ([69;78;86;123] ++ n ++ [env_suffix]).
  Proof.
    intros H. apply Forall_app. split; [repeat constructor; discriminate|].
    apply Forall_app. split; [exact H|repeat constructor; discriminate].
  Qed.

  Lemma out_d_cons done sg r : out_d done (sg :: r) = sem_d done sg ++ out_d done r.
  Proof. reflexivity. Qed.

  Lemma mem_cons x y l : mem x (y :: l) = str_eqb x y || mem x l.
  Proof. reflexivity. Qed.

  Hypothesis Hvals : values_dollar_free env.

  Lemma value_dollar_free n v : env n = Some v -> dollar_free v.
  Proof.
    intros E. apply Forall_forall. intros c Hc ->. exact (Hvals n v E Hc).
  Qed.

  Lemma repl_raw_miss n v m rest :
    dollar_free m -> starts_with (raw n) (raw m ++ rest) = false ->
    replace_from (raw n) v (raw m ++ rest) 0 = raw m ++ replace_from (raw n) v rest 0.
  Proof.
    intros Hm H.
    change (raw m ++ rest) with (36 :: (([69;78;86;123] ++ m ++ [env_suffix]) ++ rest)) in *.
    change (raw m ++ replace_from (raw n) v rest 0)
      with (36 :: (([69;78;86;123] ++ m ++ [env_suffix]) ++ replace_from (raw n) v rest 0)).
    rewrite repl_miss by exact H. f_equal. rewrite raw_cons. apply repl_no_dollar.
    apply raw_tail_dollar_free. exact Hm.
  Qed.

  Lemma clean_step done n v sgs :
    env n = Some v -> Forall seg_ok sgs -> clean done n sgs = true ->
    replace_from (raw n) v (out_d done sgs) 0 = out_d (n :: done) sgs.
  Proof.
    intros En Hok. induction Hok as [|sg r Hsg _ IH]; intros Hc; [reflexivity|].
    cbn [EnvExpandSpec.clean] in Hc. apply andb_true_iff in Hc. destruct Hc as [Hhere Hr].
    specialize (IH Hr). rewrite !out_d_cons. rewrite out_d_cons in Hhere.
    destruct sg as [c|m]; cbn [EnvExpandSpec.sem_d EnvExpandSpec.genuine] in *.
    - (* literal character *)
      cbn [orb app] in Hhere. apply negb_true_iff in Hhere.
      cbn [app]. rewrite repl_miss by exact Hhere. f_equal. exact IH.
    - destruct (env m) as [vm|] eqn:Em.
      + rewrite mem_cons. destruct (mem m done) eqn:Hmd.
        * (* already substituted: '$'-free text *)
          rewrite orb_true_r, raw_cons, repl_no_dollar by (apply (value_dollar_free m); exact Em).
          rewrite <- raw_cons. f_equal. exact IH.
        * rewrite orb_false_r. destruct (str_eqb_spec m n) as [->|Hne].
          -- (* the reference being processed (first time: n not yet done) *)
             rewrite Em in En. injection En as ->.
             rewrite repl_hit by discriminate. f_equal. exact IH.
          -- (* an unsubstituted reference to another variable *)
             cbn [andb orb] in Hhere. apply negb_true_iff in Hhere.
             rewrite repl_raw_miss by assumption. f_equal. exact IH.
      + (* reference to an unset variable *)
        assert (Hg : str_eqb m n && negb (mem n done) = false).
        { destruct (str_eqb_spec m n) as [->|]; [congruence|reflexivity]. }
        rewrite Hg in Hhere. cbn [orb] in Hhere. apply negb_true_iff in Hhere.
        rewrite repl_raw_miss by assumption. f_equal. exact IH.
  Qed.

  (* ================= all steps ================= *)

  Definition name_step (out : ustr) (n : ustr) : ustr :=
    match env n with Some v => replace_all out (raw n) v | None => out end.

  Lemma run_segs_active sgs out : run_segs sgs out = fold_left name_step (active sgs) out.
  Proof.
    unfold run_segs. revert out; induction sgs as [|sg r IH]; intros out; [reflexivity|].
    cbn [fold_left EnvExpandSpec.active]. destruct sg as [c|n]; cbn [seg_step]; [apply IH|].
    destruct (env n) as [v|] eqn:E.
    - cbn [fold_left]. unfold name_step at 2. rewrite E. apply IH.
    - apply IH.
  Qed.

  Lemma active_set sgs n : In n (active sgs) -> env n <> None.
  Proof.
    induction sgs as [|sg r IH]; cbn [EnvExpandSpec.active]; [intros []|].
    destruct sg as [c|m]; [exact IH|]. destruct (env m) eqn:E; [|exact IH].
    intros [<-|H]; [congruence|exact (IH H)].
  Qed.

  Lemma active_complete sgs n v : In (Ref n) sgs -> env n = Some v -> In n (active sgs).
  Proof.
    induction sgs as [|sg r IH]; [intros []|]. intros [->|H] E; cbn [EnvExpandSpec.active].
    - rewrite E. now left.
    - destruct sg as [c|m]; [exact (IH H E)|]. destruct (env m); [right|]; exact (IH H E).
  Qed.

  Lemma steps_clean sgs : Forall seg_ok sgs -> forall todo done,
    (forall n, In n todo -> env n <> None) ->
    no_forged sgs todo done = true ->
    fold_left name_step todo (out_d done sgs) = out_d (rev todo ++ done) sgs.
  Proof.
    intros Hok. induction todo as [|n r IH]; intros done Hset Hnf; [reflexivity|].
    cbn [EnvExpandSpec.no_forged] in Hnf. apply andb_true_iff in Hnf. destruct Hnf as [Hc Hr].
    cbn [fold_left rev]. unfold name_step at 2.
    destruct (env n) as [v|] eqn:E; [|exfalso; exact (Hset n (or_introl eq_refl) E)].
    unfold replace_all. rewrite (clean_step done n v sgs E Hok Hc).
    rewrite IH; [|intros x Hx; apply Hset; now right|exact Hr].
    now rewrite <- app_assoc.
  Qed.

  Lemma out_d_all sgs done :
    (forall n, In n (active sgs) -> mem n done = true) -> out_d done sgs = concat (map sem sgs).
  Proof.
    unfold EnvExpandSpec.out_d. induction sgs as [|sg r IH]; intros H; [reflexivity|].
    cbn [map concat]. f_equal.
    - destruct sg as [c|n]; [reflexivity|]. cbn [EnvExpandSpec.sem_d EnvExpandSpec.sem].
      destruct (env n) as [v|] eqn:E; [|reflexivity].
      rewrite H; [reflexivity|]. cbn [EnvExpandSpec.active]. rewrite E. now left.
    - apply IH. intros n Hn. apply H. cbn [EnvExpandSpec.active].
      destruct sg as [c|m]; [exact Hn|]. destruct (env m); [now right|exact Hn].
  Qed.

  (* The property for every path outside the known-finding class: with '$'-free values and
     no forged reference, the code's sequential replace-all computes the one-pass expansion. *)
  Theorem old_expand_is_one_pass p :
    NoForgedRef uni_alnum env p = true ->
    old_expand uni_alnum env p = Ok (expand_spec uni_alnum env p).
  Proof.
    intros Hnf. rewrite old_expand_as_segments. f_equal. rewrite run_segs_active.
    unfold NoForgedRef in Hnf.
    rewrite <- (old_segments_print p) at 2.
    rewrite (steps_clean _ (old_segments_ok p) _ [] (active_set _) Hnf).
    unfold expand_spec. apply out_d_all. intros n Hn.
    apply mem_In. rewrite app_nil_r. now apply -> in_rev.
  Qed.
End Old.

(* a path none of whose references names a set variable comes back unchanged, whatever the
   values of the other variables *)
Theorem old_expand_unset_identity ua env p :
  (forall n, In (Ref n) (segments ua p) -> env n = None) -> old_expand ua env p = Ok p.
Proof.
  intros H. rewrite old_expand_as_segments. f_equal. unfold run_segs.
  assert (G : forall sgs out, (forall n, In (Ref n) sgs -> env n = None) ->
                              fold_left (seg_step env) sgs out = out).
  { induction sgs as [|sg r IH]; intros out Hs; [reflexivity|]. cbn [fold_left].
    destruct sg as [c|n]; cbn [seg_step].
    - apply IH. intros n Hn. apply Hs. now right.
    - rewrite (Hs n (or_introl eq_refl)). apply IH. intros m Hm. apply Hs. now right. }
  apply G. exact H.
Qed.
