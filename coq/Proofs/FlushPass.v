(* C15 — a flush pass works on ONE configuration: for every schedule of the flusher's micro-steps
   against stores by other threads, and every re-entrant store made by the appenders being
   flushed, the pass flushes exactly the appenders of the snapshot it loaded - each once, in
   table order - and nothing else (Model/FlushPass.v). *)
From Coq Require Import List NArith Bool Arith Lia FinFun.
Import ListNotations.
From L4 Require Import Model.FlushPass.

Definition Inv (s : st) : Prop :=
  match fl s with
  | FIdle => trace s = []
  | FPass snap i => i <= snd snap /\ trace s = FLoad snap :: flushes (fst snap) i
  | FDone snap => trace s = FLoad snap :: flushes (fst snap) (snd snap) ++ [FRet]
  end.

Lemma flushes_S tag i : flushes tag (S i) = flushes tag i ++ [FFlush tag i].
Proof. unfold flushes. rewrite seq_S, map_app. reflexivity. Qed.

Lemma step_inv reent s m : Inv s -> Inv (step reent s m).
Proof.
  unfold Inv. destruct m as [|c]; cbn [step].
  - destruct (fl s) as [|snap i|snap] eqn:E; cbn [fl trace]; intros H.
    + rewrite H. cbn. split; [lia|reflexivity].
    + destruct H as [Hi Ht]. destruct (i <? snd snap) eqn:El; cbn [fl trace].
      * apply Nat.ltb_lt in El. split; [lia|]. rewrite Ht, flushes_S. reflexivity.
      * apply Nat.ltb_ge in El. assert (i = snd snap) by lia. subst i. rewrite Ht. reflexivity.
    + rewrite E. exact H.
  - cbn [fl trace]. intros H. exact H.
Qed.

Lemma run_inv reent ms : forall s, Inv s -> Inv (run reent ms s).
Proof.
  unfold run. induction ms as [|m ms IH]; intros s H; cbn [fold_left]; [exact H|].
  apply IH. apply step_inv. exact H.
Qed.

(* at every moment of every schedule: nothing yet, or the load and the first i appenders of the
   loaded snapshot, or - finished - all of them and the return *)
Theorem pass_is_over_one_snapshot reent c0 ms :
  let s := run reent ms (init c0) in
  match fl s with
  | FIdle => trace s = []
  | FPass snap i => i <= snd snap /\ trace s = FLoad snap :: flushes (fst snap) i
  | FDone snap => trace s = FLoad snap :: flushes (fst snap) (snd snap) ++ [FRet]
  end.
Proof. apply (run_inv reent ms (init c0)). reflexivity. Qed.

(* a finished pass flushed every appender of its snapshot exactly once, in order, and nothing else *)
Definition is_flush (e : fevent) : bool := match e with FFlush _ _ => true | _ => false end.

Lemma filter_flushes tag n : filter is_flush (flushes tag n) = flushes tag n.
Proof. unfold flushes. induction (seq 0 n) as [|x l IH]; cbn; [reflexivity|rewrite IH; reflexivity]. Qed.

Theorem finished_pass reent c0 ms snap :
  fl (run reent ms (init c0)) = FDone snap ->
  filter is_flush (trace (run reent ms (init c0))) = flushes (fst snap) (snd snap) /\
  NoDup (flushes (fst snap) (snd snap)) /\
  (forall tag i, In (FFlush tag i) (trace (run reent ms (init c0))) <-> tag = fst snap /\ i < snd snap).
Proof.
  intros Hd. pose proof (pass_is_over_one_snapshot reent c0 ms) as H. cbv zeta in H. rewrite Hd in H.
  split; [|split].
  - rewrite H. cbn [filter is_flush]. rewrite filter_app, filter_flushes. cbn. apply app_nil_r.
  - unfold flushes. apply Injective_map_NoDup; [|apply seq_NoDup].
    intros a b E. inversion E. reflexivity.
  - intros tag i. rewrite H. split.
    + intros [E|Hin]; [discriminate|]. apply in_app_or in Hin. destruct Hin as [Hin|[E|[]]]; [|discriminate].
      unfold flushes in Hin. apply in_map_iff in Hin. destruct Hin as [j [E Hj]]. inversion E; subst.
      apply in_seq in Hj. split; [reflexivity|lia].
    + intros [-> Hi]. right. apply in_or_app. left. unfold flushes. apply in_map. apply in_seq. lia.
Qed.

(* ... whatever was stored meanwhile: the snapshot is the cell's content at the load, and a pass
   started after the last store works on that store *)
Theorem pass_after_quiet_store reent c :
  forall s, fl s = FIdle -> cur s = c ->
  fl (step reent s MFlusher) = FPass c 0.
Proof. intros s Hf Hc. cbn [step]. rewrite Hf, Hc. reflexivity. Qed.

(* Non-vacuity: a pass over (7, 3) whose second appender installs (9, 1), with a foreign store of
   (8, 5) before the load and one of (4, 0) in the middle: flushes (7,0) (7,1) (7,2), then returns. *)
Example flush_example :
  let reent := fun tag i => if (N.eqb tag 7 && Nat.eqb i 1)%bool then Some (9%N, 1) else None in
  let s := run reent [MStore (7%N, 3); MFlusher; MFlusher; MStore (4%N, 0); MFlusher; MFlusher; MFlusher; MFlusher]
               (init (8%N, 5)) in
  trace s = [FLoad (7%N, 3); FFlush 7 0; FFlush 7 1; FFlush 7 2; FRet] /\ cur s = (9%N, 1) /\ fl s = FDone (7%N, 3).
Proof. vm_compute. repeat split. Qed.
