(* C20 — a bare integer means the same number of bytes / seconds through every front-end. *)
From Coq Require Import NArith ZArith Bool Lia.
From L4 Require Import Model.Literals Model.LiteralVisitors.
Local Open Scope Z_scope.

Lemma z63_val : z63 = 9223372036854775808. Proof. reflexivity. Qed.
Lemma z64_val : z64 = 18446744073709551616. Proof. reflexivity. Qed.

(* the visitor layer computes exactly what Model/Literals.v says about an integer scalar *)
Theorem size_of_int_is_parse_size fe z :
  in_range fe z = true -> size_of_int fe z = parse_size (SInt z).
Proof.
  unfold size_of_int, route, in_range, parse_size. fold z64.
  pose proof z63_val as H63. pose proof z64_val as H64.
  destruct fe; intros H;
    repeat match goal with
           | |- context [?a <=? ?b] => destruct (Z.leb_spec a b)
           | |- context [?a <? ?b] => destruct (Z.ltb_spec a b)
           end; cbn [andb size_visit] in *; try discriminate; try reflexivity; try lia;
    repeat match goal with
           | |- context [?a <? ?b] => destruct (Z.ltb_spec a b)
           end; try reflexivity; try lia.
Qed.

Theorem interval_of_int_is_parse_interval fe z :
  in_range fe z = true -> interval_of_int fe z = parse_interval (SInt z).
Proof.
  unfold interval_of_int, route, in_range, parse_interval. fold z63.
  pose proof z63_val as H63. pose proof z64_val as H64.
  destruct fe; intros H;
    repeat match goal with
           | |- context [?a <=? ?b] => destruct (Z.leb_spec a b)
           | |- context [?a <? ?b] => destruct (Z.ltb_spec a b)
           end; cbn [andb interval_visit] in *; try discriminate; try reflexivity; try lia;
    repeat match goal with
           | |- context [?a <? ?b] => destruct (Z.ltb_spec a b)
           | |- context [?a >? ?b] => destruct (Z.gtb_spec a b)
           end; try reflexivity; try lia.
Qed.

(* hence: the same meaning through every front-end that can carry the integer *)
Theorem int_meaning_is_frontend_independent fe1 fe2 z :
  in_range fe1 z = true -> in_range fe2 z = true ->
  size_of_int fe1 z = size_of_int fe2 z /\ interval_of_int fe1 z = interval_of_int fe2 z.
Proof.
  intros H1 H2. split.
  - rewrite (size_of_int_is_parse_size fe1 z H1), (size_of_int_is_parse_size fe2 z H2). reflexivity.
  - rewrite (interval_of_int_is_parse_interval fe1 z H1), (interval_of_int_is_parse_interval fe2 z H2). reflexivity.
Qed.

(* and what that meaning is *)
Theorem int_meaning fe z :
  in_range fe z = true ->
  size_of_int fe z = (if (0 <=? z) then Some (Z.to_N z) else None) /\
  interval_of_int fe z = (if (0 <=? z) && (z <? z63) then Some (Second, Z.to_N z) else None).
Proof.
  intros H. rewrite (size_of_int_is_parse_size fe z H), (interval_of_int_is_parse_interval fe z H).
  unfold parse_size, parse_interval, in_range in *. fold z64 z63.
  pose proof z63_val as H63. pose proof z64_val as H64.
  destruct fe;
    repeat match goal with
           | |- context [?a <=? ?b] => destruct (Z.leb_spec a b)
           | |- context [?a <? ?b] => destruct (Z.ltb_spec a b)
           | H : context [?a <=? ?b] |- _ => destruct (Z.leb_spec a b)
           | H : context [?a <? ?b] |- _ => destruct (Z.ltb_spec a b)
           end; cbn [andb] in *; try discriminate; split; try reflexivity; try lia.
Qed.

(* TOML hands over NON-NEGATIVE integers through visit_i64: that method must accept them *)
Example toml_uses_visit_i64 :
  route Toml 3600 = CallI64 3600 /\ route Yaml 3600 = CallU64 3600%N /\
  interval_of_int Toml 3600 = Some (Second, 3600%N) /\ size_of_int Toml 77 = Some 77%N /\
  interval_of_int Toml (-5) = None /\ interval_of_int Json 9223372036854775808 = None /\
  size_of_int Yaml 18446744073709551615 = Some 18446744073709551615%N.
Proof. vm_compute. repeat split. Qed.
