(* Specification vocabulary and proofs for the rolling appender model
   (C05, C06, C17).  The spec side is independent of the model's code: it only
   looks at the event log (which records were written, which consultations
   fired) and at the final directory. *)
From Coq Require Import List NArith Arith Bool Lia.
Import ListNotations.
From L4 Require Import Common.FSRoll Model.Rolling.

(* ------------------------------------------------------------------ *)
(* Spec vocabulary                                                     *)

Definition content (f : fs) (n : fname) : bytes :=
  match lookup f n with Some v => v | None => [] end.

Definition keep (r : roller) : nat := match r with Delete => 0 | Window _ c => c end.
Definition base (r : roller) : nat := match r with Delete => 0 | Window b _ => b end.

(* archives oldest (highest index) first, then the active file *)
Definition read_order (r : roller) : list fname :=
  map Arch (rev (seq (base r) (keep r))) ++ [Active].
Definition read (r : roller) (f : fs) : bytes := concat (map (content f) (read_order r)).

Definition wrote1 (e : event) : list bytes := match e with EWrote r => [r] | _ => [] end.
Definition wrote (evs : list event) : list bytes := flat_map wrote1 evs.
Definition is_roll (e : event) : bool := match e with EConsult _ _ true => true | _ => false end.
Definition rolls (evs : list event) : nat := length (filter is_roll evs).
Definition is_trunc (e : event) : bool := match e with ETrunc => true | _ => false end.
Definition consult_exact (e : event) : Prop :=
  match e with EConsult shown disk _ => shown = disk | _ => True end.

Definition op_records (o : op) : list bytes :=
  match o with Append chunks => [concat chunks] | Restart _ => [] end.
Definition records (ops : list op) : list bytes := flat_map op_records ops.
Definition append_restarts (ops : list op) : Prop :=
  forall a, In (Restart a) ops -> a = true.

(* ghost segmentation of the written stream, computed from the event log only:
   (records in the current file, closed files newest first) *)
Definition gstate : Type := list bytes * list (list bytes).
Definition gstep (g : gstate) (e : event) : gstate :=
  match e with
  | EWrote r => (fst g ++ [r], snd g)
  | EConsult _ _ true => ([], fst g :: snd g)
  | EConsult _ _ false => g
  | ETrunc => ([], snd g)
  end.
Definition ghost (evs : list event) (g : gstate) : gstate := fold_left gstep evs g.

(* ------------------------------------------------------------------ *)
(* small list facts                                                    *)

Lemma blen_app : forall a b, blen (a ++ b) = (blen a + blen b)%N.
Proof. intros; unfold blen; rewrite app_length, Nat2N.inj_add; reflexivity. Qed.

Lemma firstn_cons_firstn : forall {A} n (x : A) l,
  firstn n (x :: firstn n l) = firstn n (x :: l).
Proof.
  intros A [|n] x l; [reflexivity|]. rewrite !firstn_cons. f_equal.
  rewrite firstn_firstn. f_equal. lia.
Qed.

Lemma nth_error_firstn_lt : forall {A} (l : list A) n j,
  j < n -> nth_error (firstn n l) j = nth_error l j.
Proof.
  intros A l; induction l as [|x l IH]; intros n j H.
  - rewrite firstn_nil. reflexivity.
  - destruct n; [lia|]. destruct j; [reflexivity|]. cbn. apply IH. lia.
Qed.

Lemma nth_error_firstn_ge : forall {A} (l : list A) n j,
  n <= j -> nth_error (firstn n l) j = None.
Proof.
  intros. apply nth_error_None. pose proof (firstn_le_length n l). lia.
Qed.

Lemma concat_snoc : forall {A} (l : list (list A)) x, concat (l ++ [x]) = concat l ++ x.
Proof. intros. rewrite concat_app. cbn. rewrite app_nil_r. reflexivity. Qed.

Lemma rev_repeat_id : forall {A} (x : A) n, rev (repeat x n) = repeat x n.
Proof.
  intros A x n; induction n as [|n IH]; [reflexivity|].
  cbn. rewrite IH. clear IH. induction n as [|n IH]; [reflexivity|].
  cbn. rewrite IH. reflexivity.
Qed.

Lemma concat_repeat_nil : forall {A} n, concat (repeat (@nil A) n) = [].
Proof. intros A n; induction n; [reflexivity|]. cbn. exact IHn. Qed.

Lemma map_nth_nil_seq : forall {A} (d : A) k s,
  map (fun j => nth j (@nil A) d) (seq s k) = repeat d k.
Proof.
  intros A d k; induction k as [|k IH]; intros s; cbn [seq map repeat]; [reflexivity|].
  f_equal; [destruct s; reflexivity|apply IH].
Qed.

Lemma map_nth_seq : forall {A} (d : A) (l : list A) k,
  length l <= k ->
  map (fun j => nth j l d) (seq 0 k) = l ++ repeat d (k - length l).
Proof.
  intros A d l; induction l as [|x l IH]; intros k H.
  - cbn [length app]. rewrite Nat.sub_0_r. apply map_nth_nil_seq.
  - destruct k as [|k]; [cbn in H; lia|].
    cbn [seq map nth length Nat.sub]. rewrite <- app_comm_cons. f_equal.
    rewrite <- seq_shift, map_map. cbn [nth]. apply IH. cbn in H; lia.
Qed.

(* ------------------------------------------------------------------ *)
(* The writer invariant: between operations the appender is in append mode
   and an open writer's counter equals the size of the file on disk.      *)

Definition Good (s : state) : Prop :=
  app s = true /\
  forall len, writer s = Some len ->
    exists v, lookup (files s) Active = Some v /\ len = blen v.

Lemma disk_len_content : forall f, disk_len f = blen (content f Active).
Proof. intros f; unfold disk_len, content. destruct (lookup f Active); reflexivity. Qed.

Lemma get_writer_spec : forall s, Good s ->
  let s' := get_writer s in
  Good s'
  /\ lookup (files s') Active = Some (content (files s) Active)
  /\ writer s' = Some (blen (content (files s) Active))
  /\ (forall i, lookup (files s') (Arch i) = lookup (files s) (Arch i))
  /\ fired s' = fired s /\ consults s' = consults s.
Proof.
  intros s [Happ Hw]; unfold get_writer.
  destruct (writer s) as [len|] eqn:E.
  - destruct (Hw len eq_refl) as [v [Hv Hl]].
    unfold content; rewrite Hv. subst len.
    split; [split; [exact Happ|]|repeat split; auto].
    intros l Hl. apply Hw. rewrite <- E. exact Hl.
  - rewrite Happ. unfold content.
    destruct (lookup (files s) Active) as [v|] eqn:L; cbn [files writer app fired consults].
    + unfold disk_len; rewrite L.
      repeat split; auto. intros len H; injection H as <-. exists v; auto.
    + unfold disk_len. rewrite !lookup_write, fname_eqb_refl.
      repeat split; auto.
      * intros len H; injection H as <-. exists []; auto.
      * intros i. rewrite lookup_write. reflexivity.
Qed.

Lemma encode_flush_spec : forall chunks s v,
  lookup (files s) Active = Some v -> writer s = Some (blen v) ->
  let s' := encode_flush chunks s in
  lookup (files s') Active = Some (v ++ concat chunks)
  /\ writer s' = Some (blen (v ++ concat chunks))
  /\ (forall i, lookup (files s') (Arch i) = lookup (files s) (Arch i))
  /\ app s' = app s /\ fired s' = fired s /\ consults s' = consults s.
Proof.
  induction chunks as [|ch chunks IH]; intros s v Hv Hw; cbn [encode_flush fold_left concat].
  - rewrite app_nil_r. repeat split; auto.
  - change (fold_left write_chunk chunks (write_chunk s ch)) with (encode_flush chunks (write_chunk s ch)).
    assert (H1 : lookup (files (write_chunk s ch)) Active = Some (v ++ ch)).
    { unfold write_chunk; rewrite Hw, Hv; cbn [files]. rewrite lookup_write, fname_eqb_refl. reflexivity. }
    assert (H2 : writer (write_chunk s ch) = Some (blen (v ++ ch))).
    { unfold write_chunk; rewrite Hw; cbn [writer]. rewrite blen_app. reflexivity. }
    destruct (IH _ _ H1 H2) as (A1 & A2 & A3 & A4 & A5 & A6).
    rewrite <- app_assoc in A1, A2.
    repeat split; auto.
    + intros i. rewrite A3. unfold write_chunk; rewrite Hw; cbn [files]. rewrite lookup_write. reflexivity.
    + rewrite A4. unfold write_chunk; rewrite Hw; reflexivity.
    + rewrite A5. unfold write_chunk; rewrite Hw; reflexivity.
    + rewrite A6. unfold write_chunk; rewrite Hw; reflexivity.
Qed.

Definition fired_after (t : trigger) (b : bool) : bool :=
  match t with TStartup _ => true | _ => b end.

Lemma process_spec : forall c s v,
  lookup (files s) Active = Some v -> writer s = Some (blen v) ->
  let fire := trigger_fire (trig c) s (blen v) in
  let s' := fst (process c s) in
  snd (process c s) = [EConsult (blen v) (blen v) fire]
  /\ files s' = (if fire then do_roll (roll_by c) (files s) else files s)
  /\ writer s' = (if fire then None else Some (blen v))
  /\ app s' = app s /\ fired s' = fired_after (trig c) (fired s)
  /\ consults s' = S (consults s).
Proof.
  intros c s v Hv Hw; unfold process; rewrite Hw.
  unfold disk_len; rewrite Hv.
  destruct (trigger_fire (trig c) s (blen v)); cbn; repeat split; auto.
Qed.

Lemma trigger_fire_ext : forall t s s' len,
  fired s' = fired s -> consults s' = consults s ->
  trigger_fire t s' len = trigger_fire t s len.
Proof. intros t s s' len H1 H2; destruct t; cbn; rewrite ?H1, ?H2; reflexivity. Qed.

Lemma do_roll_active : forall r (f : fs), lookup (do_roll r f) Active = None.
Proof.
  intros [|b [|k]] f; cbn [do_roll].
  - rewrite lookup_remove. reflexivity.
  - rewrite lookup_remove. reflexivity.
  - rewrite lookup_rename by discriminate.
    destruct (lookup (shift b k f) Active) eqn:E; reflexivity.
Qed.

(* What one `append` does, for every trigger and roller, from a Good state. *)
Lemma append_op_spec : forall c chunks s, Good s ->
  let v := content (files s) Active in
  let r := concat chunks in
  let s' := fst (append_op c chunks s) in
  let ev := snd (append_op c chunks s) in
  Good s' /\ consults s' = S (consults s) /\ fired s' = fired_after (trig c) (fired s) /\
  if is_pre (trig c) then
    let fire := trigger_fire (trig c) s (blen v) in
    ev = [EConsult (blen v) (blen v) fire; EWrote r]
    /\ lookup (files s') Active = Some ((if fire then [] else v) ++ r)
    /\ (forall i, lookup (files s') (Arch i) =
                  lookup (if fire then do_roll (roll_by c) (files (get_writer s)) else files s) (Arch i))
  else
    let fire := trigger_fire (trig c) s (blen (v ++ r)) in
    ev = [EWrote r; EConsult (blen (v ++ r)) (blen (v ++ r)) fire]
    /\ lookup (files s') Active = (if fire then None else Some (v ++ r))
    /\ (forall i, lookup (files s') (Arch i) =
                  if fire then lookup (do_roll (roll_by c) (files (encode_flush chunks (get_writer s)))) (Arch i)
                  else lookup (files s) (Arch i)).
Proof.
  intros c chunks s HG v r.
  destruct (get_writer_spec s HG) as (G0 & L0 & W0 & A0 & F0 & C0).
  fold v in L0, W0.
  unfold append_op. destruct (is_pre (trig c)) eqn:Hpre.
  - (* pre-process *)
    destruct (process_spec c (get_writer s) v L0 W0) as (P1 & P2 & P3 & P4 & P5 & P6).
    rewrite (trigger_fire_ext _ s (get_writer s)) in P1, P2, P3 by assumption.
    destruct (process c (get_writer s)) as [s1 ev1]; cbn [fst snd] in *.
    set (fire := trigger_fire (trig c) s (blen v)) in *.
    assert (G1 : Good s1).
    { split; [rewrite P4; apply G0|]. intros len H. rewrite P3 in H.
      destruct fire; [discriminate|]. injection H as <-. exists v. rewrite P2. auto. }
    destruct (get_writer_spec s1 G1) as (G2 & L2 & W2 & A2 & F2 & C2).
    assert (Hc : content (files s1) Active = if fire then [] else v).
    { unfold content; rewrite P2. destruct fire; [rewrite do_roll_active; reflexivity|rewrite L0; reflexivity]. }
    rewrite Hc in L2, W2.
    destruct (encode_flush_spec chunks _ _ L2 W2) as (E1 & E2 & E3 & E4 & E5 & E6).
    fold r in E1, E2.
    repeat split.
    + rewrite E4. apply G2.
    + intros len H. rewrite E2 in H. injection H as <-. eexists; split; [exact E1|reflexivity].
    + rewrite E6, C2, P6, C0. reflexivity.
    + rewrite E5, F2, P5, F0. reflexivity.
    + rewrite P1. reflexivity.
    + exact E1.
    + intros i. rewrite E3, A2, P2. destruct fire; [reflexivity|apply A0].
  - (* post-process *)
    destruct (encode_flush_spec chunks _ _ L0 W0) as (E1 & E2 & E3 & E4 & E5 & E6).
    fold r in E1, E2.
    destruct (process_spec c _ _ E1 E2) as (P1 & P2 & P3 & P4 & P5 & P6).
    rewrite (trigger_fire_ext _ s (encode_flush chunks (get_writer s))) in P1, P2, P3
      by (congruence).
    destruct (process c (encode_flush chunks (get_writer s))) as [s2 ev2]; cbn [fst snd] in *.
    set (fire := trigger_fire (trig c) s (blen (v ++ r))) in *.
    repeat split.
    + rewrite P4, E4. apply G0.
    + intros len H. rewrite P3 in H. destruct fire; [discriminate|]. injection H as <-.
      exists (v ++ r). rewrite P2. auto.
    + rewrite P6, E6, C0. reflexivity.
    + rewrite P5, E5, F0. reflexivity.
    + rewrite P1. reflexivity.
    + rewrite P2. destruct fire; [apply do_roll_active|exact E1].
    + intros i. rewrite P2. destruct fire; [reflexivity|]. rewrite E3. apply A0.
Qed.

Lemma build_spec : forall a f n,
  let s' := fst (build a f n) in
  Good s' /\ fired s' = false /\ consults s' = n
  /\ snd (build a f n) = (if a then [] else [ETrunc])
  /\ lookup (files s') Active = Some (if a then content f Active else [])
  /\ (forall i, lookup (files s') (Arch i) = lookup f (Arch i)).
Proof.
  intros a f n; unfold build, get_writer; cbn [writer app files fst snd fired consults].
  destruct a.
  - unfold content. destruct (lookup f Active) as [v|] eqn:L.
    + repeat split; auto.
      intros len H; injection H as <-. exists v. unfold disk_len. rewrite L. auto.
    + repeat split; auto.
      * intros len H; cbn [writer files] in *; injection H as <-. exists []. unfold disk_len.
        rewrite !lookup_write, fname_eqb_refl. auto.
      * intros i; rewrite lookup_write; reflexivity.
  - repeat split; auto.
    + intros len H; cbn [writer files] in *; injection H as <-. exists [].
      rewrite lookup_write, fname_eqb_refl. auto.
    + intros i; rewrite lookup_write; reflexivity.
Qed.

Lemma raw_good : forall pre, Good (raw pre).
Proof. intros pre; split; [reflexivity|]. intros len H; discriminate. Qed.

Lemma step_good : forall c o s, Good s -> Good (fst (step c o s)).
Proof.
  intros c [chunks|a] s HG; cbn [step].
  - apply (append_op_spec c chunks s HG).
  - apply build_spec.
Qed.

(* run_ops plumbing *)
Lemma run_ops_cons : forall c o ops s,
  run_ops c (o :: ops) s =
  (fst (run_ops c ops (fst (step c o s))),
   snd (step c o s) :: snd (run_ops c ops (fst (step c o s)))).
Proof.
  intros; cbn [run_ops]. destruct (step c o s) as [s1 ev]; cbn [fst snd].
  destruct (run_ops c ops s1); reflexivity.
Qed.

Lemma run_ops_app : forall c ops1 ops2 s,
  run_ops c (ops1 ++ ops2) s =
  (fst (run_ops c ops2 (fst (run_ops c ops1 s))),
   snd (run_ops c ops1 s) ++ snd (run_ops c ops2 (fst (run_ops c ops1 s)))).
Proof.
  intros c ops1; induction ops1 as [|o ops1 IH]; intros ops2 s.
  - change ([] ++ ops2) with ops2. change (run_ops c [] s) with (s, @nil (list event)).
    cbn [fst snd app]. destruct (run_ops c ops2 s); reflexivity.
  - rewrite <- app_comm_cons, !run_ops_cons. cbn [fst snd]. rewrite IH. reflexivity.
Qed.

Lemma run_ops_single : forall c o s,
  run_ops c [o] s = (fst (step c o s), [snd (step c o s)]).
Proof. intros. rewrite run_ops_cons. reflexivity. Qed.

Lemma run_ops_good : forall c ops s, Good s -> Good (fst (run_ops c ops s)).
Proof.
  intros c ops; induction ops as [|o ops IH]; intros s HG; [exact HG|].
  rewrite run_ops_cons; cbn [fst]. apply IH, step_good, HG.
Qed.

(* reachable appender states: any history over any initial directory *)
Definition reach (c : config) (s : state) : Prop :=
  exists pre ops, s = fst (run_ops c ops (raw pre)).

Lemma reach_good : forall c s, reach c s -> Good s.
Proof. intros c s (pre & ops & ->). apply run_ops_good, raw_good. Qed.

Lemma reach_step : forall c s o, reach c s -> reach c (fst (step c o s)).
Proof.
  intros c s o (pre & ops & ->). exists pre, (ops ++ [o]).
  rewrite run_ops_app; cbn [fst]. rewrite run_ops_cons; reflexivity.
Qed.

Lemma reach_run : forall c a0 pre ops, reach c (fst (run c a0 pre ops)).
Proof. intros; unfold run. exists pre, (Restart a0 :: ops). reflexivity. Qed.

(* ------------------------------------------------------------------ *)
(* C06: size accounting and the size trigger                            *)

Lemma step_consult_exact : forall c o s, Good s -> Forall consult_exact (snd (step c o s)).
Proof.
  intros c [chunks|a] s HG; cbn [step].
  - destruct (append_op_spec c chunks s HG) as (_ & _ & _ & H).
    destruct (is_pre (trig c)); destruct H as (-> & _); repeat constructor.
  - destruct (build_spec a (files s) (consults s)) as (_ & _ & _ & -> & _).
    destruct a; repeat constructor.
Qed.

Lemma run_ops_consult_exact : forall c ops s, Good s ->
  Forall consult_exact (concat (snd (run_ops c ops s))).
Proof.
  intros c ops; induction ops as [|o ops IH]; intros s HG; [constructor|].
  rewrite run_ops_cons; cbn [snd concat]. apply Forall_app; split.
  - apply step_consult_exact, HG.
  - apply IH, step_good, HG.
Qed.

(* every consultation of every history shows the true on-disk size *)
Theorem len_is_disk_size : forall c a0 pre ops,
  Forall consult_exact (concat (snd (run c a0 pre ops))).
Proof. intros; unfold run. apply run_ops_consult_exact, raw_good. Qed.

(* one more append after any history, size trigger *)
Theorem rolls_iff_exceeds : forall limit rl s chunks,
  let c := {| trig := TSize limit; roll_by := rl |} in
  reach c s ->
  let size_after := (disk_len (files s) + blen (concat chunks))%N in
  let s' := fst (append_op c chunks s) in
  snd (append_op c chunks s) =
    [EWrote (concat chunks); EConsult size_after size_after (limit <? size_after)%N]
  /\ ((limit < size_after)%N -> lookup (files s') Active = None)
  /\ (~ (limit < size_after)%N ->
      lookup (files s') Active = Some (content (files s) Active ++ concat chunks)).
Proof.
  intros limit rl s chunks c HR size_after s'.
  destruct (append_op_spec c chunks s (reach_good _ _ HR)) as (_ & _ & _ & H).
  cbn [is_pre trig c] in H. destruct H as (Hev & Hact & _).
  assert (Hsz : blen (content (files s) Active ++ concat chunks) = size_after).
  { unfold size_after. rewrite blen_app, disk_len_content. reflexivity. }
  rewrite Hsz in Hev, Hact. cbn [trigger_fire] in Hev, Hact.
  split; [exact Hev|]. fold s' in Hact.
  destruct (N.ltb_spec limit size_after) as [Hlt|Hge]; split; intro H; try lia; exact Hact.
Qed.

Theorem after_append_bounded : forall limit rl a0 pre ops chunks,
  let c := {| trig := TSize limit; roll_by := rl |} in
  let s' := fst (run c a0 pre (ops ++ [Append chunks])) in
  lookup (files s') Active = None \/ (disk_len (files s') <= limit)%N.
Proof.
  intros limit rl a0 pre ops chunks c s'.
  unfold s', run. change (Restart a0 :: ops ++ [Append chunks]) with ((Restart a0 :: ops) ++ [Append chunks]).
  rewrite run_ops_app; cbn [fst].
  set (s := fst (run_ops c (Restart a0 :: ops) (raw pre))).
  rewrite run_ops_single; cbn [fst step].
  assert (HR : reach c s) by (exists pre, (Restart a0 :: ops); reflexivity).
  destruct (rolls_iff_exceeds limit rl s chunks HR) as (_ & H1 & H2).
  fold c in H1, H2.
  destruct (N.ltb_spec limit (disk_len (files s) + blen (concat chunks))) as [Hlt|Hge].
  - left. apply H1, Hlt.
  - right. unfold disk_len at 1. rewrite H2 by lia.
    rewrite blen_app, <- disk_len_content. exact Hge.
Qed.

(* ------------------------------------------------------------------ *)
(* C17: the on-start-up trigger                                         *)

Lemma rolls_in_concat : forall evs l, In evs l -> rolls evs <= rolls (concat l).
Proof.
  intros evs l; induction l as [|e l IH]; intros H; [destruct H|].
  unfold rolls in *. cbn [concat]. rewrite filter_app, app_length.
  destruct H as [->|H]; [lia|]. specialize (IH H). lia.
Qed.

Definition appends (rs : list (list bytes)) : list op := map Append rs.

Lemma startup_append : forall m rl s chunks,
  let c := {| trig := TStartup m; roll_by := rl |} in
  Good s ->
  let L := disk_len (files s) in
  let fire := negb (fired s) && (m <=? L)%N in
  let s' := fst (append_op c chunks s) in
  snd (append_op c chunks s) = [EConsult L L fire; EWrote (concat chunks)]
  /\ fired s' = true /\ Good s'
  /\ lookup (files s') Active = Some ((if fire then [] else content (files s) Active) ++ concat chunks)
  /\ (forall i, lookup (files s') (Arch i) =
                lookup (if fire then do_roll rl (files (get_writer s)) else files s) (Arch i)).
Proof.
  intros m rl s chunks c HG L fire s'.
  destruct (append_op_spec c chunks s HG) as (G & _ & F & H).
  cbn [is_pre trig c trigger_fire fired_after roll_by] in H, F.
  rewrite <- disk_len_content in H. destruct H as (Hev & Hact & Harch).
  repeat split; try assumption; apply G.
Qed.

(* after the first consultation the trigger never fires again *)
Lemma startup_fired_no_roll : forall m rl rs s,
  let c := {| trig := TStartup m; roll_by := rl |} in
  Good s -> fired s = true ->
  rolls (concat (snd (run_ops c (appends rs) s))) = 0.
Proof.
  intros m rl rs; induction rs as [|chunks rs IH]; intros s c HG HF; [reflexivity|].
  cbn [appends map]. rewrite run_ops_cons; cbn [snd concat step].
  destruct (startup_append m rl s chunks HG) as (Hev & HF' & HG' & _).
  fold c in Hev, HF', HG'. rewrite Hev, HF. cbn [negb andb app].
  unfold rolls in *. cbn [filter is_roll]. apply IH; assumption.
Qed.

(* a lifetime = build (any mode) over the directory left by any history, then
   any number of appends *)
Theorem at_most_one_roll : forall m rl s a rs,
  let c := {| trig := TStartup m; roll_by := rl |} in
  reach c s ->
  rolls (concat (snd (run_ops c (appends rs) (fst (build a (files s) (consults s)))))) <= 1.
Proof.
  intros m rl s a rs c HR.
  destruct (build_spec a (files s) (consults s)) as (G0 & F0 & _).
  set (s0 := fst (build a (files s) (consults s))) in *.
  destruct rs as [|chunks rs]; [cbn; lia|].
  cbn [appends map]. rewrite run_ops_cons; cbn [snd concat step].
  destruct (startup_append m rl s0 chunks G0) as (Hev & HF' & HG' & _).
  fold c in Hev, HF', HG'. rewrite Hev. unfold rolls.
  rewrite filter_app, app_length.
  pose proof (startup_fired_no_roll m rl rs _ HG' HF') as H0. unfold rolls in H0.
  fold c in H0. unfold appends in H0. rewrite H0.
  cbn [filter is_roll]. destruct (negb (fired s0) && (m <=? disk_len (files s0))%N); cbn; lia.
Qed.

(* the i-th append of a lifetime (0-based) rotates iff it is the first one and
   the file that existed after the build has at least min_size bytes *)
Theorem rolls_iff_first_and_big_enough : forall m rl s a rs i evi,
  let c := {| trig := TStartup m; roll_by := rl |} in
  reach c s ->
  let s0 := fst (build a (files s) (consults s)) in
  nth_error (snd (run_ops c (appends rs) s0)) i = Some evi ->
  (rolls evi = 1 <-> (i = 0 /\ (m <= disk_len (files s0))%N))
  /\ (rolls evi = 0 <-> ~ (i = 0 /\ (m <= disk_len (files s0))%N)).
Proof.
  intros m rl s a rs i evi c HR s0 Hnth.
  destruct (build_spec a (files s) (consults s)) as (G0 & F0 & _). fold s0 in G0, F0.
  destruct rs as [|chunks rs]; [destruct i; discriminate|].
  cbn [appends map] in Hnth. rewrite run_ops_cons in Hnth; cbn [snd step] in Hnth.
  destruct (startup_append m rl s0 chunks G0) as (Hev & HF' & HG' & _).
  fold c in Hev, HF', HG'.
  destruct i as [|i]; cbn [nth_error] in Hnth.
  - injection Hnth as <-. rewrite Hev, F0. cbn [negb andb]. unfold rolls; cbn [filter is_roll].
    destruct (N.leb_spec m (disk_len (files s0))) as [Hle|Hgt]; cbn [length].
    + split; split; intro H; auto; try discriminate. exfalso; apply H; auto.
    + split; split; intro H; auto; try discriminate.
      * destruct H; lia.
      * intros [_ H1]; lia.
  - pose proof (startup_fired_no_roll m rl rs _ HG' HF') as H0. fold c in H0.
    assert (Hz : rolls evi = 0).
    { apply nth_error_In in Hnth. apply rolls_in_concat in Hnth. unfold appends in *. lia. }
    rewrite Hz. split; split; intro H; try lia; try discriminate.
Qed.

Theorem preexisting_becomes_newest_archive : forall m b k s a chunks pre,
  let c := {| trig := TStartup m; roll_by := Window b (S k) |} in
  reach c s ->
  let s0 := fst (build a (files s) (consults s)) in
  lookup (files s0) Active = Some pre -> (m <= blen pre)%N ->
  let s1 := fst (append_op c chunks s0) in
  lookup (files s1) (Arch b) = Some pre /\ lookup (files s1) Active = Some (concat chunks)
  /\ rolls (snd (append_op c chunks s0)) = 1.
Proof.
  intros m b k s a chunks pre c HR s0 Hpre Hm s1.
  destruct (build_spec a (files s) (consults s)) as (G0 & F0 & _). fold s0 in G0, F0.
  destruct (startup_append m (Window b (S k)) s0 chunks G0) as (Hev & _ & _ & Hact & Harch).
  fold c s1 in Hev, Hact, Harch.
  assert (HL : disk_len (files s0) = blen pre) by (unfold disk_len; rewrite Hpre; reflexivity).
  rewrite F0, HL in Hev, Hact, Harch. cbn [negb andb] in *.
  destruct (N.leb_spec m (blen pre)) as [_|]; [|lia].
  split; [|split].
  - rewrite Harch. cbn [do_roll]. rewrite lookup_rename by discriminate.
    destruct (get_writer_spec s0 G0) as (_ & L0 & _).
    unfold content in L0; rewrite Hpre in L0.
    rewrite lookup_shift_active, L0. cbn [fname_eqb]. rewrite Nat.eqb_refl. reflexivity.
  - exact Hact.
  - rewrite Hev. reflexivity.
Qed.
