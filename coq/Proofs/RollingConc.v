(* Concurrent writers of one RollingFileAppender (C05, C17).
   `RollingFileAppender::append` takes `self.writer.lock()` first and holds the
   guard to the end of the call (src/append/rolling_file/mod.rs:165-205); every
   access to the writer slot, the files and the trigger state happens inside.
   The call is split into the micro-steps the code performs under the lock
   (get_writer / policy.process / one io::Write::write per encoder chunk / the
   call returns Ok); Common/LockSerial.v gives: any schedule of any number of
   threads = the sequential history of the calls in lock-acquisition order. *)
From Coq Require Import List NArith Arith Bool Lia.
Import ListNotations.
From L4 Require Import Common.FSRoll Common.LockSerial Model.Rolling Proofs.Rolling Proofs.RollingStream.

Definition sh : Type := (state * list event)%type.
Definition mstep : Type := sh -> sh.

Definition m_get : mstep := fun x => (get_writer (fst x), snd x).
Definition m_process (c : config) : mstep :=
  fun x => (fst (process c (fst x)), snd x ++ snd (process c (fst x))).
Definition m_chunk (ch : bytes) : mstep := fun x => (write_chunk (fst x) ch, snd x).
Definition m_ack (chunks : list bytes) : mstep := fun x => (fst x, snd x ++ [EWrote (concat chunks)]).

(* the critical section of `append`, step by step *)
Definition append_micro (c : config) (chunks : list bytes) : list mstep :=
  if is_pre (trig c)
  then [m_get; m_process c; m_get] ++ map m_chunk chunks ++ [m_ack chunks]
  else [m_get] ++ map m_chunk chunks ++ [m_ack chunks; m_process c].

Lemma run_chunks : forall chunks s l,
  run_micro sh (map m_chunk chunks) (s, l) = (encode_flush chunks s, l).
Proof.
  induction chunks as [|ch chunks IH]; intros s l; [reflexivity|].
  cbn [map]. unfold run_micro in *. cbn [fold_left]. unfold m_chunk at 2. cbn [fst snd].
  rewrite IH. reflexivity.
Qed.

Lemma append_micro_seq : forall c chunks s l,
  run_micro sh (append_micro c chunks) (s, l)
  = (fst (append_op c chunks s), l ++ snd (append_op c chunks s)).
Proof.
  intros c chunks s l. unfold append_micro, append_op.
  destruct (is_pre (trig c)).
  - rewrite run_micro_app. cbn [run_micro fold_left]. unfold m_get at 1 2, m_process. cbn [fst snd].
    destruct (process c (get_writer s)) as [s1 ev]. cbn [fst snd].
    rewrite run_micro_app, run_chunks. cbn [run_micro fold_left m_ack fst snd].
    rewrite app_assoc. reflexivity.
  - rewrite run_micro_app. cbn [run_micro fold_left]. unfold m_get. cbn [fst snd].
    rewrite run_micro_app, run_chunks. cbn [run_micro fold_left]. unfold m_ack, m_process. cbn [fst snd].
    destruct (process c (encode_flush chunks (get_writer s))) as [s2 ev]. cbn [fst snd].
    rewrite <- app_assoc. reflexivity.
Qed.

Lemma seq_run_appends : forall c rs s l,
  seq_run sh (list bytes) (append_micro c) rs (s, l)
  = (fst (run_ops c (map Append rs) s), l ++ concat (snd (run_ops c (map Append rs) s))).
Proof.
  intros c rs; induction rs as [|chunks rs IH]; intros s l.
  - cbn. rewrite app_nil_r. reflexivity.
  - cbn [map]. rewrite run_ops_cons. cbn [fst snd concat step].
    unfold seq_run in *. cbn [fold_left]. unfold seq_call at 2. rewrite append_micro_seq, IH.
    rewrite app_assoc. reflexivity.
Qed.

(* Any number of threads, each appending its own list of records through the
   same appender (state s), under ANY schedule: once all calls have returned,
   the appender state and the event log are those of the sequential history
   that appends the records in lock-acquisition order, and that order is an
   interleaving of the threads' programs (each thread's records in its own
   order, every record exactly once). *)
Theorem schedules_reduce_to_histories : forall c s (progs : nat -> list (list bytes)) sch,
  let st := run_sched sh (list bytes) (append_micro c) sch (init sh (list bytes) progs (s, [])) in
  all_done sh (list bytes) st ->
  let order := map snd (acq sh (list bytes) st) in
  is_merge (list bytes) progs (acq sh (list bytes) st)
  /\ fst (shared sh (list bytes) st) = fst (run_ops c (map Append order) s)
  /\ snd (shared sh (list bytes) st) = concat (snd (run_ops c (map Append order) s)).
Proof.
  intros c s progs sch st Hd order.
  destruct (quiescent_is_sequential sh (list bytes) (append_micro c) progs (s, []) sch Hd) as (Hm & Hs).
  fold st in Hm, Hs. split; [exact Hm|].
  fold order in Hs. rewrite seq_run_appends in Hs. rewrite Hs. cbn [fst snd]. auto.
Qed.

(* ... and at EVERY point of EVERY schedule (not only at quiescence): the calls
   that have released the lock form a sequential history in acquisition order,
   at most one further call is in progress (its thread owns the lock) and has
   executed a prefix of its critical section on top of that history. *)
Theorem schedules_prefix : forall c s (progs : nat -> list (list bytes)) sch,
  let st := run_sched sh (list bytes) (append_micro c) sch (init sh (list bytes) progs (s, [])) in
  (forall t, proj (list bytes) t (acq sh (list bytes) st) ++ todo sh (list bytes) (threads sh (list bytes) st t) = progs t)
  /\ match owner sh (list bytes) st with
     | None =>
       let order := map snd (acq sh (list bytes) st) in
       shared sh (list bytes) st
       = (fst (run_ops c (map Append order) s), concat (snd (run_ops c (map Append order) s)))
     | Some t => exists pre chunks done rest,
       acq sh (list bytes) st = pre ++ [(t, chunks)] /\ append_micro c chunks = done ++ rest
       /\ shared sh (list bytes) st
          = run_micro sh done (fst (run_ops c (map Append (map snd pre)) s),
                               concat (snd (run_ops c (map Append (map snd pre)) s)))
     end.
Proof.
  intros c s progs sch st.
  destruct (schedule_serialises sh (list bytes) (append_micro c) progs (s, []) sch) as (Hpo & Hsh).
  fold st in Hpo, Hsh. split; [exact Hpo|].
  destruct (owner sh (list bytes) st) as [t|].
  - destruct Hsh as (pre & ch & done & rest & H1 & H2 & H3).
    exists pre, ch, done, rest. rewrite seq_run_appends in H3. auto.
  - cbn zeta. rewrite Hsh, seq_run_appends. reflexivity.
Qed.

(* the history reached by a concurrent burst is a reachable appender state:
   all sequential theorems (C05 stream invariant, C06, C17) apply to it *)
Lemma reach_run_ops : forall c s ops, reach c s -> reach c (fst (run_ops c ops s)).
Proof.
  intros c s ops; revert s; induction ops as [|o ops IH]; intros s HR; [exact HR|].
  rewrite run_ops_cons; cbn [fst]. apply IH, reach_step, HR.
Qed.

Lemma records_appends : forall rs, records (map Append rs) = map (@concat N) rs.
Proof. induction rs as [|r rs IH]; [reflexivity|]. cbn. f_equal. exact IH. Qed.

Lemma append_restarts_app : forall a b,
  append_restarts a -> append_restarts b -> append_restarts (a ++ b).
Proof. intros a b Ha Hb x Hin. apply in_app_or in Hin. destruct Hin; auto. Qed.

Lemma append_restarts_appends : forall rs, append_restarts (map Append rs).
Proof. intros rs a Hin. apply in_map_iff in Hin. destruct Hin as (x & Hx & _). discriminate. Qed.

(* C05 with concurrent writers: an append-mode history ops0, then a burst of
   threads under any schedule.  After the burst the directory satisfies the
   stream invariant for the stream
       pre-existing content, records of ops0, burst records in lock order,
   where the lock order interleaves the threads' programs. *)
Theorem concurrent_stream_invariant : forall c pre ops0 (progs : nat -> list (list bytes)) sch,
  append_restarts ops0 ->
  let s := fst (run c true pre ops0) in
  let st := run_sched sh (list bytes) (append_micro c) sch (init sh (list bytes) progs (s, [])) in
  all_done sh (list bytes) st ->
  let order := acq sh (list bytes) st in
  let final := fst (shared sh (list bytes) st) in
  let evs := concat (snd (run c true pre ops0)) ++ snd (shared sh (list bytes) st) in
  let stream := pre_recs pre ++ records ops0 ++ map (@concat N) (map snd order) in
  let r := roll_by c in
  is_merge (list bytes) progs order
  /\ exists (lost kept : list (list bytes)),
       concat lost ++ concat kept = stream
       /\ map (content (files final)) (read_order r) = map (@concat N) kept
       /\ (forall i, in_window r i = false -> lookup (files final) (Arch i) = None)
       /\ (rolls evs <= keep r -> lost = []).
Proof.
  intros c pre ops0 progs sch Happ s st Hd order final evs stream r.
  destruct (schedules_reduce_to_histories c s progs sch Hd) as (Hm & Hf & He).
  fold st order in Hm, Hf, He. split; [exact Hm|].
  set (ops1 := map Append (map snd order)) in *.
  assert (Hrun : run c true pre (ops0 ++ ops1)
                 = (fst (run_ops c ops1 s), snd (run c true pre ops0) ++ snd (run_ops c ops1 s))).
  { unfold run. change (Restart true :: ops0 ++ ops1) with ((Restart true :: ops0) ++ ops1).
    rewrite run_ops_app. reflexivity. }
  destruct (stream_suffix_invariant c pre (ops0 ++ ops1)) as (lost & kept & H1 & H2 & H3 & _ & H5).
  { apply append_restarts_app; [exact Happ|apply append_restarts_appends]. }
  rewrite Hrun in H2, H3, H5. cbn [fst snd] in H2, H3, H5.
  exists lost, kept. unfold final, evs, stream. rewrite Hf, He.
  repeat split.
  - rewrite H1. unfold records. rewrite flat_map_app. fold (records ops0) (records ops1).
    unfold ops1. rewrite records_appends. reflexivity.
  - exact H2.
  - exact H3.
  - intros Hle. apply H5. rewrite concat_app. exact Hle.
Qed.

(* ------------------------------------------------------------------ *)
(* C17: the first appends arrive from many threads                      *)

Lemma startup_fired_run : forall m rl rs s,
  let c := {| trig := TStartup m; roll_by := rl |} in
  Good s -> fired s = true ->
  let s' := fst (run_ops c (map Append rs) s) in
  rolls (concat (snd (run_ops c (map Append rs) s))) = 0
  /\ lookup (files s') Active
     = (match rs with [] => lookup (files s) Active
        | _ => Some (content (files s) Active ++ concat (map (@concat N) rs)) end)
  /\ (forall i, lookup (files s') (Arch i) = lookup (files s) (Arch i)).
Proof.
  intros m rl rs; induction rs as [|chunks rs IH]; intros s c HG HF s'.
  - repeat split; reflexivity.
  - split; [apply (startup_fired_no_roll m rl (chunks :: rs) s HG HF)|].
    unfold s'. cbn [map]. rewrite run_ops_cons. cbn [fst step].
    destruct (startup_append m rl s chunks HG) as (_ & HF' & HG' & Hact & Harch).
    fold c in HF', HG', Hact, Harch. rewrite HF in Hact, Harch. cbn [negb andb] in Hact, Harch.
    destruct (IH _ HG' HF') as (_ & IA & IR). fold c in IA, IR.
    split.
    + rewrite IA. destruct rs as [|r2 rs].
      * rewrite Hact. cbn [map concat]. rewrite app_nil_r. reflexivity.
      * unfold content at 1. rewrite Hact. cbn [map concat]. rewrite <- app_assoc. reflexivity.
    + intros i. rewrite IR. apply Harch.
Qed.

(* One lifetime, sequential: a freshly built appender (any mode, over any
   reachable directory) receives records rs.  Exactly the first one consults an
   unfired trigger: one roll iff there is a record and the file at build time
   holds >= min_size bytes; the file then restarts with the first record; all
   records are in the active file in order. *)
Theorem startup_lifetime : forall m rl s a rs,
  let c := {| trig := TStartup m; roll_by := rl |} in
  reach c s ->
  let s0 := fst (build a (files s) (consults s)) in
  let big := (m <=? disk_len (files s0))%N in
  let s' := fst (run_ops c (map Append rs) s0) in
  rs <> [] ->
  rolls (concat (snd (run_ops c (map Append rs) s0))) = (if big then 1 else 0)
  /\ lookup (files s') Active
     = Some ((if big then [] else content (files s0) Active) ++ concat (map (@concat N) rs))
  /\ (forall i, lookup (files s') (Arch i)
      = lookup (if big then do_roll rl (files s0) else files s0) (Arch i)).
Proof.
  intros m rl s a rs c HR s0 big s' Hne.
  destruct (build_spec a (files s) (consults s)) as (G0 & F0 & _ & _ & L0 & _). fold s0 in G0, F0, L0.
  destruct rs as [|chunks rs]; [congruence|].
  unfold s'. cbn [map]. rewrite run_ops_cons. cbn [fst snd step concat].
  destruct (startup_append m rl s0 chunks G0) as (Hev & HF' & HG' & Hact & Harch).
  fold c in Hev, HF', HG', Hact, Harch.
  rewrite F0 in Hev, Hact, Harch. cbn [negb andb] in Hev, Hact, Harch. fold big in Hev, Hact, Harch.
  destruct (startup_fired_run m rl rs _ HG' HF') as (R0 & IA & IR). fold c in R0, IA, IR.
  assert (Hgw : files (get_writer s0) = files s0).
  { unfold get_writer. destruct G0 as (_ & Hw). destruct (writer s0) eqn:E; [reflexivity|].
    exfalso. revert E. unfold s0, build, get_writer. cbn. discriminate. }
  split; [|split].
  - unfold rolls in *. rewrite filter_app, app_length, R0, Hev. destruct big; reflexivity.
  - rewrite IA. destruct rs as [|r2 rs].
    + rewrite Hact. cbn [map concat]. rewrite app_nil_r. reflexivity.
    + unfold content at 1. rewrite Hact. cbn [map concat]. rewrite <- app_assoc. reflexivity.
  - intros i. rewrite IR, Harch, Hgw. reflexivity.
Qed.

(* The same lifetime with the records arriving from any number of threads
   under any schedule: exactly one rotation iff the file at build time holds
   >= min_size bytes (none otherwise), it happens in the call that acquired the
   lock first, and every record of every thread is in the active file, each
   thread's records in its own order. *)
Theorem concurrent_first_appends : forall m rl s a (progs : nat -> list (list bytes)) sch,
  let c := {| trig := TStartup m; roll_by := rl |} in
  reach c s ->
  let s0 := fst (build a (files s) (consults s)) in
  let st := run_sched sh (list bytes) (append_micro c) sch (init sh (list bytes) progs (s0, [])) in
  all_done sh (list bytes) st ->
  let order := acq sh (list bytes) st in
  let final := fst (shared sh (list bytes) st) in
  let big := (m <=? disk_len (files s0))%N in
  is_merge (list bytes) progs order
  /\ rolls (snd (shared sh (list bytes) st)) <= 1
  /\ (order <> [] ->
      rolls (snd (shared sh (list bytes) st)) = (if big then 1 else 0)
      /\ (exists evs1 rest, snd (shared sh (list bytes) st) = evs1 ++ rest
            /\ evs1 = snd (append_op c (snd (hd (0, []) order)) s0)
            /\ rolls evs1 = (if big then 1 else 0) /\ rolls rest = 0)
      /\ lookup (files final) Active
         = Some ((if big then [] else content (files s0) Active)
                 ++ concat (map (@concat N) (map snd order)))
      /\ (forall i, lookup (files final) (Arch i)
          = lookup (if big then do_roll rl (files s0) else files s0) (Arch i))).
Proof.
  intros m rl s a progs sch c HR s0 st Hd order final big.
  destruct (schedules_reduce_to_histories c s0 progs sch Hd) as (Hm & Hf & He).
  fold st order in Hm, Hf, He.
  split; [exact Hm|]. split.
  - rewrite He. apply (at_most_one_roll m rl s a (map snd order) HR).
  - intros Hne.
    assert (Hne' : map snd order <> []) by (destruct order; [congruence|discriminate]).
    destruct (startup_lifetime m rl s a (map snd order) HR Hne') as (H1 & H2 & H3).
    fold c s0 big in H1, H2, H3. unfold final. rewrite He, Hf.
    split; [exact H1|]. split; [|split; assumption].
    destruct order as [|[t0 ch0] order']; [congruence|].
    cbn [map snd hd]. rewrite run_ops_cons. cbn [snd concat step].
    exists (snd (append_op c ch0 s0)), (concat (snd (run_ops c (map Append (map snd order')) (fst (append_op c ch0 s0))))).
    split; [reflexivity|]. split; [reflexivity|].
    destruct (build_spec a (files s) (consults s)) as (G0 & F0 & _). fold s0 in G0, F0.
    destruct (startup_append m rl s0 ch0 G0) as (Hev & HF' & HG' & _).
    fold c in Hev, HF', HG'.
    split.
    + rewrite Hev, F0. cbn [negb andb]. fold big. destruct big; reflexivity.
    + apply (startup_fired_no_roll m rl (map snd order') _ HG' HF').
Qed.
